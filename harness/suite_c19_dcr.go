package main

// C19, suite c19dcr: the run-time gate of dynamic client registration (internal/dcr/validation.go)
// against the method / algorithm lists the discovery document publishes. suite c19lists probes the
// lists with STATIC clients only; here the clients REGISTER: for configurations in which every list
// differs from every other one (each list has a value no other list has; which value is the private one of
// which list rotates through a deterministic matrix, plus features switched off one at a time, plus
// seed-dependent random configurations), all built through the real option API with WithDCR, the
// served discovery document is fetched and REAL registrations are POSTed to the registration
// endpoint: a minimal valid metadata document + the side conditions of one member (the JWT-based
// method next to a signing algorithm, the key algorithm next to a content algorithm, the CIBA grant
// next to a delivery mode ...) + ONE varied member, asking for EACH value of a universe. The
// registration must be accepted (201) iff the value is advertised for THAT member in the document
// actually served, and refused with invalid_client_metadata otherwise. The clients registered with a
// signing / encryption algorithm then obtain the artifact (ID token, userinfo response, JWT-secured
// authorization response), which must use the registered algorithm.
// The case files evaluate Model/DcrGate.v dcr_validate on the same configuration (Config2.build2 of
// the option list) and the same registrations (corr), and the property on the observations alone
// (Corr/C19Dcr.v mon_c19d); the same rule is evaluated here to NAME the member, the value and the
// configuration in the finding (signatures c19dcr:<metadata member>:accepted-not-advertised /
// advertised-refused / artifact-uses-other-alg / artifact-alg-not-advertised).

import (
	"bytes"
	"crypto/ecdsa"
	"crypto/elliptic"
	"crypto/rand"
	"encoding/json"
	"fmt"
	"net/http"
	"net/http/httptest"
	"net/url"
	"os"
	"path/filepath"
	"runtime"
	"sort"
	"strings"
	"sync"

	"github.com/luikyv/go-oidc/pkg/goidc"
	"github.com/luikyv/go-oidc/pkg/provider"
)

// ---- universes: the first value is the one every list shares, the others are handed out as the
// "private" value of one list each ----
var c19dSigU = []string{"RS256", "PS256", "ES256", "ES384", "PS384", "ES512", "RS384"}
var c19dKeyU = []string{"RSA-OAEP", "RSA-OAEP-256", "RSA1_5", "ECDH-ES", "ECDH-ES+A128KW"}
var c19dCencU = []string{"A128CBC-HS256", "A128GCM", "A192GCM", "A256GCM", "A256CBC-HS512"}
var c19dMethU = []string{"none", "client_secret_basic", "client_secret_post", "private_key_jwt", "client_secret_jwt", "tls_client_auth", "self_signed_tls_client_auth"}
var c19dAuthAlgU = []string{"RS256", "PS256", "ES256", "ES384", "PS384", "ES512", "RS384", "HS256", "HS384"}

const c19dCibaGrant = "urn:openid:params:grant-type:ciba"

var c19dSrvES512 *ecdsa.PrivateKey

// ---- the metadata members validation.go gates against a published list ----
type c19dMember struct {
	Coq  string // constructor of DcrGate.dmember / dlist
	JSON string // member of the registration document
	Pub  string // member of the discovery document that publishes the values
	Skip string // NOT FLAGGED when this document member is absent (validator skipped: feature disabled)
	Art  string // the artifact a client registered with it obtains
	Add  bool   // list-valued: a probe adds one value
}

var c19dMembers = map[string]c19dMember{}
var c19dMemberOrder []string

func c19dDef(m c19dMember) {
	c19dMembers[m.Coq] = m
	c19dMemberOrder = append(c19dMemberOrder, m.Coq)
}

func init() {
	for _, e := range [][3]string{{"AToken", "token"}, {"AIntrospect", "introspection"}, {"ARevoke", "revocation"}} {
		c19dDef(c19dMember{Coq: "DMethod " + e[0], JSON: e[1] + "_endpoint_auth_method", Pub: e[1] + "_endpoint_auth_methods_supported"})
		c19dDef(c19dMember{Coq: "DAuthAlg " + e[0], JSON: e[1] + "_endpoint_auth_signing_alg", Pub: e[1] + "_endpoint_auth_signing_alg_values_supported"})
	}
	c19dDef(c19dMember{Coq: "DIdtSig", JSON: "id_token_signed_response_alg", Pub: "id_token_signing_alg_values_supported", Art: "AIdToken"})
	c19dDef(c19dMember{Coq: "DIdtKey", JSON: "id_token_encrypted_response_alg", Pub: "id_token_encryption_alg_values_supported", Skip: "id_token_encryption_alg_values_supported", Art: "AIdToken"})
	c19dDef(c19dMember{Coq: "DIdtCenc", JSON: "id_token_encrypted_response_enc", Pub: "id_token_encryption_enc_values_supported", Skip: "id_token_encryption_enc_values_supported", Art: "AIdToken"})
	c19dDef(c19dMember{Coq: "DUiSig", JSON: "userinfo_signed_response_alg", Pub: "userinfo_signing_alg_values_supported", Art: "AUserInfo"})
	c19dDef(c19dMember{Coq: "DUiKey", JSON: "userinfo_encrypted_response_alg", Pub: "userinfo_encryption_alg_values_supported", Skip: "userinfo_encryption_alg_values_supported", Art: "AUserInfo"})
	c19dDef(c19dMember{Coq: "DUiCenc", JSON: "userinfo_encrypted_response_enc", Pub: "userinfo_encryption_enc_values_supported", Skip: "userinfo_encryption_enc_values_supported", Art: "AUserInfo"})
	c19dDef(c19dMember{Coq: "DJarSig", JSON: "request_object_signing_alg", Pub: "request_object_signing_alg_values_supported", Skip: "request_object_signing_alg_values_supported"})
	c19dDef(c19dMember{Coq: "DJarKey", JSON: "request_object_encryption_alg", Pub: "request_object_encryption_alg_values_supported", Skip: "request_object_encryption_alg_values_supported"})
	c19dDef(c19dMember{Coq: "DJarCenc", JSON: "request_object_encryption_enc", Pub: "request_object_encryption_enc_values_supported", Skip: "request_object_encryption_enc_values_supported"})
	c19dDef(c19dMember{Coq: "DJarmSig", JSON: "authorization_signed_response_alg", Pub: "authorization_signing_alg_values_supported", Skip: "authorization_signing_alg_values_supported", Art: "AJarm"})
	// sic: validateJARMEncAlgs is guarded by JARMIsEnabled, not by JARMEncIsEnabled
	c19dDef(c19dMember{Coq: "DJarmKey", JSON: "authorization_encrypted_response_alg", Pub: "authorization_encryption_alg_values_supported", Skip: "authorization_signing_alg_values_supported", Art: "AJarm"})
	c19dDef(c19dMember{Coq: "DJarmCenc", JSON: "authorization_encrypted_response_enc", Pub: "authorization_encryption_enc_values_supported", Skip: "authorization_signing_alg_values_supported", Art: "AJarm"})
	c19dDef(c19dMember{Coq: "DCibaJarSig", JSON: "backchannel_authentication_request_signing_alg", Pub: "backchannel_authentication_request_signing_alg_values_supported", Skip: "backchannel_authentication_request_signing_alg_values_supported"})
	c19dDef(c19dMember{Coq: "DSubjectType", JSON: "subject_type", Pub: "subject_types_supported"})
	c19dDef(c19dMember{Coq: "DCibaMode", JSON: "backchannel_token_delivery_mode", Pub: "backchannel_token_delivery_modes_supported"})
	c19dDef(c19dMember{Coq: "DGrant", JSON: "grant_types", Pub: "grant_types_supported", Add: true})
	c19dDef(c19dMember{Coq: "DRespType", JSON: "response_types", Pub: "response_types_supported", Add: true})
	c19dDef(c19dMember{Coq: "DScope", JSON: "scope", Pub: "scopes_supported", Add: true})
}

var c19dKeyOfCenc = map[string]string{"DIdtCenc": "DIdtKey", "DUiCenc": "DUiKey", "DJarCenc": "DJarKey", "DJarmCenc": "DJarmKey"}

type c19dSetting struct {
	M string // Coq constructor
	V string
}

func (s c19dSetting) coq() string {
	if c19dMembers[s.M].Add {
		return fmt.Sprintf("AddL %s %s", s.M, cS(s.V))
	}
	return fmt.Sprintf("SetM (%s) %s", s.M, cS(s.V))
}

type c19dProbe struct {
	Pre    []c19dSetting
	Var    c19dSetting
	Member string // the JSON name of the varied member
	Ans    int    // 1 = 201 Created, 0 = 400 invalid_client_metadata, 2 = anything else
	Status int
	Body   string
	client string
	reg    map[string]any
}

func (p c19dProbe) coq() string {
	return fmt.Sprintf("mkDP %s (%s) %d", cList(p.Pre, func(s c19dSetting) string { return "(" + s.coq() + ")" }), p.Var.coq(), p.Ans)
}

type c19dCase struct {
	L      c19lCase // configuration, document, artifact probes
	Base   map[string]any
	Probes []c19dProbe
	artOf  []int // artifact probe i belongs to registration probe artOf[i]
}

// ---- the registration documents ----
func c19dBaseDoc(tokenMethod string) map[string]any {
	d := map[string]any{
		"redirect_uris":              []string{c19lRedirect},
		"grant_types":                []string{"authorization_code", "implicit"},
		"response_types":             []string{"code", "id_token token"},
		"scope":                      "openid email",
		"jwks":                       json.RawMessage(c19lKeys().clJWKS),
		"tls_client_auth_subject_dn": "CN=c19dcr.example",
		"backchannel_client_notification_endpoint": "https://lx.example/notify",
	}
	if tokenMethod != "" {
		d["token_endpoint_auth_method"] = tokenMethod
	}
	return d
}

func c19dApply(doc map[string]any, s c19dSetting) {
	m := c19dMembers[s.M]
	if !m.Add {
		if s.V != "" {
			doc[m.JSON] = s.V
		}
		return
	}
	if m.JSON == "scope" {
		doc["scope"] = doc["scope"].(string) + " " + s.V
		return
	}
	doc[m.JSON] = append(append([]string(nil), doc[m.JSON].([]string)...), s.V)
}

func c19dDocOf(base map[string]any, p *c19dProbe) map[string]any {
	d := map[string]any{}
	for k, v := range base {
		d[k] = v
	}
	for _, s := range p.Pre {
		c19dApply(d, s)
	}
	c19dApply(d, p.Var)
	return d
}

func c19dStr(d map[string]any, k string) string {
	s, _ := d[k].(string)
	return s
}

// the base registration as the record of Model/DcrGate.v: the booleans / counts the validators
// derive from the URIs and the JWKS of c19dBaseDoc
func c19dRegCoq(base map[string]any) string {
	if base == nil {
		base = c19dBaseDoc("")
	}
	s := func(k string) string { return cS(c19dStr(base, k)) }
	return fmt.Sprintf("(mkReg %s %s %s %s %s %s %s %s %s true 1 true true true false 1 %s %s %s %s %s %s %s %s %s %s %s %s %s %s false %s true true false)",
		s("token_endpoint_auth_method"), s("token_endpoint_auth_signing_alg"), s("introspection_endpoint_auth_method"), s("introspection_endpoint_auth_signing_alg"),
		s("revocation_endpoint_auth_method"), s("revocation_endpoint_auth_signing_alg"),
		cList(strings.Fields(c19dStr(base, "scope")), cS), cList(base["grant_types"].([]string), cS), cList(base["response_types"].([]string), cS),
		s("id_token_signed_response_alg"), s("id_token_encrypted_response_alg"), s("id_token_encrypted_response_enc"),
		s("userinfo_signed_response_alg"), s("userinfo_encrypted_response_alg"), s("userinfo_encrypted_response_enc"),
		s("request_object_signing_alg"), s("request_object_encryption_alg"), s("request_object_encryption_enc"),
		s("authorization_signed_response_alg"), s("authorization_encrypted_response_alg"), s("authorization_encrypted_response_enc"),
		s("backchannel_authentication_request_signing_alg"), s("subject_type"), s("backchannel_token_delivery_mode"))
}

func (k c19dCase) coq() string {
	return fmt.Sprintf("(mkC19D\n %s\n %s\n %s)", k.L.coq(), c19dRegCoq(k.Base), cList(k.Probes, func(p c19dProbe) string { return "\n  " + p.coq() }))
}

// ---- serving ----
func (w *World) c19dPostJSON(path string, body []byte) (rec *httptest.ResponseRecorder, panicked any) {
	req := httptest.NewRequest("POST", path, bytes.NewReader(body))
	req.Header.Set("Content-Type", "application/json")
	rec = httptest.NewRecorder()
	defer func() {
		if r := recover(); r != nil {
			panicked = r
		}
	}()
	w.Stores.BeginRequest(nil, -1)
	w.provider().Handler().ServeHTTP(rec, req)
	return rec, nil
}

func (w *World) c19dRegister(path string, base map[string]any, p *c19dProbe) {
	p.reg = c19dDocOf(base, p)
	p.Member = c19dMembers[p.Var.M].JSON
	body, _ := json.Marshal(p.reg)
	rec, pan := w.c19dPostJSON(path, body)
	p.Ans = 2
	if pan != nil {
		p.Body = fmt.Sprint("panic: ", pan)
		return
	}
	p.Status, p.Body = rec.Code, truncate(rec.Body.String(), 160)
	var resp map[string]any
	_ = json.Unmarshal(rec.Body.Bytes(), &resp)
	switch {
	case rec.Code == http.StatusCreated:
		p.Ans = 1
		p.client, _ = resp["client_id"].(string)
		p.Body = ""
	case rec.Code == http.StatusBadRequest && resp["error"] == "invalid_client_metadata":
		p.Ans = 0
	}
}

func (w *World) c19dAuthorize(id, rt, mode string) url.Values {
	v := url.Values{}
	v.Set("client_id", id)
	v.Set("response_type", rt)
	v.Set("scope", "openid email")
	v.Set("redirect_uri", c19lRedirect)
	v.Set("nonce", "n-1")
	v.Set("state", "st-1")
	if mode != "" {
		v.Set("response_mode", mode)
	}
	w.Stores.BeginRequest(nil, -1)
	w.polAvail, w.pol, w.hg = true, Pol{Kind: "PolSuccess", Sub: "alice", Granted: "openid email"}, "HgOk"
	rec, pan := w.serve("GET", w.prefix()+"/authorize?"+v.Encode(), nil, nil)
	if pan != nil || rec == nil {
		return nil
	}
	loc := rec.Header().Get("Location")
	if k := strings.Index(loc, "#"); k >= 0 {
		q, _ := url.ParseQuery(loc[k+1:])
		return q
	}
	if u, err := url.Parse(loc); err == nil && loc != "" {
		return u.Query()
	}
	return nil
}

// the artifact `art` as the dynamically registered client gets it (the machinery of c19lArtProbes)
func (w *World) c19dArtifact(p *c19dProbe, art string) c19lArt {
	pre := map[string]string{"AIdToken": "id_token", "AUserInfo": "userinfo", "AJarm": "authorization"}[art]
	a := c19lArt{Art: art, Sig: c19dStr(p.reg, pre+"_signed_response_alg"), Key: c19dStr(p.reg, pre+"_encrypted_response_alg"), Cenc: c19dStr(p.reg, pre+"_encrypted_response_enc")}
	switch art {
	case "AIdToken", "AUserInfo":
		q := w.c19dAuthorize(p.client, "id_token token", "")
		if q == nil {
			return a
		}
		if art == "AIdToken" {
			if t := q.Get("id_token"); t != "" {
				c19lClassify(&a, t)
			}
			return a
		}
		at := q.Get("access_token")
		if at == "" {
			return a
		}
		w.Stores.BeginRequest(nil, -1)
		rec, pan := w.serve("GET", w.prefix()+"/userinfo", nil, http.Header{"Authorization": {"Bearer " + at}})
		if pan == nil && rec != nil && rec.Code == 200 {
			body := strings.TrimSpace(rec.Body.String())
			if strings.HasPrefix(body, "{") {
				a.Present, a.Raw = true, truncate(body, 120)
			} else {
				c19lClassify(&a, body)
			}
		}
	case "AJarm":
		if q := w.c19dAuthorize(p.client, "code", "jwt"); q != nil {
			if t := q.Get("response"); t != "" {
				c19lClassify(&a, t)
				// an ERROR delivered as a response JWT is a refusal, not the artifact (suite c19lists)
				if !strings.Contains(a.claims, `"code"`) {
					a = c19lArt{Art: art, Sig: a.Sig, Key: a.Key, Cenc: a.Cenc}
				}
			}
		}
	}
	return a
}

// ---- one configuration ----
var c19dCurrent *c19lCfg

func c19dExtraOpts(w *World) []provider.ProviderOption {
	var out []provider.ProviderOption
	if c19dCurrent == nil {
		return nil
	}
	for _, o := range c19dCurrent.Extra {
		out = append(out, o.provider())
	}
	return out
}

func c19dFirstIn(l []string, prefer ...string) string {
	for _, p := range prefer {
		if c19lIn(p, l) {
			return p
		}
	}
	return ""
}

// the probes of one configuration, derived from the document actually served
func c19dProbes(doc []docMember) (string, []c19dProbe) {
	set := func(name string) []string { l, _ := c19lDocSet(doc, name); return l }
	tokenMethods := set("token_endpoint_auth_methods_supported")
	// the base method: `none` (no bcrypt of a client secret), else a method without a secret
	m0 := c19dFirstIn(tokenMethods, "none", "private_key_jwt", "client_secret_jwt", "tls_client_auth", "self_signed_tls_client_auth", "client_secret_post", "client_secret_basic")
	var out []c19dProbe
	skipped := map[string]int{}
	add := func(pre []c19dSetting, m, v string) {
		// a member whose validator is skipped (feature disabled: the document member named by Skip is
		// absent) accepts whatever is sent, each at the price of a bcrypt hash: two values are enough
		if sk := c19dMembers[m].Skip; sk != "" && v != "" {
			if _, ok := c19lDocSet(doc, sk); !ok {
				if skipped[m]++; skipped[m] > 2 {
					return
				}
			}
		}
		out = append(out, c19dProbe{Pre: pre, Var: c19dSetting{m, v}})
	}
	add(nil, "DIdtSig", "") // the control: the base itself
	for _, m := range []string{"DIdtSig", "DUiSig", "DJarSig", "DJarmSig", "DCibaJarSig"} {
		for _, v := range c19dSigU {
			add(nil, m, v)
		}
		add(nil, m, "HS256")
	}
	uiSig := c19dFirstIn(set("userinfo_signing_alg_values_supported"), c19dSigU...)
	for _, m := range []string{"DIdtKey", "DUiKey", "DJarKey", "DJarmKey"} {
		var pre []c19dSetting
		if m == "DUiKey" && uiSig != "" {
			pre = []c19dSetting{{"DUiSig", uiSig}} // userinfo is encrypted for clients with a signed userinfo response only
		}
		for _, v := range c19dKeyU {
			add(pre, m, v)
		}
	}
	for _, m := range []string{"DIdtCenc", "DUiCenc", "DJarCenc", "DJarmCenc"} {
		km := c19dKeyOfCenc[m]
		key := c19dFirstIn(set(c19dMembers[km].Pub), c19dKeyU...)
		if key == "" {
			key = "RSA-OAEP"
		}
		pre := []c19dSetting{{km, key}}
		if m == "DUiCenc" && uiSig != "" {
			pre = append([]c19dSetting{{"DUiSig", uiSig}}, pre...)
		}
		for _, v := range c19dCencU {
			add(pre, m, v)
		}
	}
	for _, e := range c19lEndpoints {
		for _, v := range c19dMethU {
			add(nil, "DMethod "+e, v)
		}
		add(nil, "DMethod "+e, "client_secret_other")
	}
	for _, e := range c19lEndpoints {
		methods := set(c19dMembers["DMethod "+e].Pub)
		for _, meth := range []string{"private_key_jwt", "client_secret_jwt"} {
			pre := []c19dSetting{{"DMethod " + e, meth}}
			if !c19lIn(meth, methods) {
				add(pre, "DAuthAlg "+e, map[string]string{"private_key_jwt": "RS256", "client_secret_jwt": "HS256"}[meth])
				continue
			}
			for _, v := range c19dAuthAlgU {
				add(pre, "DAuthAlg "+e, v)
			}
		}
	}
	for _, v := range []string{"public", "pairwise", "sectoral"} {
		add(nil, "DSubjectType", v)
	}
	// a method other than `none` for the grants that exclude it
	m1 := m0
	var m1pre []c19dSetting
	if m0 == "none" || m0 == "" {
		m1 = c19dFirstIn(tokenMethods, "private_key_jwt", "client_secret_jwt", "tls_client_auth", "self_signed_tls_client_auth", "client_secret_post", "client_secret_basic")
		m1pre = []c19dSetting{{"DMethod AToken", m1}}
	}
	if m1 != "" {
		if c19lIn(c19dCibaGrant, set("grant_types_supported")) {
			pre := append(append([]c19dSetting(nil), m1pre...), c19dSetting{"DGrant", c19dCibaGrant})
			for _, v := range []string{"poll", "ping", "push", "pull"} {
				add(pre, "DCibaMode", v)
			}
		}
		for _, v := range []string{"client_credentials", "refresh_token", "urn:ietf:params:oauth:grant-type:jwt-bearer", "urn:ietf:params:oauth:grant-type:device_code"} {
			add(m1pre, "DGrant", v)
		}
	}
	for _, v := range []string{"id_token", "code id_token", "code token id_token", "device_code"} {
		add(nil, "DRespType", v)
	}
	for _, v := range []string{"profile", "pay", "pay:1", "nonexistent"} {
		add(nil, "DScope", v)
	}
	return m0, out
}

var c19dDecryptable = map[string]bool{"": true, "RSA-OAEP": true, "RSA-OAEP-256": true}

func c19dRun(cfg c19lCfg, w *World) c19dCase {
	k := c19dCase{L: c19lCase{Cfg: cfg, Built: true}}
	ks := c19lKeys()
	w.srvKeys = goidc.JSONWebKeySet{Keys: []goidc.JSONWebKey{
		{Key: serverKeyCache, KeyID: "srv-es256", Algorithm: "ES256", Use: "sig"},
		{Key: ks.srvES384, KeyID: "srv-es384", Algorithm: "ES384", Use: "sig"},
		{Key: c19dSrvES512, KeyID: "srv-es512", Algorithm: "ES512", Use: "sig"},
		{Key: ks.srvRSA, KeyID: "srv-ps256", Algorithm: "PS256", Use: "sig"},
		{Key: ks.srvRSA, KeyID: "srv-ps384", Algorithm: "PS384", Use: "sig"},
		{Key: ks.srvRSA, KeyID: "srv-rs384", Algorithm: "RS384", Use: "sig"},
		{Key: ks.srvRSA, KeyID: "srv-rs256", Algorithm: "RS256", Use: "sig"}}}
	doc, raw, err := fetchDoc(w)
	if err != nil {
		k.L.Raw = raw
		return k
	}
	k.L.Doc, k.L.Raw = doc, raw
	path := w.prefix() + "/register"
	for _, m := range doc {
		if m.Name == "registration_endpoint" {
			path = strings.TrimPrefix(m.V.S, issuer)
		}
	}
	m0, probes := c19dProbes(doc)
	k.Base = c19dBaseDoc(m0)
	for i := range probes {
		p := &probes[i]
		w.c19dRegister(path, k.Base, p)
		if p.Ans != 1 || p.client == "" {
			continue
		}
		if art := c19dMembers[p.Var.M].Art; art != "" && p.Var.V != "" {
			pre := map[string]string{"AIdToken": "id_token", "AUserInfo": "userinfo", "AJarm": "authorization"}[art]
			if c19dDecryptable[c19dStr(p.reg, pre+"_encrypted_response_alg")] {
				k.L.Art = append(k.L.Art, w.c19dArtifact(p, art))
				k.artOf = append(k.artOf, i)
			}
		}
	}
	k.Probes = probes
	return k
}

// ---- the property on the observations (the rules of Corr/C19Dcr.v clause_dcr), to NAME the
// member, the value and the configuration in the finding ----
func c19dJudge(ctx *RunCtx, k *c19dCase) {
	doc := k.L.Doc
	set := func(name string) []string { l, _ := c19lDocSet(doc, name); return l }
	has := func(name string) bool { _, ok := c19lDocSet(doc, name); return ok }
	report := func(sig, what string, p *c19dProbe, extra map[string]any) {
		rep := map[string]any{"base_options": k.L.Cfg.Base, "list_options": k.L.Cfg.Extra, "configuration": k.L.Cfg.Note,
			"document": json.RawMessage(orNull(k.L.Raw)), "registration": p.reg, "varied_member": p.Member, "value": p.Var.V,
			"answer": map[string]any{"status": p.Status, "body": p.Body, "client_id": p.client}}
		for a, b := range extra {
			rep[a] = b
		}
		// one finding per signature and run - the first one, which comes from the deterministic part of the
		// matrix whenever that part shows it - so that the replay file and the message name the same input
		for _, f := range ctx.Meta.Findings {
			if f.Signature == sig {
				ctx.Meta.Dist["further findings with signature "+sig]++
				return
			}
		}
		ctx.Meta.Findings = append(ctx.Meta.Findings, Finding{Property: "C19", Signature: sig, What: what + " under " + k.L.Cfg.Note, Replay: rep})
	}
	if len(k.Probes) == 0 {
		return
	}
	if ctl := &k.Probes[0]; ctl.Ans != 1 {
		report("c19dcr:registration:minimal-registration-refused",
			fmt.Sprintf("a minimal registration within the advertised capabilities is refused at the registration endpoint (%d %s)", ctl.Status, ctl.Body), ctl, nil)
		return
	}
	for i := range k.Probes[1:] {
		p := &k.Probes[i+1]
		m := c19dMembers[p.Var.M]
		ctx.Meta.Ops++
		if m.Skip != "" && !has(m.Skip) {
			// NOT FLAGGED, REPORTED (conf/C19.py note): the validator of this member is skipped when the feature
			// is disabled, the registration is accepted although the document publishes no list for it
			ctx.Meta.Dist[fmt.Sprintf("%s: %s absent from the document (validator skipped) -> %s", m.JSON, m.Skip, []string{"refused", "accepted", "other"}[p.Ans])]++
			continue
		}
		adv := c19lIn(p.Var.V, set(m.Pub))
		where := fmt.Sprintf("%s=%v", m.Pub, set(m.Pub))
		regd := c19dDocOf(k.Base, p)
		switch {
		case strings.HasPrefix(p.Var.M, "DAuthAlg "):
			e := strings.TrimPrefix(p.Var.M, "DAuthAlg ")
			meth := c19dStr(regd, c19dMembers["DMethod "+e].JSON)
			if meth != "private_key_jwt" && meth != "client_secret_jwt" {
				continue
			}
			methods := set(c19dMembers["DMethod "+e].Pub)
			adv = c19lIn(meth, methods) && c19lIn(p.Var.V, c19lFamily(meth, set(m.Pub)))
			where = fmt.Sprintf("%s=%v, %s=%v, registered with %s", c19dMembers["DMethod "+e].Pub, methods, m.Pub, set(m.Pub), meth)
		case p.Var.M == "DCibaMode":
			if !c19lIn(c19dCibaGrant, regd["grant_types"].([]string)) {
				continue
			}
		case c19dKeyOfCenc[p.Var.M] != "":
			km := c19dMembers[c19dKeyOfCenc[p.Var.M]]
			if !c19lIn(c19dStr(regd, km.JSON), set(km.Pub)) {
				continue
			}
		}
		ctx.Meta.Dist[fmt.Sprintf("%s: advertised=%v -> %s", m.JSON, adv, []string{"refused", "accepted", "other"}[p.Ans])]++
		switch {
		case p.Ans == 2:
			report("c19dcr:"+m.JSON+":unexpected-answer", fmt.Sprintf("%s: a registration with %s=%q is answered neither 201 nor invalid_client_metadata (%d %s)", where, m.JSON, p.Var.V, p.Status, p.Body), p, nil)
		case p.Ans == 1 && !adv:
			report("c19dcr:"+m.JSON+":accepted-not-advertised", fmt.Sprintf("%s: a registration with %s=%q, which is NOT advertised for that member, is accepted (client %s)", where, m.JSON, p.Var.V, p.client), p, nil)
		case p.Ans == 0 && adv:
			report("c19dcr:"+m.JSON+":advertised-refused", fmt.Sprintf("%s: an otherwise valid registration with the advertised %s=%q is refused (%d %s)", where, m.JSON, p.Var.V, p.Status, p.Body), p, nil)
		}
	}
	// the artifacts of the registered clients
	for i, a := range k.L.Art {
		p := &k.Probes[k.artOf[i]]
		m := c19dMembers[p.Var.M]
		art := map[string]string{"AIdToken": "ID token", "AUserInfo": "userinfo response", "AJarm": "JWT-secured authorization response"}[a.Art]
		ctx.Meta.Ops++
		if !a.Present {
			continue
		}
		advSig, hasSig := c19lDocSet(doc, c19lSigName[a.Art])
		isSig := strings.HasSuffix(m.JSON, "_signed_response_alg")
		if isSig && a.GotSig != p.Var.V {
			report("c19dcr:"+m.JSON+":artifact-uses-other-alg", fmt.Sprintf("the client registered %s=%q (accepted) and got a %s signed with %q", m.JSON, p.Var.V, art, a.GotSig), p, map[string]any{"artifact": a})
		}
		if a.GotSig != "" && hasSig && !c19lIn(a.GotSig, advSig) {
			report("c19dcr:"+c19dMembers[map[string]string{"AIdToken": "DIdtSig", "AUserInfo": "DUiSig", "AJarm": "DJarmSig"}[a.Art]].JSON+":artifact-alg-not-advertised",
				fmt.Sprintf("%s=%v: the dynamically registered client %s got a %s signed with %q", c19lSigName[a.Art], advSig, p.client, art, a.GotSig), p, map[string]any{"artifact": a})
		}
		if a.Enc && a.Key != "" && (a.GotKey != a.Key || (a.Cenc != "" && a.GotCenc != a.Cenc)) {
			report("c19dcr:"+m.JSON+":artifact-uses-other-alg", fmt.Sprintf("the client registered encryption (%q, %q) and got a %s encrypted with (%q, %q)", a.Key, a.Cenc, art, a.GotKey, a.GotCenc), p, map[string]any{"artifact": a})
		}
	}
}

// ---- the configurations ----
type c19dFeature struct {
	name string // what dropping it switches off
	base *Opt
	opt  *c19lOpt
}

func c19dRot(l []string, i int) string { return l[1+((i%(len(l)-1))+(len(l)-1))%(len(l)-1)] }

// every list = the shared value + ONE private value; k rotates which private value goes to which
// list (and whether it is the first - default - argument of the option)
func c19dFull(k int) []c19dFeature {
	two := func(name string, u []string, i int) *c19lOpt {
		if k%2 == 1 {
			return &c19lOpt{Name: name, D: c19dRot(u, i+k), L: []string{u[0]}}
		}
		return &c19lOpt{Name: name, D: u[0], L: []string{c19dRot(u, i+k)}}
	}
	meth := func(i int) string { return c19dRot(c19dMethU, i+k) }
	return []c19dFeature{
		{name: "DCR", base: &Opt{Name: "WithDCR"}},
		{name: "CIBA", base: &Opt{Name: "WithCIBAGrant"}},
		{name: "ID token algs", opt: two("WithIDTokenSignatureAlgs", c19dSigU, 0)},
		{name: "userinfo algs", opt: two("WithUserInfoSignatureAlgs", c19dSigU, 1)},
		{name: "JAR", opt: two("WithJAR", c19dSigU, 2)},
		{name: "JARM", opt: two("WithJARM", c19dSigU, 3)},
		{name: "CIBA JAR", opt: two("WithCIBAJAR", c19dSigU, 4)},
		{name: "private_key_jwt algs", opt: two("WithPrivateKeyJWTSignatureAlgs", c19dSigU, 5)},
		{name: "ID token encryption", opt: two("WithIDTokenEncryption", c19dKeyU, 0)},
		{name: "ID token content algs", opt: two("WithIDTokenContentEncryptionAlgs", c19dCencU, 0)},
		{name: "userinfo encryption", opt: two("WithUserInfoEncryption", c19dKeyU, 1)},
		{name: "userinfo content algs", opt: two("WithUserInfoContentEncryptionAlgs", c19dCencU, 1)},
		{name: "JAR encryption", opt: two("WithJAREncryption", c19dKeyU, 2)},
		{name: "JAR content algs", opt: two("WithJARContentEncryptionAlgs", c19dCencU, 2)},
		{name: "JARM encryption", opt: two("WithJARMEncryption", c19dKeyU, 3)},
		{name: "JARM content algs", opt: two("WithJARMContentEncryptionAlgs", c19dCencU, 3)},
		{name: "token methods", opt: &c19lOpt{Name: "WithTokenAuthnMethods", D: "none", L: []string{meth(0), meth(1)}}},
		{name: "introspection", opt: &c19lOpt{Name: "WithTokenIntrospection", D: meth(2), L: []string{meth(3)}}},
		{name: "revocation", opt: &c19lOpt{Name: "WithTokenRevocation", D: meth(4), L: []string{meth(5)}}},
	}
}

func c19dCfgOf(note string, fs []c19dFeature, drop ...string) c19lCfg {
	cfg := c19lCfg{Base: []Opt{{Name: "WithScopes", Scopes: serverScopes}, {Name: "WithAuthorizationCodeGrant"}, {Name: "WithImplicitGrant"}, {Name: "WithClientCredentialsGrant"}}}
	var parts []string
	for _, f := range fs {
		if c19lIn(f.name, drop) {
			continue
		}
		if f.base != nil {
			cfg.Base = append(cfg.Base, *f.base)
			parts = append(parts, f.base.Name)
		} else {
			cfg.Extra = append(cfg.Extra, *f.opt)
			parts = append(parts, f.opt.String())
		}
	}
	cfg.Note = note + " [" + strings.Join(parts, "; ") + "]"
	return cfg
}

func c19dConfigs(ctx *RunCtx) []c19lCfg {
	var out []c19lCfg
	// (A) the rotation matrix, everything enabled - the same for every seed
	for k := 0; k < 6; k++ {
		out = append(out, c19dCfgOf(fmt.Sprintf("rotation %d, every feature on", k), c19dFull(k)))
	}
	// (B) one feature (or the option that only lists) dropped at a time - the same for every seed
	drops := [][]string{{"JAR"}, {"JAR encryption"}, {"JARM"}, {"JARM encryption"}, {"ID token encryption"}, {"userinfo encryption"},
		{"CIBA"}, {"CIBA JAR"}, {"introspection"}, {"revocation"}, {"userinfo algs"}, {"private_key_jwt algs"}, {"ID token algs"}, {"token methods"},
		{"ID token content algs", "userinfo content algs", "JAR content algs", "JARM content algs"},
		{"JAR", "JAR encryption", "JARM", "JARM encryption", "CIBA", "CIBA JAR"}}
	for i, d := range drops {
		out = append(out, c19dCfgOf(fmt.Sprintf("rotation %d without %s", i, strings.Join(d, ", ")), c19dFull(i), d...))
	}
	var all []string
	for _, f := range c19dFull(0)[1:] {
		all = append(all, f.name)
	}
	out = append(out, c19dCfgOf("WithDCR alone (the defaults of the provider and of the harness)", c19dFull(0), all...))
	// (C) seed-dependent: random non-empty sub-lists of the universes, features on with probability 3/4
	r := ctx.R
	n := ctx.N(6, 260)
	for i := 0; i < n; i++ {
		sub := func(name string, u []string) *c19lOpt {
			d := pick(r, u)
			var rest []string
			for _, x := range u {
				if r.Intn(3) == 0 {
					rest = append(rest, x)
				}
			}
			return &c19lOpt{Name: name, D: d, L: rest}
		}
		fs := []c19dFeature{{name: "DCR", base: &Opt{Name: "WithDCR"}}}
		if r.Intn(4) != 0 {
			fs = append(fs, c19dFeature{name: "CIBA", base: &Opt{Name: "WithCIBAGrant"}})
		}
		var rnd []c19dFeature
		for _, x := range []struct {
			name string
			u    []string
		}{
			{"WithIDTokenSignatureAlgs", c19dSigU}, {"WithUserInfoSignatureAlgs", c19dSigU}, {"WithJAR", c19dSigU}, {"WithJARM", c19dSigU},
			{"WithCIBAJAR", c19dSigU}, {"WithPrivateKeyJWTSignatureAlgs", c19dSigU},
			{"WithIDTokenEncryption", c19dKeyU}, {"WithIDTokenContentEncryptionAlgs", c19dCencU},
			{"WithUserInfoEncryption", c19dKeyU}, {"WithUserInfoContentEncryptionAlgs", c19dCencU},
			{"WithJAREncryption", c19dKeyU}, {"WithJARContentEncryptionAlgs", c19dCencU},
			{"WithJARMEncryption", c19dKeyU}, {"WithJARMContentEncryptionAlgs", c19dCencU},
			{"WithTokenAuthnMethods", c19dMethU}, {"WithTokenIntrospection", c19dMethU}, {"WithTokenRevocation", c19dMethU},
		} {
			if r.Intn(4) != 0 {
				rnd = append(rnd, c19dFeature{name: x.name, opt: sub(x.name, x.u)})
			}
		}
		r.Shuffle(len(rnd), func(a, b int) { rnd[a], rnd[b] = rnd[b], rnd[a] })
		out = append(out, c19dCfgOf(fmt.Sprintf("random %d", i), append(fs, rnd...)))
	}
	return out
}

const c19dHeader = `From Verif Require Import Base Scope Types Config Discovery Config2 Discovery2 DcrGate.
From Verif.Corr Require Import C19 C19Lists C19Dcr.
Local Open Scope N_scope.
`

func init() {
	register(&Suite{Name: "c19dcr", Run: func(ctx *RunCtx) {
		c19lKeys()
		if c19dSrvES512 == nil {
			c19dSrvES512, _ = ecdsa.GenerateKey(elliptic.P521(), rand.Reader)
		}
		cfgs := c19dConfigs(ctx)
		// the providers are built one after the other (the option hook is a package variable) ...
		extraProviderOpts = c19dExtraOpts
		worlds := make([]*World, len(cfgs))
		for i := range cfgs {
			c19dCurrent = &cfgs[i]
			w, err := NewWorld(WorldSpec{Profile: "openid", Opts: cfgs[i].Base, Flavour: "copy"})
			if err == nil {
				worlds[i] = w
			}
		}
		c19dCurrent, extraProviderOpts = nil, nil
		// ... and probed concurrently: every accepted registration costs the bcrypt hash of its
		// registration access token, and each World is driven by one goroutine only
		cases := make([]c19dCase, len(cfgs))
		var wg sync.WaitGroup
		sem := make(chan struct{}, max(2, min(12, runtime.NumCPU()-2)))
		for i := range cfgs {
			if worlds[i] == nil {
				cases[i] = c19dCase{L: c19lCase{Cfg: cfgs[i]}}
				continue
			}
			wg.Add(1)
			go func(i int) {
				defer wg.Done()
				sem <- struct{}{}
				defer func() { <-sem }()
				cases[i] = c19dRun(cfgs[i], worlds[i])
			}(i)
		}
		wg.Wait()
		for i := range cases {
			k := &cases[i]
			if !k.L.Built {
				ctx.Meta.Dist["configuration refused by provider.New"]++
				continue
			}
			if k.L.Doc == nil {
				ctx.Meta.Findings = append(ctx.Meta.Findings, Finding{Property: "C19", Signature: "discovery-document-unreadable",
					What: "GET /.well-known/openid-configuration did not return a JSON document under " + k.L.Cfg.Note, Replay: map[string]any{"base_options": k.L.Cfg.Base, "list_options": k.L.Cfg.Extra, "body": k.L.Raw}})
				continue
			}
			c19dJudge(ctx, k)
		}
		per := 12
		for f := 0; f*per < len(cases); f++ {
			hi := min((f+1)*per, len(cases))
			var b strings.Builder
			b.WriteString(c19dHeader)
			var names []string
			for i, cs := range cases[f*per : hi] {
				fmt.Fprintf(&b, "(*CASE %d*)\nDefinition c_%d : c19dcase :=\n%s.\n", f*per+i, f*per+i, cs.coq())
				names = append(names, fmt.Sprintf("c_%d", f*per+i))
			}
			b.WriteString("Definition cases : list c19dcase := [" + strings.Join(names, "; ") + "].\n")
			b.WriteString("Definition corr := Eval vm_compute in map check_c19d cases.\nPrint corr.\n")
			b.WriteString("Definition mon := Eval vm_compute in map mon_c19d cases.\nPrint mon.\n")
			name := fmt.Sprintf("cases_%03d.v", f)
			if err := os.WriteFile(filepath.Join(ctx.Out, name), []byte(b.String()), 0o644); err != nil {
				panic(err)
			}
			ctx.Meta.Files = append(ctx.Meta.Files, name)
		}
		ctx.Meta.Cases = len(cases)
		seen := map[string]bool{}
		var jc []map[string]any
		for i, c := range cases {
			var sb strings.Builder
			for _, m := range c.L.Doc {
				if m.V.Kind == "set" {
					l := append([]string(nil), m.V.L...)
					sort.Strings(l)
					sb.WriteString(m.Name + "=" + strings.Join(l, ",") + ";")
				}
			}
			okN, noN := 0, 0
			for _, p := range c.Probes {
				sb.WriteString(fmt.Sprint(p.Ans))
				if p.Ans == 1 {
					okN++
				} else {
					noN++
				}
			}
			for _, a := range c.L.Art {
				sb.WriteString(a.GotKey + a.GotCenc + a.GotSig + ";")
			}
			if okN > 1 && noN > 0 {
				seen[sb.String()] = true
			}
			base := map[string]any{}
			for k, v := range c.Base {
				if k != "jwks" {
					base[k] = v
				}
			}
			jc = append(jc, map[string]any{"Index": i, "Note": c.L.Cfg.Note,
				"Spec": map[string]any{"Profile": "openid", "Opts": c.L.Cfg.Base, "ListOpts": c.L.Cfg.Extra},
				"Ops":  "registration probes 1.. = base_registration + Pre + Var (see Obs), artifact probes 501..",
				"Obs": map[string]any{"built": c.L.Built, "document": json.RawMessage(orNull(c.L.Raw)), "base_registration (plus jwks = the client's public keys)": base,
					"registration_probes": c.Probes, "artifact_probes": c.L.Art}})
			if i == 0 || i == 7 {
				var some []c19dProbe
				for j, p := range c.Probes {
					if j%9 == 0 {
						some = append(some, p)
					}
				}
				ctx.Meta.Samples = append(ctx.Meta.Samples, map[string]any{"note": c.L.Cfg.Note, "options": c.L.Cfg.optsCoq(), "document": json.RawMessage(orNull(c.L.Raw)),
					"base_registration": base, "registration_probes (every 9th)": some, "artifact_probes": len(c.L.Art)})
			}
			ctx.Meta.CaseNotes = append(ctx.Meta.CaseNotes, c.L.Cfg.Note)
		}
		ctx.Meta.Distinct = len(seen)
		ctx.Meta.Rule = "option lists with WithDCR in which every method / algorithm list has a value no other list has (6 rotations of the private values x every feature on; 16 variants with one feature or list option dropped; WithDCR alone; random sub-lists of the universes) - the same matrix for every seed but for the random part; per configuration ~130-150 real registrations (a minimal valid document + the side conditions of a member + each value of the universe in ONE member: 3 auth methods, 3 auth signing algorithms x JWT-based method, 5 signing, 4 key-encryption, 4 content-encryption members, subject_type, backchannel_token_delivery_mode, grant_types, response_types, scope) and the artifacts of the accepted clients; distinct by (list members of the document, answers, artifacts), non-trivial = accepted and refused registrations"
		jb, _ := json.Marshal(jc)
		_ = os.WriteFile(filepath.Join(ctx.Out, "cases.json"), jb, 0o644)
	}})
}
