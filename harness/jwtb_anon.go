package main

// The anonymous client of the jwt-bearer grant (internal/token/jwt_bearer.go, makeAnonymousClient) is
// built ONCE PER PROCESS, behind a package-level sync.Once, from the scopes of whichever provider
// serves the first anonymous request; every other provider of the process then shares it.  A deployment
// runs one provider per process, and that is what the model describes (Token.anonymous_client: the ids
// of THIS server's scopes).  The harness runs many worlds in one process, so it puts the package back
// into its start-of-process state whenever a world with the jwt-bearer grant is created.  Without
// this, the anonymous client of a world would carry the scopes of an earlier world (a request for a
// scope the earlier world lacked is then refused with invalid_scope): see jwtb_anon_test.go, which shows
// exactly that on the real code.

import (
	"sync"
	_ "unsafe" // go:linkname

	_ "github.com/luikyv/go-oidc/internal/token"
	"github.com/luikyv/go-oidc/pkg/goidc"
)

//go:linkname jwtbTokenOnce github.com/luikyv/go-oidc/internal/token.once
var jwtbTokenOnce sync.Once

//go:linkname jwtbTokenAnonymousClient github.com/luikyv/go-oidc/internal/token.anonymousClient
var jwtbTokenAnonymousClient *goidc.Client

// suites that run worlds on several goroutines hold this while a world with the jwt-bearer grant lives
var jwtbWorldMu sync.Mutex

// jwtbResetAnonymousClient: as at process start (no request has been served yet).
func jwtbResetAnonymousClient() {
	jwtbTokenOnce = sync.Once{}
	jwtbTokenAnonymousClient = nil
}

func jwtbSpecHasGrant(spec WorldSpec) bool {
	for _, o := range spec.Opts {
		if o.Name == "WithJWTBearerGrant" {
			return true
		}
	}
	return false
}
