package main

// Suite c18, fourth part - what a JSON copy of a CLIENT and of a GRANT must still carry.
//
// (1) Every client authentication method, for clients that live in the client manager because they
//     were registered through /register (so that the copy flavour really keeps their json.Marshal
//     document - harness/stores.go jClients - and hands out json.Unmarshal copies): each directed
//     history registers one client (client_secret_basic, client_secret_post, client_secret_jwt,
//     private_key_jwt with inline jwks and with jwks_uri, tls_client_auth, self_signed_tls_client_auth,
//     none, and a client with three different methods for token / introspection / revocation), and the
//     client then authenticates - with the right and with a wrong credential - at /token, /introspect,
//     /par, /revoke, runs a code flow and a refresh, reads and re-registers itself (PUT: new secret).
//     Whatever the authentication depends on (the clear secret of client_secret_jwt, the hash, the
//     keys, the certificate attributes, the per-endpoint methods) must survive the JSON round trip.
// (2) Re-binding of a grant at refresh (internal/token/refresh_token.go updatePoPForRefreshedToken):
//     a confidential client refreshes with a proof for ANOTHER DPoP key / with another certificate;
//     introspection cnf, userinfo and TokenInfoFromRequest with the old and the new key, and the cnf
//     of the next token all depend on what was SAVED.  DPoP, mTLS and both at once, JWT and opaque
//     access tokens, rotation on/off, static and stored clients; a public client as the control.
//     These histories use the model's op type only and are cases for the model as well.
// (3) Fields a JSON document cannot tell apart: `authorization_data_types: []` (registered as an
//     empty list) against an absent member - internal/authorize isAuthDetailTypeAllowed asks `== nil`.

import (
	"crypto/x509"
	"encoding/base64"
	"encoding/json"
	"errors"
	"fmt"
	"math/rand"
	"net/http"
	"net/url"
	"os"
	"time"

	"github.com/go-jose/go-jose/v4"
	"github.com/go-jose/go-jose/v4/jwt"
	"github.com/luikyv/go-oidc/pkg/goidc"
	"github.com/luikyv/go-oidc/pkg/provider"
)

// the world accepts every client authentication method at every authenticated endpoint, has mutual
// TLS and rich authorization requests (an entry of the history's ExtraTargets, like c18FlagClaims)
const c18FlagAuthn = "c18:every-client-authn-method"

const (
	// Client (>= 100), Scope: the variant (c18AuthnVariants), D: bit 0 = `authorization_data_types: []`,
	// bit 1 = `authorization_data_types: ["payment"]`, bit 2 = PUT (update the registration) instead of POST
	c18OpDcrRegister = "C18DcrRegister"
	// Client (a registered one), Params, PolicyAvail, Pol, Scope: type of the one authorization detail sent ("" none)
	c18OpDcrAuthorize = "C18DcrAuthorize"
)

var c18AuthnVariants = []string{"client_secret_basic", "client_secret_post", "client_secret_jwt", "private_key_jwt", "private_key_jwt+jwks_uri",
	"tls_client_auth", "self_signed_tls_client_auth", "none", "mixed"}

// the method a variant uses at an endpoint ("token", "introspect", "revoke")
func c18AuthnMethod(variant, endpoint string) string {
	switch variant {
	case "private_key_jwt+jwks_uri":
		return "private_key_jwt"
	case "mixed":
		return map[string]string{"token": "client_secret_basic", "introspect": "client_secret_jwt", "revoke": "private_key_jwt"}[endpoint]
	}
	return variant
}

func c18EnableAuthn(w *World) {
	w.c18r().AllAuthn = true
	p, err := w.newProvider()
	if err != nil {
		panic(err)
	}
	w.prov = p
}

func c18AuthnOpts(w *World) []provider.ProviderOption {
	if w.c18 == nil || !w.c18.AllAuthn {
		return nil
	}
	ms := []goidc.ClientAuthnType{goidc.ClientAuthnSecretBasic, goidc.ClientAuthnSecretJWT, goidc.ClientAuthnPrivateKeyJWT,
		goidc.ClientAuthnTLS, goidc.ClientAuthnSelfSignedTLS, goidc.ClientAuthnNone}
	opts := []provider.ProviderOption{
		provider.WithTokenAuthnMethods(goidc.ClientAuthnSecretPost, ms...),
		provider.WithPrivateKeyJWTSignatureAlgs(goidc.ES256),
		provider.WithMTLS("https://mtls.as.example", func(*http.Request) (*x509.Certificate, error) {
			if w.curCert == nil {
				return nil, errors.New("no client certificate")
			}
			return w.curCert, nil
		}),
		provider.WithAuthorizationDetails(func(granted, requested []goidc.AuthorizationDetail) error { return nil }, "payment", "account"),
	}
	if c18SpecHas(w.Spec, "WithTokenIntrospection") {
		opts = append(opts, provider.WithTokenIntrospection(func(*goidc.Client) bool { return w.allowed }, goidc.ClientAuthnSecretPost, ms...))
	}
	if c18SpecHas(w.Spec, "WithTokenRevocation") {
		opts = append(opts, provider.WithTokenRevocation(func(*goidc.Client) bool { return w.allowed }, goidc.ClientAuthnSecretPost, ms...))
	}
	return opts
}

// ---- registration ----
func c18SelfSignedJWKS() json.RawMessage {
	c := certCache[0]
	b, err := json.Marshal(jose.JSONWebKeySet{Keys: []jose.JSONWebKey{{Key: c.PublicKey, KeyID: "tls-cert-1", Use: "sig", Certificates: []*x509.Certificate{c}}}})
	if err != nil {
		panic(err)
	}
	return b
}

func c18AuthnMeta(n int, variant string, flags int) string {
	m := map[string]any{
		"redirect_uris": []string{c18RedirectOf(n)}, "grant_types": []string{"client_credentials", "authorization_code", "refresh_token"},
		"response_types": []string{"code"}, "scope": "openid email", "token_endpoint_auth_method": c18AuthnMethod(variant, "token"),
	}
	switch variant {
	case "private_key_jwt":
		m["jwks"] = json.RawMessage(c18InlineJWKS(n))
	case "private_key_jwt+jwks_uri":
		m["jwks_uri"] = c18JwksURI(n)
	case "tls_client_auth":
		m["tls_client_auth_san_dns"] = "client1.example"
	case "self_signed_tls_client_auth":
		m["jwks"] = c18SelfSignedJWKS()
	case "none":
		m["grant_types"] = []string{"authorization_code", "refresh_token"}
	case "mixed":
		m["introspection_endpoint_auth_method"] = c18AuthnMethod(variant, "introspect")
		m["revocation_endpoint_auth_method"] = c18AuthnMethod(variant, "revoke")
		m["jwks"] = json.RawMessage(c18InlineJWKS(n))
	}
	if flags&1 != 0 {
		m["authorization_data_types"] = []string{}
	}
	if flags&2 != 0 {
		m["authorization_data_types"] = []string{"payment"}
	}
	b, _ := json.Marshal(m)
	return string(b)
}

// ---- the credential of a registered client ----
func (w *World) c18AuthnCred(c Cred, endpoint string, form url.Values, hdr http.Header) {
	reg := w.c18r().Dcr[c.ID]
	if reg == nil {
		form.Set("client_id", w.c18ClientID(c.ID))
		return
	}
	secret := reg.Secret
	if !c.OK {
		secret = "not-the-secret-of-this-client-0123456789"
	}
	if c.Old {
		secret = reg.OldSecret
	}
	for len(secret) < 32 { // (HS256 of go-jose wants 32 bytes; a padded secret is a wrong secret)
		secret += "-"
	}
	switch c18AuthnMethod(reg.Variant, endpoint) {
	case "client_secret_post":
		form.Set("client_id", reg.ID)
		form.Set("client_secret", secret)
	case "client_secret_basic":
		hdr.Set("Authorization", "Basic "+base64.StdEncoding.EncodeToString([]byte(reg.ID+":"+secret)))
	case "client_secret_jwt":
		sg, err := jose.NewSigner(jose.SigningKey{Algorithm: jose.HS256, Key: []byte(secret)}, (&jose.SignerOptions{}).WithType("JWT"))
		if err != nil {
			panic(err)
		}
		now := time.Now().Unix()
		s, err := jwt.Signed(sg).Claims(map[string]any{"iss": reg.ID, "sub": reg.ID, "aud": issuer, "iat": now, "exp": now + 120,
			"jti": fmt.Sprintf("assertion-%d-%d", w.step, time.Now().UnixNano())}).Serialize()
		if err != nil {
			panic(err)
		}
		form.Set("client_assertion_type", "urn:ietf:params:oauth:client-assertion-type:jwt-bearer")
		form.Set("client_assertion", s)
	case "private_key_jwt":
		now := time.Now().Unix()
		form.Set("client_id", reg.ID)
		form.Set("client_assertion_type", "urn:ietf:params:oauth:client-assertion-type:jwt-bearer")
		form.Set("client_assertion", w.c18Sign(Cred{ID: c.ID, OK: c.OK}, "JWT", map[string]any{"iss": reg.ID, "sub": reg.ID, "aud": issuer, "iat": now, "exp": now + 120,
			"jti": fmt.Sprintf("assertion-%d-%d", w.step, time.Now().UnixNano())}))
	case "tls_client_auth", "self_signed_tls_client_auth":
		form.Set("client_id", reg.ID)
		w.curCert = certCache[0]
		if !c.OK {
			w.curCert = certCache[1]
		}
	default: // none
		form.Set("client_id", reg.ID)
	}
}

// requests of a client registered by c18OpDcrRegister are rendered here (the generic rendering knows
// secrets in the form only): same parameters as World.ExecWith
func c18AuthnOwn(w *World, o Op) bool {
	if w.c18 == nil || !w.c18.AllAuthn || o.Cred.ID < 100 {
		return false
	}
	switch o.Kind {
	case "Token", "Introspect", "Revoke", "Par":
		return true
	}
	return false
}

func c18AuthnExec(w *World, o Op) Obs {
	w.Stores.BeginRequest(nil, -1)
	w.notifs, w.curCert = nil, nil
	pfx := w.prefix()
	v, hdr := url.Values{}, http.Header{}
	path, kind, endpoint := "/token", "token", "token"
	switch o.Kind {
	case "Par":
		path, kind = "/par", "par"
		o.Params.values(w, v)
	case "Token":
		v.Set("grant_type", o.Grant)
		if o.Scope != "" {
			v.Set("scope", o.Scope)
		}
		if o.Code != 0 {
			v.Set("code", w.concrete(o.Code))
		}
		if o.Redirect != "" {
			v.Set("redirect_uri", o.Redirect)
		}
		if o.Refresh != 0 {
			v.Set("refresh_token", w.concrete(o.Refresh))
		}
		w.hg, w.ba = o.HG, o.BA
	case "Introspect", "Revoke":
		if s := w.ptokString(o.Tok); s != "" {
			v.Set("token", s)
		}
		w.allowed = o.Allowed
		path, kind, endpoint = "/introspect", "intro", "introspect"
		if o.Kind == "Revoke" {
			path, kind, endpoint = "/revoke", "revoke", "revoke"
		}
	}
	w.applyBind(o.Bind, hdr, "POST", pfx+path)
	w.c18AuthnCred(o.Cred, endpoint, v, hdr)
	rec, pan := w.serve("POST", pfx+path, v, hdr)
	return w.absJSON(rec, pan, kind)
}

func c18AuthnExecPseudo(w *World, o Op) Obs {
	pfx := w.prefix()
	st := w.c18r()
	switch o.Kind {
	case c18OpDcrRegister:
		hdr := http.Header{"Content-Type": {"application/json"}}
		method, target := "POST", pfx+"/register"
		if o.D&4 != 0 {
			reg := st.Dcr[o.Client]
			if reg == nil {
				reg = &c18DcrReg{ID: w.c18ClientID(o.Client), Token: "no-registration-token"}
			}
			method, target = "PUT", pfx+"/register/"+url.PathEscape(reg.ID)
			hdr.Set("Authorization", "Bearer "+reg.Token)
		}
		rec, pan := w.c18Serve(method, target, c18AuthnMeta(o.Client, o.Scope, o.D), hdr)
		obs := w.c18DcrObs(rec, pan, o.Client, true)
		if obs.Kind == "Ok" {
			var m map[string]any
			_ = json.Unmarshal([]byte(obs.Raw), &m)
			reg := st.Dcr[o.Client]
			if reg != nil {
				reg.Variant = o.Scope
				if s, _ := m["client_secret"].(string); s != reg.Secret {
					reg.OldSecret, reg.Secret = reg.Secret, s
				}
			}
			_, hasSecret := m["client_secret"]
			adt, hasAdt := m["authorization_data_types"]
			obs.Scope += fmt.Sprintf(" method=%v secret_member=%v authorization_data_types=%v/%v", m["token_endpoint_auth_method"], hasSecret, hasAdt, adt)
		}
		return obs
	case c18OpDcrAuthorize:
		w.polAvail, w.pol = o.PolicyAvail, o.Pol
		v := url.Values{}
		v.Set("client_id", w.c18ClientID(o.Client))
		o.Params.values(w, v)
		if o.Scope != "" {
			v.Set("authorization_details", fmt.Sprintf(`[{"type":%q,"actions":["read"]}]`, o.Scope))
		}
		rec, pan := w.serve("GET", pfx+"/authorize?"+v.Encode(), nil, nil)
		return w.absAuthorize(rec, pan)
	}
	panic("c18: pseudo-operation " + o.Kind)
}

func c18AuthnDescribe(o Op) string {
	switch o.Kind {
	case c18OpDcrRegister:
		verb := "POST /register"
		if o.D&4 != 0 {
			verb = "PUT /register/{id}"
		}
		adt := ""
		if o.D&1 != 0 {
			adt = ", authorization_data_types: []"
		}
		if o.D&2 != 0 {
			adt = `, authorization_data_types: ["payment"]`
		}
		return fmt.Sprintf("%s: %s of client %d authenticating with %s%s", o.Kind, verb, o.Client, o.Scope, adt)
	case c18OpDcrAuthorize:
		return fmt.Sprintf("%s: /authorize of registered client %d, %s, authorization_details type %q, policy=%v %s", o.Kind, o.Client, o.Params.coq(), o.Scope, o.PolicyAvail, o.Pol.coq())
	}
	return ""
}

// ---- directed histories ----

// the finding of (3) is real on the current tree (see conf/C18.py); its history runs by default and its
// signature is listed in known_findings.json.  VERIF_C18_NO_AUTHDETAILS=1 leaves it out.
var c18AuthDetailsHistory = os.Getenv("VERIF_C18_NO_AUTHDETAILS") == ""

const c18SigEmptyAuthDetailTypes = "registered-client:authorization_data_types:empty-list-is-absent-after-json"

func c18AuthnCorpus(r *rand.Rand, thorough bool) []c18History {
	var out []c18History
	opts := []Opt{{Name: "WithScopes", Scopes: serverScopes}, {Name: "WithAuthorizationCodeGrant"}, {Name: "WithClientCredentialsGrant"},
		{Name: "WithRefreshTokenGrant", Z: 1000}, {Name: "WithTokenIntrospection"}, {Name: "WithTokenRevocation"}, {Name: "WithTokenLifetime", Z: 300},
		{Name: "WithPAR", Z: 60}, {Name: "WithDCR"}}
	pol := Pol{Kind: "PolSuccess", Sub: "alice", Granted: "openid email"}
	good, bad, old := Cred{ID: 101, OK: true}, Cred{ID: 101}, Cred{ID: 101, OK: true, Old: true}
	cc := func(c Cred) Op {
		return Op{Kind: "Token", Grant: "client_credentials", Cred: c, Scope: "openid", HG: "HgOk", BA: "BaApprove"}
	}
	intro := func(c Cred, h Handle) Op {
		return Op{Kind: "Introspect", Cred: c, Tok: PTok{Kind: "PExact", H: h}, Allowed: true}
	}
	p := Params{Redirect: c18RedirectOf(101), RespType: "code", Scopes: "openid email", State: "s1"}
	for _, rot := range []bool{false, true} {
		o2 := opts
		if rot {
			o2 = append(append([]Opt(nil), opts...), Opt{Name: "WithDCRTokenRotation"}, Opt{Name: "WithRefreshTokenRotation"})
		}
		spec := WorldSpec{Profile: "openid", Opts: o2, Dyn: baseClients(r)}
		for _, variant := range c18AuthnVariants {
			if rot && !thorough { // quick tier: every method once; the rotating variants of the world in the method-changes history
				break
			}
			ops := []Op{
				{Kind: c18OpDcrRegister, Client: 101, Scope: variant}, // 0
				cc(good), cc(bad), // 1 2
				intro(good, mint(1, KAtOpaque)), intro(bad, mint(1, KAtOpaque)), // 3 4
				{Kind: "Par", Cred: good, Params: p}, {Kind: "Par", Cred: bad, Params: p}, // 5 6
				{Kind: c18OpDcrAuthorize, Client: 101, Params: p, PolicyAvail: true, Pol: pol},                                                    // 7
				{Kind: "Token", Grant: "authorization_code", Cred: bad, Code: mint(7, KCode), Redirect: p.Redirect, HG: "HgOk", BA: "BaApprove"},  // 8
				{Kind: c18OpDcrAuthorize, Client: 101, Params: p, PolicyAvail: true, Pol: pol},                                                    // 9
				{Kind: "Token", Grant: "authorization_code", Cred: good, Code: mint(9, KCode), Redirect: p.Redirect, HG: "HgOk", BA: "BaApprove"}, // 10
				{Kind: "Token", Grant: "refresh_token", Cred: good, Refresh: mint(10, KRefresh), HG: "HgOk", BA: "BaApprove"},                     // 11
				{Kind: "UserInfo", Tok: PTok{Kind: "PExact", H: mint(11, KAtOpaque)}, HasHeader: true},                                            // 12
				{Kind: "Revoke", Cred: bad, Tok: PTok{Kind: "PExact", H: mint(11, KAtOpaque)}, Allowed: true},                                     // 13
				intro(good, mint(11, KAtOpaque)), // 14
				{Kind: "Revoke", Cred: good, Tok: PTok{Kind: "PExact", H: mint(11, KAtOpaque)}, Allowed: true}, // 15
				intro(good, mint(11, KAtOpaque)), // 16
				{Kind: c18OpDcrGet, Client: 101}, // 17
				cc(good),                         // 18
				{Kind: c18OpDcrRegister, Client: 101, Scope: variant, D: 4}, // 19: the registration is written again (a new secret where there is one)
				cc(good), cc(old), cc(bad), // 20 21 22
				intro(good, mint(20, KAtOpaque)), intro(old, mint(20, KAtOpaque)), // 23 24
				{Kind: "Revoke", Cred: old, Tok: PTok{Kind: "PExact", H: mint(20, KAtOpaque)}, Allowed: true},  // 25
				{Kind: "Revoke", Cred: good, Tok: PTok{Kind: "PExact", H: mint(20, KAtOpaque)}, Allowed: true}, // 26
				intro(good, mint(20, KAtOpaque)),                                          // 27
				{Kind: "Par", Cred: good, Params: p}, {Kind: "Par", Cred: old, Params: p}, // 28 29
				{Kind: c18OpDcrGet, Client: 101}, // 30
				{Kind: c18OpDcrAuthorize, Client: 101, Params: Params{RequestURI: mint(28, KParUri), RespType: p.RespType, Scopes: p.Scopes}, PolicyAvail: true, Pol: pol}, // 31
				{Kind: "Token", Grant: "authorization_code", Cred: good, Code: mint(31, KCode), Redirect: p.Redirect, HG: "HgOk", BA: "BaApprove"},                         // 32
				intro(good, mint(32, KAtOpaque)), intro(good, mint(32, KRefresh)), // 33 34
			}
			out = append(out, c18History{Note: fmt.Sprintf("corpus:authn:dcr/%s/rotation=%v", variant, rot), Spec: spec, Ops: ops, Extra: []string{c18FlagAuthn}})
		}
		// the registration changes its method: what the previous method needed must be gone, what the new one needs must be there
		var ops []Op
		seq := []string{"client_secret_post", "client_secret_jwt", "private_key_jwt", "client_secret_basic", "tls_client_auth", "client_secret_jwt", "none", "mixed"}
		for i, variant := range seq {
			d := 4
			if i == 0 {
				d = 0
			}
			k := len(ops)
			ops = append(ops, Op{Kind: c18OpDcrRegister, Client: 101, Scope: variant, D: d}, cc(good), cc(old), intro(good, mint(k+1, KAtOpaque)),
				Op{Kind: "Revoke", Cred: good, Tok: PTok{Kind: "PExact", H: mint(k+1, KAtOpaque)}, Allowed: true}, intro(good, mint(k+1, KAtOpaque)))
		}
		out = append(out, c18History{Note: fmt.Sprintf("corpus:authn:dcr/method-changes/rotation=%v", rot), Spec: spec, Ops: ops, Extra: []string{c18FlagAuthn}})
	}

	// (3) authorization_data_types: absent, empty, one type
	if c18AuthDetailsHistory {
		spec := WorldSpec{Profile: "openid", Opts: opts, Dyn: baseClients(r)}
		var ops []Op
		for i, d := range []int{0, 1, 2} {
			n := 101 + i
			pn := Params{Redirect: c18RedirectOf(n), RespType: "code", Scopes: "openid email", State: "s1"}
			ops = append(ops, Op{Kind: c18OpDcrRegister, Client: n, Scope: "client_secret_post", D: d},
				Op{Kind: c18OpDcrAuthorize, Client: n, Params: pn, PolicyAvail: true, Pol: pol},
				Op{Kind: c18OpDcrAuthorize, Client: n, Params: pn, PolicyAvail: true, Pol: pol, Scope: "payment"},
				Op{Kind: c18OpDcrAuthorize, Client: n, Params: pn, PolicyAvail: true, Pol: pol, Scope: "account"},
				Op{Kind: c18OpDcrAuthorize, Client: n, Params: pn, PolicyAvail: true, Pol: pol, Scope: "no-such-type"},
				Op{Kind: c18OpDcrGet, Client: n})
		}
		out = append(out, c18History{Note: "corpus:authn:dcr/authorization_data_types", Spec: spec, Ops: ops, Extra: []string{c18FlagAuthn}})
	}
	return out
}

// (2) re-binding at refresh
func c18PopCorpus(r *rand.Rand, thorough bool) []c18History {
	var out []c18History
	k1, k2 := unknownBase+7001, unknownBase+7002
	c1, c2 := unknownBase+8001, unknownBase+8002
	proof := func(key, ath Handle) *Proof {
		return &Proof{Parses: true, TypOK: true, Jwk: 2, JwkKey: key, Signer: key, HasIat: true, IatAge: 0, Jti: true, HtmOK: true, Htu: "HtuExact", Ath: ath}
	}
	pol := Pol{Kind: "PolSuccess", Sub: "alice", Granted: "openid email"}
	for _, mech := range []string{"dpop", "mtls", "dpop+mtls"} {
		for _, dynamic := range []bool{false, true} {
			for _, rotation := range []bool{false, true} {
				if !thorough && mech != "dpop" && !(dynamic && rotation) { // quick tier: the full matrix for DPoP, one world for the two others
					continue
				}
				opts := []Opt{{Name: "WithScopes", Scopes: serverScopes}, {Name: "WithAuthorizationCodeGrant"}, {Name: "WithClientCredentialsGrant"},
					{Name: "WithRefreshTokenGrant", Z: 1000}, {Name: "WithTokenIntrospection"}, {Name: "WithTokenRevocation"}, {Name: "WithTokenLifetime", Z: 300}}
				if mech != "mtls" {
					opts = append(opts, Opt{Name: "WithDPoP"})
				}
				if mech != "dpop" {
					opts = append(opts, Opt{Name: "WithMTLS"}, Opt{Name: "WithTLSCertTokenBinding"})
				}
				if rotation {
					opts = append(opts, Opt{Name: "WithRefreshTokenRotation"})
				}
				spec := WorldSpec{Profile: "openid", Opts: opts}
				if dynamic {
					spec.Dyn = baseClients(r)
				} else {
					spec.Static = baseClients(r)
				}
				// bind(which key, which certificate, access token for ath): 0 none, 1 the first, 2 the second
				bind := func(key, cert int, ath Handle) Bind {
					var b Bind
					if mech != "mtls" && key != 0 {
						b.Dpop = proof([]Handle{k1, k2}[key-1], ath)
					}
					if mech != "dpop" && cert != 0 {
						b.Cert = []Handle{c1, c2}[cert-1]
					}
					return b
				}
				for _, client := range []int{1, 2, 3} { // opaque tokens, JWT tokens, a public client (may not change the key)
					atKind := KAtOpaque
					if client == 2 {
						atKind = KAtJwt
					}
					cred := Cred{ID: client, OK: true}
					other := Cred{ID: 1, OK: true}
					redirect := fmt.Sprintf("https://c%d.example/cb", client)
					scopes := "openid email"
					if client == 3 {
						scopes = "openid profile"
					}
					p := Params{Redirect: redirect, RespType: "code", Scopes: scopes}
					pl := pol
					pl.Granted = scopes
					// the history is built online (aliasing storage, one instance): which refresh token is
					// current after a refresh depends on whether the refresh was accepted
					sp := spec
					sp.Flavour = "alias"
					gw, err := NewWorld(sp)
					if err != nil {
						panic(err)
					}
					var ops []Op
					add := func(o Op) (int, Obs) {
						gw.step = len(ops)
						ops = append(ops, o)
						return len(ops) - 1, c18ExecOp(gw, o)
					}
					rt, at := Handle(0), Handle(0)
					refresh := func(b Bind) {
						i, obs := add(Op{Kind: "Token", Grant: "refresh_token", Cred: cred, Refresh: rt, Bind: b, HG: "HgOk", BA: "BaApprove"})
						if obs.Kind == "Tokens" {
							at = mint(i, atKind)
							if obs.Rt != 0 {
								rt = obs.Rt
							}
						}
					}
					look := func() {
						add(Op{Kind: "Introspect", Cred: other, Tok: PTok{Kind: "PExact", H: at}, Allowed: true})
						add(Op{Kind: "Introspect", Cred: other, Tok: PTok{Kind: "PExact", H: rt}, Allowed: true})
						for _, kc := range [][2]int{{1, 1}, {2, 2}, {2, 1}, {0, 0}} {
							if kc == [2]int{2, 1} && mech != "dpop+mtls" {
								continue
							}
							add(Op{Kind: "UserInfo", Tok: PTok{Kind: "PExact", H: at}, HasHeader: true, Bind: bind(kc[0], kc[1], at)})
							add(Op{Kind: "TokenInfoReq", Tok: PTok{Kind: "PExact", H: at}, HasHeader: true, Bind: bind(kc[0], kc[1], at)})
						}
						add(Op{Kind: "TokenInfo", Tok: PTok{Kind: "PExact", H: at}})
					}
					add(Op{Kind: "Authorize", Client: client, Params: p, PolicyAvail: true, Pol: pl})
					i, obs := add(Op{Kind: "Token", Grant: "authorization_code", Cred: cred, Code: mint(0, KCode), Redirect: redirect, Bind: bind(1, 1, 0), HG: "HgOk", BA: "BaApprove"})
					rt, at = obs.Rt, mint(i, atKind)
					look()
					for _, kc := range [][2]int{{2, 1}, {2, 2}, {0, 0}, {1, 1}, {1, 2}, {2, 1}} {
						refresh(bind(kc[0], kc[1], 0))
						look()
					}
					add(Op{Kind: "Revoke", Cred: cred, Tok: PTok{Kind: "PExact", H: rt}, Allowed: true})
					add(Op{Kind: "Introspect", Cred: other, Tok: PTok{Kind: "PExact", H: at}, Allowed: true})
					out = append(out, c18History{Note: fmt.Sprintf("corpus:pop:rebind-at-refresh/%s/%s/rotation=%v/client=%d", mech,
						map[bool]string{false: "static-clients", true: "stored-clients"}[dynamic], rotation, client), Spec: spec, Ops: ops})
				}
			}
		}
	}
	return out
}

// A difference between the two storage flavours on an authorization request that carries authorization
// details, by a client registered with `authorization_data_types: []`: the one root cause "an empty
// list is written as an absent member (omitempty) and read back as nil, and isAuthDetailTypeAllowed
// asks for nil".  One narrow signature, so that it can be listed.
func c18EmptyAuthDetailTypes(ops []Op, d *c18Difference) bool {
	o := ops[d.Op]
	if o.Kind != c18OpDcrAuthorize || o.Scope == "" || d.B < 0 || c18Execs[d.A].Flavour == c18Execs[d.B].Flavour {
		return false
	}
	empty := false
	for _, p := range ops[:d.Op] {
		if p.Kind == c18OpDcrRegister && p.Client == o.Client {
			empty = p.D&3 == 1
		}
	}
	return empty
}
