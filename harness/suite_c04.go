package main

import (
	"encoding/json"
	"fmt"
	"os"
	"path/filepath"
	"strings"

	"github.com/luikyv/go-oidc/internal/clientutil"
	"github.com/luikyv/go-oidc/pkg/goidc"
)

// C04, function level: clientutil.AreScopesAllowed on generated triples with overlapping names.
// token.containsAllScopes is unexported; its behaviour is reproduced here from the exported
// strutil.SplitWithSpaces (as the Go code composes it) only to produce the observation and is
// exercised for real by the flow-level suite.
func init() {
	register(&Suite{Name: "c04fn", Run: func(ctx *RunCtx) {
		r := ctx.R
		atoms := []string{"a", "ab", "a:b", "A", "openid", "openid_admin", "email", "emailx", "pay", "pay:1", "pay:", "x", ""}
		n := ctx.N(3000, 40000)
		var entries []string
		seen := map[string]bool{}
		nontrivial := 0
		var jcases []map[string]any
		mkList := func(max int) string {
			k := r.Intn(max + 1)
			var parts []string
			for i := 0; i < k; i++ {
				parts = append(parts, pick(r, atoms))
			}
			s := strings.Join(parts, " ")
			switch r.Intn(12) {
			case 0:
				s = " " + s
			case 1:
				s = s + " "
			case 2:
				s = strings.Replace(s, " ", "  ", 1)
			}
			return s
		}
		for i := 0; i < n; i++ {
			clientScopes := mkList(4)
			var avail []Scope
			var gavail []goidc.Scope
			for j, k := 0, r.Intn(5); j < k; j++ {
				id := pick(r, atoms[:12])
				if r.Intn(4) == 0 {
					p := pick(r, []string{id + ":", id, "pay:"})
					avail = append(avail, Scope{ID: id, Prefix: p, Dyn: true})
					gavail = append(gavail, goidc.NewDynamicScope(id, func(s string) bool { return strings.HasPrefix(s, p) }))
				} else {
					avail = append(avail, Scope{ID: id})
					gavail = append(gavail, goidc.NewScope(id))
				}
			}
			req := mkList(3)
			granted := mkList(4)
			c := &goidc.Client{}
			c.ScopeIDs = clientScopes
			allowed := clientutil.AreScopesAllowed(c, gavail, req)
			contains := containsAll(granted, req)
			entries = append(entries, fmt.Sprintf("mkScopeCase %s %s %s %s %s %s", cS(clientScopes), cList(avail, Scope.coq), cS(req), cB(allowed), cS(granted), cB(contains)))
			key := fmt.Sprint(clientScopes, "|", avail, "|", req, "|", granted)
			if !seen[key] && req != "" {
				seen[key] = true
				nontrivial++
			}
			ctx.Meta.Dist[fmt.Sprintf("allowed=%v", allowed)]++
			ctx.Meta.Dist[fmt.Sprintf("contains=%v", contains)]++
			jcases = append(jcases, map[string]any{"Index": i, "Note": fmt.Sprintf("AreScopesAllowed(client=%q, requested=%q) = %v", clientScopes, req, allowed),
				"Spec": map[string]any{"client_scopes": clientScopes, "available": avail, "requested": req, "granted": granted}, "Obs": map[string]any{"allowed": allowed, "contains": contains}})
			if i < 3 {
				ctx.Meta.Samples = append(ctx.Meta.Samples, map[string]any{"client_scopes": clientScopes, "available": avail, "requested": req, "allowed": allowed})
			}
		}
		jb, _ := json.Marshal(jcases)
		_ = os.WriteFile(filepath.Join(ctx.Out, "cases.json"), jb, 0o644)
		const per = 2500 // one big list literal overflows coqc's stack
		for k := 0; k*per < len(entries); k++ {
			hi := (k + 1) * per
			if hi > len(entries) {
				hi = len(entries)
			}
			var b strings.Builder
			b.WriteString(caseHeader)
			b.WriteString("Definition fcases : list scopecase := [\n" + strings.Join(entries[k*per:hi], ";\n"))
			b.WriteString("].\nDefinition corr := Eval vm_compute in map check_scope_case fcases.\nPrint corr.\nDefinition mon := Eval vm_compute in map mon_scope_case fcases.\nPrint mon.\n")
			name := fmt.Sprintf("cases_%03d.v", k)
			_ = os.WriteFile(filepath.Join(ctx.Out, name), []byte(b.String()), 0o644)
			ctx.Meta.Files = append(ctx.Meta.Files, name)
		}
		ctx.Meta.Cases = n
		ctx.Meta.Distinct = nontrivial
		ctx.Meta.Rule = "random (client registration, server scopes incl. prefix scopes, requested string) triples over overlapping names, odd spacing; distinct triples with a non-empty request"
	}})
}

func containsAll(available, requested string) bool {
	av := splitWithSpaces(available)
	for _, e := range splitWithSpaces(requested) {
		found := false
		for _, a := range av {
			if a == e {
				found = true
			}
		}
		if !found {
			return false
		}
	}
	return true
}

func splitWithSpaces(s string) []string {
	if strings.ReplaceAll(strings.Trim(s, " "), " ", "") != "" {
		return strings.Split(s, " ")
	}
	return []string{}
}
