package main

// C19: for option subsets (every single feature option, pairs, random larger subsets, path prefix)
// build the REAL provider, fetch its discovery document, probe every endpoint path under every
// method, and run a fixed list of capability probes; the case file compares the document member
// by member with Discovery.document, the probes with Discovery.serve, the answers with the handler
// model, and evaluates the property (advertised <-> served / accepted) on the observations alone.

import (
	"encoding/json"
	"fmt"
	"net/url"
	"os"
	"path/filepath"
	"sort"
	"strings"
)

func c19FeatureOpts() []Opt {
	return []Opt{
		{Name: "WithAuthorizationCodeGrant"}, {Name: "WithImplicitGrant"}, {Name: "WithClientCredentialsGrant"},
		{Name: "WithRefreshTokenGrant", Z: 600}, {Name: "WithCIBAGrant"}, {Name: "WithJWTBearerGrant"},
		{Name: "WithPAR", Z: 60}, {Name: "WithPARRequired", Z: 60}, {Name: "WithJAR"}, {Name: "WithJARRequired"},
		{Name: "WithJARM"}, {Name: "WithPKCE", S: "S256", L: []string{"plain"}}, {Name: "WithPKCERequired", S: "plain"},
		{Name: "WithDPoP"}, {Name: "WithDPoPRequired"}, {Name: "WithMTLS"}, {Name: "WithTLSCertTokenBinding"},
		{Name: "WithTokenIntrospection"}, {Name: "WithTokenRevocation"}, {Name: "WithDCR"},
		{Name: "WithCIBAJARRequired"}, {Name: "WithPathPrefix", S: "/auth"},
		// the rest: flags without an endpoint or list of their own
		{Name: "WithScopes", Scopes: serverScopes}, {Name: "WithRefreshTokenRotation"}, {Name: "WithJWTBearerGrantClientAuthnRequired"},
		{Name: "WithCIBAUserCode"}, {Name: "WithCIBAJAR"}, {Name: "WithOpenIDScopeRequired"},
		{Name: "WithUnregisteredRedirectURIsForPAR"}, {Name: "WithJARByReference"}, {Name: "WithTLSCertTokenBindingRequired"},
		{Name: "WithTokenBindingRequired"}, {Name: "WithDCRTokenRotation"}, {Name: "WithResourceIndicatorsRequired", S: "https://rs.example"},
		{Name: "WithIssuerResponseParameter"},
	}
}

const nPairable = 22 // the first 22 options above are crossed pairwise

type dval struct {
	Kind string // str, bool, set, obj
	S    string
	B    bool
	L    []string
	O    [][2]string
}

func (d dval) coq() string {
	switch d.Kind {
	case "str":
		return "DStr " + cS(d.S)
	case "bool":
		return "DBool " + cB(d.B)
	case "set":
		return "DSet " + cList(d.L, cS)
	}
	return "DObj " + cList(d.O, func(p [2]string) string { return "(" + cS(p[0]) + ", " + cS(p[1]) + ")" })
}

type docMember struct {
	Name string
	V    dval
}

type routeProbe struct {
	Meth   string
	Path   string
	Kind   int
	Served bool
	Status int
}

func (r routeProbe) coq() string {
	m := map[string]string{"GET": "MGet", "POST": "MPost", "PUT": "MPut", "DELETE": "MDelete"}[r.Meth]
	return fmt.Sprintf("mkRProbe %s %s %d %s", m, cS(r.Path), r.Kind, cB(r.Served))
}

func fetchDoc(w *World) ([]docMember, string, error) {
	rec, pan := w.serve("GET", w.prefix()+"/.well-known/openid-configuration", nil, nil)
	if pan != nil {
		return nil, "", fmt.Errorf("panic: %v", pan)
	}
	raw := rec.Body.String()
	var m map[string]any
	if err := json.Unmarshal([]byte(raw), &m); err != nil {
		return nil, raw, err
	}
	var names []string
	for k := range m {
		names = append(names, k)
	}
	sort.Strings(names)
	var out []docMember
	for _, k := range names {
		switch v := m[k].(type) {
		case string:
			out = append(out, docMember{k, dval{Kind: "str", S: v}})
		case bool:
			out = append(out, docMember{k, dval{Kind: "bool", B: v}})
		case []any:
			var l []string
			for _, x := range v {
				l = append(l, fmt.Sprint(x))
			}
			out = append(out, docMember{k, dval{Kind: "set", L: l}})
		case map[string]any:
			var ks []string
			for kk := range v {
				ks = append(ks, kk)
			}
			sort.Strings(ks)
			var o [][2]string
			for _, kk := range ks {
				o = append(o, [2]string{kk, fmt.Sprint(v[kk])})
			}
			out = append(out, docMember{k, dval{Kind: "obj", O: o}})
		case nil:
			// a null member: not written by the model either
		default:
			out = append(out, docMember{k, dval{Kind: "str", S: fmt.Sprint(v)}})
		}
	}
	return out, raw, nil
}

// is (method, path) dispatched to a handler, as opposed to ServeMux's own 404/405?
func (w *World) routeServed(method, path string) (bool, int) {
	var form url.Values
	if method == "POST" || method == "PUT" {
		form = url.Values{}
	}
	w.polAvail = false
	rec, pan := w.serve(method, path, form, nil)
	if pan != nil {
		return true, 0
	}
	body := rec.Body.String()
	if rec.Code == 404 && strings.HasPrefix(body, "404 page not found") {
		return false, rec.Code
	}
	if rec.Code == 405 && strings.HasPrefix(body, "Method Not Allowed") {
		return false, rec.Code
	}
	return true, rec.Code
}

func probeRoutes(w *World) []routeProbe {
	pfx := w.prefix()
	var out []routeProbe
	add := func(meths []string, path string, kind int) {
		for _, m := range meths {
			s, code := w.routeServed(m, path)
			out = append(out, routeProbe{m, path, kind, s, code})
		}
	}
	gp := []string{"GET", "POST"}
	all := []string{"GET", "POST", "PUT", "DELETE"}
	for _, p := range []string{"/jwks", "/token", "/authorize", "/userinfo", "/par", "/bc-authorize", "/introspect", "/revoke"} {
		add(gp, pfx+p, 0)
	}
	add(all, pfx+"/register", 0)
	add(gp, pfx+"/.well-known/openid-configuration", 1)
	add(gp, pfx+"/authorize/some-callback-id", 2)
	add(all, pfx+"/register/c1", 2)
	if pfx != "" {
		// the unprefixed paths must not be served
		for _, p := range []string{"/token", "/authorize", "/par", "/.well-known/openid-configuration"} {
			add(gp, p, 0)
		}
	}
	return out
}

// the capability probes: a fixed list, every answer predicted by the model
func capabilityProbes(w *World) *probeRun {
	p := &probeRun{W: w}
	opts := w.Spec.Opts
	c1 := w.clientSpec(1)
	redirect := "https://c1.example/cb"
	base := func(rt string) Params {
		ps := Params{Redirect: redirect, RespType: rt, Scopes: "openid", State: "st-1", Nonce: "n-1"}
		if d := pkceDefault(opts); d != "" {
			ps.Challenge, ps.Method = challengeFor(d)
		}
		return ps
	}
	pol := Pol{Kind: "PolSuccess", Sub: "alice", Granted: "openid"}
	cred1 := Cred{ID: 1, OK: true}
	// grants at the token endpoint
	cc := p.do(Op{Kind: "Token", Grant: "client_credentials", Cred: cred1})
	// the same with a valid DPoP proof: bound when dpop_signing_alg_values_supported is advertised, ignored otherwise
	p.do(Op{Kind: "Token", Grant: "client_credentials", Cred: cred1, Bind: Bind{Dpop: cfgValidProof(w, 0)}})
	a := p.do(Op{Kind: "Authorize", Client: 1, Params: base("code"), PolicyAvail: true, Pol: pol})
	code := unknownBase + 1
	if a.Kind == "Nav" && a.NCode != 0 {
		code = a.NCode
	}
	verifier := PK{}
	if pkceDefault(opts) != "" {
		verifier = verifierPK()
	}
	t := p.do(Op{Kind: "Token", Grant: "authorization_code", Cred: cred1, Code: code, Redirect: redirect, Verifier: verifier})
	rtok := unknownBase + 2
	if t.Kind == "Tokens" && t.Rt != 0 {
		rtok = t.Rt
	}
	p.do(Op{Kind: "Token", Grant: "refresh_token", Cred: cred1, Refresh: rtok})
	// response types (client 1 is registered for every type the server supports)
	_ = c1
	for _, rt := range []string{"token", "id_token", "id_token token", "code id_token", "code token", "code id_token token", "bogus"} {
		p.do(Op{Kind: "Authorize", Client: 1, Params: base(rt), PolicyAvail: true, Pol: pol})
	}
	// response modes
	for _, m := range []string{"query", "fragment", "form_post", "jwt", "query.jwt", "fragment.jwt", "form_post.jwt", "bogus"} {
		ps := base("code")
		ps.RespMode = m
		p.do(Op{Kind: "Authorize", Client: 1, Params: ps, PolicyAvail: true, Pol: pol})
	}
	// code challenge methods, end to end: the authorization request (method named; method left out with
	// the challenge made for S256 / verbatim, where the server's default decides) and the redemption of
	// the code with the pre-image and with the challenge string itself
	{
		v := verifierPK()
		hv := PK{Kind: 2, Inner: &v}
		forms := []struct {
			ch PK
			m  string
		}{{hv, "S256"}, {v, "plain"}, {v, "S512"}, {v, ""}, {hv, ""}}
		for _, f := range forms {
			for _, vf := range []PK{v, f.ch} {
				ps := base("code")
				ps.Challenge, ps.Method = f.ch, f.m
				a := p.do(Op{Kind: "Authorize", Client: 1, Params: ps, PolicyAvail: true, Pol: pol})
				if a.Kind != "Nav" || a.NCode == 0 {
					break
				}
				p.do(Op{Kind: "Token", Grant: "authorization_code", Cred: cred1, Code: a.NCode, Redirect: redirect, Verifier: vf})
			}
		}
	}
	// pushed requests
	pr := p.do(Op{Kind: "Par", Cred: cred1, Params: base("code")})
	if pr.Kind == "Par" {
		p.do(Op{Kind: "Authorize", Client: 1, Params: Params{RequestURI: pr.H, RespType: "code", Scopes: "openid"}, PolicyAvail: true, Pol: pol})
	}
	// CIBA
	bc := p.do(Op{Kind: "BcAuthorize", Cred: Cred{ID: 5, OK: true}, Params: Params{Scopes: "openid", LoginHint: "alice"}, InitOK: true, Sub: "alice", Granted: "openid"})
	ar := unknownBase + 3
	if bc.Kind == "Ciba" {
		ar = bc.H
	}
	p.do(Op{Kind: "Token", Grant: "urn:openid:params:grant-type:ciba", Cred: Cred{ID: 5, OK: true}, AuthReq: ar})
	// introspection, revocation, userinfo
	tok := PTok{Kind: "PExact", H: unknownBase + 4}
	if cc.Kind == "Tokens" {
		tok.H = cc.At
	} else if t.Kind == "Tokens" {
		tok.H = t.At
	}
	p.do(Op{Kind: "Introspect", Cred: cred1, Tok: tok, Allowed: true})
	p.do(Op{Kind: "Revoke", Cred: cred1, Tok: tok, Allowed: true})
	utok := PTok{Kind: "PExact", H: unknownBase + 5}
	if t.Kind == "Tokens" {
		utok.H = t.At
	}
	p.do(Op{Kind: "UserInfo", Tok: utok, HasHeader: true})
	return p
}

const c19Header = `From Verif Require Import Base Scope Types Prog Pop Token Authorize System Config Discovery Required Run Monitors.
From Verif.Corr Require Import C11 C19 C19Pkce.
Local Open Scope N_scope.
`

type c19Case struct {
	Sys    Case
	Doc    []docMember
	Routes []routeProbe
	Raw    string
}

func (c c19Case) coq() string {
	return fmt.Sprintf("(mkC19\n %s\n %s\n %s)", c.Sys.coq(),
		cList(c.Doc, func(m docMember) string { return "(" + cS(m.Name) + ", " + m.V.coq() + ")" }),
		cList(c.Routes, routeProbe.coq))
}

func c19Clients(opts []Opt) []ClientSpec {
	cs := append(baseClients(nil), cibaClients()...)
	return trimClients(opts, cs)
}

func runC19Config(ctx *RunCtx, profile string, opts []Opt, note string) (c19Case, bool) {
	spec := WorldSpec{Profile: profile, Opts: opts, Static: c19Clients(opts), Flavour: "copy"}
	w, err := NewWorld(spec)
	if err != nil {
		ctx.Meta.Dist["config-refused-by-provider.New"]++
		return c19Case{}, false
	}
	doc, raw, err := fetchDoc(w)
	if err != nil {
		ctx.Meta.Findings = append(ctx.Meta.Findings, Finding{Property: "C19", Signature: "discovery-document-unreadable",
			What: "GET /.well-known/openid-configuration did not return a JSON document under " + note, Replay: map[string]any{"options": opts, "body": raw}})
		return c19Case{}, false
	}
	routes := probeRoutes(w)
	pr := capabilityProbes(w)
	// Go-side: the jwt-bearer grant is outside the handler model
	v := url.Values{}
	v.Set("grant_type", "urn:ietf:params:oauth:grant-type:jwt-bearer")
	v.Set("assertion", "ok:alice")
	rec, _ := w.serve("POST", w.prefix()+"/token", v, nil)
	if rec != nil {
		adv := false
		for _, m := range doc {
			if m.Name == "grant_types_supported" {
				for _, g := range m.V.L {
					if g == "urn:ietf:params:oauth:grant-type:jwt-bearer" {
						adv = true
					}
				}
			}
		}
		unsupported := strings.Contains(rec.Body.String(), "unsupported_grant_type")
		if adv == unsupported {
			ctx.Meta.Findings = append(ctx.Meta.Findings, Finding{Property: "C19", Signature: "grant_types_supported:jwt-bearer",
				What:   fmt.Sprintf("jwt-bearer grant advertised=%v but answered %d %s under %s", adv, rec.Code, truncate(rec.Body.String(), 120), note),
				Replay: map[string]any{"profile": profile, "options": opts}})
		}
		ctx.Meta.Dist[fmt.Sprintf("jwt-bearer advertised=%v", adv)]++
	}
	for _, r := range routes {
		ctx.Meta.Dist[fmt.Sprintf("route served=%v", r.Served)]++
	}
	for i, o := range pr.Obs {
		k := "refused"
		if obtained(o) || o.Kind == "Intro" || o.Kind == "Ok" || o.Kind == "UserInfo" {
			k = "accepted"
		}
		ctx.Meta.Dist["probe "+pr.Ops[i].Kind+" "+k]++
	}
	return c19Case{Sys: pr.syscase(note), Doc: doc, Routes: routes, Raw: raw}, true
}

func init() {
	register(&Suite{Name: "c19", Run: func(ctx *RunCtx) {
		feats := c19FeatureOpts()
		type cfg struct {
			profile string
			opts    []Opt
			note    string
		}
		var cfgs []cfg
		cfgs = append(cfgs, cfg{"openid", nil, "no option"})
		for _, o := range feats {
			cfgs = append(cfgs, cfg{"openid", []Opt{o}, "single"})
		}
		// pairs of feature-enabling options (both orders matter little: one order each, random)
		for i := 0; i < nPairable; i++ {
			for j := i + 1; j < nPairable; j++ {
				pair := []Opt{feats[i], feats[j]}
				if ctx.R.Intn(2) == 0 {
					pair = []Opt{feats[j], feats[i]}
				}
				cfgs = append(cfgs, cfg{"openid", pair, "pair"})
			}
		}
		// PKCE method lists: each method alone, both with either default, optional and required, with and
		// without pushed requests - the capability probes run every method end to end
		for _, name := range []string{"WithPKCE", "WithPKCERequired"} {
			for _, pk := range []Opt{{Name: name, S: "S256"}, {Name: name, S: "plain"}, {Name: name, S: "S256", L: []string{"plain"}}, {Name: name, S: "plain", L: []string{"S256"}}} {
				for _, extra := range [][]Opt{nil, {{Name: "WithPAR", Z: 60}}, {{Name: "WithRefreshTokenGrant", Z: 600}, {Name: "WithImplicitGrant"}}} {
					opts := append([]Opt{{Name: "WithScopes", Scopes: serverScopes}, {Name: "WithAuthorizationCodeGrant"}, pk}, extra...)
					cfgs = append(cfgs, cfg{"openid", opts, "pkce-methods"})
				}
			}
		}
		// random larger subsets, all profiles, always with some grants so that the probes go deep
		nrand := ctx.N(60, 2000)
		for i := 0; i < nrand; i++ {
			var sub []Opt
			for _, o := range feats {
				if ctx.R.Intn(3) == 0 {
					sub = append(sub, o)
				}
			}
			if ctx.R.Intn(2) == 0 && !hasOpt(sub, "WithAuthorizationCodeGrant") {
				sub = append(sub, Opt{Name: "WithAuthorizationCodeGrant"})
			}
			if ctx.R.Intn(2) == 0 && !hasOpt(sub, "WithScopes") {
				sub = append(sub, Opt{Name: "WithScopes", Scopes: serverScopes})
			}
			if ctx.R.Intn(4) == 0 && !hasOpt(sub, "WithPathPrefix") {
				sub = append(sub, Opt{Name: "WithPathPrefix", S: pick(ctx.R, []string{"/op", "/a/b", "/auth"})})
			}
			cfgs = append(cfgs, cfg{pick(ctx.R, []string{"openid", "openid", "fapi1", "fapi2"}), shuffled(ctx.R, sub), "random"})
		}
		var cases []c19Case
		for _, c := range cfgs {
			note := c.note + " " + optsNote(c.profile, c.opts)
			k, ok := runC19Config(ctx, c.profile, c.opts, note)
			if ok {
				cases = append(cases, k)
				ctx.Meta.Ops += len(k.Sys.Ops) + len(k.Routes)
			}
		}
		per := 100
		for k := 0; k*per < len(cases); k++ {
			hi := (k + 1) * per
			if hi > len(cases) {
				hi = len(cases)
			}
			var b strings.Builder
			b.WriteString(c19Header)
			var names []string
			for i, cs := range cases[k*per : hi] {
				fmt.Fprintf(&b, "(*CASE %d*)\nDefinition c_%d : c19case :=\n%s.\n", k*per+i, k*per+i, cs.coq())
				names = append(names, fmt.Sprintf("c_%d", k*per+i))
			}
			b.WriteString("Definition cases : list c19case := [" + strings.Join(names, "; ") + "].\n")
			b.WriteString("Definition corr := Eval vm_compute in map check_c19 cases.\nPrint corr.\n")
			b.WriteString("Definition mon := Eval vm_compute in map mon_c19x cases.\nPrint mon.\n")
			name := fmt.Sprintf("cases_%03d.v", k)
			if err := os.WriteFile(filepath.Join(ctx.Out, name), []byte(b.String()), 0o644); err != nil {
				panic(err)
			}
			ctx.Meta.Files = append(ctx.Meta.Files, name)
		}
		ctx.Meta.Cases = len(cases)
		seen := map[string]bool{}
		var jc []map[string]any
		for i, c := range cases {
			var sb strings.Builder
			for _, m := range c.Doc {
				sb.WriteString(m.Name + "=" + m.V.coq() + ";")
			}
			for _, r := range c.Routes {
				sb.WriteString(fmt.Sprint(r.Served))
			}
			for _, o := range c.Sys.Obs {
				sb.WriteString(o.Kind + o.Err + o.NErr)
			}
			seen[sb.String()] = true
			jc = append(jc, map[string]any{"Index": i, "Note": c.Sys.Note,
				"Spec":   WorldSpec{Profile: c.Sys.Profile, Opts: c.Sys.Opts, Static: c.Sys.Static},
				"Ops":    c.Sys.Ops,
				"Obs":    map[string]any{"document": json.RawMessage(c.Raw), "routes": c.Routes, "answers": c.Sys.Obs}})
			if i < 2 {
				ctx.Meta.Samples = append(ctx.Meta.Samples, map[string]any{"note": c.Sys.Note, "document": json.RawMessage(c.Raw), "routes_served": len(c.Routes)})
			}
			ctx.Meta.CaseNotes = append(ctx.Meta.CaseNotes, c.Sys.Note)
		}
		ctx.Meta.Distinct = len(seen)
		ctx.Meta.Rule = "configurations: none, every single option, all pairs of the 22 feature-enabling options, the PKCE method lists (each method alone, both with either default, optional and required; every method probed end to end: authorization request naming the method or leaving it out, redemption with the pre-image and with the challenge string), random larger subsets under the three profiles (random path prefix); distinct by (document, served routes, projected answers of the capability probes)"
		jb, _ := json.Marshal(jc)
		_ = os.WriteFile(filepath.Join(ctx.Out, "cases.json"), jb, 0o644)
	}})
}
