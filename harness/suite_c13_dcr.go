package main

// Suite c13dcr: the frame clause of C13 ("a refused request leaves stored state unchanged") at the
// dynamic-registration endpoints, for both storage flavours.
//
// The malformed stream of suite c13 reaches POST/GET/PUT/DELETE /register only with junk; a request
// that passes the registration-token guard and is refused LATER (by a validator, by the embedder's
// hook, by the second validation) is what can leave traces in a store that shares pointers.  This
// suite is a scenario matrix of exactly those requests, driven through the real provider with the
// machinery of suite c12 (so every history is also a model case of Model/Dcr.v):
//
//   create refused : every class of invalid metadata x {as sent, produced by the hook}, hook refusal,
//                    a body that is not an object, a wrongly typed member
//   read refused   : previous / foreign / absent / malformed / empty / never-issued token, unknown id
//   update refused : the same token kinds with a VALID document carrying changes; the current token
//                    with every class of invalid metadata, each document ALSO changing redirect URIs,
//                    scopes, name and authentication method; hook refusal; the hook editing the
//                    metadata into something invalid
//   delete refused : the same token kinds, unknown id, a client already deleted
//   /token refused : a wrong secret
//
// Before and after every request the harness-owned stores are rendered deeply (every stored client
// with metadata, secret, hashes; sessions; grants): one bit per operation says whether the rendering
// changed, and which members of which client did.  Corr/C13Dcr.v: check_frame_case (correspondence
// with the model) and mon_dcr_frame (a request that was not accepted changed nothing).

import (
	"encoding/json"
	"fmt"
	"math/rand"
	"os"
	"path/filepath"
	"sort"
	"strings"
	"sync"
)

type c13dGen struct {
	*c12Gen
	changed []bool
	diffs   []string
}

func c13dClientDiff(before, after string) string {
	var b, a struct{ C []map[string]any }
	_ = json.Unmarshal([]byte(before), &b)
	_ = json.Unmarshal([]byte(after), &a)
	idx := func(l []map[string]any) map[string]map[string]any {
		m := map[string]map[string]any{}
		for _, c := range l {
			id, _ := c["client_id"].(string)
			m[id] = c
		}
		return m
	}
	bm, am := idx(b.C), idx(a.C)
	var out []string
	for id, bc := range bm {
		ac, ok := am[id]
		if !ok {
			out = append(out, "client "+truncate(id, 12)+" removed")
			continue
		}
		var ks []string
		for k, v := range bc {
			if asJSON(v) != asJSON(ac[k]) {
				ks = append(ks, k)
			}
		}
		for k := range ac {
			if _, ok := bc[k]; !ok {
				ks = append(ks, k)
			}
		}
		if len(ks) > 0 {
			sort.Strings(ks)
			out = append(out, "client "+truncate(id, 12)+" members changed: "+strings.Join(ks, ","))
		}
	}
	for id := range am {
		if _, ok := bm[id]; !ok {
			out = append(out, "client "+truncate(id, 12)+" added")
		}
	}
	sort.Strings(out)
	if len(out) == 0 {
		return "sessions or grants changed"
	}
	return strings.Join(out, "; ")
}

// one operation, with the stores rendered before and after
func (g *c13dGen) around(f func()) {
	n := len(g.ops)
	before := g.w.stores.Snapshot()
	f()
	after := g.w.stores.Snapshot()
	for len(g.changed) < len(g.ops) {
		g.changed = append(g.changed, false)
		g.diffs = append(g.diffs, "")
	}
	if len(g.ops) == n+1 && before != after {
		g.changed[n] = true
		g.diffs[n] = c13dClientDiff(before, after)
	}
}

func (g *c13dGen) fcreate(body []Member, bad bool, hk Hook, why string) (c *c12Client) {
	g.around(func() { c = g.create(body, bad, hk, why) })
	return c
}
func (g *c13dGen) fupdate(c *c12Client, tok RTok, body []Member, bad bool, hk Hook, why string) (x DObs) {
	g.around(func() { x = g.update(c, tok, body, bad, hk, why) })
	return x
}
func (g *c13dGen) fdo(o DOp) (x DObs) {
	g.around(func() { x = g.do(o) })
	return x
}

func c13dSrv(rotation bool, variant int) c12Srv {
	s := c12Srv{Rotation: rotation,
		Grants:      []string{gCC, gAC, gRefresh},
		AuthMethods: []string{"client_secret_post", "client_secret_basic", "none", "private_key_jwt", "client_secret_jwt"},
		Scopes:      []string{"openid", "email", "pay"},
		SubTypes:    []string{"public"},
		IdtSigAlgs:  []string{"ES256"},
		AuthDetails: true, AuthDetailTypes: []string{"payment", "account"},
	}
	if variant%2 == 0 {
		s.Introspection = true
		s.IntroMethods = []string{"client_secret_post", "client_secret_jwt"}
	}
	if variant%3 == 0 {
		s.Revocation = true
		s.RevocMethods = []string{"client_secret_basic", "client_secret_jwt"}
	}
	return s
}

func c13dDocA() []Member {
	return []Member{{"client_name", jStr("app one")}, {"token_endpoint_auth_method", jStr("client_secret_post")},
		{"grant_types", jArr(gCC, gAC)}, {"response_types", jArr("code")}, {"redirect_uris", jArr("https://a.example/cb")},
		{"scope", jStr("openid email")}, {"authorization_data_types", jArr("payment")}}
}

// a valid document that differs from A in every member a refused update must not leave behind
func c13dDocA2() []Member {
	return []Member{{"client_name", jStr("app two")}, {"token_endpoint_auth_method", jStr("client_secret_basic")},
		{"grant_types", jArr(gCC, gAC, gRefresh)}, {"response_types", jArr("code")}, {"redirect_uris", jArr("https://b.example/cb")},
		{"scope", jStr("openid pay")}, {"authorization_data_types", jArr("account")}, {"contacts", jArr("ops@b.example")},
		{"software_id", jStr("v2")}}
}

type c13dBad struct {
	why  string
	doc  []Member
	bad  bool
	hook Hook
}

func cloneDoc(d []Member) []Member { return append([]Member{}, d...) }

// every way the registration code refuses metadata after the token guard; each document carries
// the changes of A2 as well
func c13dRefusals() []c13dBad {
	with := func(k string, v JV) []Member { return setM(cloneDoc(c13dDocA2()), k, v) }
	l := []c13dBad{
		{why: "unknown scope", doc: with("scope", jStr("openid pay admin"))},
		{why: "grant type not enabled", doc: with("grant_types", jArr(gCC, gAC, gImpl))},
		{why: "redirect URI not https", doc: with("redirect_uris", jArr("https://b.example/cb", "http://b.example/cb"))},
		{why: "redirect URI with fragment", doc: with("redirect_uris", jArr("https://b.example/cb#f"))},
		{why: "authentication method not offered", doc: setM(with("token_endpoint_auth_method", jStr("tls_client_auth")), "tls_client_auth_san_dns", jStr("c.example"))},
		{why: "response type without its grant", doc: with("response_types", jArr("code", "token"))},
		{why: "jwks with a private key", doc: with("jwks", jObj(2))},
		{why: "authorization detail type not enabled (with an enabled one)", doc: with("authorization_data_types", jArr("payment", "api"))},
		{why: "authorization detail type not enabled (first)", doc: with("authorization_data_types", jArr("api", "account"))},
		{why: "subject type not offered", doc: with("subject_type", jStr("pairwise"))},
		{why: "client_credentials with none", doc: setM(with("token_endpoint_auth_method", jStr("none")), "grant_types", jArr(gCC))},
		{why: "sector identifier that cannot be fetched", doc: with("sector_identifier_uri", jStr("https://b.example/sector.json"))},
		{why: "introspection method not offered", doc: with("introspection_endpoint_auth_method", jStr("tls_client_auth"))},
		{why: "revocation method not offered", doc: with("revocation_endpoint_auth_method", jStr("self_signed_tls_client_auth"))},
		{why: "id token algorithm not offered", doc: with("id_token_signed_response_alg", jStr("RS256"))},
		{why: "private_key_jwt without keys", doc: with("token_endpoint_auth_method", jStr("private_key_jwt"))},
		{why: "client assertion algorithm not offered", doc: setM(with("token_endpoint_auth_method", jStr("client_secret_jwt")), "token_endpoint_auth_signing_alg", jStr("HS512"))},
		{why: "wrongly typed member", doc: append(cloneDoc(c13dDocA2()), Member{"default_max_age", jStr("60")})},
		{why: "wrongly typed list", doc: append(cloneDoc(c13dDocA2()), Member{"redirect_uris", jObj(5)})},
		{why: "body is not an object", bad: true},
		{why: "hook refuses", doc: c13dDocA2(), hook: Hook{Kind: "reject"}},
		{why: "hook sets a grant type that is not enabled", doc: c13dDocA2(), hook: Hook{Kind: "set", K: "grant_types", V: jArr("bogus")}},
		{why: "hook sets an unknown scope", doc: c13dDocA2(), hook: Hook{Kind: "set", K: "scope", V: jStr("openid admin")}},
		{why: "hook sets a method that is not offered", doc: c13dDocA2(), hook: Hook{Kind: "set", K: "token_endpoint_auth_method", V: jStr("bogus")}},
		{why: "hook sets a redirect URI that is not https", doc: c13dDocA2(), hook: Hook{Kind: "set", K: "redirect_uris", V: jArr("http://evil.example/cb")}},
	}
	return l
}

var c13dOtherToks = []string{"previous", "foreign", "absent", "malformed", "empty", "unknown"}

func runC13DcrHistory(seed int64, k int, fam string) (c12Case, []bool, []string) {
	r := rand.New(rand.NewSource(seed))
	flavour := []string{"alias", "copy"}[k%2]
	rotation := (k/2)%2 == 0
	srv := c13dSrv(rotation, k/4)
	w, err := newC12World(srv, flavour)
	if err != nil {
		panic(fmt.Sprintf("c13dcr: provider.New: %v", err))
	}
	g := &c13dGen{c12Gen: &c12Gen{R: r, w: w, srv: srv, dist: map[string]int{}}}
	refusals := c13dRefusals()
	a := g.fcreate(c13dDocA(), false, Hook{}, "A")
	b := g.fcreate(c13dDocA2(), false, Hook{}, "B")
	if a == nil || b == nil {
		panic("c13dcr: the reference registrations were refused")
	}
	readA := func(why string) {
		g.fdo(DOp{Kind: "Read", Cid: a.ID, Tok: g.tokOf(a, "current"), Why: why})
	}
	switch fam {
	case "create":
		for _, x := range refusals {
			g.fcreate(x.doc, x.bad, x.hook, "create refused: "+x.why)
		}
		readA("A as registered")
		g.fdo(DOp{Kind: "Read", Cid: b.ID, Tok: g.tokOf(b, "current"), Why: "B as registered"})
	case "update":
		// half of the worlds update A once first, so that the stored object went through Save twice
		if k%8 >= 4 {
			g.fupdate(a, g.tokOf(a, "current"), c13dDocA(), false, Hook{}, "an accepted update first")
		}
		for i, x := range refusals {
			g.fupdate(a, g.tokOf(a, "current"), x.doc, x.bad, x.hook, "update refused: "+x.why)
			if i%6 == 5 {
				readA("A still as registered")
			}
		}
		readA("A still as registered")
		g.around(func() { g.useSecret(a, "current") })
	case "tokens":
		if rotation {
			g.fupdate(a, g.tokOf(a, "current"), c13dDocA(), false, Hook{}, "rotate A's token")
		}
		for _, tk := range c13dOtherToks {
			g.fdo(DOp{Kind: "Read", Cid: a.ID, Tok: g.tokOf(a, tk), Why: "read refused: " + tk + " token"})
			g.fupdate(a, g.tokOf(a, tk), c13dDocA2(), false, Hook{}, "update refused: "+tk+" token, valid document with changes")
			g.fupdate(a, g.tokOf(a, tk), refusals[0].doc, false, Hook{Kind: "set", K: "client_name", V: jStr("named by the embedder")}, "update refused: "+tk+" token, invalid document")
			g.fdo(DOp{Kind: "Delete", Cid: a.ID, Tok: g.tokOf(a, tk), Why: "delete refused: " + tk + " token"})
		}
		unk := g.unknownTok()
		g.fdo(DOp{Kind: "Read", Cid: unk, Tok: g.tokOf(a, "current"), Why: "read refused: a client id never issued"})
		g.fdo(DOp{Kind: "Update", Cid: unk, Tok: g.tokOf(a, "current"), Body: c13dDocA2(), Why: "update refused: a client id never issued"})
		g.fdo(DOp{Kind: "Delete", Cid: unk, Tok: g.tokOf(a, "current"), Why: "delete refused: a client id never issued"})
		g.fdo(DOp{Kind: "UseSecret", Cid: a.ID, Secret: b.Secret, Basic: false, Why: "/token refused: another client's secret"})
		g.fdo(DOp{Kind: "UseSecret", Cid: a.ID, Secret: g.unknownTok(), Basic: true, Why: "/token refused: wrong method and secret"})
		g.fdo(DOp{Kind: "UseAt", Cid: a.ID, Secret: b.Secret, Ep: "introspect", Sm: "post", Why: "/introspect refused (or not served): another client's secret"})
		g.fdo(DOp{Kind: "UseAt", Cid: a.ID, Secret: a.Tok, Ep: "revoke", Sm: "jwt", Why: "/revoke refused (or not served): the registration token as HMAC key"})
		readA("A still as registered")
	case "deleted":
		g.fupdate(a, g.tokOf(a, "current"), c13dDocA2(), false, Hook{}, "an accepted update")
		for _, x := range refusals[:6] {
			g.fupdate(a, g.tokOf(a, "current"), x.doc, x.bad, x.hook, "update refused: "+x.why)
		}
		readA("A as updated")
		x := g.fdo(DOp{Kind: "Delete", Cid: a.ID, Tok: g.tokOf(a, "current"), Why: "accepted delete"})
		if x.Kind == "Deleted" {
			a.Live = false
		}
		g.fdo(DOp{Kind: "Read", Cid: a.ID, Tok: g.tokOf(a, "current"), Why: "read refused: deleted client"})
		g.fupdate(a, g.tokOf(a, "current"), c13dDocA2(), false, Hook{}, "update refused: deleted client")
		g.fdo(DOp{Kind: "Delete", Cid: a.ID, Tok: g.tokOf(a, "current"), Why: "delete refused: deleted client"})
		for _, x := range refusals[6:12] {
			g.fupdate(b, g.tokOf(b, "current"), x.doc, x.bad, x.hook, "update of B refused: "+x.why)
		}
		g.fdo(DOp{Kind: "Read", Cid: b.ID, Tok: g.tokOf(b, "current"), Why: "B as registered"})
	}
	for len(g.changed) < len(g.ops) {
		g.changed = append(g.changed, false)
		g.diffs = append(g.diffs, "")
	}
	g.dist["family:"+fam]++
	g.dist[fmt.Sprintf("rotation=%v", rotation)]++
	g.dist["storage:"+flavour]++
	for i, o := range g.obs {
		if !o.accepted() {
			g.dist["refused:"+g.ops[i].Kind]++
			if g.changed[i] {
				g.dist["refused-but-store-changed"]++
			}
		}
	}
	return c12Case{Note: fmt.Sprintf("frame/%s#%d/%s/rotation=%v", fam, k, flavour, rotation), Flavour: flavour, Spec: srv, Ops: g.ops, Obs: g.obs, dist: g.dist}, g.changed, g.diffs
}

const c13dHeader = `From Verif Require Import Base Types Dcr DcrUse.
From Verif.Corr Require Import C12 C12Use C13Dcr.
Local Open Scope N_scope.
`

func init() {
	register(&Suite{Name: "c13dcr", Run: func(ctx *RunCtx) {
		type job struct {
			seed int64
			k    int
			fam  string
		}
		var jobs []job
		worlds := ctx.N(8, 24)
		for _, fam := range []string{"create", "update", "tokens", "deleted"} {
			for k := 0; k < worlds; k++ {
				jobs = append(jobs, job{ctx.R.Int63(), k, fam})
			}
		}
		cases := make([]c12Case, len(jobs))
		changed := make([][]bool, len(jobs))
		diffs := make([][]string, len(jobs))
		var wg sync.WaitGroup
		sem := make(chan struct{}, 12)
		for i, j := range jobs {
			wg.Add(1)
			sem <- struct{}{}
			go func(i int, j job) {
				defer wg.Done()
				defer func() { <-sem }()
				cases[i], changed[i], diffs[i] = runC13DcrHistory(j.seed, j.k, j.fam)
			}(i, j)
		}
		wg.Wait()
		per := 16
		var jcases []map[string]any
		seen := map[string]bool{}
		for k := 0; k*per < len(cases); k++ {
			hi := (k + 1) * per
			if hi > len(cases) {
				hi = len(cases)
			}
			var b strings.Builder
			b.WriteString(c13dHeader)
			var names []string
			for i, cs := range cases[k*per : hi] {
				gi := k*per + i
				fmt.Fprintf(&b, "(*CASE %d %s*)\nDefinition c_%d : fcase := mkFCase (\n%s)\n %s.\n", gi, cs.Note, gi, cs.xcoq(), cList(changed[gi], cB))
				names = append(names, fmt.Sprintf("c_%d", gi))
			}
			b.WriteString("Definition cases : list fcase := [" + strings.Join(names, "; ") + "].\n")
			b.WriteString("Definition corr := Eval vm_compute in map check_frame_case cases.\nPrint corr.\n")
			b.WriteString("Definition mon := Eval vm_compute in map mon_dcr_frame cases.\nPrint mon.\n")
			name := fmt.Sprintf("cases_%03d.v", k)
			if err := os.WriteFile(filepath.Join(ctx.Out, name), []byte(b.String()), 0o644); err != nil {
				panic(err)
			}
			ctx.Meta.Files = append(ctx.Meta.Files, name)
		}
		for i, cs := range cases {
			ctx.Meta.Ops += len(cs.Ops)
			for k, v := range cs.dist {
				ctx.Meta.Dist[k] += v
			}
			var obs []map[string]any
			for j, o := range cs.Obs {
				m := map[string]any{"Obs": o, "Why": cs.Ops[j].Why, "StoreChanged": changed[i][j]}
				if changed[i][j] {
					m["StoreDiff"] = diffs[i][j]
				}
				obs = append(obs, m)
				seen[fmt.Sprintf("%s|%s|%s|%v", cs.Flavour, cs.Ops[j].Why, o.Kind+o.Code, changed[i][j])] = true
			}
			jcases = append(jcases, map[string]any{"Index": i, "Note": cs.Note, "Spec": map[string]any{"storage": cs.Flavour, "server": cs.Spec}, "Ops": cs.Ops, "Obs": obs})
			if i%8 == 0 && len(ctx.Meta.Samples) < 4 {
				var ops []string
				for j, o := range cs.Ops {
					if j < 6 {
						ops = append(ops, o.Why+": "+truncate(o.xcoq(), 160)+"  ==>  "+truncate(cs.Obs[j].coq(), 120)+fmt.Sprintf("  store changed: %v", changed[i][j]))
					}
				}
				ctx.Meta.Samples = append(ctx.Meta.Samples, map[string]any{"note": cs.Note, "first_ops": ops})
			}
		}
		jb, _ := json.Marshal(jcases)
		_ = os.WriteFile(filepath.Join(ctx.Out, "cases.json"), jb, 0o644)
		ctx.Meta.Cases = len(cases)
		ctx.Meta.Distinct = len(seen)
		ctx.Meta.Rule = "scenario matrix at the dynamic-registration endpoints of the real provider: {alias, copy storage} x {token rotation on, off} x {introspection / revocation enabled or not} x four families (refused creations: 25 classes of refusal after parsing - each validator class, wrongly typed members, a non-object body, hook refusal, hook editing the metadata into something invalid; refused updates presenting the CURRENT token with the same 25 classes, every document also changing name, method, redirect URIs, scopes, grant types, detail types; refused read / update / delete with previous, foreign, absent, malformed, empty and never-issued tokens and unknown ids, refused /token; the same after an accepted update and on a deleted client); after EVERY request the deep rendering of all stored clients, sessions and grants is compared with the one before; distinct = (storage, scenario, answer, changed) tuples"
	}})
}
