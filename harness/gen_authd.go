package main

// RFC 9396 authorization details in the random histories of gen_sys.go.  The moves of gen_sys.go are
// left as they are: an operation chosen there is DECORATED here (authdDecorate, called from SysGen.do)
// with authorization_details parameters / grants, and what the provider answered is recorded
// (authdLearn) so that later token requests can name subsets and supersets of what was granted.

import (
	"math/rand"
)

// types a world may support; the rest is never configured: another type, a case variant, a prefix, an
// extension and the empty type of an object without a (string) `type` member
var authdTypePool = []string{"payment_initiation", "account_information", "openbanking_consent"}
var authdForeignTypes = []string{"account_admin", "Payment_Initiation", "payment", "payment_initiation_v2", ""}

type authdGen struct {
	enabled bool
	types   []string            // what the server supports
	granted map[Handle][]Detail // code / auth_req_id / refresh token -> what the embedder granted
}

// the option a random world gets (nil: the feature stays off)
func authdRandomOpts(r *rand.Rand, want map[string]bool) []Opt {
	if !(want["authd"] || r.Intn(3) == 0) {
		return nil
	}
	first := pick(r, authdTypePool)
	var rest []string
	for _, x := range authdTypePool {
		if r.Intn(2) == 0 { // may repeat the first one: appendIfNotIn
			rest = append(rest, x)
		}
	}
	cmp := pick(r, []string{"CmpSubset", "CmpSubset", "CmpSubset", "CmpSubset", "CmpAcceptAll", "CmpTypes", "CmpNone"})
	return []Opt{{Name: "WithAuthorizationDetails", S: first, L: rest, Cmp: cmp}}
}

func authdNewGen(g *SysGen) *authdGen {
	a := &authdGen{granted: map[Handle][]Detail{}}
	for _, o := range g.W.Spec.Opts {
		if o.Name == "WithAuthorizationDetails" {
			a.enabled = true
			a.types = []string{o.S}
			for _, t := range o.L {
				if t != o.S {
					a.types = append(a.types, t)
				}
			}
		}
	}
	return a
}

func (a *authdGen) supported(g *SysGen) Detail {
	t := authdTypePool[0]
	if len(a.types) > 0 {
		t = pick(g.R, a.types)
	}
	return Detail{Type: t, ID: 1 + g.R.Intn(3)}
}

func (a *authdGen) foreign(g *SysGen) Detail {
	ts := append([]string{}, authdForeignTypes...)
	for _, t := range authdTypePool { // a type of the pool this world did not configure
		known := false
		for _, s := range a.types {
			known = known || s == t
		}
		if !known {
			ts = append(ts, t)
		}
	}
	return Detail{Type: pick(g.R, ts), ID: 1 + g.R.Intn(3)}
}

// a list of 1-3 details of supported types
func (a *authdGen) supportedList(g *SysGen) []Detail {
	n := 1 + g.R.Intn(3)
	out := make([]Detail, n)
	for i := range out {
		out[i] = a.supported(g)
	}
	return out
}

// mix: insert k foreign details at random positions
func (a *authdGen) mixed(g *SysGen, l []Detail, k int) []Detail {
	out := append([]Detail(nil), l...)
	for i := 0; i < k; i++ {
		p := g.R.Intn(len(out) + 1)
		out = append(out[:p], append([]Detail{a.foreign(g)}, out[p:]...)...)
	}
	return out
}

func authdSub(r *rand.Rand, l []Detail) []Detail {
	var out []Detail
	for _, d := range l {
		if r.Intn(2) == 0 {
			out = append(out, d)
		}
	}
	return out
}

// authorization_details of an authorization / pushed / backchannel request: (list, sent-as-empty)
func (a *authdGen) request(g *SysGen) ([]Detail, bool) {
	if !a.enabled {
		if g.chance(6) {
			return a.mixed(g, a.supportedList(g), g.R.Intn(2)), false // ignored when the feature is off
		}
		return nil, false
	}
	switch x := g.R.Intn(20); {
	case x < 7:
		return nil, false
	case x < 15:
		return a.supportedList(g), false
	case x < 16:
		return nil, true
	case x < 18:
		return a.mixed(g, a.supportedList(g), 1+g.R.Intn(2)), false
	case x < 19:
		return []Detail{a.foreign(g)}, false
	}
	l := a.supportedList(g)
	return append(l, l[0]), false // a duplicate
}

// what the resource owner (the scripted embedder) grants for a request that asked for req: only types
// the server supports (the library does not check the embedder's choice)
func (a *authdGen) grant(g *SysGen, req []Detail) []Detail {
	if !a.enabled && !g.chance(10) {
		return nil
	}
	var ok []Detail
	for _, d := range req {
		for _, t := range a.types {
			if d.Type == t {
				ok = append(ok, d)
				break
			}
		}
	}
	switch x := g.R.Intn(10); {
	case x < 5:
		return ok
	case x < 7:
		return authdSub(g.R, ok)
	case x < 8:
		return nil
	}
	return append(ok, a.supported(g)) // the owner's decision is not confined to the request
}

// authorization_details of a token request against a grant whose owner granted `granted`
func (a *authdGen) tokenRequest(g *SysGen, granted []Detail) ([]Detail, bool) {
	if !a.enabled {
		if g.chance(6) {
			return a.mixed(g, a.supportedList(g), g.R.Intn(2)), false
		}
		return nil, false
	}
	switch x := g.R.Intn(24); {
	case x < 8:
		return nil, false
	case x < 13:
		out := authdSub(g.R, granted)
		if len(out) == 0 && len(granted) > 0 {
			out = []Detail{pick(g.R, granted)}
		}
		return out, len(out) == 0 && g.R.Intn(2) == 0
	case x < 15:
		return append([]Detail(nil), granted...), false
	case x < 18:
		// more than was granted: another detail of a supported type
		return append(append([]Detail(nil), granted...), a.supported(g)), false
	case x < 21:
		// a supported / granted part and a part of a type the server does not support, in any order
		base := authdSub(g.R, granted)
		if len(base) == 0 {
			base = []Detail{a.supported(g)}
		}
		return a.mixed(g, base, 1+g.R.Intn(2)), false
	case x < 22:
		return []Detail{a.foreign(g)}, false
	case x < 23:
		return nil, true
	}
	if len(granted) > 0 {
		return append(append([]Detail(nil), granted...), granted[0]), false
	}
	return a.supportedList(g), false
}

// decorate an operation of a random history (explicit details of a scenario are left alone)
func authdDecorate(g *SysGen, o Op) Op {
	a := g.authd
	if a == nil {
		return o
	}
	switch o.Kind {
	case "Authorize", "Par", "BcAuthorize":
		if o.Params.AuthDetails == nil && !o.Params.AuthDetailsEmpty {
			o.Params.AuthDetails, o.Params.AuthDetailsEmpty = a.request(g)
			// `authorization_details=[]` is pushed too: the empty list used to survive in a pointer-sharing
			// store and to be dropped (omitempty) by a serialising one (D27, fixed: the session never keeps it).
		}
		if o.Kind == "Authorize" && o.Pol.Kind == "PolSuccess" && o.Pol.Details == nil {
			req := o.Params.AuthDetails
			if o.Params.RequestURI != 0 {
				req = append(append([]Detail(nil), a.granted[o.Params.RequestURI]...), req...) // what was pushed
			}
			o.Pol.Details = a.grant(g, req)
		}
		if o.Kind == "BcAuthorize" && o.GrantedDetails == nil {
			o.GrantedDetails = a.grant(g, o.Params.AuthDetails)
		}
	case "Callback":
		if o.Pol.Kind == "PolSuccess" && o.Pol.Details == nil {
			o.Pol.Details = a.grant(g, a.granted[o.Cb])
		}
	case "Token":
		if o.AuthDetails != nil || o.AuthDetailsEmpty {
			return o
		}
		switch o.Grant {
		case "authorization_code":
			o.AuthDetails, o.AuthDetailsEmpty = a.tokenRequest(g, a.granted[o.Code])
		case "refresh_token":
			o.AuthDetails, o.AuthDetailsEmpty = a.tokenRequest(g, a.granted[o.Refresh])
		case "urn:openid:params:grant-type:ciba":
			o.AuthDetails, o.AuthDetailsEmpty = a.tokenRequest(g, a.granted[o.AuthReq])
		case "client_credentials", jwtBearerGrant:
			// owner-less: nothing to compare with, the type check is the only gate
			o.AuthDetails, o.AuthDetailsEmpty = a.tokenRequest(g, a.supportedList(g))
		}
	}
	return o
}

func authdLearn(g *SysGen, o Op, x Obs) {
	a := g.authd
	if a == nil {
		return
	}
	switch {
	case o.Kind == "Par" && x.Kind == "Par":
		a.granted[x.H] = o.Params.AuthDetails // what was pushed (requested, not granted)
	case o.Kind == "Authorize" && x.Kind == "Page":
		req := o.Params.AuthDetails
		if o.Params.RequestURI != 0 {
			req = append(append([]Detail(nil), a.granted[o.Params.RequestURI]...), req...)
		}
		a.granted[x.H] = req // requested, for the callback's grant
	case (o.Kind == "Authorize" || o.Kind == "Callback") && x.Kind == "Nav" && o.Pol.Kind == "PolSuccess":
		if x.NCode != 0 {
			a.granted[x.NCode] = o.Pol.Details
		}
	case o.Kind == "BcAuthorize" && x.Kind == "Ciba":
		a.granted[x.H] = o.GrantedDetails
	case o.Kind == "Token" && x.Kind == "Tokens" && x.Rt != 0:
		switch o.Grant {
		case "authorization_code":
			a.granted[x.Rt] = a.granted[o.Code]
		case "refresh_token":
			a.granted[x.Rt] = a.granted[o.Refresh]
		case "urn:openid:params:grant-type:ciba":
			a.granted[x.Rt] = a.granted[o.AuthReq]
		}
	case o.Kind == "NotifyOk" && x.Kind == "Notified":
		for _, n := range x.Notifs {
			if n.Rt != 0 {
				a.granted[n.Rt] = a.granted[o.AuthReq]
			}
		}
	}
}
