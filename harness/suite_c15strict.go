package main

// Suite c15, the STRICT storage flavour: the JSON-copying stores of stores.go, except that Delete /
// DeleteByAuthorizationCode of something that is not there returns an error instead of being a silent
// no-op.  That is a legitimate embedder storage (a SQL DELETE checked for "one row affected", a
// compare-and-delete of a key-value store); on it the delete is an atomic take, and the unchanged code,
// which returns the error of a failed DeleteAuthnSession, lets at most ONE of several racing requests
// win wherever the consume is a delete (authorization code, CIBA auth_req_id, request_uri without a
// code): Model/RaceStrict.v exec_strict, Props/C15.v race_code_strict_store_one_winner.  A handler that
// drops the error of the delete is invisible on the lenient stores and yields two winners here.

import (
	"context"
	"errors"

	"github.com/luikyv/go-oidc/pkg/goidc"
)

var c15ErrNothingDeleted = errors.New("delete: no such entity")

// c15Take removes id and says whether it was there (one critical section: an atomic take)
func (s *jstore[T]) c15Take(id string) bool {
	s.mu.Lock()
	defer s.mu.Unlock()
	_, ok := s.m[id]
	delete(s.m, id)
	return ok
}

type c15StrictC struct{ jClients }

func (s c15StrictC) Delete(_ context.Context, id string) error {
	if !s.c15Take(id) {
		return c15ErrNothingDeleted
	}
	return nil
}

type c15StrictA struct{ jAuthn }

func (s c15StrictA) Delete(_ context.Context, id string) error {
	if !s.c15Take(id) {
		return c15ErrNothingDeleted
	}
	return nil
}

type c15StrictG struct{ jGrant }

func (s c15StrictG) Delete(_ context.Context, id string) error {
	if !s.c15Take(id) {
		return c15ErrNothingDeleted
	}
	return nil
}
func (s c15StrictG) DeleteByAuthorizationCode(_ context.Context, code string) error {
	g, err := s.find(func(v *goidc.GrantSession) bool { return v.AuthorizationCode == code })
	if err != nil || !s.c15Take(g.ID) {
		return c15ErrNothingDeleted
	}
	return nil
}

// c15MakeStrict turns the (copy flavour) stores behind the decorator into strict ones; the decorator reads
// s.C / s.A / s.G at every call, so this takes effect for the provider that already holds the decorator
func c15MakeStrict(s *Stores) {
	if s.copyA == nil {
		panic("c15: the strict flavour is built on the copy stores")
	}
	s.C, s.A, s.G = c15StrictC{jClients{s.copyC}}, c15StrictA{jAuthn{s.copyA}}, c15StrictG{jGrant{s.copyG}}
}

var _ goidc.ClientManager = c15StrictC{}
var _ goidc.AuthnSessionManager = c15StrictA{}
var _ goidc.GrantSessionManager = c15StrictG{}
