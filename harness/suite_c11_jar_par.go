package main

// C11, suite c11jar, two more blocks (run by the suite registered in suite_c11_jar.go):
//
//  PAR REQUIRED x REQUEST-OBJECT FORMS.  Pushed authorization requests required by the server
//  (WithPARRequired) or by the client (require_pushed_authorization_requests) x JAR optional / required
//  x JAR by reference enabled or not x three profiles; against each provider one history:
//      a plain request, a request object by value, an https request_uri that REFERENCES a signed request
//      object (served by the harness's round tripper - never pushed), the same over http, a reference that
//      cannot be fetched, a genuine pushed request_uri (push with or without object, redeemed, presented
//      once more), a request_uri pushed by ANOTHER client, a urn nobody pushed, a pushed request_uri together
//      with a request object, and the three direct forms sent by the client that is not bound to PAR.
//  Only the request_uri the pushed authorization endpoint handed to the client may obtain anything
//  (monitor clauses 1 and 13, theorem par_required_enforced_jar).
//
//  THE CLIENT-LEVEL CIBA JAR SWITCH.  Server {CIBA JAR off, enabled, required} x the backchannel client
//  registered with {nothing, only request_object_signing_alg, only
//  backchannel_authentication_request_signing_alg, both} x three profiles: a plain backchannel request,
//  a signed one, a plain one again.  A client that registered a CIBA request signing algorithm obtains
//  no auth_req_id for a plain request where the server has CIBA JAR enabled (monitor clause 3, theorem
//  client_ciba_jar_required_enforced); the front-channel registration alone requires nothing.

import "fmt"

func c11jParRequired(ctx *RunCtx, cases *[]JCase, stats map[string]int) {
	jcl := []JClient{{ID: 1, Keys: clientJWKS(1)}, {ID: 2, Keys: clientJWKS(2)}, {ID: 5, Keys: clientJWKS(5)}}
	jc := JCfg{Algs: []string{"AES256"}, CibaAlgs: []string{"AES256"}}
	pol := Pol{Kind: "PolSuccess", Sub: "alice", Granted: "openid email"}
	k := 0
	for _, profile := range []string{"openid", "fapi1", "fapi2"} {
		for _, parBy := range []string{"server", "client"} {
			for _, jarRequired := range []bool{false, true} {
				for _, byRef := range []bool{true, false} {
					k++
					if !byRef && ctx.Quick() && (k+int(ctx.Seed))%3 != 0 {
						// quick tier: the configurations without JAR by reference (where the https request_uri is
						// refused before anything else) rotate with the seed
						continue
					}
					opts := []Opt{{Name: "WithScopes", Scopes: serverScopes}, {Name: "WithAuthorizationCodeGrant"}, {Name: "WithImplicitGrant"},
						{Name: "WithRefreshTokenGrant", Z: 600}}
					if parBy == "server" {
						opts = append(opts, Opt{Name: "WithPARRequired", Z: 60})
					} else {
						opts = append(opts, Opt{Name: "WithPAR", Z: 60})
					}
					if jarRequired {
						opts = append(opts, Opt{Name: "WithJARRequired"})
					} else {
						opts = append(opts, Opt{Name: "WithJAR"})
					}
					if byRef {
						opts = append(opts, Opt{Name: "WithJARByReference"})
					}
					if profile == "fapi1" {
						opts = append(opts, Opt{Name: "WithJARM"})
					}
					static := c07Clients(false)
					static[0].ParReq = parBy == "client" // client 1 is bound to PAR; client 2 only by the server switch
					spec := WorldSpec{Profile: profile, Opts: opts, Static: static, Flavour: []string{"copy", "alias"}[len(*cases)%2]}
					jw, err := NewJWorld(spec, jc, jcl)
					if err != nil {
						stats["config-refused-by-provider.New"]++
						continue
					}
					c := JCase{Profile: profile, Opts: opts, JCfg: jc, Static: static, JCl: jcl,
						Note: fmt.Sprintf("%s PAR required by the %s, jar-required=%v, jar-by-reference=%v", profile, parBy, jarRequired, byRef)}
					do := func(o JOp) JObs {
						obs := jw.Exec(len(c.Ops), o)
						c.Ops = append(c.Ops, o)
						c.Obs = append(c.Obs, obs)
						res := "refused"
						if obtained(obs.Obs) {
							res = "obtained"
						}
						stats[fmt.Sprintf("par-required|by the %s|%s => %s", parBy, o.Cell, res)]++
						return obs
					}
					good := func(client int) Params {
						p := Params{Redirect: fmt.Sprintf("https://c%d.example/cb", client), RespType: "code", Scopes: "openid email", State: "st-1", Nonce: "n-1"}
						if profile == "fapi1" {
							p.RespType = "code id_token"
							if client == 2 {
								p.RespType, p.RespMode = "code", "jwt" // client 2 is registered for "code" only
							}
						}
						return p
					}
					minimal := func(client int) Params {
						g := good(client)
						return Params{RespType: g.RespType, RespMode: g.RespMode, Scopes: g.Scopes}
					}
					obj := func(client int) *RO {
						o := baseRO(profile, client)
						o.Params = good(client)
						return &o
					}
					authz := func(client int, outer Params, jar string, o *RO, https bool, cell string) JObs {
						return do(JOp{Kind: "JAuthorize", Base: Op{Kind: "Authorize", Client: client, Params: outer, PolicyAvail: true, Pol: pol},
							Jar: jar, Obj: o, RefHTTPS: https, Note: cell, Cell: cell})
					}
					push := func(client int, withObject bool, cell string) Handle {
						var op JOp
						if withObject {
							op = JOp{Kind: "JPar", Base: Op{Kind: "Par", Cred: Cred{ID: client, OK: true}, Params: Params{}}, Jar: "value", Obj: obj(client), Note: cell, Cell: cell}
						} else {
							op = JOp{Kind: "JPar", Base: Op{Kind: "Par", Cred: Cred{ID: client, OK: true}, Params: good(client)}, Note: cell, Cell: cell}
						}
						x := do(op)
						if x.Obs.Kind != "Par" {
							return 0
						}
						return x.Obs.H
					}
					redeemURI := func(client int, uri Handle, jar string, o *RO, cell string) JObs {
						p := minimal(client)
						p.RequestURI = uri
						return authz(client, p, jar, o, true, cell)
					}
					// the forms that are NOT pushed requests
					authz(1, good(1), "", nil, true, "plain request")
					authz(1, minimal(1), "value", obj(1), true, "request object by value")
					authz(1, minimal(1), "ref", obj(1), true, "request object by reference (https request_uri, never pushed)")
					authz(1, Params{}, "ref", obj(1), true, "request object by reference, nothing else in the query")
					authz(1, minimal(1), "ref", obj(1), false, "request object by reference over http")
					authz(1, minimal(1), "ref", nil, true, "reference that cannot be fetched")
					// the genuine pushed request: pushed (as an object where objects are required, else alternating), redeemed, reused
					withObj := jarRequired || k%2 == 0
					if u := push(1, withObj, fmt.Sprintf("push (object=%v)", withObj)); u != 0 {
						a := redeemURI(1, u, "", nil, "genuine pushed request_uri")
						if a.Obs.NCode != 0 {
							do(JOp{Kind: "Base", Note: "code of the pushed request at /token", Cell: "code of the pushed request at /token",
								Base: Op{Kind: "Token", Grant: "authorization_code", Cred: Cred{ID: 1, OK: true}, Code: a.Obs.NCode,
									Redirect: "https://c1.example/cb", HG: "HgOk", BA: "BaApprove"}})
						}
						redeemURI(1, u, "", nil, "the same request_uri once more")
					}
					// another client's pushed request
					if u := push(2, jarRequired, "push by the other client"); u != 0 {
						redeemURI(1, u, "", nil, "request_uri pushed by another client")
					}
					// a urn nobody pushed
					never := unknownBase + 9000 + Handle(k)
					jw.W.name(fmt.Sprintf("urn:ietf:params:oauth:request_uri:never-pushed-%d", k), never)
					redeemURI(1, never, "", nil, "urn that nobody pushed")
					// a pushed request_uri AND a request object in the same request
					if u := push(1, jarRequired, "push (for the mixed request)"); u != 0 {
						redeemURI(1, u, "value", obj(1), "pushed request_uri together with a request object")
					}
					// the client that is bound to PAR only by the server switch
					authz(2, good(2), "", nil, true, "other client: plain request")
					authz(2, minimal(2), "value", obj(2), true, "other client: request object by value")
					authz(2, minimal(2), "ref", obj(2), true, "other client: request object by reference")
					*cases = append(*cases, c)
				}
			}
		}
	}
}

func c11jCibaClients(ctx *RunCtx, cases *[]JCase, stats map[string]int) {
	jc := JCfg{Algs: []string{"AES256"}, CibaAlgs: []string{"AES256"}}
	regs := []struct{ Name, Jar, Ciba string }{
		{"no signing algorithm registered", "", ""},
		{"only request_object_signing_alg", "AES256", ""},
		{"only backchannel_authentication_request_signing_alg", "", "AES256"},
		{"both algorithms", "AES256", "AES256"},
	}
	for _, profile := range []string{"openid", "fapi1", "fapi2"} {
		for _, server := range []string{"off", "enabled", "required"} {
			for _, frontJAR := range []bool{false, true} {
				if frontJAR && ctx.Quick() && server != "enabled" {
					continue
				}
				for _, reg := range regs {
					opts := []Opt{{Name: "WithScopes", Scopes: serverScopes}, {Name: "WithAuthorizationCodeGrant"}, {Name: "WithRefreshTokenGrant", Z: 600}, {Name: "WithCIBAGrant"}}
					switch server {
					case "enabled":
						opts = append(opts, Opt{Name: "WithCIBAJAR"})
					case "required":
						opts = append(opts, Opt{Name: "WithCIBAJARRequired"})
					}
					if frontJAR {
						// the front-channel mechanism enabled as well: request_object_signing_alg means something there, nothing here
						opts = append(opts, Opt{Name: "WithJAR"})
					}
					if profile == "fapi1" {
						opts = append(opts, Opt{Name: "WithJARM"})
					}
					jcl := []JClient{{ID: 1, Keys: clientJWKS(1)}, {ID: 2, Keys: clientJWKS(2)}, {ID: 5, Keys: clientJWKS(5), JarAlg: reg.Jar, CibaAlg: reg.Ciba}}
					static := c07Clients(false)
					spec := WorldSpec{Profile: profile, Opts: opts, Static: static, Flavour: []string{"copy", "alias"}[len(*cases)%2]}
					jw, err := NewJWorld(spec, jc, jcl)
					if err != nil {
						stats["config-refused-by-provider.New"]++
						continue
					}
					c := JCase{Profile: profile, Opts: opts, JCfg: jc, Static: static, JCl: jcl,
						Note: fmt.Sprintf("%s CIBA JAR %s on the server (front-channel JAR %v), client 5: %s", profile, server, frontJAR, reg.Name)}
					do := func(o JOp) {
						obs := jw.Exec(len(c.Ops), o)
						c.Ops = append(c.Ops, o)
						c.Obs = append(c.Obs, obs)
						res := "refused"
						if obtained(obs.Obs) {
							res = "obtained"
						}
						stats[fmt.Sprintf("ciba-jar|server %s|client: %s|%s => %s", server, reg.Name, o.Cell, res)]++
					}
					plain := func(cell string) JOp {
						return JOp{Kind: "JBc", Base: Op{Kind: "BcAuthorize", Cred: Cred{ID: 5, OK: true}, Params: Params{Scopes: "openid email", LoginHint: "alice@example"},
							InitOK: true, Sub: "alice", Granted: "openid"}, Note: cell, Cell: cell}
					}
					signed := func(cell string) JOp {
						o := cibaRO(5)
						op := plain(cell)
						op.Jar, op.Obj = "value", &o
						if ctx.R.Intn(2) == 0 {
							op.Base.Params = Params{} // everything inside the object
						}
						return op
					}
					do(plain("plain backchannel request"))
					do(signed("signed backchannel request"))
					do(plain("plain backchannel request after a signed one"))
					*cases = append(*cases, c)
				}
			}
		}
	}
}
