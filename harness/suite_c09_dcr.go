package main

// Suite c09, part b2: the registration endpoints as a scenario matrix.
//
// goidc.Client.Secret is the one place where the provider keeps a client secret in clear: for clients
// one of whose methods in force - at the token endpoint, or at the introspection / revocation endpoint
// when those are enabled - is client_secret_jwt.  Whether a response may carry it depends on the
// operation only (the response that creates or rotates it), so the matrix is
//
//   server layout (which endpoints are enabled, with which method lists)
//   x client layout (token / introspection / revocation method: every position of client_secret_jwt,
//     alone and mixed with hashed-secret, key-based and public methods)
//   x token rotation on / off
//   x the life of a registration: create, read, read again, update (same layout), read, update (to the
//     next layout), read, read with a wrong token, an update refused for its metadata, read, delete with
//     a wrong token, read by another client's token, delete, read after delete; and the life of a
//     read-modify-write client (RFC 7592): updates whose bodies carry members named like the response's
//     own members (client_id, client_secret, registration_access_token, registration_client_uri,
//     client_secret_expires_at, client_id_issued_at) with the client's real current credentials, with
//     the first credentials ever issued, with another client's credentials and with chosen strings,
//     each followed by a read (and once by a plain update and a read)
//
// and every response goes through the scanner of c09Dcr.do: hashes of the store, secrets and
// registration tokens minted earlier (a secret may appear in the ONE response that minted it), any
// client_secret / registration_access_token member in a response that neither creates nor rotates.

import (
	"context"
	"encoding/json"
	"fmt"
	"net/http"
	"sort"
	"sync"

	"github.com/go-jose/go-jose/v4"
	"github.com/luikyv/go-oidc/pkg/goidc"
	"github.com/luikyv/go-oidc/pkg/provider"
)

type c09Layout struct {
	Name          string
	Token         []goidc.ClientAuthnType
	Introspection []goidc.ClientAuthnType // nil: endpoint disabled
	Revocation    []goidc.ClientAuthnType
}

type c09ClientLayout struct{ T, I, R string }

func c09DcrLayouts() []c09Layout {
	post, basic, sjwt, pk, none := goidc.ClientAuthnSecretPost, goidc.ClientAuthnSecretBasic, goidc.ClientAuthnSecretJWT, goidc.ClientAuthnPrivateKeyJWT, goidc.ClientAuthnNone
	return []c09Layout{
		{Name: "all three endpoints, every method", Token: []goidc.ClientAuthnType{post, basic, sjwt, pk, none},
			Introspection: []goidc.ClientAuthnType{post, basic, sjwt}, Revocation: []goidc.ClientAuthnType{post, basic, sjwt}},
		{Name: "client_secret_jwt at introspection only", Token: []goidc.ClientAuthnType{post, basic, pk, none},
			Introspection: []goidc.ClientAuthnType{sjwt, post}},
		{Name: "client_secret_jwt at revocation only", Token: []goidc.ClientAuthnType{post, pk, none},
			Revocation: []goidc.ClientAuthnType{sjwt, basic}},
		{Name: "token endpoint only", Token: []goidc.ClientAuthnType{post, basic, sjwt, pk, none}},
	}
}

// the stored clients, under either storage flavour
func (d *c09Dcr) eachClient(f func(*goidc.Client)) {
	if d.stores.Flavour == "alias" {
		for _, c := range d.stores.aliasC.Clients {
			f(c)
		}
		return
	}
	d.stores.copyC.each(f)
}

func hasMethod(l []goidc.ClientAuthnType, m string) bool {
	for _, x := range l {
		if string(x) == m {
			return true
		}
	}
	return false
}

// the client layouts a server layout admits: every combination of its lists (and "not given")
func (l c09Layout) clientLayouts() []c09ClientLayout {
	opt := func(x []goidc.ClientAuthnType) []string {
		r := []string{""}
		for _, m := range x {
			r = append(r, string(m))
		}
		return r
	}
	var out []c09ClientLayout
	for _, t := range l.Token {
		for _, i := range opt(l.Introspection) {
			for _, r := range opt(l.Revocation) {
				out = append(out, c09ClientLayout{string(t), i, r})
			}
		}
	}
	return out
}

func (c c09ClientLayout) holdsClearSecret(l c09Layout) bool {
	return c.T == "client_secret_jwt" || (l.Introspection != nil && c.I == "client_secret_jwt") || (l.Revocation != nil && c.R == "client_secret_jwt")
}

func c09DcrMatrix(ctx *RunCtx, s *c09Scan) {
	k := c08Keys()
	clientJWKS, _ := json.Marshal(jose.JSONWebKeySet{Keys: []jose.JSONWebKey{{Key: &k.clientEC.PublicKey, KeyID: "c-ec", Algorithm: "ES256", Use: "sig"}}})
	meta := func(c c09ClientLayout, name string) map[string]any {
		m := map[string]any{"redirect_uris": []string{"https://dyn.example/cb"}, "grant_types": []string{"authorization_code", "client_credentials"},
			"response_types": []string{"code"}, "scope": "openid email", "client_name": name, "token_endpoint_auth_method": c.T}
		switch c.T {
		case "none":
			m["grant_types"] = []string{"authorization_code"}
		case "private_key_jwt":
			m["jwks"] = json.RawMessage(clientJWKS)
		}
		if c.I != "" {
			m["introspection_endpoint_auth_method"] = c.I
		}
		if c.R != "" {
			m["revocation_endpoint_auth_method"] = c.R
		}
		return m
	}
	type cell struct {
		li, ci int
		lay    c09Layout
		cls    []c09ClientLayout
		scan   *c09Scan
	}
	var cells []*cell
	for li, lay := range c09DcrLayouts() {
		cls := lay.clientLayouts()
		// quick: per position of client_secret_jwt (token / introspection / revocation, alone and together)
		// two client layouts, and two layouts that keep no secret in clear; thorough: every layout
		perClass := map[string]int{}
		for ci, cl := range cls {
			class := fmt.Sprintf("%v%v%v", cl.T == "client_secret_jwt", lay.Introspection != nil && cl.I == "client_secret_jwt", lay.Revocation != nil && cl.R == "client_secret_jwt")
			perClass[class]++
			if ctx.Quick() && perClass[class] > 2 {
				continue
			}
			cells = append(cells, &cell{li, ci, lay, cls, newScan()})
		}
	}
	run := func(c *cell) {
		li, ci, lay, cls, s := c.li, c.ci, c.lay, c.cls, c.scan
		{
			cl := cls[ci]
			clear := cl.holdsClearSecret(lay)
			rotation := (ci+li)%2 == 0
			d := &c09Dcr{s: s, stores: NewStores([]string{"copy", "alias"}[(ci/2)%2])}
			s.cred = map[string]string{}
			s.history = []string{fmt.Sprintf("DCR matrix: server %q, client %+v, rotation=%v", lay.Name, cl, rotation)}
			opts := []provider.ProviderOption{
				provider.WithClientStorage(d.stores.Clients()),
				provider.WithScopes(goidc.ScopeOpenID, goidc.NewScope("email")),
				provider.WithAuthorizationCodeGrant(), provider.WithClientCredentialsGrant(),
				provider.WithTokenAuthnMethods(lay.Token[0], lay.Token[1:]...),
				provider.WithPrivateKeyJWTSignatureAlgs(goidc.ES256),
				provider.WithIDTokenSignatureAlgs(goidc.ES256),
				provider.WithDCR(func(_ *http.Request, m *goidc.ClientMetaInfo) error { return d.hookErr }, nil),
			}
			if lay.Introspection != nil {
				opts = append(opts, provider.WithTokenIntrospection(func(*goidc.Client) bool { return true }, lay.Introspection[0], lay.Introspection[1:]...))
			}
			if lay.Revocation != nil {
				opts = append(opts, provider.WithTokenRevocation(func(*goidc.Client) bool { return true }, lay.Revocation[0], lay.Revocation[1:]...))
			}
			if rotation {
				opts = append(opts, provider.WithDCRTokenRotation())
			}
			jwks := goidc.JSONWebKeySet{Keys: []goidc.JSONWebKey{{Key: k.ec256, KeyID: "srv-es256", Algorithm: "ES256", Use: "sig"}}}
			p, err := provider.New(goidc.ProfileOpenID, issuer, func(context.Context) (goidc.JSONWebKeySet, error) { return jwks, nil }, opts...)
			if err != nil {
				panic(fmt.Sprintf("c09 dcr matrix: %v", err))
			}
			d.h = p.Handler()
			learn := func(c *dcrClient, m map[string]any) {
				if v, _ := m["client_secret"].(string); v != "" {
					c.secret = v
					c.secrets = append(c.secrets, v)
				}
				if v, _ := m["registration_access_token"].(string); v != "" {
					c.regToken = v
					c.regTokens = append(c.regTokens, v)
				}
			}
			register := func(c c09ClientLayout, name string) *dcrClient {
				code, m := d.do("POST", "/register", meta(c, name), "", nil, rotation, nil)
				if code != 201 {
					panic(fmt.Sprintf("c09 dcr matrix: registration of %+v on %q refused: %d %v", c, lay.Name, code, m))
				}
				dc := &dcrClient{id: m["client_id"].(string)}
				learn(dc, m)
				d.clients = append(d.clients, dc)
				return dc
			}
			a := register(cl, "A")
			if clear && a.secret == "" {
				panic("c09 dcr matrix: a client_secret_jwt registration returned no secret")
			}
			other := register(cls[(ci+1)%len(cls)], "B")
			read := func(c *dcrClient, tok string, who *dcrClient) { d.do("GET", "/register/"+c.id, nil, tok, who, rotation, nil) }
			update := func(c *dcrClient, body map[string]any) int {
				code, m := d.do("PUT", "/register/"+c.id, body, c.regToken, c, rotation, nil)
				if code == 200 {
					learn(c, m)
				}
				return code
			}
			read(a, a.regToken, a)
			update(a, meta(cl, "A again"))
			read(a, a.regToken, a)
			// the read-modify-write client of RFC 7592: it PUTs back the document it received, so the body
			// carries members named like the response's own members.  real: the client's CURRENT credentials
			// (the still valid registration token, the secret an earlier response issued); otherwise another
			// client's credentials and strings the client chose.  Whatever the body said, the responses that
			// follow - the update itself, rotating or not, and every read - show a secret / a registration
			// token only if that very response minted it.
			reserved := func(m map[string]any, real bool, variant int) map[string]any {
				if real {
					m["client_id"], m["registration_access_token"] = a.id, a.regToken
					m["registration_client_uri"] = issuer + "/register/" + a.id
					m["client_secret_expires_at"], m["client_id_issued_at"] = 0, 1700000000
					if a.secret != "" {
						m["client_secret"] = a.secret
					} else if len(a.secrets) > 0 {
						m["client_secret"] = a.secrets[len(a.secrets)-1]
					} else {
						m["client_secret"] = "no-secret-was-ever-issued-0123456789"
					}
					if variant == 1 {
						// the document of the registration response: the first secret and token ever issued
						m["registration_access_token"] = a.regTokens[0]
						if len(a.secrets) > 0 {
							m["client_secret"] = a.secrets[0]
						}
					}
					return m
				}
				m["client_id"], m["registration_access_token"] = other.id, other.regToken
				m["registration_client_uri"] = "https://evil.example/register/" + a.id
				m["client_secret_expires_at"], m["client_id_issued_at"] = "never", nil
				m["client_secret"] = "a-secret-chosen-by-the-client-0123456789"
				if other.secret != "" && variant == 0 {
					m["client_secret"] = other.secret
				}
				return m
			}
			noCred := func(where string, m map[string]any) {
				for _, k := range []string{"client_secret", "registration_access_token"} {
					if v, ok := m[k]; ok {
						s.fail("register", map[string]string{"client_secret": "client-secret", "registration_access_token": "registration-token"}[k],
							fmt.Sprintf("%s shows a %s member (%v) although it neither creates nor rotates one: a member of an earlier request body came back", where, k, truncate(fmt.Sprint(v), 20)),
							map[string]any{"request": where, "response": m})
					}
				}
			}
			readDoc := func(where string) {
				code, m := d.do("GET", "/register/"+a.id, nil, a.regToken, a, rotation, nil)
				if code == 200 {
					noCred("GET after "+where, m)
				}
				s.stats["matrix/dcr/read-modify-write: read after "+where]++
			}
			for variant, where := range []string{"a PUT of the client's current credentials under the reserved names", "a PUT of the first credentials issued under the reserved names"} {
				body := reserved(meta(cl, "A read-modify-write"), true, variant)
				sent := fmt.Sprint(body["client_secret"])
				code, m := d.do("PUT", "/register/"+a.id, body, a.regToken, a, rotation, nil)
				if code == 200 {
					if v, _ := m["client_secret"].(string); v != "" && v == sent {
						s.fail("register", "client-secret", "an update answered with the client_secret member of its own request body", map[string]any{"request": where, "response": m})
					}
					if _, ok := m["registration_access_token"]; ok && !rotation {
						s.fail("register", "registration-token", "an update without rotation shows a registration_access_token member", map[string]any{"request": where, "response": m})
					}
					learn(a, m)
				}
				readDoc(where)
				// a non-rotating / rotating update that follows, with a plain body: the custom attributes are replaced
				if variant == 0 {
					update(a, meta(cl, "A plain again"))
					readDoc("a plain update that followed " + where)
				}
			}
			for variant := 0; variant < 2; variant++ {
				where := "a PUT of another client's credentials / chosen strings under the reserved names"
				code, m := d.do("PUT", "/register/"+a.id, reserved(meta(cl, "A with foreign members"), false, variant), a.regToken, a, rotation, nil)
				if code == 200 {
					if v, _ := m["client_secret"].(string); v == "a-secret-chosen-by-the-client-0123456789" {
						s.fail("register", "client-secret", "an update answered with the client_secret member of its own request body", map[string]any{"request": where, "response": m})
					}
					learn(a, m)
				}
				readDoc(where)
			}
			s.stats[fmt.Sprintf("matrix/dcr/read-modify-write | method %s|%s|%s | rotation=%v", cl.T, cl.I, cl.R, rotation)]++
			next := cls[(ci+len(cls)/2+1)%len(cls)]
			update(a, meta(next, "A with other methods"))
			read(a, a.regToken, a)
			bad := meta(cl, "A refused")
			bad["scope"] = "openid unknown-scope"
			update(a, bad)
			read(a, a.regToken, a)
			d.hookErr = fmt.Errorf("metadata hook failed: %s", plantedFailureSecret)
			update(a, meta(cl, "A refused by the hook"))
			d.hookErr = nil
			read(a, a.regToken, a)
			read(a, other.regToken, other) // another client's token on A
			d.do("DELETE", "/register/"+a.id, nil, "wrong-token", a, rotation, nil)
			if code, _ := d.do("DELETE", "/register/"+a.id, nil, a.regToken, a, rotation, nil); code == 204 {
				a.deleted = true
			}
			read(a, a.regToken, a)
			read(other, other.regToken, other)
			s.stats[fmt.Sprintf("matrix/dcr/server:%s", lay.Name)]++
			s.stats[fmt.Sprintf("matrix/dcr/clear-secret-kept=%v", clear)]++
			s.stats[fmt.Sprintf("matrix/dcr/client:%s|%s|%s", cl.T, cl.I, cl.R)]++
		}
	}
	var wg sync.WaitGroup
	sem := make(chan struct{}, 12)
	for _, c := range cells {
		wg.Add(1)
		sem <- struct{}{}
		go func(c *cell) {
			defer wg.Done()
			defer func() { <-sem }()
			run(c)
		}(c)
	}
	wg.Wait()
	// merged in matrix order: the first cell that exhibits a signature provides its replay
	for _, c := range cells {
		var sigs []string
		for sig := range c.scan.findings {
			sigs = append(sigs, sig)
		}
		sort.Strings(sigs)
		for _, sig := range sigs {
			if _, ok := s.findings[sig]; !ok {
				s.findings[sig] = c.scan.findings[sig]
			}
		}
		for k, v := range c.scan.stats {
			s.stats[k] += v
		}
	}
	s.stats["matrix/dcr/cells"] += len(cells)
}
