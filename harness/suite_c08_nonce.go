package main

// C08, suite c08nonce — "ID tokens echo the request's nonce", for requests whose parameters arrive in
// two places.  A DETERMINISTIC matrix (the same for every seed; only the nonce and state strings
// are drawn from the seed) is run against the REAL provider:
//
//   profile        OpenID (pushed / signed parameters win, the query of /authorize completes the
//                  missing ones: mergeParams), FAPI 2.0 and FAPI 1.0 (the query is ignored)
//   request form   plain GET /authorize | POST /par then /authorize?request_uri | JAR by value
//                  (request=<ES256 request object> at /authorize) | POST /par carrying a request object
//   nonce placement  inside only | outside only | both, equal | both, different | neither
//                  (a plain request has only "outside": outside only, neither)
//   response type  code, code id_token, code id_token token, code token, id_token, id_token token
//                  (FAPI 2.0: code; FAPI 1.0: code id_token), response modes "", form_post, jwt in turn
//   split          the other parameters complete inside with the minimum outside, or the minimum
//                  inside and complete outside (OpenID, code and code id_token)
//
// For every flow EVERY ID token delivered - in the authorization response (query, fragment,
// form_post, or inside a JARM response object), in the token response of the authorization_code
// grant and in the one of the refresh_token grant - is verified under the keys published at /jwks
// (standard library, suite c08's open) and its nonce claim compared with the nonce of the MERGED
// request: inner if non-empty else outer under OpenID, inner only under FAPI, the query's own for a
// plain request; present and equal when that nonce is non-empty, absent when it is empty.
// A failed check is a Finding "id_token:nonce-merged" whose replay holds the exact input.
// Refusals (e.g. response type id_token without a nonce in the merged request) are recorded, not
// fatal.  Each flow is also a case for Coq (Corr/C08NonceCorr.v): check_c08n compares where the flow
// stopped and the nonce claims with the model (Model/C08Nonce.v, C08NonceReq.v), mon_c08n judges the
// observed claims alone (clause 1).

import (
	"context"
	"encoding/json"
	"fmt"
	"net/http"
	"net/url"
	"os"
	"path/filepath"
	"sort"
	"strings"
	"time"

	"github.com/go-jose/go-jose/v4"
	"github.com/luikyv/go-oidc/pkg/goidc"
	"github.com/luikyv/go-oidc/pkg/provider"
)

const c08nSub = "alice"
const c08nScopes = "openid email"
const c08nClientKid = "c-sig"

type c08nProfile struct {
	Name    string
	Profile goidc.Profile
	Coq     string
}

var c08nProfiles = []c08nProfile{
	{"openid", goidc.ProfileOpenID, "POpenID"},
	{"fapi2", goidc.ProfileFAPI2, "PFapi2"},
	{"fapi1", goidc.ProfileFAPI1, "PFapi1"},
}

var c08nForms = []struct{ Name, Coq string }{{"plain", "FPlain"}, {"par", "FPar"}, {"jar", "FJar"}, {"par+jar", "FParJar"}}
var c08nPlacements = []string{"inside-only", "outside-only", "both-equal", "both-different", "neither"}
var c08nRespTypes = []string{"code", "code id_token", "code id_token token", "code token", "id_token", "id_token token"}
var c08nModes = []string{"", "form_post", "jwt"}

// the provider options as the system model's Config.build sees them (kept in step with c08nProvider)
func c08nOpts() []Opt {
	return []Opt{{Name: "WithScopes", Scopes: []Scope{{ID: "openid"}, {ID: "email"}}}, {Name: "WithAuthorizationCodeGrant"},
		{Name: "WithImplicitGrant"}, {Name: "WithRefreshTokenGrant", Z: 600}, {Name: "WithPAR", Z: 60}, {Name: "WithJAR"}, {Name: "WithJARM"}}
}

func c08nClientSpec() ClientSpec {
	return ClientSpec{ID: 1, Grants: []string{"authorization_code", "implicit", "refresh_token"},
		RespTypes: []string{"code", "token", "id_token", "id_token token", "code id_token", "code token", "code id_token token"},
		Redirects: []string{c08Redirect}, Scopes: c08nScopes}
}

func c08nClient() *goidc.Client {
	k := c08Keys()
	c := &goidc.Client{ID: c08Client, HashedSecret: bcryptOf(c08Secret)}
	c.TokenAuthnMethod = goidc.ClientAuthnSecretPost
	c.GrantTypes = []goidc.GrantType{goidc.GrantAuthorizationCode, goidc.GrantImplicit, goidc.GrantRefreshToken}
	c.ResponseTypes = []goidc.ResponseType{"code", "token", "id_token", "id_token token", "code id_token", "code token", "code id_token token"}
	c.RedirectURIs = []string{c08Redirect}
	c.ScopeIDs = c08nScopes
	set := jose.JSONWebKeySet{Keys: []jose.JSONWebKey{{Key: &k.clientEC.PublicKey, KeyID: c08nClientKid, Algorithm: "ES256", Use: "sig"}}}
	b, _ := json.Marshal(set)
	c.PublicJWKS = b
	return c
}

func c08nProvider(p goidc.Profile) (http.Handler, error) {
	k := c08Keys()
	jwks := k.serverJWKS(false)
	es := goidc.SignatureAlgorithm("ES256")
	op, err := provider.New(p, issuer, func(context.Context) (goidc.JSONWebKeySet, error) { return jwks, nil },
		provider.WithScopes(goidc.ScopeOpenID, goidc.NewScope("email")),
		provider.WithAuthorizationCodeGrant(), provider.WithImplicitGrant(),
		provider.WithRefreshTokenGrant(func(*goidc.Client, goidc.GrantInfo) bool { return true }, 600),
		provider.WithPAR(60), provider.WithJAR(es), provider.WithJARM(es),
		provider.WithTokenAuthnMethods(goidc.ClientAuthnSecretPost),
		provider.WithIDTokenSignatureAlgs(es),
		provider.WithIDTokenLifetime(600),
		provider.WithStaticClient(c08nClient()),
		provider.WithTokenOptions(func(goidc.GrantInfo, *goidc.Client) goidc.TokenOptions {
			return goidc.NewOpaqueTokenOptions(goidc.DefaultOpaqueTokenLength, 300)
		}),
		provider.WithPolicy(goidc.NewPolicy("main",
			func(*http.Request, *goidc.Client, *goidc.AuthnSession) bool { return true },
			func(_ http.ResponseWriter, _ *http.Request, s *goidc.AuthnSession) (goidc.AuthnStatus, error) {
				s.SetUserID(c08nSub)
				s.GrantScopes(s.Scopes)
				return goidc.StatusSuccess, nil
			})),
	)
	if err != nil {
		return nil, err
	}
	return op.Handler(), nil
}

// the authorization parameters of one side, as form / query values
func c08nValues(p Params) url.Values {
	v := url.Values{}
	set := func(k, s string) {
		if s != "" {
			v.Set(k, s)
		}
	}
	set("redirect_uri", p.Redirect)
	set("response_type", p.RespType)
	set("response_mode", p.RespMode)
	set("scope", p.Scopes)
	set("state", p.State)
	set("nonce", p.Nonce)
	return v
}

// a request object carrying p, signed with the client's ES256 key
func c08nRequestObject(p Params, n int) string {
	k := c08Keys()
	now := time.Now().Unix()
	claims := map[string]any{"iss": c08Client, "aud": []string{issuer}, "client_id": c08Client, "iat": now, "nbf": now, "exp": now + 300,
		"jti": fmt.Sprintf("c08n-jti-%d-%d", n, time.Now().UnixNano())}
	for key, vs := range c08nValues(p) {
		claims[key] = vs[0]
	}
	payload, _ := json.Marshal(claims)
	sg, err := jose.NewSigner(jose.SigningKey{Algorithm: jose.ES256, Key: k.clientEC},
		(&jose.SignerOptions{}).WithType("JWT").WithHeader("kid", c08nClientKid))
	if err != nil {
		panic(err)
	}
	jws, err := sg.Sign(payload)
	if err != nil {
		panic(err)
	}
	s, _ := jws.CompactSerialize()
	return s
}

// one ID token seen
type c08nSeen struct {
	Site    int    // 1 authorization response, 2 token response (authorization_code), 3 token response (refresh_token)
	Where   string // how it was delivered
	Present bool   // the nonce claim is present
	Nonce   string
	Claims  map[string]any
	Raw     string
}

type c08nFlow struct {
	Index               int
	Profile, Form       string
	formCoq, profileCoq string
	Placement           string
	RespType, RespMode  string
	Split               string
	Inner, Outer        Params
	Expected            string // the nonce of the merged request
	Requests            []string
	Verdict             int    // 0 served, 1 refused at /par, 2 refused at /authorize
	Refusal             string `json:",omitempty"`
	Tokens              []c08nSeen
}

func (f *c08nFlow) note() string {
	return fmt.Sprintf("profile=%s form=%s nonce=%s type=%q mode=%q split=%s", f.Profile, f.Form, f.Placement, f.RespType, f.RespMode, f.Split)
}

// the merged-request rule, Go side (Model/C08Nonce.v merged_nonce_rule)
func c08nExpected(profile, form, inner, outer string) string {
	switch {
	case form == "plain":
		return outer
	case profile != "openid":
		return inner
	case inner != "":
		return inner
	}
	return outer
}

type c08nRun struct {
	ctx      *RunCtx
	r        *c08Run // suite c08's verifier of real bytes (open, fail)
	flows    []*c08nFlow
	findings map[string]Finding
	stub     c08Cfg
}

func (x *c08nRun) fail(sig, what string, f *c08nFlow, extra map[string]any) {
	x.ctx.Meta.Dist["FAILED "+sig]++
	if _, ok := x.findings[sig]; ok {
		return
	}
	rp := map[string]any{"flow": f.note(), "profile": f.Profile, "request_form": f.Form, "nonce_placement": f.Placement,
		"response_type": f.RespType, "response_mode": f.RespMode, "inner_parameters": c08nValues(f.Inner), "outer_parameters": c08nValues(f.Outer),
		"expected_nonce": f.Expected, "requests": f.Requests, "provider_options": cList(c08nOpts(), Opt.coq), "id_tokens_seen": f.Tokens}
	for k, v := range extra {
		rp[k] = v
	}
	x.findings[sig] = Finding{Property: "C08", Signature: sig, What: what, Replay: rp}
}

// see verifies and decodes one ID token and records its nonce claim
func (x *c08nRun) see(f *c08nFlow, site int, where, raw string, keys []pubJWK) {
	x.r.site = where
	j := x.r.open("id_token", raw, "ES256", 0, keys, x.stub)
	s := c08nSeen{Site: site, Where: where, Raw: raw, Claims: j.Claims}
	if j.Claims != nil {
		s.Nonce, s.Present = j.Claims["nonce"].(string)
		if _, has := j.Claims["nonce"]; has && !s.Present {
			s.Present, s.Nonce = true, fmt.Sprint(j.Claims["nonce"])
		}
	}
	f.Tokens = append(f.Tokens, s)
	x.ctx.Meta.Dist["id_token@"+where]++
	ok := (f.Expected == "" && !s.Present) || (f.Expected != "" && s.Present && s.Nonce == f.Expected)
	if !ok {
		got := "no nonce claim"
		if s.Present {
			got = fmt.Sprintf("nonce = %q", s.Nonce)
		}
		want := "no nonce claim (the merged request has no nonce)"
		if f.Expected != "" {
			want = fmt.Sprintf("nonce = %q", f.Expected)
		}
		x.fail("id_token:nonce-merged", fmt.Sprintf("id_token: the ID token delivered in the %s carries %s; the merged authorization request (%s) says %s [inner nonce %q, outer nonce %q]",
			where, got, f.note(), want, f.Inner.Nonce, f.Outer.Nonce), f,
			map[string]any{"delivered_in": where, "id_token": raw, "claims": j.Claims})
	}
}

func c08nShow(method, target string, form url.Values) string {
	if form != nil {
		return method + " " + target + " " + form.Encode()
	}
	return method + " " + target
}

func (x *c08nRun) run(h http.Handler, keys []pubJWK, f *c08nFlow) {
	post := func(target string, form url.Values) (int, map[string]any) {
		f.Requests = append(f.Requests, c08nShow("POST", target, form))
		rec := c08Serve(h, "POST", target, form, nil)
		var m map[string]any
		_ = json.Unmarshal(rec.Body.Bytes(), &m)
		return rec.Code, m
	}
	q := c08nValues(f.Outer)
	q.Set("client_id", c08Client)
	switch f.Form {
	case "par", "par+jar":
		form := url.Values{"client_id": {c08Client}, "client_secret": {c08Secret}}
		if f.Form == "par" {
			for k, vs := range c08nValues(f.Inner) {
				form[k] = vs
			}
		} else {
			form.Set("request", c08nRequestObject(f.Inner, f.Index))
		}
		code, m := post("/par", form)
		uri := claimStr(m, "request_uri")
		if code != 201 || uri == "" {
			f.Verdict, f.Refusal = 1, fmt.Sprintf("%d %s", code, claimStr(m, "error"))
			return
		}
		q.Set("request_uri", uri)
	case "jar":
		q.Set("request", c08nRequestObject(f.Inner, f.Index))
	}
	target := "/authorize?" + q.Encode()
	f.Requests = append(f.Requests, "GET "+target)
	rec := c08Serve(h, "GET", target, nil, nil)
	vals, transport := c08NavParams(rec)
	if vals == nil {
		f.Verdict, f.Refusal = 2, fmt.Sprintf("%d %s", rec.Code, truncate(rec.Body.String(), 200))
		return
	}
	where := "authorization response (" + transport + ")"
	if resp := vals.Get("response"); resp != "" {
		x.r.site = "authorize"
		jarm := x.r.open("jarm", resp, "ES256", 0, keys, x.stub)
		inner := url.Values{}
		for k, v := range jarm.Claims {
			if s, ok := v.(string); ok {
				inner.Set(k, s)
			}
		}
		vals = inner
		where = "authorization response (JARM response object, " + transport + ")"
	}
	if e := vals.Get("error"); e != "" {
		f.Verdict, f.Refusal = 2, e
		return
	}
	if idt := vals.Get("id_token"); idt != "" {
		x.see(f, 1, where, idt, keys)
	}
	code := vals.Get("code")
	if code == "" {
		return
	}
	status, m := post("/token", url.Values{"grant_type": {"authorization_code"}, "code": {code}, "redirect_uri": {c08Redirect},
		"client_id": {c08Client}, "client_secret": {c08Secret}})
	if status != 200 {
		x.fail("c08nonce:code-not-redeemed", fmt.Sprintf("c08nonce: the code of a served flow (%s) is not redeemed: %d %v", f.note(), status, m), f, nil)
		return
	}
	if idt := claimStr(m, "id_token"); idt != "" {
		x.see(f, 2, "token response (authorization_code)", idt, keys)
	}
	rt := claimStr(m, "refresh_token")
	if rt == "" {
		x.fail("c08nonce:no-refresh-token", fmt.Sprintf("c08nonce: no refresh token although the provider issues them (%s)", f.note()), f, nil)
		return
	}
	status, m = post("/token", url.Values{"grant_type": {"refresh_token"}, "refresh_token": {rt}, "client_id": {c08Client}, "client_secret": {c08Secret}})
	if status != 200 {
		x.fail("c08nonce:refresh-refused", fmt.Sprintf("c08nonce: the refresh token of a served flow (%s) is refused: %d %v", f.note(), status, m), f, nil)
		return
	}
	if idt := claimStr(m, "id_token"); idt != "" {
		x.see(f, 3, "token response (refresh_token)", idt, keys)
	}
}

func (f *c08nFlow) coq() string {
	var obs []string
	for _, t := range f.Tokens {
		obs = append(obs, fmt.Sprintf("mkNObs %d %s %s", t.Site, cB(t.Present), cS(t.Nonce)))
	}
	return fmt.Sprintf("mkNCase cfg_%s the_client %s\n    %s\n    %s\n    %s %d [%s]", f.Profile, f.formCoq, f.Inner.coq(), f.Outer.coq(),
		cS(c08nSub), f.Verdict, strings.Join(obs, "; "))
}

const c08nHeader = `From Verif Require Import Base Scope Types Prog Pop Token Authorize Config C08Nonce.
From Verif.Corr Require Import C08NonceCorr.
Local Open Scope N_scope.
`

func (x *c08nRun) write() {
	ctx := x.ctx
	per := 150
	var pre strings.Builder
	pre.WriteString(c08nHeader)
	for _, p := range c08nProfiles {
		fmt.Fprintf(&pre, "Definition cfg_%s : option config := build %s %s.\n", p.Name, p.Coq, cList(c08nOpts(), Opt.coq))
	}
	fmt.Fprintf(&pre, "Definition the_client : client := %s.\n", c08nClientSpec().coq())
	for k := 0; k*per < len(x.flows); k++ {
		hi := (k + 1) * per
		if hi > len(x.flows) {
			hi = len(x.flows)
		}
		var b strings.Builder
		b.WriteString(pre.String())
		var names []string
		for i, f := range x.flows[k*per : hi] {
			fmt.Fprintf(&b, "(*CASE %d %s*)\nDefinition c_%d : c08ncase :=\n  %s.\n", k*per+i, strings.ReplaceAll(f.note(), "*)", ""), k*per+i, f.coq())
			names = append(names, fmt.Sprintf("c_%d", k*per+i))
		}
		b.WriteString("Definition cases : list c08ncase := [" + strings.Join(names, "; ") + "].\n")
		b.WriteString("Definition corr := Eval vm_compute in map check_c08n cases.\nPrint corr.\n")
		b.WriteString("Definition mon := Eval vm_compute in map mon_c08n cases.\nPrint mon.\n")
		name := fmt.Sprintf("cases_%03d.v", k)
		if err := os.WriteFile(filepath.Join(ctx.Out, name), []byte(b.String()), 0o644); err != nil {
			panic(err)
		}
		ctx.Meta.Files = append(ctx.Meta.Files, name)
	}
	type jc struct {
		Index int
		Note  string
		Spec  any
		Ops   []string
		Obs   any
	}
	var all []jc
	seen := map[string]bool{}
	for i, f := range x.flows {
		var toks []map[string]any
		key := fmt.Sprintf("%s|%s|%s|%s|%d", f.Profile, f.Form, f.Placement, f.RespType, f.Verdict)
		for _, t := range f.Tokens {
			toks = append(toks, map[string]any{"site": t.Site, "delivered_in": t.Where, "nonce_present": t.Present, "nonce": t.Nonce, "claims": t.Claims, "id_token": t.Raw})
			key += fmt.Sprintf("|%d:%v", t.Site, t.Present)
		}
		seen[key] = true
		all = append(all, jc{i, f.note(), map[string]any{"profile": f.Profile, "request_form": f.Form, "nonce_placement": f.Placement,
			"response_type": f.RespType, "response_mode": f.RespMode, "split": f.Split, "inner_parameters": c08nValues(f.Inner),
			"outer_parameters": c08nValues(f.Outer), "expected_nonce": f.Expected, "provider_options": cList(c08nOpts(), Opt.coq),
			"verdict": []string{"served", "refused at /par", "refused at /authorize"}[f.Verdict], "refusal": f.Refusal},
			f.Requests, toks})
		ctx.Meta.Ops += len(f.Requests)
		ctx.Meta.Dist["profile/"+f.Profile]++
		ctx.Meta.Dist["form/"+f.Form]++
		ctx.Meta.Dist["placement/"+f.Placement]++
		ctx.Meta.Dist["type/"+f.RespType]++
		ctx.Meta.Dist["verdict/"+[]string{"served", "refused at par", "refused at authorize"}[f.Verdict]]++
		ctx.Meta.Dist[fmt.Sprintf("matrix/%s %s %s", f.Profile, f.Form, f.Placement)]++
	}
	jb, _ := json.Marshal(all)
	_ = os.WriteFile(filepath.Join(ctx.Out, "cases.json"), jb, 0o644)
	ctx.Meta.Cases = len(x.flows)
	ctx.Meta.Distinct = len(seen)
	for _, src := range []map[string]Finding{x.findings, x.r.findings} {
		var sigs []string
		for s := range src {
			sigs = append(sigs, s)
		}
		sort.Strings(sigs)
		for _, s := range sigs {
			ctx.Meta.Findings = append(ctx.Meta.Findings, src[s])
		}
	}
	for k, v := range x.r.arts {
		ctx.Meta.Dist["verified/"+k] += v
	}
	if len(all) > 0 {
		ctx.Meta.Samples = append(ctx.Meta.Samples, all[0], all[len(all)/2])
	}
}

func init() {
	register(&Suite{Name: "c08nonce", Run: func(ctx *RunCtx) {
		x := &c08nRun{ctx: ctx, r: newC08Run(ctx), findings: map[string]Finding{},
			stub: c08Cfg{SrvAlg: "ES256", IdtLifetime: 600, TokLifetime: 300, JARM: true, SubType: "public", Sub: c08nSub, Scopes: c08nScopes}}
		n := 0
		for _, prof := range c08nProfiles {
			h, err := c08nProvider(prof.Profile)
			if err != nil {
				panic(fmt.Sprintf("c08nonce: provider.New(%s): %v", prof.Name, err))
			}
			rec := c08Serve(h, "GET", "/jwks", nil, nil)
			keys, err := parseJWKS(rec.Body.Bytes())
			if err != nil || rec.Code != 200 {
				panic(fmt.Sprintf("c08nonce: GET /jwks: %d %v", rec.Code, err))
			}
			types := c08nRespTypes
			switch prof.Name {
			case "fapi2":
				types = []string{"code"}
			case "fapi1":
				types = []string{"code id_token"}
			}
			for _, rt := range types {
				splits := []string{"inner-complete"}
				if prof.Name == "openid" && (rt == "code" || rt == "code id_token") {
					splits = append(splits, "outer-complete")
				}
				for _, split := range splits {
					for _, form := range c08nForms {
						if form.Name == "plain" && split != "inner-complete" {
							continue
						}
						for _, pl := range c08nPlacements {
							if form.Name == "plain" && pl != "outside-only" && pl != "neither" {
								continue
							}
							n++
							// quick: the response modes in turn; thorough: every mode in every cell
							modes := []string{c08nModes[n%len(c08nModes)]}
							if !ctx.Quick() {
								modes = c08nModes
							}
							for _, mode := range modes {
								ni := fmt.Sprintf("n-in-%d", ctx.R.Int63())
								no := fmt.Sprintf("n-out-%d", ctx.R.Int63())
								st := fmt.Sprintf("st-%d", ctx.R.Intn(1000000))
								base := Params{Redirect: c08Redirect, RespType: rt, RespMode: mode, Scopes: c08nScopes, State: st}
								var inner, outer Params
								switch {
								case form.Name == "plain":
									outer = base
								case split == "inner-complete":
									// everything inside; outside what the OpenID profile insists on repeating
									inner, outer = base, Params{RespType: rt, Scopes: c08nScopes}
								default:
									// the minimum inside, the request itself outside
									inner, outer = Params{State: st + "-in"}, base
								}
								switch pl {
								case "inside-only":
									inner.Nonce = ni
								case "outside-only":
									outer.Nonce = no
								case "both-equal":
									inner.Nonce, outer.Nonce = ni, ni
								case "both-different":
									inner.Nonce, outer.Nonce = ni, no
								}
								f := &c08nFlow{Index: len(x.flows), Profile: prof.Name, profileCoq: prof.Coq, Form: form.Name, formCoq: form.Coq, Placement: pl,
									RespType: rt, RespMode: mode, Split: split, Inner: inner, Outer: outer}
								f.Expected = c08nExpected(prof.Name, form.Name, inner.Nonce, outer.Nonce)
								x.run(h, keys, f)
								x.flows = append(x.flows, f)
							}
						}
					}
				}
			}
		}
		x.write()
		ctx.Meta.Rule = "deterministic matrix (the same for every seed; nonce and state strings drawn from the seed): profile (OpenID, FAPI 2.0, FAPI 1.0) x request form (plain, PAR, JAR by value, PAR carrying a request object) x nonce placement (inside only, outside only, both equal, both different, neither; plain: outside only, neither) x response type (code, code id_token, code id_token token, code token, id_token, id_token token; FAPI 2.0 code; FAPI 1.0 code id_token) x split of the other parameters (complete inside / complete outside; OpenID, code and code id_token) with response modes \"\", form_post, jwt (quick: in turn; thorough: each); every ID token of the flow (authorization response incl. JARM, authorization_code and refresh_token responses) verified under GET /jwks and its nonce claim compared with the nonce of the merged request; distinct = distinct (profile, form, placement, response type, verdict, ID tokens seen)"
	}})
}
