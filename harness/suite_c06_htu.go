package main

// C06, suite c06htu — the htu comparison of dpop.ValidateJWT on concrete strings.
//
// The deviation catalogue of c06dev presents eleven htu VARIANTS (Pop.v htu_v) rendered by
// sysops.go.  This suite probes the comparison itself: for every endpoint that takes DPoP proofs
// (token endpoint for client_credentials, authorization_code, refresh_token by a public client and
// CIBA; PAR; userinfo GET and POST, with and without a query string in the request; the helper
// Provider.TokenInfoFromRequest, with and without a query string; bc-authorize of a push-mode
// client) an otherwise valid request (right key, method, fresh iat, jti, ath) is sent once per htu
// STRING of a seed-independent catalogue:
//   - the spellings strutil.NormalizeURL identifies with the request URL (case of scheme and host,
//     default port, empty port, one trailing slash, query, fragment, all at once, the mTLS host alias);
//   - other path / endpoint / host / scheme / port, longer paths, double trailing slash, a bare "?",
//     path-only and scheme-relative references, an unparsable URL;
//   - EVERY strict string prefix of the request URL (the bare issuer, the issuer with "/", the path
//     prefix alone, truncated paths, truncated host names, "https://", ...), the empty string, an
//     absent htu claim, and - where the request carries a query string - the URL without it.
// Per probe the harness records what strutil.NormalizeURL makes of the string and whether the endpoint
// accepted the request; Corr/C06Htu.v compares both with Model/Htu.v (normalize_url, htu_match
// through Pop.validate_jwt) and evaluates the property on the observations alone: an accepted probe
// whose htu is a strict prefix of the request URL (clause 6) or does not normalise to a URL of the
// request (clause 1) is a violation.

import (
	"encoding/json"
	"fmt"
	"net/http"
	"net/url"
	"os"
	"path/filepath"
	"strings"
	"time"

	"github.com/go-jose/go-jose/v4"
	"github.com/go-jose/go-jose/v4/jwt"
	"github.com/luikyv/go-oidc/internal/strutil"
	"github.com/luikyv/go-oidc/pkg/goidc"
)

const c06uMTLSHost = "https://mtls.as.example" // what world.go passes to provider.WithMTLS

type c06uProbe struct {
	Label    string
	Htu      string
	Absent   bool `json:",omitempty"` // the proof has no htu claim at all (read as "")
	Norm     string
	NormErr  bool `json:",omitempty"`
	Accepted bool
	Status   int
	Err      string `json:",omitempty"`
}

type c06uCase struct {
	Note     string
	Mode     string
	Prefix   string
	Endpoint string
	Method   string
	Hosts    []string
	URI      string
	Probes   []c06uProbe
	Opts     []Opt
}

// ---- the catalogue ----
type c06uForm struct {
	Label  string
	Htu    string
	Absent bool
}

// hosts[0] + uri is the request URL; uri carries the path prefix and, possibly, a query string
func c06uCatalogue(hosts []string, uri string, pfx string) []c06uForm {
	host := hosts[0]
	aud := host + uri
	path := uri
	if i := strings.IndexByte(uri, '?'); i >= 0 {
		path = uri[:i]
	}
	bare := strings.TrimPrefix(host, "https://") // as.example
	sibling := pfx + "/token"
	if path == sibling {
		sibling = pfx + "/userinfo"
	}
	l := []c06uForm{
		{Label: "exact", Htu: aud},
		{Label: "host-case", Htu: "https://" + strings.ToUpper(bare[:2]) + bare[2:] + path},
		{Label: "scheme-case", Htu: "HTTPS://" + bare + path},
		{Label: "default-port", Htu: "https://" + bare + ":443" + path},
		{Label: "empty-port", Htu: "https://" + bare + ":" + path},
		{Label: "trailing-slash", Htu: host + path + "/"},
		{Label: "with-query", Htu: host + path + "?x=1"},
		{Label: "with-query-bad-escape", Htu: host + path + "?x=%zz"},
		{Label: "with-fragment", Htu: host + path + "#frag"},
		{Label: "all-spellings", Htu: "HTTPS://" + strings.ToUpper(bare) + ":443" + path + "/?a=b#c"},
		{Label: "mtls-host-alias", Htu: c06uMTLSHost + path},
		{Label: "bare-question-mark", Htu: host + path + "?"},
		{Label: "double-trailing-slash", Htu: host + path + "//"},
		{Label: "other-path-longer", Htu: host + path + "x"},
		{Label: "other-path-deeper", Htu: host + path + "/x"},
		{Label: "other-endpoint", Htu: host + sibling},
		{Label: "other-host", Htu: "https://evil.example" + path},
		{Label: "other-host-suffix", Htu: host + ".evil.example" + path},
		{Label: "other-scheme", Htu: "http://" + bare + path},
		{Label: "other-scheme-default-port", Htu: "http://" + bare + ":443" + path},
		{Label: "other-port", Htu: "https://" + bare + ":8443" + path},
		{Label: "port-not-a-number", Htu: "https://" + bare + ":44x" + path},
		{Label: "unparsable", Htu: host + "/%zz"},
		{Label: "path-only", Htu: path},
		{Label: "scheme-relative", Htu: "//" + bare + path},
		{Label: "no-scheme", Htu: bare + path},
		{Label: "absent", Htu: "", Absent: true},
	}
	if path != uri {
		// the request carries a query string: the URL without it is a strict prefix of Host + RequestURI
		l = append(l, c06uForm{Label: "request-url-without-its-query", Htu: host + path})
	}
	// every strict string prefix of the request URL, the empty string first
	named := map[string]string{"": "empty", host: "bare-issuer", host + "/": "issuer-slash", "https://": "scheme-only",
		host[:len(host)-1]: "truncated-host", host + path[:len(path)-1]: "truncated-path"}
	if pfx != "" {
		named[host+pfx] = "issuer+path-prefix"
		named[host+pfx+"/"] = "issuer+path-prefix-slash"
	}
	for i := 0; i < len(aud); i++ {
		label := fmt.Sprintf("strict-prefix[%d]", i)
		if n, ok := named[aud[:i]]; ok {
			label += "=" + n
		}
		l = append(l, c06uForm{Label: label, Htu: aud[:i]})
	}
	return l
}

// ---- one provider under probe ----
type c06uRun struct {
	h     *c06Hist
	w     *World
	pfx   string
	hosts []string
}

func (u *c06uRun) exec(o Op) Obs {
	u.w.step++
	return u.w.Exec(o)
}

// the DPoP proof of key K1 for a request with method, carrying f as htu and the hash of ath
func (u *c06uRun) proof(method string, f c06uForm, ath string) string {
	k := u.w.keyByHandle(c06K1)
	so := (&jose.SignerOptions{}).WithType("dpop+jwt").WithHeader("jwk", jose.JSONWebKey{Key: &k.Priv.PublicKey})
	sg, err := jose.NewSigner(jose.SigningKey{Algorithm: jose.ES256, Key: k.Priv}, so)
	if err != nil {
		panic(err)
	}
	u.w.step++
	claims := map[string]any{"htm": method, "iat": time.Now().Unix(), "jti": fmt.Sprintf("c06u-%d-%d", u.w.step, time.Now().UnixNano())}
	if !f.Absent {
		claims["htu"] = f.Htu
	}
	if ath != "" {
		claims["ath"] = thumb(ath)
	}
	s, err := jwt.Signed(sg).Claims(claims).Serialize()
	if err != nil {
		panic(err)
	}
	return s
}

// no certificate: the tokens under probe are bound to the DPoP key only
func (u *c06uRun) validBind() Bind { return Bind{Dpop: validProof(c06K1, 0)} }

// a code for the public client 3 (nothing announced)
func (u *c06uRun) code() (string, string) {
	spec := u.h.g.client(3)
	p := Params{Redirect: spec.Redirects[0], RespType: "code", Scopes: c06Scopes(3), State: "st-u", Nonce: "n-u"}
	o := u.exec(Op{Kind: "Authorize", Client: 3, Params: p, PolicyAvail: true, Pol: Pol{Kind: "PolSuccess", Sub: "alice", Granted: c06Scopes(3)}})
	if o.Kind != "Nav" || o.NCode == 0 {
		panic(fmt.Sprintf("c06htu: no code: %+v", o))
	}
	return u.w.concrete(o.NCode), p.Redirect
}

// tokens of client 3 bound to K1
func (u *c06uRun) boundTokens() (at, rt string) {
	spec := u.h.g.client(3)
	p := Params{Redirect: spec.Redirects[0], RespType: "code", Scopes: c06Scopes(3), State: "st-u", Nonce: "n-u"}
	o := u.exec(Op{Kind: "Authorize", Client: 3, Params: p, PolicyAvail: true, Pol: Pol{Kind: "PolSuccess", Sub: "alice", Granted: p.Scopes}})
	if o.Kind != "Nav" || o.NCode == 0 {
		panic(fmt.Sprintf("c06htu: no code: %+v", o))
	}
	t := u.exec(Op{Kind: "Token", Grant: "authorization_code", Cred: Cred{ID: 3, OK: true}, Code: o.NCode, Redirect: p.Redirect, HG: "HgOk", BA: "BaApprove", Bind: u.validBind()})
	if t.Kind != "Tokens" {
		panic(fmt.Sprintf("c06htu: code not redeemed: %+v", t))
	}
	return u.w.concrete(t.At), u.w.concrete(t.Rt)
}

type c06uEndpoint struct {
	Name   string
	Method string
	Path   string // below the prefix; may carry a query string
	// send performs one otherwise valid request with the DPoP header built by hdr(ath)
	Send func(u *c06uRun, target string, hdr func(ath string) string) (status int, body string, accepted bool)
}

func c06uErrCode(body string) string {
	var m map[string]any
	if json.Unmarshal([]byte(body), &m) == nil {
		if s, ok := m["error"].(string); ok {
			return s
		}
	}
	return ""
}

func (u *c06uRun) post(target string, form url.Values, dpop string, okStatus int) (int, string, bool) {
	u.w.Stores.BeginRequest(nil, -1)
	u.w.curCert = nil
	u.w.hg, u.w.ba = "HgOk", "BaApprove"
	rec, pan := u.w.serve("POST", target, form, http.Header{"Dpop": {dpop}})
	if pan != nil {
		return 0, fmt.Sprint("panic: ", pan), false
	}
	return rec.Code, rec.Body.String(), rec.Code == okStatus
}

func c06uEndpoints() []c06uEndpoint {
	tokenForm := func(u *c06uRun, client int, grant string) url.Values {
		v := url.Values{}
		u.w.applyCred(Cred{ID: client, OK: true}, v)
		v.Set("grant_type", grant)
		return v
	}
	userinfo := func(method string) func(u *c06uRun, target string, hdr func(string) string) (int, string, bool) {
		return func(u *c06uRun, target string, hdr func(string) string) (int, string, bool) {
			at, _ := u.boundTokens()
			u.w.Stores.BeginRequest(nil, -1)
			u.w.curCert = nil
			h := http.Header{"Authorization": {"Bearer " + at}, "Dpop": {hdr(at)}}
			var form url.Values
			if method == "POST" {
				form = url.Values{}
			}
			rec, pan := u.w.serve(method, target, form, h)
			if pan != nil {
				return 0, fmt.Sprint("panic: ", pan), false
			}
			return rec.Code, rec.Body.String(), rec.Code == 200
		}
	}
	helper := func(u *c06uRun, target string, hdr func(string) string) (int, string, bool) {
		at, _ := u.boundTokens()
		u.w.Stores.BeginRequest(nil, -1)
		u.w.curCert = nil
		req, _ := http.NewRequest("GET", target, nil)
		req.RequestURI = target
		req.Header = http.Header{"Authorization": {"Bearer " + at}, "Dpop": {hdr(at)}}
		var info goidc.TokenInfo
		var err error
		var pan any
		func() {
			defer func() { pan = recover() }()
			info, err = u.w.provider().TokenInfoFromRequest(nil, req)
		}()
		if pan != nil {
			return 0, fmt.Sprint("panic: ", pan), false
		}
		if err != nil {
			return 401, err.Error(), false
		}
		return 200, "", info.IsActive
	}
	return []c06uEndpoint{
		{"token/client_credentials", "POST", "/token", func(u *c06uRun, target string, hdr func(string) string) (int, string, bool) {
			v := tokenForm(u, 1, "client_credentials")
			v.Set("scope", "openid email")
			return u.post(target, v, hdr(""), 200)
		}},
		{"token/authorization_code", "POST", "/token", func(u *c06uRun, target string, hdr func(string) string) (int, string, bool) {
			code, redirect := u.code()
			v := tokenForm(u, 3, "authorization_code")
			v.Set("code", code)
			v.Set("redirect_uri", redirect)
			return u.post(target, v, hdr(""), 200)
		}},
		{"token/refresh_token(public)", "POST", "/token", func(u *c06uRun, target string, hdr func(string) string) (int, string, bool) {
			_, rt := u.boundTokens()
			if rt == "" {
				panic("c06htu: no refresh token")
			}
			v := tokenForm(u, 3, "refresh_token")
			v.Set("refresh_token", rt)
			return u.post(target, v, hdr(""), 200)
		}},
		{"token/ciba", "POST", "/token", func(u *c06uRun, target string, hdr func(string) string) (int, string, bool) {
			o := u.exec(Op{Kind: "BcAuthorize", Cred: Cred{ID: 5, OK: true}, Params: Params{Scopes: "openid email", LoginHint: "alice"}, InitOK: true, Sub: "alice", Granted: "openid email", Bind: u.validBind()})
			if o.Kind != "Ciba" {
				panic(fmt.Sprintf("c06htu: bc-authorize refused: %+v", o))
			}
			v := tokenForm(u, 5, "urn:openid:params:grant-type:ciba")
			v.Set("auth_req_id", u.w.concrete(o.H))
			return u.post(target, v, hdr(""), 200)
		}},
		{"par", "POST", "/par", func(u *c06uRun, target string, hdr func(string) string) (int, string, bool) {
			v := url.Values{}
			u.w.applyCred(Cred{ID: 1, OK: true}, v)
			Params{Redirect: u.h.g.client(1).Redirects[0], RespType: "code", Scopes: c06Scopes(1), State: "st-p"}.values(u.w, v)
			return u.post(target, v, hdr(""), 201)
		}},
		{"userinfo/GET", "GET", "/userinfo", userinfo("GET")},
		{"userinfo/POST", "POST", "/userinfo", userinfo("POST")},
		{"userinfo/GET?query", "GET", "/userinfo?x=1", userinfo("GET")},
		{"TokenInfoFromRequest", "GET", "/resource", helper},
		{"TokenInfoFromRequest?query", "GET", "/resource/items?id=7&x=1", helper},
		{"bc-authorize(push)", "POST", "/bc-authorize", func(u *c06uRun, target string, hdr func(string) string) (int, string, bool) {
			v := url.Values{}
			u.w.applyCred(Cred{ID: 7, OK: true}, v)
			u.w.step++
			Params{Scopes: "openid email", LoginHint: "alice", NotifToken: unknownBase + 6000 + Handle(u.w.step)}.values(u.w, v)
			u.w.initOK, u.w.initSub, u.w.initGr, u.w.initRes = true, "alice", "openid email", nil
			return u.post(target, v, hdr(""), 200)
		}},
	}
}

func (u *c06uRun) probeEndpoint(e c06uEndpoint, mode string) c06uCase {
	uri := u.pfx + e.Path
	c := c06uCase{Mode: mode, Prefix: u.pfx, Endpoint: e.Name, Method: e.Method, Hosts: u.hosts, URI: uri, Opts: u.w.Spec.Opts}
	for _, f := range c06uCatalogue(u.hosts, uri, u.pfx) {
		f := f
		status, body, ok := e.Send(u, uri, func(ath string) string { return u.proof(e.Method, f, ath) })
		p := c06uProbe{Label: f.Label, Htu: f.Htu, Absent: f.Absent, Accepted: ok, Status: status}
		if !ok {
			p.Err = c06uErrCode(body)
			if p.Err == "" {
				p.Err = truncate(body, 120)
			}
		}
		n, err := strutil.NormalizeURL(f.Htu)
		p.Norm, p.NormErr = n, err != nil
		c.Probes = append(c.Probes, p)
	}
	c.Note = fmt.Sprintf("c06htu mode=%s prefix=%q endpoint=%s: %s %s%s known as %v, %d htu strings", mode, u.pfx, e.Name, e.Method, u.hosts[0], uri, u.hosts, len(c.Probes))
	return c
}

func (c c06uCase) coq() string {
	var ps []string
	for _, p := range c.Probes {
		n := "None"
		if !p.NormErr {
			n = "(Some " + cS(p.Norm) + ")"
		}
		ps = append(ps, fmt.Sprintf("mkHP %s %s %s", cS(p.Htu), n, cB(p.Accepted)))
	}
	return fmt.Sprintf("mkHC %s %s\n  [%s]", cList(c.Hosts, cS), cS(c.URI), strings.Join(ps, ";\n   "))
}

const c06uHeader = `From Verif Require Import Base Scope Types Pop Htu.
From Verif.Corr Require Import C06Htu.
Local Open Scope N_scope.
`

func c06uMode(name string) c06Mode {
	for _, m := range c06Modes {
		if m.Name == name {
			return m
		}
	}
	panic("c06htu: mode " + name)
}

func init() {
	register(&Suite{Name: "c06htu", Run: func(ctx *RunCtx) {
		// the providers: DPoP optional / required, with certificate binding (hence mTLS and its host alias),
		// mTLS for client authentication only; each without and with a path prefix in the thorough tier,
		// alternating in the quick tier (the catalogue itself is the same for every seed)
		type world struct{ mode, prefix string }
		var worlds []world
		modes := []string{"dpop-optional", "dpop-server-required", "both-optional", "dpop-optional+mtls-without-binding"}
		for i, m := range modes {
			if ctx.Quick() {
				worlds = append(worlds, world{m, []string{"", "/auth"}[(i+int(ctx.Seed&1))%2]})
			} else {
				worlds = append(worlds, world{m, ""}, world{m, "/auth"}, world{m, "/a/b"})
			}
		}
		var cases []c06uCase
		for wi, wd := range worlds {
			h := newC06HistP(ctx.R, c06uMode(wd.mode), wd.prefix, []string{"copy", "alias"}[wi%2], "openid")
			u := &c06uRun{h: h, w: h.g.W, pfx: wd.prefix, hosts: []string{issuer}}
			if h.mtls {
				u.hosts = append(u.hosts, c06uMTLSHost)
			}
			for _, e := range c06uEndpoints() {
				c := u.probeEndpoint(e, wd.mode)
				cases = append(cases, c)
				acc, ref := 0, 0
				for _, p := range c.Probes {
					cls := strings.SplitN(p.Label, "[", 2)[0]
					out := "refused"
					if p.Accepted {
						out = "accepted"
						acc++
					} else {
						ref++
					}
					ctx.Meta.Dist["htu:"+cls+" "+out]++
					ctx.Meta.Ops++
				}
				ctx.Meta.Dist["endpoint:"+e.Name]++
				ctx.Meta.Dist["mode:"+wd.mode]++
				ctx.Meta.Dist[fmt.Sprintf("prefix:%q", wd.prefix)]++
				ctx.Meta.Dist[fmt.Sprintf("hosts:%d", len(u.hosts))]++
				if acc > 0 && ref > 0 {
					ctx.Meta.Distinct++
				}
				ctx.Meta.CaseNotes = append(ctx.Meta.CaseNotes, c.Note)
			}
		}
		// case files
		per := 24
		for k := 0; k*per < len(cases); k++ {
			hi := (k + 1) * per
			if hi > len(cases) {
				hi = len(cases)
			}
			var b strings.Builder
			b.WriteString(c06uHeader)
			var names []string
			for i, c := range cases[k*per : hi] {
				fmt.Fprintf(&b, "(*CASE %d %s*)\nDefinition c_%d : htu_case :=\n  %s.\n", k*per+i, strings.ReplaceAll(c.Note, "*)", "* )"), k*per+i, c.coq())
				names = append(names, fmt.Sprintf("c_%d", k*per+i))
			}
			b.WriteString("Definition cases : list htu_case := [" + strings.Join(names, "; ") + "].\n")
			b.WriteString("Definition corr := Eval vm_compute in map check_htu_case cases.\nPrint corr.\n")
			b.WriteString("Definition mon := Eval vm_compute in map mon_htu_case cases.\nPrint mon.\n")
			name := fmt.Sprintf("cases_%03d.v", k)
			if err := os.WriteFile(filepath.Join(ctx.Out, name), []byte(b.String()), 0o644); err != nil {
				panic(err)
			}
			ctx.Meta.Files = append(ctx.Meta.Files, name)
		}
		// cases.json: one object per case, the probes as operations
		type jp struct {
			Label  string
			Htu    string
			Absent bool `json:",omitempty"`
		}
		type jo struct {
			Accepted   bool
			Status     int
			Err        string `json:",omitempty"`
			Normalized string
			NormErr    bool `json:",omitempty"`
		}
		var all []map[string]any
		for i, c := range cases {
			var ops []jp
			var obs []jo
			for _, p := range c.Probes {
				ops = append(ops, jp{p.Label, p.Htu, p.Absent})
				obs = append(obs, jo{p.Accepted, p.Status, p.Err, p.Norm, p.NormErr})
			}
			all = append(all, map[string]any{"Index": i, "Note": c.Note,
				"Spec": map[string]any{"mode": c.Mode, "prefix": c.Prefix, "endpoint": c.Endpoint, "method": c.Method, "hosts": c.Hosts,
					"request_uri": c.URI, "options": c.Opts, "how": "each operation is one otherwise valid request (DPoP proof of key K1 with the right htm, a fresh iat, a jti and, where a token is presented, its ath) whose htu claim is the string Htu (Absent: no htu claim)"},
				"Ops": ops, "Obs": obs})
		}
		jb, _ := json.Marshal(all)
		_ = os.WriteFile(filepath.Join(ctx.Out, "cases.json"), jb, 0o644)
		ctx.Meta.Cases = len(cases)
		if len(cases) > 0 {
			c := cases[0]
			var first []string
			for _, p := range c.Probes[:8] {
				first = append(first, fmt.Sprintf("%s htu=%q => accepted=%v", p.Label, p.Htu, p.Accepted))
			}
			ctx.Meta.Samples = append(ctx.Meta.Samples, map[string]any{"note": c.Note, "first_probes": first})
		}
		ctx.Meta.Rule = "seed-independent matrix: providers (DPoP optional / server-required / with certificate binding and the mTLS host alias / mTLS for client authentication only; path prefix none, /auth, /a/b) x every endpoint that takes DPoP proofs (token endpoint for client_credentials, authorization_code, refresh_token by a public client, CIBA; PAR; userinfo GET, POST and GET with a query string; TokenInfoFromRequest without and with a query string; bc-authorize of a push client) x the htu catalogue: 12 spellings NormalizeURL may identify with the request URL, 15 other URLs (path, endpoint, host, scheme, port, unparsable, relative references), the absent claim, and EVERY strict string prefix of the request URL including the empty string, the bare issuer, the issuer with the path prefix, truncated paths and hosts and the URL without the request's query; one otherwise valid request per string; case = one endpoint of one provider; distinct non-trivial = cases with accepted and refused probes"
	}})
}
