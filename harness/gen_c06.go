package main

// C06 — sender-constrained tokens.  World templates that enable DPoP / certificate binding in
// every mode the property quantifies over, the catalogue of proof and certificate deviations,
// and the entry points a deviation is presented at.  Everything is rendered through the common
// Op / World.Exec machinery, so the same operations run on the model (check_case) and on the
// real provider.

import (
	"fmt"
	"math/rand"
	"strings"
)

type c06Mode struct {
	Name    string
	Dpop    int  // 0 off, 1 enabled, 2 required by the server
	TLS     int  // 0 off, 1 enabled, 2 required by the server
	BindReq bool // WithTokenBindingRequired
	CDpop   bool // clients 1,3,5,7 registered with dpop_bound_access_tokens
	CTLS    bool // clients 1,3,5,7 registered with tls_client_certificate_bound_access_tokens
	MTLS    bool // WithMTLS although certificate binding is off: certificates reach the provider (client
	// authentication) but must never count as a binding
}

var c06Modes = []c06Mode{
	{Name: "dpop-optional", Dpop: 1},
	{Name: "dpop-server-required", Dpop: 2},
	{Name: "dpop-client-required", Dpop: 1, CDpop: true},
	{Name: "tls-optional", TLS: 1},
	{Name: "tls-server-required", TLS: 2},
	{Name: "tls-client-required", TLS: 1, CTLS: true},
	{Name: "both-optional", Dpop: 1, TLS: 1},
	{Name: "both-some-binding-required", Dpop: 1, TLS: 1, BindReq: true},
	{Name: "dpop-some-binding-required", Dpop: 1, BindReq: true},
	{Name: "tls-some-binding-required", TLS: 1, BindReq: true},
	{Name: "both-server-required", Dpop: 2, TLS: 2},
	{Name: "both-client-required", Dpop: 1, TLS: 1, CDpop: true, CTLS: true},
	{Name: "off-client-flags", CDpop: true, CTLS: true},
	{Name: "dpop-optional+mtls-without-binding", Dpop: 1, MTLS: true},
	{Name: "dpop-some-binding-required+mtls-without-binding", Dpop: 1, BindReq: true, MTLS: true},
}

const (
	c06K1 = unknownBase + 7001
	c06K2 = unknownBase + 7002
	c06K3 = unknownBase + 7003
	c06C1 = unknownBase + 8001
	c06C2 = unknownBase + 8002
)

func c06Spec(r *rand.Rand, m c06Mode, prefix string, flavour string, profile string) WorldSpec {
	opts := []Opt{
		{Name: "WithScopes", Scopes: serverScopes},
		{Name: "WithAuthorizationCodeGrant"}, {Name: "WithClientCredentialsGrant"}, {Name: "WithImplicitGrant"},
		{Name: "WithTokenIntrospection"},
		{Name: "WithTokenLifetime", Z: 300},
		{Name: "WithRefreshTokenGrant", Z: 1000},
		{Name: "WithPAR", Z: 60},
		{Name: "WithCIBAGrant"},
		{Name: "WithJWTBearerGrant"},
	}
	if r.Intn(2) == 0 {
		opts = append(opts, Opt{Name: "WithRefreshTokenRotation"})
	}
	switch m.Dpop {
	case 1:
		opts = append(opts, Opt{Name: "WithDPoP"})
	case 2:
		opts = append(opts, Opt{Name: "WithDPoPRequired"})
	}
	switch m.TLS {
	case 1:
		opts = append(opts, Opt{Name: "WithTLSCertTokenBinding"})
	case 2:
		opts = append(opts, Opt{Name: "WithTLSCertTokenBindingRequired"})
	}
	if m.BindReq {
		opts = append(opts, Opt{Name: "WithTokenBindingRequired"})
	}
	// certificates reach the provider only through WithMTLS's ClientCertFunc
	if m.TLS > 0 || m.MTLS || r.Intn(4) == 0 {
		opts = append(opts, Opt{Name: "WithMTLS"})
	}
	if prefix != "" {
		opts = append(opts, Opt{Name: "WithPathPrefix", S: prefix})
	}
	r.Shuffle(len(opts), func(i, j int) { opts[i], opts[j] = opts[j], opts[i] })
	allResp := []string{"code", "token", "id_token", "id_token token", "code id_token", "code token", "code id_token token"}
	clients := []ClientSpec{
		{ID: 1, Grants: []string{"authorization_code", "refresh_token", "client_credentials", "implicit", jwtBearerGrant}, RespTypes: allResp,
			Redirects: []string{"https://c1.example/cb"}, Scopes: "openid email profile offline_access", DpopReq: m.CDpop, TLSReq: m.CTLS},
		{ID: 2, Grants: []string{"authorization_code", "refresh_token", "client_credentials"}, RespTypes: []string{"code"},
			Redirects: []string{"https://c2.example/cb"}, Scopes: "openid email", JWT: true},
		{ID: 3, Public: true, Grants: []string{"authorization_code", "refresh_token", "implicit"}, RespTypes: allResp,
			Redirects: []string{"https://c3.example/cb"}, Scopes: "openid profile", DpopReq: m.CDpop, TLSReq: m.CTLS},
		{ID: 5, Grants: []string{"urn:openid:params:grant-type:ciba", "refresh_token"}, Scopes: "openid email", CibaMode: "poll",
			DpopReq: m.CDpop, TLSReq: m.CTLS},
		{ID: 7, Grants: []string{"urn:openid:params:grant-type:ciba"}, Scopes: "openid email profile", CibaMode: "push", JWT: true,
			DpopReq: m.CDpop, TLSReq: m.CTLS},
	}
	return WorldSpec{Profile: profile, Opts: opts, Static: clients, Flavour: flavour}
}

func specHas(s WorldSpec, name string) bool {
	for _, o := range s.Opts {
		if o.Name == name {
			return true
		}
	}
	return false
}

// ---- the deviation catalogue ----
type c06Dev struct {
	Name string
	F    func(b *Bind, other Handle)
	// UseOnly: the deviation only makes sense where an access token is presented
	UseOnly bool
}

func validProof(key Handle, ath Handle) *Proof {
	return &Proof{Parses: true, TypOK: true, Jwk: 2, JwkKey: key, Signer: key, HasIat: true, IatAge: 0, Jti: true, HtmOK: true, Htu: "HtuExact", Ath: ath}
}

func pdev(name string, f func(p *Proof)) c06Dev {
	return c06Dev{Name: name, F: func(b *Bind, _ Handle) {
		if b.Dpop != nil {
			f(b.Dpop)
		}
	}}
}

func c06Catalogue() []c06Dev {
	l := []c06Dev{
		{Name: "valid", F: func(*Bind, Handle) {}},
		pdev("typ", func(p *Proof) { p.TypOK = false }),
		pdev("alg", func(p *Proof) { p.Parses = false }),
		pdev("jwk-absent", func(p *Proof) { p.Jwk = 0 }),
		pdev("jwk-private", func(p *Proof) { p.Jwk = 1 }),
		pdev("jwk-other-key", func(p *Proof) { p.JwkKey = c06K2 }),
		pdev("signature-other-key", func(p *Proof) { p.Signer = c06K2 }),
		pdev("proof-of-other-key", func(p *Proof) { p.JwkKey, p.Signer = c06K2, c06K2 }),
		pdev("htm", func(p *Proof) { p.HtmOK = false }),
	}
	for _, v := range []string{"HtuHostCase", "HtuSchemeCase", "HtuDefaultPort", "HtuTrailingSlash", "HtuWithQuery", "HtuWithFragment",
		"HtuOtherPath", "HtuOtherHost", "HtuOtherScheme", "HtuOtherPort", "HtuUnparsable"} {
		v := v
		l = append(l, pdev("htu-"+v[3:], func(p *Proof) { p.Htu = v }))
	}
	l = append(l,
		pdev("iat-stale", func(p *Proof) { p.IatAge = 700 }),
		pdev("iat-future", func(p *Proof) { p.IatAge = -120 }),
		pdev("iat-absent", func(p *Proof) { p.HasIat = false }),
		pdev("iat-old-within-lifetime", func(p *Proof) { p.IatAge = 450 }),
		pdev("jti-absent", func(p *Proof) { p.Jti = false }),
		c06Dev{Name: "ath-absent", UseOnly: true, F: func(b *Bind, _ Handle) {
			if b.Dpop != nil {
				b.Dpop.Ath = 0
			}
		}},
		c06Dev{Name: "ath-other-token", F: func(b *Bind, other Handle) {
			if b.Dpop != nil {
				b.Dpop.Ath = other
			}
		}},
		c06Dev{Name: "two-dpop-headers", F: func(b *Bind, _ Handle) {
			if b.Dpop != nil {
				b.Twice = true
			}
		}},
		c06Dev{Name: "no-proof", F: func(b *Bind, _ Handle) { b.Dpop = nil }},
		c06Dev{Name: "cert-absent", F: func(b *Bind, _ Handle) { b.Cert = 0 }},
		c06Dev{Name: "cert-other", F: func(b *Bind, _ Handle) {
			if b.Cert != 0 {
				b.Cert = c06C2
			}
		}},
		c06Dev{Name: "no-proof-no-cert", F: func(b *Bind, _ Handle) { b.Dpop, b.Cert = nil, 0 }},
		c06Dev{Name: "other-key-other-cert", F: func(b *Bind, _ Handle) {
			if b.Dpop != nil {
				b.Dpop.JwkKey, b.Dpop.Signer = c06K2, c06K2
			}
			if b.Cert != 0 {
				b.Cert = c06C2
			}
		}},
	)
	return l
}

// ---- one history under construction ----
type c06Hist struct {
	g    *SysGen
	m    c06Mode
	mtls bool
	// always send a proof / certificate in the baseline request, even where the mechanism is off
	other Handle // some other access token, for ath deviations
}

func newC06Hist(r *rand.Rand, m c06Mode, prefix, flavour string) *c06Hist {
	return newC06HistP(r, m, prefix, flavour, "openid")
}

func newC06HistP(r *rand.Rand, m c06Mode, prefix, flavour, profile string) *c06Hist {
	spec := c06Spec(r, m, prefix, flavour, profile)
	g, err := NewSysGen(r, spec)
	if err != nil {
		panic(err)
	}
	g.DevRate = 0
	return &c06Hist{g: g, m: m, mtls: specHas(spec, "WithMTLS")}
}

// the baseline (valid) accompaniment of a request presenting access token ath (0: none)
func (h *c06Hist) base(ath Handle) Bind {
	b := Bind{Dpop: validProof(c06K1, ath)}
	if h.mtls {
		b.Cert = c06C1
	}
	return b
}

func (h *c06Hist) dev(d c06Dev, ath Handle) Bind {
	b := h.base(ath)
	d.F(&b, h.other)
	if !h.mtls {
		b.Cert = 0 // no ClientCertFunc: nothing can present a certificate
	}
	return b
}

func (h *c06Hist) cred(id int) Cred { return Cred{ID: id, OK: true} }

func (h *c06Hist) introspect(tok Handle) {
	if tok != 0 {
		h.g.do(Op{Kind: "Introspect", Cred: h.cred(1), Tok: PTok{Kind: "PExact", H: tok}, Allowed: true})
	}
}

func (h *c06Hist) otherToken() {
	o := h.g.do(Op{Kind: "Token", Grant: "client_credentials", Cred: h.cred(2), Scope: "openid", HG: "HgOk", BA: "BaApprove", Bind: h.base(0)})
	if o.Kind == "Tokens" {
		h.other = o.At
	} else {
		h.other = unknownBase + 77
	}
}

// ---- entry points ----

// client_credentials
func (h *c06Hist) entryCC(devs []c06Dev, client int) {
	h.otherToken()
	for _, d := range devs {
		o := h.g.do(Op{Kind: "Token", Grant: "client_credentials", Cred: h.cred(client), Scope: "openid email", HG: "HgOk", BA: "BaApprove", Bind: h.dev(d, 0)})
		if o.Kind == "Tokens" {
			h.introspect(o.At)
		}
	}
}

// jwt-bearer: for client 1 (its registration may require a binding) or for nobody (the anonymous client, which
// requires nothing: only the server's requirements apply)
func (h *c06Hist) entryJwtBearer(devs []c06Dev, client int) {
	h.otherToken()
	for _, d := range devs {
		op := Op{Kind: "Token", Grant: jwtBearerGrant, Scope: "openid email", Assertion: "ok:alice", HG: "HgOk", BA: "BaApprove", Bind: h.dev(d, 0)}
		if client != 0 {
			op.Cred = h.cred(client)
		}
		o := h.g.do(op)
		if o.Kind == "Tokens" {
			h.introspect(o.At)
			if o.Rt != 0 {
				h.introspect(o.Rt)
			}
		}
	}
}

// How a binding is announced before the code is redeemed: every channel the code reads, each with
// its own key / certificate, so that channels can agree, disagree or be absent independently.
//   POST /par          DPoP header (ParProof), dpop_jkt parameter (ParJkt), client certificate (ParCert)
//   GET|POST /authorize  dpop_jkt parameter (OutJkt) - for a PAR flow it travels next to request_uri
//                        ("outer" parameter: merged into the pushed ones under the OpenID profile,
//                        ignored under FAPI)
// The authorization endpoint itself reads neither a DPoP header nor a certificate.
type c06Ann struct {
	Par      bool
	ParProof Handle
	ParJkt   Handle
	ParCert  Handle
	OutJkt   Handle
	Post     bool // POST /authorize instead of GET (not modelled: must not matter)
}

func c06HName(h Handle) string {
	switch h {
	case 0:
		return "-"
	case c06K1:
		return "K1"
	case c06K2:
		return "K2"
	case c06K3:
		return "K3"
	case c06C1:
		return "C1"
	case c06C2:
		return "C2"
	}
	return "?"
}

func (a c06Ann) String() string {
	if !a.Par {
		return fmt.Sprintf("authorize[dpop_jkt=%s]", c06HName(a.OutJkt))
	}
	return fmt.Sprintf("par[proof=%s dpop_jkt=%s cert=%s]+authorize[dpop_jkt=%s]", c06HName(a.ParProof), c06HName(a.ParJkt), c06HName(a.ParCert), c06HName(a.OutJkt))
}

// the key / certificate the flow is bound to according to the documented precedence (a key proven
// or named at /par, else the dpop_jkt of the front-channel request unless the profile ignores it):
// used only to pick a redemption that should succeed, never as an oracle
func (a c06Ann) specKey(fapi bool) Handle {
	switch {
	case a.ParProof != 0:
		return a.ParProof
	case a.ParJkt != 0:
		return a.ParJkt
	case a.OutJkt != 0 && !(fapi && a.Par):
		return a.OutJkt
	}
	return 0
}

// which channels are used and whether the keys they name agree (summary of a random announcement)
func (a c06Ann) shape() string {
	var l []string
	keys := map[Handle]bool{}
	add := func(name string, h Handle, key bool) {
		if h != 0 {
			l = append(l, name)
			if key {
				keys[h] = true
			}
		}
	}
	add("par-proof", a.ParProof, true)
	add("par-dpop_jkt", a.ParJkt, true)
	add("par-cert", a.ParCert, false)
	add("authorize-dpop_jkt", a.OutJkt, true)
	s := "authorize"
	if a.Par {
		s = "par+authorize"
	}
	if len(l) == 0 {
		return s + " nothing-announced"
	}
	s += " " + strings.Join(l, "+")
	if len(keys) > 1 {
		s += " (keys disagree)"
	}
	return s
}

// the named announcements the deviation catalogue is crossed with (c06dev); the effective key is
// K1 / C1 in all of them but annParOtherKeyJkt, so the baseline accompaniment redeems the code
const (
	annNone = iota
	annAuthorizeJkt
	annParProof
	annParJkt
	annParCert
	annParProofCert
	annParOtherKeyJkt // PAR with dpop_jkt of K2: redemption with K1 must fail
	annParProofOuterOther
	annParJktOuterOther
	annParOuterJkt
	annParCertOuterJkt
	annParProofJkt
	annParProofCertOuterOther
	annCount
)

var c06Anns = [annCount]c06Ann{
	annNone:                   {},
	annAuthorizeJkt:           {OutJkt: c06K1},
	annParProof:               {Par: true, ParProof: c06K1},
	annParJkt:                 {Par: true, ParJkt: c06K1},
	annParCert:                {Par: true, ParCert: c06C1},
	annParProofCert:           {Par: true, ParProof: c06K1, ParCert: c06C1},
	annParOtherKeyJkt:         {Par: true, ParJkt: c06K2},
	annParProofOuterOther:     {Par: true, ParProof: c06K1, OutJkt: c06K2},
	annParJktOuterOther:       {Par: true, ParJkt: c06K1, OutJkt: c06K2},
	annParOuterJkt:            {Par: true, OutJkt: c06K1},
	annParCertOuterJkt:        {Par: true, ParCert: c06C1, OutJkt: c06K1},
	annParProofJkt:            {Par: true, ParProof: c06K1, ParJkt: c06K1},
	annParProofCertOuterOther: {Par: true, ParProof: c06K1, ParCert: c06C1, OutJkt: c06K2},
}

// authorize (possibly through PAR) for client, announcing a binding; returns the answer of the
// authorization endpoint (or of /par when that refused) and the parameters the code is tied to
func (h *c06Hist) authorize(client int, ann int, respType string) (Obs, Params) {
	return h.authorizeAnn(client, c06Anns[ann], respType)
}

func (h *c06Hist) authorizeAnn(client int, a c06Ann, respType string) (Obs, Params) {
	spec := h.g.client(client)
	scopes := c06Scopes(client)
	p := Params{Redirect: spec.Redirects[0], RespType: respType, Scopes: scopes, State: "st-1", Nonce: "n-1"}
	pol := Pol{Kind: "PolSuccess", Sub: "alice", Granted: scopes}
	if !a.Par {
		p.DpopJkt = a.OutJkt
		return h.g.do(Op{Kind: "Authorize", Client: client, Params: p, PolicyAvail: true, Pol: pol, Post: a.Post}), p
	}
	p.DpopJkt = a.ParJkt
	b := Bind{Cert: a.ParCert}
	if a.ParProof != 0 {
		b.Dpop = validProof(a.ParProof, 0)
	}
	if !h.mtls {
		b.Cert = 0
	}
	o := h.g.do(Op{Kind: "Par", Cred: h.cred(client), Params: p, Bind: b})
	if o.Kind != "Par" {
		return o, p
	}
	outer := Params{RequestURI: o.H, RespType: respType, Scopes: scopes, DpopJkt: a.OutJkt}
	return h.g.do(Op{Kind: "Authorize", Client: client, Params: outer, PolicyAvail: true, Pol: pol, Post: a.Post}), p
}

func c06Scopes(client int) string {
	if client == 2 {
		return "openid email"
	}
	return "openid profile"
}

func (h *c06Hist) redeem(client int, code Handle, p Params, b Bind) Obs {
	return h.g.do(Op{Kind: "Token", Grant: "authorization_code", Cred: h.cred(client), Code: code, Redirect: p.Redirect, HG: "HgOk", BA: "BaApprove", Bind: b})
}

func (h *c06Hist) entryCode(devs []c06Dev, client int, ann int) {
	h.otherToken()
	for _, d := range devs {
		o, p := h.authorize(client, ann, "code")
		if o.Kind != "Nav" || o.NCode == 0 {
			continue
		}
		t := h.redeem(client, o.NCode, p, h.dev(d, 0))
		if t.Kind == "Tokens" {
			h.introspect(t.At)
		}
	}
}

// a token obtained with the baseline accompaniment through the code flow
func (h *c06Hist) boundTokens(client int, ann int) (at, rt Handle) {
	o, p := h.authorize(client, ann, "code")
	if o.Kind != "Nav" || o.NCode == 0 {
		return 0, 0
	}
	t := h.redeem(client, o.NCode, p, h.base(0))
	if t.Kind != "Tokens" {
		return 0, 0
	}
	return t.At, t.Rt
}

func (h *c06Hist) entryRefresh(devs []c06Dev, client int) {
	h.otherToken()
	at, rt := h.boundTokens(client, annNone)
	h.introspect(at)
	if rt == 0 {
		return
	}
	for _, d := range devs {
		o := h.g.do(Op{Kind: "Token", Grant: "refresh_token", Cred: h.cred(client), Refresh: rt, HG: "HgOk", BA: "BaApprove", Bind: h.dev(d, 0)})
		if o.Kind == "Tokens" {
			if o.Rt != 0 {
				rt = o.Rt
			}
			h.introspect(o.At)
		}
	}
}

func (h *c06Hist) entryCiba(devs []c06Dev) {
	h.otherToken()
	var req Handle
	for _, d := range devs {
		if req == 0 {
			o := h.g.do(Op{Kind: "BcAuthorize", Cred: h.cred(5), Params: Params{Scopes: "openid email", LoginHint: "alice"}, InitOK: true, Sub: "alice", Granted: "openid email"})
			if o.Kind != "Ciba" {
				return
			}
			req = o.H
		}
		o := h.g.do(Op{Kind: "Token", Grant: "urn:openid:params:grant-type:ciba", Cred: h.cred(5), AuthReq: req, HG: "HgOk", BA: "BaApprove", Bind: h.dev(d, 0)})
		if o.Kind == "Tokens" {
			h.introspect(o.At)
			req = 0
		}
	}
}

// POST /par with the deviation; when it is accepted the flow is completed with the baseline key
func (h *c06Hist) entryPar(devs []c06Dev, client int, withJkt bool) {
	h.otherToken()
	spec := h.g.client(client)
	for _, d := range devs {
		p := Params{Redirect: spec.Redirects[0], RespType: "code", Scopes: c06Scopes(client), State: "st-2"}
		if withJkt {
			p.DpopJkt = c06K1
		}
		o := h.g.do(Op{Kind: "Par", Cred: h.cred(client), Params: p, Bind: h.dev(d, 0)})
		if o.Kind != "Par" {
			continue
		}
		a := h.g.do(Op{Kind: "Authorize", Client: client, Params: Params{RequestURI: o.H, RespType: "code", Scopes: p.Scopes}, PolicyAvail: true, Pol: Pol{Kind: "PolSuccess", Sub: "bob", Granted: p.Scopes}})
		if a.Kind != "Nav" || a.NCode == 0 {
			continue
		}
		t := h.redeem(client, a.NCode, p, h.base(0))
		if t.Kind == "Tokens" {
			h.introspect(t.At)
		}
	}
}

// use of a bound token: kind = UserInfo (GET or POST) or TokenInfoReq
func (h *c06Hist) entryUse(devs []c06Dev, client int, kind string, post bool, ann int) {
	h.otherToken()
	at, _ := h.boundTokens(client, ann)
	if at == 0 {
		return
	}
	h.introspect(at)
	for _, d := range devs {
		h.g.do(Op{Kind: kind, Tok: PTok{Kind: "PExact", H: at}, HasHeader: true, Bind: h.dev(d, at), Post: post})
	}
}

// POST /bc-authorize by a push-mode client: the binding is captured there
func (h *c06Hist) entryBcPush(devs []c06Dev) {
	h.otherToken()
	for i, d := range devs {
		o := h.g.do(Op{Kind: "BcAuthorize", Cred: h.cred(7), Params: Params{Scopes: "openid email", LoginHint: "alice", NotifToken: unknownBase + 5000 + Handle(i)},
			InitOK: true, Sub: "alice", Granted: "openid email", Bind: h.dev(d, 0)})
		if o.Kind != "Ciba" {
			continue
		}
		n := h.g.do(Op{Kind: "NotifyOk", AuthReq: o.H, HG: "HgOk"})
		for _, nf := range n.Notifs {
			h.introspect(nf.At)
		}
	}
}

// tokens issued by the authorization endpoint (implicit): bound through dpop_jkt only
func (h *c06Hist) entryImplicit(devs []c06Dev, client int, ann int) {
	h.otherToken()
	o, _ := h.authorize(client, ann, "id_token token")
	if o.Kind != "Nav" || o.NAt == 0 {
		return
	}
	h.introspect(o.NAt)
	for _, d := range devs {
		h.g.do(Op{Kind: "UserInfo", Tok: PTok{Kind: "PExact", H: o.NAt}, HasHeader: true, Bind: h.dev(d, o.NAt)})
	}
}

// ---- cross-endpoint histories ----
// PAR -> authorize -> token -> userinfo -> refresh -> userinfo, with the right / another / no key
// or certificate at each step.
func (h *c06Hist) keyChoice(r *rand.Rand, ath Handle) (Bind, string) {
	b := Bind{}
	desc := ""
	switch r.Intn(8) {
	case 0, 1, 2:
		b.Dpop = validProof(c06K1, ath)
		desc = "K1"
	case 3, 4:
		b.Dpop = validProof(c06K2, ath)
		desc = "K2"
	case 5:
		b.Dpop = validProof(c06K3, ath)
		desc = "K3"
	default:
		desc = "nokey"
	}
	switch r.Intn(4) {
	case 0, 1:
		b.Cert = c06C1
		desc += "+C1"
	case 2:
		b.Cert = c06C2
		desc += "+C2"
	case 3:
		desc += "+nocert"
	}
	if !h.mtls {
		b.Cert = 0
	}
	return b, desc
}

// a random point of the announcement space: every channel independently absent / K1 / K2 (C1 / C2)
func c06RandomAnn(r *rand.Rand) c06Ann {
	key := func() Handle { return pick(r, []Handle{0, 0, 0, c06K1, c06K1, c06K2}) }
	a := c06Ann{Par: r.Intn(4) != 0, OutJkt: key(), Post: r.Intn(4) == 0}
	if a.Par {
		a.ParProof, a.ParJkt = key(), key()
		a.ParCert = pick(r, []Handle{0, 0, 0, c06C1, c06C1, c06C2})
		if a.ParProof != 0 && a.ParJkt != 0 && a.ParJkt != a.ParProof && r.Intn(4) != 0 {
			a.ParJkt = a.ParProof // a proof and a dpop_jkt that disagree end the flow at /par: keep that rare
		}
	}
	return a
}

func (h *c06Hist) fapi() bool { return h.g.W.Spec.Profile != "openid" }

func (h *c06Hist) cross(r *rand.Rand, rec func(shape string)) string {
	client := pick(r, []int{1, 3, 3, 2})
	a := c06RandomAnn(r)
	rec(a.shape())
	note := fmt.Sprintf("client=%d ann=%s", client, a)
	h.otherToken()
	rts := pick(r, []string{"code", "code", "code", "code token", "code id_token token"})
	if client == 2 || h.fapi() {
		rts = "code"
	}
	o, p := h.authorizeAnn(client, a, rts)
	if o.Kind != "Nav" || o.NCode == 0 {
		return note + " (authorize refused)"
	}
	use := func(at Handle) {
		for i := 0; i < 2; i++ {
			b, _ := h.keyChoice(r, at)
			if b.Dpop != nil && r.Intn(6) == 0 {
				b.Dpop.Ath = pick(r, []Handle{0, h.other})
			}
			kind := pick(r, []string{"UserInfo", "UserInfo", "TokenInfoReq"})
			h.g.do(Op{Kind: kind, Tok: PTok{Kind: "PExact", H: at}, HasHeader: true, Bind: b, Post: r.Intn(3) == 0})
		}
	}
	if o.NAt != 0 {
		h.introspect(o.NAt)
		use(o.NAt)
	}
	b, d := h.keyChoice(r, 0)
	note += " token=" + d
	t := h.redeem(client, o.NCode, p, b)
	if t.Kind != "Tokens" {
		// a second attempt with the announced key and certificate: the code is gone by now
		o2, p2 := h.authorizeAnn(client, a, "code")
		if o2.Kind != "Nav" || o2.NCode == 0 {
			return note
		}
		b = h.specBind(a)
		t = h.redeem(client, o2.NCode, p2, b)
		if t.Kind != "Tokens" {
			return note
		}
	}
	h.introspect(t.At)
	use(t.At)
	rt := t.Rt
	for i := 0; i < 2 && rt != 0; i++ {
		b, d := h.keyChoice(r, 0)
		note += " refresh=" + d
		n := h.g.do(Op{Kind: "Token", Grant: "refresh_token", Cred: h.cred(client), Refresh: rt, HG: "HgOk", BA: "BaApprove", Bind: b})
		if n.Kind == "Tokens" {
			if n.Rt != 0 {
				rt = n.Rt
			}
			h.introspect(n.At)
			use(n.At)
		}
	}
	return note
}

// the accompaniment that should redeem a code announced as a (documented precedence; K1 / C1 when
// nothing was announced)
func (h *c06Hist) specBind(a c06Ann) Bind {
	k := a.specKey(h.fapi())
	if k == 0 {
		k = c06K1
	}
	b := Bind{Dpop: validProof(k, 0), Cert: a.ParCert}
	if b.Cert == 0 {
		b.Cert = c06C1
	}
	if !h.mtls {
		b.Cert = 0
	}
	return b
}

// ---- the announcement matrix ----
// Every combination of the channels a binding can be announced through
//   direct:  /authorize with dpop_jkt in {-, K1, K2}
//   pushed:  /par with DPoP header in {-, K1} x dpop_jkt in {-, K1, K2} x certificate in {-, C1},
//            then /authorize?request_uri with an outer dpop_jkt in {-, K1, K2}
// is one row; in a history of that row the flow is run once per redemption accompaniment
// (proof for K1 / K2 / K3 / none, certificate C1 / C2 / none) for the code, and once more for a token
// handed out by the authorization endpoint (implicit or hybrid), which is then presented at
// /userinfo with each key.  The model says what must happen (correspondence), the monitor judges
// the implementation's answers, and every (row, column, outcome) is counted in the matrix.
func c06AnnMatrix() []c06Ann {
	keys := []Handle{0, c06K1, c06K2}
	var rows []c06Ann
	for _, out := range keys {
		rows = append(rows, c06Ann{OutJkt: out})
	}
	for _, proof := range []Handle{0, c06K1} {
		for _, jkt := range keys {
			for _, cert := range []Handle{0, c06C1} {
				for _, out := range keys {
					rows = append(rows, c06Ann{Par: true, ParProof: proof, ParJkt: jkt, ParCert: cert, OutJkt: out})
				}
			}
		}
	}
	return rows
}

// the mode in which nothing but the announcement asks for a proof / certificate
func c06OptionalMode(a c06Ann) c06Mode {
	name := "both-optional"
	key := a.ParProof != 0 || a.ParJkt != 0 || a.OutJkt != 0
	switch {
	case key && a.ParCert == 0:
		name = "dpop-optional"
	case !key && a.ParCert != 0:
		name = "tls-optional"
	}
	for _, m := range c06Modes {
		if m.Name == name {
			return m
		}
	}
	panic("c06: mode " + name)
}

func (h *c06Hist) lastEndpoint() string {
	if n := len(h.g.Ops); n > 0 && h.g.Ops[n-1].Kind == "Par" {
		return "par"
	}
	return "authorize"
}

type c06Acc struct{ Key, Cert Handle }

func (h *c06Hist) accompaniments(r *rand.Rand, a c06Ann) []c06Acc {
	c := Handle(0)
	if h.mtls {
		c = a.ParCert
		if c == 0 {
			c = c06C1
		}
	}
	l := []c06Acc{{c06K1, c}, {c06K2, c}, {0, c}}
	named := map[Handle]bool{a.ParProof: true, a.ParJkt: true, a.OutJkt: true}
	if named[c06K1] && named[c06K2] {
		l = append(l, c06Acc{c06K3, c}) // a key no channel named
	}
	if h.mtls {
		k := a.specKey(h.fapi())
		if k == 0 {
			k = c06K1
		}
		l = append(l, c06Acc{k, c06C2}, c06Acc{k, 0})
	}
	r.Shuffle(len(l), func(i, j int) { l[i], l[j] = l[j], l[i] })
	return l
}

func (x c06Acc) bind(ath Handle) Bind {
	b := Bind{Cert: x.Cert}
	if x.Key != 0 {
		b.Dpop = validProof(x.Key, ath)
	}
	return b
}

func (x c06Acc) String() string { return c06HName(x.Key) + "/" + c06HName(x.Cert) }

func c06Cells(cells map[c06Acc]string) string {
	var l []string
	for _, k := range []Handle{c06K1, c06K2, c06K3, 0} {
		for _, c := range []Handle{c06C1, c06C2, 0} {
			if v, ok := cells[c06Acc{k, c}]; ok {
				l = append(l, c06Acc{k, c}.String()+":"+v)
			}
		}
	}
	return strings.Join(l, " ")
}

// one history of row a; rec receives the row of the covered matrix this history filled in:
//   <profile> <announcement> -> code redeemed with [proof key/certificate:outcome ...]
//   <profile> <announcement> -> token(authorize) used with [...]
func (h *c06Hist) matrixRow(r *rand.Rand, a c06Ann, client int, rec func(row string)) {
	a.Post = r.Intn(4) == 0
	h.otherToken()
	row := h.g.W.Spec.Profile + " " + a.String()
	cells := map[c06Acc]string{}
	refusedAt := ""
	for _, x := range h.accompaniments(r, a) {
		o, p := h.authorizeAnn(client, a, "code")
		if o.Kind != "Nav" || o.NCode == 0 {
			refusedAt = h.lastEndpoint()
			break
		}
		t := h.redeem(client, o.NCode, p, x.bind(0))
		if t.Kind == "Tokens" {
			cells[x] = "ok"
			h.introspect(t.At)
		} else {
			cells[x] = "no"
		}
	}
	if refusedAt != "" {
		rec(row + " -> code: refused at /" + refusedAt)
	} else {
		rec(row + " -> code redeemed with [" + c06Cells(cells) + "]")
	}
	// a token handed out by the authorization endpoint: bound through the announced key only
	if h.fapi() || len(h.g.client(client).RespTypes) < 2 || refusedAt == "par" {
		return
	}
	rt := pick(r, []string{"id_token token", "token", "code token", "code id_token token"})
	o, p := h.authorizeAnn(client, a, rt)
	if o.Kind != "Nav" || o.NAt == 0 {
		rec(row + " -> token(authorize): refused at /" + h.lastEndpoint())
		return
	}
	h.introspect(o.NAt)
	cells = map[c06Acc]string{}
	for _, x := range h.accompaniments(r, a) {
		u := h.g.do(Op{Kind: "UserInfo", Tok: PTok{Kind: "PExact", H: o.NAt}, HasHeader: true, Bind: x.bind(o.NAt), Post: r.Intn(3) == 0})
		cells[x] = "no"
		if u.Kind == "UserInfo" {
			cells[x] = "ok"
		}
	}
	rec(row + " -> token(authorize) used with [" + c06Cells(cells) + "]")
	if o.NCode != 0 {
		// hybrid: the code of the same answer, redeemed with the key the flow is bound to
		t := h.redeem(client, o.NCode, p, h.specBind(a))
		if t.Kind == "Tokens" {
			h.introspect(t.At)
		}
	}
}

// CIBA: the channel is the accompaniment of POST /bc-authorize.  A push-mode client's tokens are
// bound to it (they are delivered, never fetched); for a poll-mode client it must not matter - the
// tokens are bound to the key / certificate of the token request.  Either way the delivered tokens
// are then presented with each key / certificate.
func (h *c06Hist) cibaRow(r *rand.Rand, push bool, at c06Acc, rec func(row string)) {
	h.otherToken()
	row := fmt.Sprintf("%s bc-authorize(poll)[proof=%s cert=%s]", h.g.W.Spec.Profile, c06HName(at.Key), c06HName(at.Cert))
	if push {
		row = fmt.Sprintf("%s bc-authorize(push)[proof=%s cert=%s]", h.g.W.Spec.Profile, c06HName(at.Key), c06HName(at.Cert))
	}
	ann := c06Ann{ParProof: at.Key, ParCert: at.Cert}
	b := at.bind(0)
	if !h.mtls {
		b.Cert = 0
	}
	use := func(tok Handle, what string) {
		cells := map[c06Acc]string{}
		for _, x := range h.accompaniments(r, ann) {
			kind := pick(r, []string{"UserInfo", "UserInfo", "TokenInfoReq"})
			u := h.g.do(Op{Kind: kind, Tok: PTok{Kind: "PExact", H: tok}, HasHeader: true, Bind: x.bind(tok), Post: kind == "UserInfo" && r.Intn(3) == 0})
			cells[x] = "no"
			if u.Kind == "UserInfo" || (u.Kind == "Intro" && u.Active) {
				cells[x] = "ok"
			}
		}
		rec(row + " -> " + what + " used with [" + c06Cells(cells) + "]")
	}
	if push {
		o := h.g.do(Op{Kind: "BcAuthorize", Cred: h.cred(7), Params: Params{Scopes: "openid email", LoginHint: "alice", NotifToken: unknownBase + 5100},
			InitOK: true, Sub: "alice", Granted: "openid email", Bind: b})
		if o.Kind != "Ciba" {
			rec(row + " -> refused at /bc-authorize")
			return
		}
		n := h.g.do(Op{Kind: "NotifyOk", AuthReq: o.H, HG: "HgOk"})
		for _, nf := range n.Notifs {
			h.introspect(nf.At)
			use(nf.At, "pushed token")
		}
		return
	}
	cells := map[c06Acc]string{}
	var last Handle
	var lastAcc c06Acc
	for _, x := range h.accompaniments(r, ann) {
		o := h.g.do(Op{Kind: "BcAuthorize", Cred: h.cred(5), Params: Params{Scopes: "openid email", LoginHint: "alice"}, InitOK: true, Sub: "alice", Granted: "openid email", Bind: b})
		if o.Kind != "Ciba" {
			rec(row + " -> refused at /bc-authorize")
			return
		}
		t := h.g.do(Op{Kind: "Token", Grant: "urn:openid:params:grant-type:ciba", Cred: h.cred(5), AuthReq: o.H, HG: "HgOk", BA: "BaApprove", Bind: x.bind(0)})
		cells[x] = "no"
		if t.Kind == "Tokens" {
			cells[x] = "ok"
			h.introspect(t.At)
			last, lastAcc = t.At, x
		}
	}
	rec(row + " -> auth_req_id redeemed with [" + c06Cells(cells) + "]")
	if last != 0 {
		use(last, "token fetched with "+lastAcc.String())
	}
}
