package main

// C06 — sender-constrained tokens.  World templates that enable DPoP / certificate binding in
// every mode the property quantifies over, the catalogue of proof and certificate deviations,
// and the entry points a deviation is presented at.  Everything is rendered through the common
// Op / World.Exec machinery, so the same operations run on the model (check_case) and on the
// real provider.

import (
	"fmt"
	"math/rand"
)

type c06Mode struct {
	Name    string
	Dpop    int  // 0 off, 1 enabled, 2 required by the server
	TLS     int  // 0 off, 1 enabled, 2 required by the server
	BindReq bool // WithTokenBindingRequired
	CDpop   bool // clients 1,3,5,7 registered with dpop_bound_access_tokens
	CTLS    bool // clients 1,3,5,7 registered with tls_client_certificate_bound_access_tokens
}

var c06Modes = []c06Mode{
	{Name: "dpop-optional", Dpop: 1},
	{Name: "dpop-server-required", Dpop: 2},
	{Name: "dpop-client-required", Dpop: 1, CDpop: true},
	{Name: "tls-optional", TLS: 1},
	{Name: "tls-server-required", TLS: 2},
	{Name: "tls-client-required", TLS: 1, CTLS: true},
	{Name: "both-optional", Dpop: 1, TLS: 1},
	{Name: "both-some-binding-required", Dpop: 1, TLS: 1, BindReq: true},
	{Name: "dpop-some-binding-required", Dpop: 1, BindReq: true},
	{Name: "tls-some-binding-required", TLS: 1, BindReq: true},
	{Name: "both-server-required", Dpop: 2, TLS: 2},
	{Name: "both-client-required", Dpop: 1, TLS: 1, CDpop: true, CTLS: true},
	{Name: "off-client-flags", CDpop: true, CTLS: true},
}

const (
	c06K1 = unknownBase + 7001
	c06K2 = unknownBase + 7002
	c06K3 = unknownBase + 7003
	c06C1 = unknownBase + 8001
	c06C2 = unknownBase + 8002
)

func c06Spec(r *rand.Rand, m c06Mode, prefix string, flavour string) WorldSpec {
	opts := []Opt{
		{Name: "WithScopes", Scopes: serverScopes},
		{Name: "WithAuthorizationCodeGrant"}, {Name: "WithClientCredentialsGrant"}, {Name: "WithImplicitGrant"},
		{Name: "WithTokenIntrospection"},
		{Name: "WithTokenLifetime", Z: 300},
		{Name: "WithRefreshTokenGrant", Z: 1000},
		{Name: "WithPAR", Z: 60},
		{Name: "WithCIBAGrant"},
	}
	if r.Intn(2) == 0 {
		opts = append(opts, Opt{Name: "WithRefreshTokenRotation"})
	}
	switch m.Dpop {
	case 1:
		opts = append(opts, Opt{Name: "WithDPoP"})
	case 2:
		opts = append(opts, Opt{Name: "WithDPoPRequired"})
	}
	switch m.TLS {
	case 1:
		opts = append(opts, Opt{Name: "WithTLSCertTokenBinding"})
	case 2:
		opts = append(opts, Opt{Name: "WithTLSCertTokenBindingRequired"})
	}
	if m.BindReq {
		opts = append(opts, Opt{Name: "WithTokenBindingRequired"})
	}
	// certificates reach the provider only through WithMTLS's ClientCertFunc
	if m.TLS > 0 || r.Intn(4) == 0 {
		opts = append(opts, Opt{Name: "WithMTLS"})
	}
	if prefix != "" {
		opts = append(opts, Opt{Name: "WithPathPrefix", S: prefix})
	}
	r.Shuffle(len(opts), func(i, j int) { opts[i], opts[j] = opts[j], opts[i] })
	allResp := []string{"code", "token", "id_token", "id_token token", "code id_token", "code token", "code id_token token"}
	clients := []ClientSpec{
		{ID: 1, Grants: []string{"authorization_code", "refresh_token", "client_credentials", "implicit"}, RespTypes: allResp,
			Redirects: []string{"https://c1.example/cb"}, Scopes: "openid email profile offline_access", DpopReq: m.CDpop, TLSReq: m.CTLS},
		{ID: 2, Grants: []string{"authorization_code", "refresh_token", "client_credentials"}, RespTypes: []string{"code"},
			Redirects: []string{"https://c2.example/cb"}, Scopes: "openid email", JWT: true},
		{ID: 3, Public: true, Grants: []string{"authorization_code", "refresh_token", "implicit"}, RespTypes: allResp,
			Redirects: []string{"https://c3.example/cb"}, Scopes: "openid profile", DpopReq: m.CDpop, TLSReq: m.CTLS},
		{ID: 5, Grants: []string{"urn:openid:params:grant-type:ciba", "refresh_token"}, Scopes: "openid email", CibaMode: "poll",
			DpopReq: m.CDpop, TLSReq: m.CTLS},
		{ID: 7, Grants: []string{"urn:openid:params:grant-type:ciba"}, Scopes: "openid email profile", CibaMode: "push", JWT: true,
			DpopReq: m.CDpop, TLSReq: m.CTLS},
	}
	return WorldSpec{Profile: "openid", Opts: opts, Static: clients, Flavour: flavour}
}

func specHas(s WorldSpec, name string) bool {
	for _, o := range s.Opts {
		if o.Name == name {
			return true
		}
	}
	return false
}

// ---- the deviation catalogue ----
type c06Dev struct {
	Name string
	F    func(b *Bind, other Handle)
	// UseOnly: the deviation only makes sense where an access token is presented
	UseOnly bool
}

func validProof(key Handle, ath Handle) *Proof {
	return &Proof{Parses: true, TypOK: true, Jwk: 2, JwkKey: key, Signer: key, HasIat: true, IatAge: 0, Jti: true, HtmOK: true, Htu: "HtuExact", Ath: ath}
}

func pdev(name string, f func(p *Proof)) c06Dev {
	return c06Dev{Name: name, F: func(b *Bind, _ Handle) {
		if b.Dpop != nil {
			f(b.Dpop)
		}
	}}
}

func c06Catalogue() []c06Dev {
	l := []c06Dev{
		{Name: "valid", F: func(*Bind, Handle) {}},
		pdev("typ", func(p *Proof) { p.TypOK = false }),
		pdev("alg", func(p *Proof) { p.Parses = false }),
		pdev("jwk-absent", func(p *Proof) { p.Jwk = 0 }),
		pdev("jwk-private", func(p *Proof) { p.Jwk = 1 }),
		pdev("jwk-other-key", func(p *Proof) { p.JwkKey = c06K2 }),
		pdev("signature-other-key", func(p *Proof) { p.Signer = c06K2 }),
		pdev("proof-of-other-key", func(p *Proof) { p.JwkKey, p.Signer = c06K2, c06K2 }),
		pdev("htm", func(p *Proof) { p.HtmOK = false }),
	}
	for _, v := range []string{"HtuHostCase", "HtuSchemeCase", "HtuDefaultPort", "HtuTrailingSlash", "HtuWithQuery", "HtuWithFragment",
		"HtuOtherPath", "HtuOtherHost", "HtuOtherScheme", "HtuOtherPort", "HtuUnparsable"} {
		v := v
		l = append(l, pdev("htu-"+v[3:], func(p *Proof) { p.Htu = v }))
	}
	l = append(l,
		pdev("iat-stale", func(p *Proof) { p.IatAge = 700 }),
		pdev("iat-future", func(p *Proof) { p.IatAge = -120 }),
		pdev("iat-absent", func(p *Proof) { p.HasIat = false }),
		pdev("iat-old-within-lifetime", func(p *Proof) { p.IatAge = 450 }),
		pdev("jti-absent", func(p *Proof) { p.Jti = false }),
		c06Dev{Name: "ath-absent", UseOnly: true, F: func(b *Bind, _ Handle) {
			if b.Dpop != nil {
				b.Dpop.Ath = 0
			}
		}},
		c06Dev{Name: "ath-other-token", F: func(b *Bind, other Handle) {
			if b.Dpop != nil {
				b.Dpop.Ath = other
			}
		}},
		c06Dev{Name: "two-dpop-headers", F: func(b *Bind, _ Handle) {
			if b.Dpop != nil {
				b.Twice = true
			}
		}},
		c06Dev{Name: "no-proof", F: func(b *Bind, _ Handle) { b.Dpop = nil }},
		c06Dev{Name: "cert-absent", F: func(b *Bind, _ Handle) { b.Cert = 0 }},
		c06Dev{Name: "cert-other", F: func(b *Bind, _ Handle) {
			if b.Cert != 0 {
				b.Cert = c06C2
			}
		}},
		c06Dev{Name: "no-proof-no-cert", F: func(b *Bind, _ Handle) { b.Dpop, b.Cert = nil, 0 }},
		c06Dev{Name: "other-key-other-cert", F: func(b *Bind, _ Handle) {
			if b.Dpop != nil {
				b.Dpop.JwkKey, b.Dpop.Signer = c06K2, c06K2
			}
			if b.Cert != 0 {
				b.Cert = c06C2
			}
		}},
	)
	return l
}

// ---- one history under construction ----
type c06Hist struct {
	g    *SysGen
	m    c06Mode
	mtls bool
	// always send a proof / certificate in the baseline request, even where the mechanism is off
	other Handle // some other access token, for ath deviations
}

func newC06Hist(r *rand.Rand, m c06Mode, prefix, flavour string) *c06Hist {
	spec := c06Spec(r, m, prefix, flavour)
	g, err := NewSysGen(r, spec)
	if err != nil {
		panic(err)
	}
	g.DevRate = 0
	return &c06Hist{g: g, m: m, mtls: specHas(spec, "WithMTLS")}
}

// the baseline (valid) accompaniment of a request presenting access token ath (0: none)
func (h *c06Hist) base(ath Handle) Bind {
	b := Bind{Dpop: validProof(c06K1, ath)}
	if h.mtls {
		b.Cert = c06C1
	}
	return b
}

func (h *c06Hist) dev(d c06Dev, ath Handle) Bind {
	b := h.base(ath)
	d.F(&b, h.other)
	if !h.mtls {
		b.Cert = 0 // no ClientCertFunc: nothing can present a certificate
	}
	return b
}

func (h *c06Hist) cred(id int) Cred { return Cred{ID: id, OK: true} }

func (h *c06Hist) introspect(tok Handle) {
	if tok != 0 {
		h.g.do(Op{Kind: "Introspect", Cred: h.cred(1), Tok: PTok{Kind: "PExact", H: tok}, Allowed: true})
	}
}

func (h *c06Hist) otherToken() {
	o := h.g.do(Op{Kind: "Token", Grant: "client_credentials", Cred: h.cred(2), Scope: "openid", HG: "HgOk", BA: "BaApprove", Bind: h.base(0)})
	if o.Kind == "Tokens" {
		h.other = o.At
	} else {
		h.other = unknownBase + 77
	}
}

// ---- entry points ----

// client_credentials
func (h *c06Hist) entryCC(devs []c06Dev, client int) {
	h.otherToken()
	for _, d := range devs {
		o := h.g.do(Op{Kind: "Token", Grant: "client_credentials", Cred: h.cred(client), Scope: "openid email", HG: "HgOk", BA: "BaApprove", Bind: h.dev(d, 0)})
		if o.Kind == "Tokens" {
			h.introspect(o.At)
		}
	}
}

// how a binding is announced before the code is redeemed
const (
	annNone = iota
	annAuthorizeJkt
	annParProof
	annParJkt
	annParCert
	annParProofCert
	annParOtherKeyJkt // PAR with dpop_jkt of K2: redemption with K1 must fail
	annCount
)

var annNames = []string{"none", "authorize-dpop_jkt", "par-proof", "par-dpop_jkt", "par-cert", "par-proof+cert", "par-dpop_jkt-other"}

// authorize (possibly through PAR) for client, announcing a binding; returns the code
func (h *c06Hist) authorize(client int, ann int, respType string) (Obs, Params) {
	spec := h.g.client(client)
	scopes := c06Scopes(client)
	p := Params{Redirect: spec.Redirects[0], RespType: respType, Scopes: scopes, State: "st-1", Nonce: "n-1"}
	pol := Pol{Kind: "PolSuccess", Sub: "alice", Granted: scopes}
	switch ann {
	case annNone:
		return h.g.do(Op{Kind: "Authorize", Client: client, Params: p, PolicyAvail: true, Pol: pol}), p
	case annAuthorizeJkt:
		p.DpopJkt = c06K1
		return h.g.do(Op{Kind: "Authorize", Client: client, Params: p, PolicyAvail: true, Pol: pol}), p
	}
	b := Bind{}
	switch ann {
	case annParProof:
		b.Dpop = validProof(c06K1, 0)
	case annParJkt:
		p.DpopJkt = c06K1
	case annParCert:
		b.Cert = c06C1
	case annParProofCert:
		b.Dpop, b.Cert = validProof(c06K1, 0), c06C1
	case annParOtherKeyJkt:
		p.DpopJkt = c06K2
	}
	if !h.mtls {
		b.Cert = 0
	}
	o := h.g.do(Op{Kind: "Par", Cred: h.cred(client), Params: p, Bind: b})
	if o.Kind != "Par" {
		return o, p
	}
	return h.g.do(Op{Kind: "Authorize", Client: client, Params: Params{RequestURI: o.H, RespType: respType, Scopes: scopes}, PolicyAvail: true, Pol: pol}), p
}

func c06Scopes(client int) string {
	if client == 2 {
		return "openid email"
	}
	return "openid profile"
}

func (h *c06Hist) redeem(client int, code Handle, p Params, b Bind) Obs {
	return h.g.do(Op{Kind: "Token", Grant: "authorization_code", Cred: h.cred(client), Code: code, Redirect: p.Redirect, HG: "HgOk", BA: "BaApprove", Bind: b})
}

func (h *c06Hist) entryCode(devs []c06Dev, client int, ann int) {
	h.otherToken()
	for _, d := range devs {
		o, p := h.authorize(client, ann, "code")
		if o.Kind != "Nav" || o.NCode == 0 {
			continue
		}
		t := h.redeem(client, o.NCode, p, h.dev(d, 0))
		if t.Kind == "Tokens" {
			h.introspect(t.At)
		}
	}
}

// a token obtained with the baseline accompaniment through the code flow
func (h *c06Hist) boundTokens(client int, ann int) (at, rt Handle) {
	o, p := h.authorize(client, ann, "code")
	if o.Kind != "Nav" || o.NCode == 0 {
		return 0, 0
	}
	t := h.redeem(client, o.NCode, p, h.base(0))
	if t.Kind != "Tokens" {
		return 0, 0
	}
	return t.At, t.Rt
}

func (h *c06Hist) entryRefresh(devs []c06Dev, client int) {
	h.otherToken()
	at, rt := h.boundTokens(client, annNone)
	h.introspect(at)
	if rt == 0 {
		return
	}
	for _, d := range devs {
		o := h.g.do(Op{Kind: "Token", Grant: "refresh_token", Cred: h.cred(client), Refresh: rt, HG: "HgOk", BA: "BaApprove", Bind: h.dev(d, 0)})
		if o.Kind == "Tokens" {
			if o.Rt != 0 {
				rt = o.Rt
			}
			h.introspect(o.At)
		}
	}
}

func (h *c06Hist) entryCiba(devs []c06Dev) {
	h.otherToken()
	var req Handle
	for _, d := range devs {
		if req == 0 {
			o := h.g.do(Op{Kind: "BcAuthorize", Cred: h.cred(5), Params: Params{Scopes: "openid email", LoginHint: "alice"}, InitOK: true, Sub: "alice", Granted: "openid email"})
			if o.Kind != "Ciba" {
				return
			}
			req = o.H
		}
		o := h.g.do(Op{Kind: "Token", Grant: "urn:openid:params:grant-type:ciba", Cred: h.cred(5), AuthReq: req, HG: "HgOk", BA: "BaApprove", Bind: h.dev(d, 0)})
		if o.Kind == "Tokens" {
			h.introspect(o.At)
			req = 0
		}
	}
}

// POST /par with the deviation; when it is accepted the flow is completed with the baseline key
func (h *c06Hist) entryPar(devs []c06Dev, client int, withJkt bool) {
	h.otherToken()
	spec := h.g.client(client)
	for _, d := range devs {
		p := Params{Redirect: spec.Redirects[0], RespType: "code", Scopes: c06Scopes(client), State: "st-2"}
		if withJkt {
			p.DpopJkt = c06K1
		}
		o := h.g.do(Op{Kind: "Par", Cred: h.cred(client), Params: p, Bind: h.dev(d, 0)})
		if o.Kind != "Par" {
			continue
		}
		a := h.g.do(Op{Kind: "Authorize", Client: client, Params: Params{RequestURI: o.H, RespType: "code", Scopes: p.Scopes}, PolicyAvail: true, Pol: Pol{Kind: "PolSuccess", Sub: "bob", Granted: p.Scopes}})
		if a.Kind != "Nav" || a.NCode == 0 {
			continue
		}
		t := h.redeem(client, a.NCode, p, h.base(0))
		if t.Kind == "Tokens" {
			h.introspect(t.At)
		}
	}
}

// use of a bound token: kind = UserInfo (GET or POST) or TokenInfoReq
func (h *c06Hist) entryUse(devs []c06Dev, client int, kind string, post bool, ann int) {
	h.otherToken()
	at, _ := h.boundTokens(client, ann)
	if at == 0 {
		return
	}
	h.introspect(at)
	for _, d := range devs {
		h.g.do(Op{Kind: kind, Tok: PTok{Kind: "PExact", H: at}, HasHeader: true, Bind: h.dev(d, at), Post: post})
	}
}

// POST /bc-authorize by a push-mode client: the binding is captured there
func (h *c06Hist) entryBcPush(devs []c06Dev) {
	h.otherToken()
	for i, d := range devs {
		o := h.g.do(Op{Kind: "BcAuthorize", Cred: h.cred(7), Params: Params{Scopes: "openid email", LoginHint: "alice", NotifToken: unknownBase + 5000 + Handle(i)},
			InitOK: true, Sub: "alice", Granted: "openid email", Bind: h.dev(d, 0)})
		if o.Kind != "Ciba" {
			continue
		}
		n := h.g.do(Op{Kind: "NotifyOk", AuthReq: o.H, HG: "HgOk"})
		for _, nf := range n.Notifs {
			h.introspect(nf.At)
		}
	}
}

// tokens issued by the authorization endpoint (implicit): bound through dpop_jkt only
func (h *c06Hist) entryImplicit(devs []c06Dev, client int, ann int) {
	h.otherToken()
	o, _ := h.authorize(client, ann, "id_token token")
	if o.Kind != "Nav" || o.NAt == 0 {
		return
	}
	h.introspect(o.NAt)
	for _, d := range devs {
		h.g.do(Op{Kind: "UserInfo", Tok: PTok{Kind: "PExact", H: o.NAt}, HasHeader: true, Bind: h.dev(d, o.NAt)})
	}
}

// ---- cross-endpoint histories ----
// PAR -> authorize -> token -> userinfo -> refresh -> userinfo, with the right / another / no key
// or certificate at each step.
func (h *c06Hist) keyChoice(r *rand.Rand, ath Handle) (Bind, string) {
	b := Bind{}
	desc := ""
	switch r.Intn(4) {
	case 0, 1:
		b.Dpop = validProof(c06K1, ath)
		desc = "K1"
	case 2:
		b.Dpop = validProof(c06K2, ath)
		desc = "K2"
	case 3:
		desc = "nokey"
	}
	switch r.Intn(4) {
	case 0, 1:
		b.Cert = c06C1
		desc += "+C1"
	case 2:
		b.Cert = c06C2
		desc += "+C2"
	case 3:
		desc += "+nocert"
	}
	if !h.mtls {
		b.Cert = 0
	}
	return b, desc
}

func (h *c06Hist) cross(r *rand.Rand) string {
	client := pick(r, []int{1, 3, 3, 2})
	ann := r.Intn(annCount)
	note := fmt.Sprintf("client=%d ann=%s", client, annNames[ann])
	h.otherToken()
	rts := pick(r, []string{"code", "code", "code", "code token", "code id_token token"})
	if client == 2 {
		rts = "code"
	}
	o, p := h.authorize(client, ann, rts)
	if o.Kind != "Nav" || o.NCode == 0 {
		return note + " (authorize refused)"
	}
	use := func(at Handle) {
		for i := 0; i < 2; i++ {
			b, _ := h.keyChoice(r, at)
			if b.Dpop != nil && r.Intn(6) == 0 {
				b.Dpop.Ath = pick(r, []Handle{0, h.other})
			}
			kind := pick(r, []string{"UserInfo", "UserInfo", "TokenInfoReq"})
			h.g.do(Op{Kind: kind, Tok: PTok{Kind: "PExact", H: at}, HasHeader: true, Bind: b, Post: r.Intn(3) == 0})
		}
	}
	if o.NAt != 0 {
		h.introspect(o.NAt)
		use(o.NAt)
	}
	b, d := h.keyChoice(r, 0)
	note += " token=" + d
	t := h.redeem(client, o.NCode, p, b)
	if t.Kind != "Tokens" {
		// a second attempt with the announced key and certificate: the code is gone by now
		o2, p2 := h.authorize(client, ann, "code")
		if o2.Kind != "Nav" || o2.NCode == 0 {
			return note
		}
		b = Bind{Dpop: validProof(c06K1, 0), Cert: c06C1}
		if ann == annParOtherKeyJkt {
			b.Dpop = validProof(c06K2, 0)
		}
		if !h.mtls {
			b.Cert = 0
		}
		t = h.redeem(client, o2.NCode, p2, b)
		if t.Kind != "Tokens" {
			return note
		}
	}
	h.introspect(t.At)
	use(t.At)
	rt := t.Rt
	for i := 0; i < 2 && rt != 0; i++ {
		b, d := h.keyChoice(r, 0)
		note += " refresh=" + d
		n := h.g.do(Op{Kind: "Token", Grant: "refresh_token", Cred: h.cred(client), Refresh: rt, HG: "HgOk", BA: "BaApprove", Bind: b})
		if n.Kind == "Tokens" {
			if n.Rt != 0 {
				rt = n.Rt
			}
			h.introspect(n.At)
			use(n.At)
		}
	}
	return note
}
