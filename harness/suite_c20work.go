package main

// C20, the workload (runs inside the -race binary; see suite_c20.go for the driver).
//
// Two providers ("worlds") are built, each with its DEFAULT in-memory managers (no With*Storage option; the
// managers provider.New created are only decorated with a call log after the fact):
//   world R: refresh-token rotation, PAR lifetime 60 s, refresh lifetime 600 s, one private_key_jwt algorithm;
//   world N: no rotation (a refresh token can be used by many requests at once), PAR lifetime 2 s and refresh
//            lifetime 5 s (expired request_uris and expired refresh tokens are met and removed), three
//            private_key_jwt algorithms.
// The levels (2, 4, 8, 16, 16 goroutines, ...) run in turn, each against ONE of the two providers.
//
// Clients: static ones (secret_post, public, private_key_jwt with inline jwks, CIBA ping and push), eight
// DCR-registered clients with 1..8 redirect URIs (encoding/json leaves spare capacity in the slices of 3, 5, 6, 7)
// SHARED by all goroutines, clients each goroutine registers for ITSELF (disjoint), and clients that are created,
// read, updated, lent to the other goroutines and deleted while the others may still use them.
//
// Every request carries a goroutine-private log in its context; the decorators of the three managers append the
// method they forward to it (no synchronisation is added: no atomics, no locks on the request path).  After the
// run the logs give, per storage method and per handler family, how often it ran and how often it ran while a
// request of ANOTHER goroutine that used the same manager was in flight.

import (
	"context"
	"crypto/ecdsa"
	"encoding/json"
	"fmt"
	"io"
	mrand "math/rand"
	"net/http"
	"net/http/httptest"
	"net/url"
	"reflect"
	"sort"
	"strings"
	"sync"
	"time"
	"unsafe"

	"github.com/go-jose/go-jose/v4"
	"github.com/luikyv/go-oidc/internal/oidc"
	"github.com/luikyv/go-oidc/internal/storage"
	"github.com/luikyv/go-oidc/pkg/goidc"
	"github.com/luikyv/go-oidc/pkg/provider"
)

// ------------------------------------------------------------------ storage-call log

// c20StorageMethods lists "<Manager>.<Method>" for every exported method of the three default managers, read off
// the types of internal/storage by reflection: a method added there is in the list without touching this file.
func c20StorageMethods() []string {
	var l []string
	for _, m := range []any{&storage.ClientManager{}, &storage.AuthnSessionManager{}, &storage.GrantSessionManager{}} {
		t := reflect.TypeOf(m)
		for i := 0; i < t.NumMethod(); i++ {
			l = append(l, t.Elem().Name()+"."+t.Method(i).Name)
		}
	}
	sort.Strings(l)
	return l
}

var c20MethodIdx = func() map[string]uint8 {
	m := map[string]uint8{}
	for i, s := range c20StorageMethods() {
		m[s] = uint8(i)
	}
	return m
}()

type c20req struct {
	g      int
	t0, t1 int64
	fam    string
	calls  []uint8
	asrt   uint8 // the request carries a client assertion: 1 private_key_jwt, 2 client_secret_jwt (suite_c20cfg.go)
}

// c20glog is owned by ONE goroutine; requests are served synchronously on the caller's goroutine, so the
// decorators below write to it without synchronisation.
type c20glog struct {
	g    int
	cur  *c20req
	reqs []*c20req
	cnt  map[string]int
}
type c20key struct{}

func c20note(ctx context.Context, m string) {
	if l, ok := ctx.Value(c20key{}).(*c20glog); ok && l.cur != nil {
		l.cur.calls = append(l.cur.calls, c20MethodIdx[m])
	}
}

type c20CM struct{ in goidc.ClientManager }

func (s c20CM) Save(ctx context.Context, c *goidc.Client) error {
	c20note(ctx, "ClientManager.Save")
	return s.in.Save(ctx, c)
}
func (s c20CM) Client(ctx context.Context, id string) (*goidc.Client, error) {
	c20note(ctx, "ClientManager.Client")
	return s.in.Client(ctx, id)
}
func (s c20CM) Delete(ctx context.Context, id string) error {
	c20note(ctx, "ClientManager.Delete")
	return s.in.Delete(ctx, id)
}

type c20AM struct{ in goidc.AuthnSessionManager }

func (s c20AM) Save(ctx context.Context, a *goidc.AuthnSession) error {
	c20note(ctx, "AuthnSessionManager.Save")
	return s.in.Save(ctx, a)
}
func (s c20AM) SessionByCallbackID(ctx context.Context, id string) (*goidc.AuthnSession, error) {
	c20note(ctx, "AuthnSessionManager.SessionByCallbackID")
	return s.in.SessionByCallbackID(ctx, id)
}
func (s c20AM) SessionByAuthCode(ctx context.Context, id string) (*goidc.AuthnSession, error) {
	c20note(ctx, "AuthnSessionManager.SessionByAuthCode")
	return s.in.SessionByAuthCode(ctx, id)
}
func (s c20AM) SessionByPushedAuthReqID(ctx context.Context, id string) (*goidc.AuthnSession, error) {
	c20note(ctx, "AuthnSessionManager.SessionByPushedAuthReqID")
	return s.in.SessionByPushedAuthReqID(ctx, id)
}
func (s c20AM) SessionByCIBAAuthID(ctx context.Context, id string) (*goidc.AuthnSession, error) {
	c20note(ctx, "AuthnSessionManager.SessionByCIBAAuthID")
	return s.in.SessionByCIBAAuthID(ctx, id)
}
func (s c20AM) Delete(ctx context.Context, id string) error {
	c20note(ctx, "AuthnSessionManager.Delete")
	return s.in.Delete(ctx, id)
}

type c20GM struct{ in goidc.GrantSessionManager }

func (s c20GM) Save(ctx context.Context, g *goidc.GrantSession) error {
	c20note(ctx, "GrantSessionManager.Save")
	return s.in.Save(ctx, g)
}
func (s c20GM) SessionByTokenID(ctx context.Context, id string) (*goidc.GrantSession, error) {
	c20note(ctx, "GrantSessionManager.SessionByTokenID")
	return s.in.SessionByTokenID(ctx, id)
}
func (s c20GM) SessionByRefreshToken(ctx context.Context, id string) (*goidc.GrantSession, error) {
	c20note(ctx, "GrantSessionManager.SessionByRefreshToken")
	return s.in.SessionByRefreshToken(ctx, id)
}
func (s c20GM) Delete(ctx context.Context, id string) error {
	c20note(ctx, "GrantSessionManager.Delete")
	return s.in.Delete(ctx, id)
}
func (s c20GM) DeleteByAuthorizationCode(ctx context.Context, code string) error {
	c20note(ctx, "GrantSessionManager.DeleteByAuthorizationCode")
	return s.in.DeleteByAuthorizationCode(ctx, code)
}

// c20Decorate finds the managers provider.New installed by default (they must be internal/storage's) and puts
// the logging decorators in front of them.
func c20Decorate(p *provider.Provider) {
	f := reflect.ValueOf(p).Elem().FieldByName("config")
	if !f.IsValid() || f.Kind() != reflect.Ptr {
		panic("c20: provider.Provider has no field config")
	}
	cfg := *(**oidc.Configuration)(unsafe.Pointer(f.UnsafeAddr()))
	cm, ok1 := cfg.ClientManager.(*storage.ClientManager)
	am, ok2 := cfg.AuthnSessionManager.(*storage.AuthnSessionManager)
	gm, ok3 := cfg.GrantSessionManager.(*storage.GrantSessionManager)
	if !ok1 || !ok2 || !ok3 {
		panic("c20: the provider's default managers are not the ones of internal/storage")
	}
	cfg.ClientManager, cfg.AuthnSessionManager, cfg.GrantSessionManager = c20CM{cm}, c20AM{am}, c20GM{gm}
}

// ------------------------------------------------------------------ the worlds

type c20client struct {
	id, secret, regTok string
	auth               string // post | pkjwt | sjwt | none
	mode               string // CIBA delivery mode: "" (no CIBA) | poll | ping | push
	uris               []string
	static             bool
}

type c20W struct {
	name   string
	rot    bool
	p      provider.Provider
	h      http.Handler
	ckey   *ecdsa.PrivateKey
	jwks   []byte
	shared []c20client // fixed before the goroutines start; read-only afterwards
	mu     sync.Mutex
	pool   map[string][]string // live artifacts handed from one goroutine to the others
	lent   []c20client         // clients of one goroutine the others may use (and the owner may delete)
	// suite_c20cold.go: the FAPI providers and the cold-start providers mark their handler families and outcomes
	// (suffix "@fapi1", "@fapi2", "@cold"), run flows of their own and send nothing but client_id with a request_uri
	suffix  string
	profile string // "" (= openid) | openid | fapi1 | fapi2
	flows   []c20Flow
	// logs of the short-lived goroutines of flowURIBurst (appended under mu after they have finished)
	extraLogs []*c20glog
	burstSeq  int
}

// the outer parameters that go with a request_uri
func (w *c20W) outer(clientID, requestURI string) url.Values {
	if strings.HasPrefix(w.profile, "fapi") {
		return url.Values{"client_id": {clientID}, "request_uri": {requestURI}}
	}
	return c20Outer(clientID, requestURI)
}

func (w *c20W) put(kind, s string) {
	if s == "" {
		return
	}
	w.mu.Lock()
	l := append(w.pool[kind], s)
	if max := 48 - 36*strings.Count(kind, "-open"); len(l) > max { // the abandoned ones: a short list, so that they are still open when taken
		l = l[len(l)-max:]
	}
	w.pool[kind] = l
	w.mu.Unlock()
}
func (w *c20W) take(r *mrand.Rand, kind string) []string {
	w.mu.Lock()
	defer w.mu.Unlock()
	l := w.pool[kind]
	if len(l) == 0 {
		return nil
	}
	return strings.Split(l[r.Intn(len(l))], "|")
}
func (w *c20W) lend(c c20client) {
	w.mu.Lock()
	w.lent = append(w.lent, c)
	if len(w.lent) > 24 {
		w.lent = w.lent[len(w.lent)-24:]
	}
	w.mu.Unlock()
}
func (w *c20W) borrowed(r *mrand.Rand) (c20client, bool) {
	w.mu.Lock()
	defer w.mu.Unlock()
	if len(w.lent) == 0 {
		return c20client{}, false
	}
	return w.lent[r.Intn(len(w.lent))], true
}

type c20rt struct{ w *c20W }

func (t c20rt) RoundTrip(r *http.Request) (*http.Response, error) {
	if strings.HasSuffix(r.URL.Path, "/jwks.json") {
		return &http.Response{StatusCode: 200, Body: io.NopCloser(strings.NewReader(string(t.w.jwks))), Header: http.Header{}}, nil
	}
	return &http.Response{StatusCode: 204, Body: io.NopCloser(strings.NewReader("")), Header: http.Header{}}, nil
}

const c20Scopes = "openid email offline_access"

func c20URIs(n int) []string {
	l := []string{c13Redirect}
	for i := 1; i < n; i++ {
		l = append(l, fmt.Sprintf("%s?alt=%d", c13Redirect, i))
	}
	return l
}

// the policy reads its script from the state parameter: "n<k>" succeeds at step k, "f<k>" fails at step k
func c20Policy() goidc.AuthnPolicy {
	return goidc.NewPolicy("main",
		func(*http.Request, *goidc.Client, *goidc.AuthnSession) bool { return true },
		func(rw http.ResponseWriter, r *http.Request, s *goidc.AuthnSession) (goidc.AuthnStatus, error) {
			st := s.State
			k, fail := 1, false
			if len(st) >= 2 {
				fail = st[0] == 'f'
				k = int(st[1] - '0')
			}
			step := 1
			if v, ok := s.StoredParameter("step").(int); ok {
				step = v + 1
			}
			if step < k {
				s.StoreParameter("step", step)
				rw.WriteHeader(200)
				fmt.Fprintf(rw, "PAGE cb=%s", s.CallbackID)
				return goidc.StatusInProgress, nil
			}
			if fail {
				return goidc.StatusFailure, goidc.NewError(goidc.ErrorCodeAccessDenied, "denied by the user")
			}
			s.SetUserID("user1")
			s.GrantScopes(s.Scopes)
			return goidc.StatusSuccess, nil
		})
}

func newC20World(name string, rot bool) (*c20W, error) {
	w := &c20W{name: name, rot: rot, pool: map[string][]string{}}
	w.ckey = genKey()
	pub := jose.JSONWebKey{Key: &w.ckey.PublicKey, KeyID: "ck1", Algorithm: "ES256", Use: "sig"}
	w.jwks, _ = json.Marshal(jose.JSONWebKeySet{Keys: []jose.JSONWebKey{pub}})
	srvKey := genKey()
	srv := goidc.JSONWebKeySet{Keys: []goidc.JSONWebKey{{Key: srvKey, KeyID: "srv-es256", Algorithm: "ES256", Use: "sig"}}}
	allGrants := []goidc.GrantType{goidc.GrantAuthorizationCode, goidc.GrantRefreshToken, goidc.GrantClientCredentials, goidc.GrantCIBA}
	mk := func(id string, method goidc.ClientAuthnType, mode goidc.CIBATokenDeliveryMode, uris []string) *goidc.Client {
		c := &goidc.Client{ID: id}
		c.TokenAuthnMethod = method
		c.GrantTypes = allGrants
		c.ResponseTypes = []goidc.ResponseType{goidc.ResponseTypeCode}
		c.RedirectURIs = uris
		c.ScopeIDs = c20Scopes
		c.CIBATokenDeliveryMode = mode
		if mode != goidc.CIBATokenDeliveryModePoll {
			c.CIBANotificationEndpoint = "https://" + id + ".example/notify"
		}
		switch method {
		case goidc.ClientAuthnSecretPost:
			c.HashedSecret = bcryptOf(c13Secret)
		case goidc.ClientAuthnPrivateKeyJWT:
			c.TokenAuthnSigAlg = goidc.ES256
			c.PublicJWKS = w.jwks
		}
		return c
	}
	statics := []*goidc.Client{
		mk("s1", goidc.ClientAuthnSecretPost, goidc.CIBATokenDeliveryModePoll, c20URIs(1)),
		// a public client whose embedder built the redirect URIs with append: the slice has spare capacity
		mk("s2", goidc.ClientAuthnNone, goidc.CIBATokenDeliveryModePoll, append(make([]string, 0, 8), c20URIs(3)...)),
		mk("s3", goidc.ClientAuthnPrivateKeyJWT, goidc.CIBATokenDeliveryModePoll, c20URIs(2)),
		mk("s4", goidc.ClientAuthnPrivateKeyJWT, goidc.CIBATokenDeliveryModePing, c20URIs(1)),
		mk("s5", goidc.ClientAuthnPrivateKeyJWT, goidc.CIBATokenDeliveryModePush, c20URIs(1)),
	}
	refreshSecs, parSecs := 600, 60
	if !rot {
		refreshSecs, parSecs = 5, 2
	}
	opts := []provider.ProviderOption{
		// no With*Storage option: the provider's DEFAULT in-memory managers (internal/storage)
		provider.WithScopes(goidc.ScopeOpenID, goidc.NewScope("email"), goidc.ScopeOfflineAccess),
		provider.WithIDTokenSignatureAlgs(goidc.ES256),
		provider.WithAuthorizationCodeGrant(), provider.WithClientCredentialsGrant(),
		provider.WithRefreshTokenGrant(func(*goidc.Client, goidc.GrantInfo) bool { return true }, refreshSecs),
		provider.WithCIBAGrant(
			func(_ context.Context, s *goidc.AuthnSession) error {
				s.SetUserID("user1")
				s.GrantScopes(s.Scopes)
				return nil
			},
			func(_ context.Context, s *goidc.AuthnSession) error {
				// read-only (the embedder's validation is its own business); the verdict is a function of the id:
				// a quarter stays pending, a quarter is denied (terminal: the session is removed), the rest is approved
				if id := s.CIBAAuthID; id != "" {
					switch id[len(id)-1] % 4 {
					case 0:
						return goidc.NewError(goidc.ErrorCodeAuthPending, "pending")
					case 1:
						return goidc.NewError(goidc.ErrorCodeAccessDenied, "denied")
					}
				}
				return nil
			},
			goidc.CIBATokenDeliveryModePoll, goidc.CIBATokenDeliveryModePing, goidc.CIBATokenDeliveryModePush),
		provider.WithPAR(parSecs), provider.WithUnregisteredRedirectURIsForPAR(),
		provider.WithPKCE(goidc.CodeChallengeMethodSHA256),
		provider.WithTokenIntrospection(func(*goidc.Client) bool { return true }, goidc.ClientAuthnSecretPost, goidc.ClientAuthnPrivateKeyJWT, goidc.ClientAuthnNone),
		provider.WithTokenRevocation(func(*goidc.Client) bool { return true }, goidc.ClientAuthnSecretPost, goidc.ClientAuthnPrivateKeyJWT, goidc.ClientAuthnNone),
		provider.WithDCR(nil, nil),
		provider.WithHTTPClientFunc(func(context.Context) *http.Client { return &http.Client{Transport: c20rt{w}} }),
		provider.WithTokenOptions(func(gi goidc.GrantInfo, c *goidc.Client) goidc.TokenOptions {
			return goidc.NewOpaqueTokenOptions(goidc.DefaultOpaqueTokenLength, 300)
		}),
		provider.WithPolicy(c20Policy()),
	}
	if rot {
		opts = append(opts, provider.WithRefreshTokenRotation(), provider.WithPrivateKeyJWTSignatureAlgs(goidc.ES256),
			provider.WithTokenAuthnMethods(goidc.ClientAuthnSecretPost, goidc.ClientAuthnPrivateKeyJWT, goidc.ClientAuthnNone))
	} else {
		// (client_secret_jwt is not among the methods of this provider, so ClientSecretJWTSigAlgs is empty and
		// ClientAuthnSigAlgs' append(PrivateKeyJWTSigAlgs, ClientSecretJWTSigAlgs...) has nothing to write.  With the
		// method enabled the list defaults to HS256 - WithSecretJWTSignatureAlgs itself refuses every algorithm, it
		// ranges over the characters of its first argument - and the append WRITES whenever PrivateKeyJWTSigAlgs has
		// spare capacity: the wide-configuration provider of suite_c20cfg.go)
		opts = append(opts, provider.WithPrivateKeyJWTSignatureAlgs(goidc.ES256, goidc.PS256, goidc.RS256),
			provider.WithTokenAuthnMethods(goidc.ClientAuthnSecretPost, goidc.ClientAuthnPrivateKeyJWT, goidc.ClientAuthnNone))
	}
	for _, c := range statics {
		opts = append(opts, provider.WithStaticClient(c))
	}
	p, err := provider.New(goidc.ProfileOpenID, issuer, func(context.Context) (goidc.JSONWebKeySet, error) { return srv, nil }, opts...)
	if err != nil {
		return nil, err
	}
	c20Decorate(&p)
	w.p = p
	w.h = p.Handler()
	for _, c := range statics {
		k := c20client{id: c.ID, static: true, uris: c.RedirectURIs, mode: string(c.CIBATokenDeliveryMode)}
		switch c.TokenAuthnMethod {
		case goidc.ClientAuthnSecretPost:
			k.auth, k.secret = "post", c13Secret
		case goidc.ClientAuthnPrivateKeyJWT:
			k.auth = "pkjwt"
		default:
			k.auth, k.mode = "none", ""
		}
		w.shared = append(w.shared, k)
	}
	// the shared dynamic clients go into the provider's own default client store through the DCR endpoint
	g := &c20G{w: w, r: mrand.New(mrand.NewSource(7)), log: &c20glog{g: -1, cnt: map[string]int{}}, own: nil}
	for n := 1; n <= 8; n++ {
		auth := []string{"pkjwt-uri", "none", "pkjwt", "pkjwt-uri", "none", "post", "pkjwt-uri", "none"}[n-1]
		c, ok := g.register(auth, n, "seed")
		if !ok {
			return nil, fmt.Errorf("c20: DCR seeding failed")
		}
		w.shared = append(w.shared, c)
	}
	return w, nil
}

// ------------------------------------------------------------------ one goroutine

type c20G struct {
	w        *c20W
	r        *mrand.Rand
	log      *c20glog
	own      []c20client // registered by this goroutine, used by it alone
	deadline time.Time
	base     time.Time
	asrtNext uint8 // set by authn, consumed by the next call: the kind of client assertion the request carries
}

func (g *c20G) late() bool { return !g.deadline.IsZero() && time.Now().After(g.deadline) }

func (g *c20G) begin(fam string) *c20req {
	rq := &c20req{g: g.log.g, t0: int64(time.Since(g.base)), fam: fam}
	g.log.cur = rq
	return rq
}
func (g *c20G) end(rq *c20req) {
	rq.t1 = int64(time.Since(g.base))
	g.log.cur = nil
	g.log.reqs = append(g.log.reqs, rq)
}

// httptest.NewRequest panics on a malformed target
func c20NewRequest(method, target string, rd io.Reader) (req *http.Request) {
	defer func() {
		if recover() != nil {
			req = nil
		}
	}()
	return httptest.NewRequest(method, target, rd)
}

func (g *c20G) call(fam, method, target, body, ct string, hdr map[string]string) *httptest.ResponseRecorder {
	var rd io.Reader
	if body != "" {
		rd = strings.NewReader(body)
	}
	req := c20NewRequest(method, target, rd)
	if req == nil {
		// a target assembled from an answer of the provider that is not a usable URL (e.g. a callback id read
		// from a page that carries an error instead): the request cannot be sent; the client sees a failure
		rec := httptest.NewRecorder()
		rec.WriteHeader(400)
		return rec
	}
	req = req.WithContext(context.WithValue(req.Context(), c20key{}, g.log))
	if ct != "" {
		req.Header.Set("Content-Type", ct)
	}
	for k, v := range hdr {
		req.Header.Set(k, v)
	}
	rec := httptest.NewRecorder()
	rq := g.begin(fam + g.w.suffix)
	rq.asrt, g.asrtNext = g.asrtNext, 0
	g.w.h.ServeHTTP(rec, req)
	g.end(rq)
	return rec
}

func (g *c20G) form(fam, path string, v url.Values) map[string]any {
	rec := g.call(fam, "POST", path, v.Encode(), "application/x-www-form-urlencoded", nil)
	var m map[string]any
	_ = json.Unmarshal(rec.Body.Bytes(), &m)
	if m == nil {
		m = map[string]any{}
	}
	m["_status"] = rec.Code
	return m
}

func (g *c20G) count(k string) {
	if sfx := g.w.suffix; sfx != "" { // "<family>[:<outcome>]" -> "<family><suffix>[:<outcome>]"
		if i := strings.Index(k, ":"); i >= 0 {
			k = k[:i] + sfx + k[i:]
		} else {
			k += sfx
		}
	}
	g.log.cnt[k]++
}
func (g *c20G) outcome(fam string, m map[string]any) {
	if e := str(m, "error"); e != "" {
		g.count(fam + ":" + e)
	} else {
		g.count(fam + ":ok")
	}
}

func str(m map[string]any, k string) string { s, _ := m[k].(string); return s }

func (g *c20G) authn(c c20client, v url.Values) url.Values {
	v.Set("client_id", c.id)
	switch c.auth {
	case "pkjwt":
		v.Set("client_assertion_type", "urn:ietf:params:oauth:client-assertion-type:jwt-bearer")
		v.Set("client_assertion", c13Sign(g.w.ckey, "ck1", "JWT", map[string]any{"iss": c.id, "sub": c.id, "aud": issuer,
			"jti": fmt.Sprint(g.r.Int63()), "exp": time.Now().Unix() + 60, "iat": time.Now().Unix()}, nil))
		g.asrtNext = 1
	case "sjwt": // client_secret_jwt (suite_c20cfg.go): an HS256 assertion keyed with the client's secret
		v.Set("client_assertion_type", "urn:ietf:params:oauth:client-assertion-type:jwt-bearer")
		v.Set("client_assertion", c20SignHS(c.secret, map[string]any{"iss": c.id, "sub": c.id, "aud": issuer,
			"jti": fmt.Sprint(g.r.Int63()), "exp": time.Now().Unix() + 60, "iat": time.Now().Unix()}))
		g.asrtNext = 2
	case "post":
		v.Set("client_secret", c.secret)
	}
	return v
}

// pickClient: a shared client (most of the time), one of the goroutine's own, or one lent by another goroutine
func (g *c20G) pickClient(pred func(c20client) bool) (c20client, bool) {
	for try := 0; try < 12; try++ {
		var c c20client
		switch k := g.r.Intn(10); {
		case k < 6 || (len(g.own) == 0 && k < 8):
			c = g.w.shared[g.r.Intn(len(g.w.shared))]
		case k < 8:
			c = g.own[g.r.Intn(len(g.own))]
		default:
			var ok bool
			if c, ok = g.w.borrowed(g.r); !ok {
				continue
			}
		}
		if c.auth == "post" && !c.static && g.r.Intn(3) != 0 {
			continue // the secrets of DCR clients are bcrypt hashes of the default cost: slow even outside the detector
		}
		if pred == nil || pred(c) {
			return c, true
		}
	}
	return c20client{}, false
}

func (g *c20G) clientByID(id string) (c20client, bool) {
	for _, c := range g.w.shared {
		if c.id == id {
			return c, true
		}
	}
	for _, c := range g.own {
		if c.id == id {
			return c, true
		}
	}
	g.w.mu.Lock()
	defer g.w.mu.Unlock()
	for _, c := range g.w.lent {
		if c.id == id {
			return c, true
		}
	}
	return c20client{}, false
}

func c20Meta(auth string, n int, mode string) string {
	m := map[string]any{"redirect_uris": c20URIs(n), "response_types": []string{"code"}, "scope": c20Scopes}
	grants := []string{"authorization_code", "refresh_token"}
	switch auth {
	case "none":
		m["token_endpoint_auth_method"] = "none"
		mode = ""
	case "post":
		m["token_endpoint_auth_method"] = "client_secret_post"
	case "pkjwt", "pkjwt-uri":
		m["token_endpoint_auth_method"] = "private_key_jwt"
		m["token_endpoint_auth_signing_alg"] = "ES256"
	}
	if auth != "none" {
		grants = append(grants, "client_credentials", "urn:openid:params:grant-type:ciba")
		if mode == "" {
			mode = "poll"
		}
		m["backchannel_token_delivery_mode"] = mode
		if mode != "poll" {
			m["backchannel_client_notification_endpoint"] = "https://dyn.example/notify"
		}
	}
	m["grant_types"] = grants
	b, _ := json.Marshal(m)
	s := string(b)
	// jwks / jwks_uri are spliced in as raw JSON
	switch auth {
	case "pkjwt":
		s = s[:len(s)-1] + `,"jwks":` + "%JWKS%" + "}"
	case "pkjwt-uri":
		s = s[:len(s)-1] + `,"jwks_uri":"https://dyn.example/jwks.json"}`
	}
	return s
}

func (g *c20G) metaFor(auth string, n int, mode string) string {
	return strings.Replace(c20Meta(auth, n, mode), "%JWKS%", string(g.w.jwks), 1)
}

// register creates a client through POST /register
func (g *c20G) register(auth string, n int, fam string) (c20client, bool) {
	mode := ""
	if auth != "none" {
		mode = []string{"poll", "poll", "ping", "push"}[g.r.Intn(4)]
	}
	rec := g.call("dcr-create", "POST", "/register", g.metaFor(auth, n, mode), "application/json", nil)
	var m map[string]any
	_ = json.Unmarshal(rec.Body.Bytes(), &m)
	id := str(m, "client_id")
	if id == "" {
		g.count("dcr-create:" + str(m, "error"))
		return c20client{}, false
	}
	g.count(fmt.Sprintf("dcr-create:ok:uris=%d", n))
	c := c20client{id: id, secret: str(m, "client_secret"), regTok: str(m, "registration_access_token"), auth: auth, mode: mode, uris: c20URIs(n)}
	if auth == "pkjwt-uri" {
		c.auth = "pkjwt"
		g.count("client-with-jwks_uri")
	}
	if auth == "none" {
		c.mode = ""
	}
	return c, true
}

func (g *c20G) learn(m map[string]any, c c20client) {
	if at := str(m, "access_token"); at != "" {
		g.w.put("access_token", at+"|"+c.id)
	}
	if rt := str(m, "refresh_token"); rt != "" {
		g.w.put("refresh_token", rt+"|"+c.id)
	}
}

const c20Verifier = "vvvvvvvvvvvvvvvvvvvvvvvvvvvvvvvvvvvvvvvvvvvvvvvvvv"

func (g *c20G) redeem(fam string, c c20client, code, redirect string) map[string]any {
	m := g.form(fam, "/token", g.authn(c, url.Values{"grant_type": {"authorization_code"}, "code": {code}, "redirect_uri": {redirect},
		"code_verifier": {c20Verifier}}))
	g.outcome(fam, m)
	g.learn(m, c)
	return m
}

// ------------------------------------------------------------------ the flows

// interactive authorization with a policy of 1..3 steps (or one that fails), directly or through PAR (with a
// registered or an unregistered redirect URI), then the code, then - often - the same code again.  Some flows
// are abandoned half-way (after the push, after a page): the request_uri / callback id is in the pool and another
// goroutine carries on (two may, at the same time).
func (g *c20G) flowAuthorize() {
	c, ok := g.pickClient(nil)
	if !ok {
		return
	}
	steps := 1 + g.r.Intn(3)
	state := fmt.Sprintf("n%d", steps)
	if g.r.Intn(8) == 0 {
		state = fmt.Sprintf("f%d", steps)
	}
	redirect := c.uris[g.r.Intn(len(c.uris))]
	q := url.Values{"client_id": {c.id}, "response_type": {"code"}, "scope": {c20Scopes}, "redirect_uri": {redirect},
		"state": {state}, "nonce": {"n"}, "code_challenge": {thumb(c20Verifier)}, "code_challenge_method": {"S256"}}
	if g.r.Intn(2) == 0 {
		fam := "par"
		if g.r.Intn(2) == 0 {
			fam = "par-unregistered-redirect"
			redirect = fmt.Sprintf("https://unregistered%d.example/cb", g.r.Intn(1000))
			q.Set("redirect_uri", redirect)
		}
		m := g.form(fam, "/par", g.authn(c, cloneValues(q)))
		g.outcome(fam, m)
		ru := str(m, "request_uri")
		if ru == "" {
			return
		}
		g.w.put("request_uri", ru+"|"+c.id+"|"+redirect)
		if g.r.Intn(5) == 0 {
			g.w.put("request_uri-open", ru+"|"+c.id+"|"+redirect)
			return // left to another goroutine
		}
		q = c20Outer(c.id, ru)
		if g.r.Intn(8) == 0 {
			// another client presents the request_uri: refused, and the pushed session is removed
			if o, ok := g.pickClient(func(o c20client) bool { return o.id != c.id }); ok {
				rec := g.call("authorize-foreign-request_uri", "GET", "/authorize?"+c20Outer(o.id, ru).Encode(), "", "", nil)
				g.count(fmt.Sprintf("authorize-foreign-request_uri:%d", rec.Code))
				return
			}
		}
	}
	rec := g.call("authorize", "GET", "/authorize?"+q.Encode(), "", "", nil)
	g.carryOn("authorize", "callback", rec, c, redirect, true)
}

// the outer parameters that go with a request_uri (OpenID Connect wants response_type and scope outside as well)
func c20Outer(clientID, requestURI string) url.Values {
	return url.Values{"client_id": {clientID}, "request_uri": {requestURI}, "response_type": {"code"}, "scope": {c20Scopes}}
}

// carryOn follows the policy's pages to the code, redeems it and - often - presents it a second time
func (g *c20G) carryOn(fam, cbFam string, rec *httptest.ResponseRecorder, c c20client, redirect string, mayAbandon bool) {
	steps := 1
	for ; ; steps++ {
		body := rec.Body.String()
		if !strings.HasPrefix(body, "PAGE cb=") {
			break
		}
		g.count(fam + ":in-progress")
		cb := strings.TrimPrefix(body, "PAGE cb=")
		g.w.put("callback", cb+"|"+c.id+"|"+redirect)
		if g.late() || steps > 4 {
			return
		}
		if mayAbandon && g.r.Intn(6) == 0 {
			g.w.put("callback-open", cb+"|"+c.id+"|"+redirect)
			return // left to another goroutine
		}
		rec = g.call(cbFam, "POST", "/authorize/"+cb, "", "application/x-www-form-urlencoded", nil)
	}
	loc := rec.Header().Get("Location")
	code := locParam(loc, "code")
	if code == "" {
		if e := locParam(loc, "error"); e != "" {
			g.count(fam + ":redirected-" + e)
		} else {
			g.count(fmt.Sprintf("%s:refused-%d", fam, rec.Code))
		}
		return
	}
	g.count(fmt.Sprintf("%s:code:steps=%d", fam, steps))
	g.w.put("code", code+"|"+c.id+"|"+redirect)
	g.redeem("code", c, code, redirect)
	if g.r.Intn(2) == 0 && !g.late() {
		// the same code again: refused, and the grant issued for it is revoked
		g.redeem("code-replay", c, code, redirect)
	}
}

// somebody else's callback / code / request_uri (same-object concurrency)
func (g *c20G) flowShared() {
	switch g.r.Intn(4) {
	case 0:
		if p := g.w.take(g.r, pick(g.r, []string{"callback", "callback-open", "callback-open"})); len(p) == 3 {
			if c, ok := g.clientByID(p[1]); ok {
				rec := g.call("callback-shared", "POST", "/authorize/"+p[0], "", "application/x-www-form-urlencoded", nil)
				g.carryOn("callback-shared", "callback-shared", rec, c, p[2], false)
			}
		}
	case 1, 2:
		if p := g.w.take(g.r, "code"); len(p) == 3 {
			if c, ok := g.clientByID(p[1]); ok {
				g.redeem("code-replay", c, p[0], p[2])
			}
		}
	case 3:
		if p := g.w.take(g.r, pick(g.r, []string{"request_uri", "request_uri-open", "request_uri-open"})); len(p) == 3 {
			if c, ok := g.clientByID(p[1]); ok {
				rec := g.call("request_uri-shared", "GET", "/authorize?"+g.w.outer(p[1], p[0]).Encode(), "", "", nil)
				g.carryOn("request_uri-shared", "callback", rec, c, p[2], false)
			}
		}
	}
}

func (g *c20G) flowRefresh() {
	p := g.w.take(g.r, "refresh_token")
	if len(p) != 2 {
		return
	}
	c, ok := g.clientByID(p[1])
	if !ok {
		return
	}
	fam := "refresh-no-rotation"
	if g.w.rot {
		fam = "refresh-rotation"
	}
	m := g.form(fam, "/token", g.authn(c, url.Values{"grant_type": {"refresh_token"}, "refresh_token": {p[0]}}))
	g.outcome(fam, m)
	g.learn(m, c)
}

func (g *c20G) flowIntrospect() {
	c, ok := g.pickClient(nil)
	if !ok {
		return
	}
	p := g.w.take(g.r, pick(g.r, []string{"access_token", "refresh_token"}))
	if p == nil {
		return
	}
	m := g.form("introspect", "/introspect", g.authn(c, url.Values{"token": {p[0]}}))
	if a, _ := m["active"].(bool); a {
		g.count("introspect:active")
	} else {
		g.count("introspect:inactive")
	}
}

func (g *c20G) flowUserinfo() {
	p := g.w.take(g.r, "access_token")
	if p == nil {
		return
	}
	rec := g.call("userinfo", "GET", "/userinfo", "", "", map[string]string{"Authorization": "Bearer " + p[0]})
	g.count(fmt.Sprintf("userinfo:%d", rec.Code))
}

func (g *c20G) flowRevoke() {
	p := g.w.take(g.r, pick(g.r, []string{"access_token", "refresh_token"}))
	if len(p) != 2 {
		return
	}
	c, ok := g.clientByID(p[1])
	if !ok || g.r.Intn(5) == 0 {
		if c, ok = g.pickClient(nil); !ok { // (also: a client that does not own the token)
			return
		}
	}
	rec := g.call("revoke", "POST", "/revoke", g.authn(c, url.Values{"token": {p[0]}}).Encode(), "application/x-www-form-urlencoded", nil)
	g.count(fmt.Sprintf("revoke:%d", rec.Code))
}

func (g *c20G) api(fam string, f func(ctx context.Context) error) error {
	rq := g.begin(fam + g.w.suffix)
	err := f(context.WithValue(context.Background(), c20key{}, g.log))
	g.end(rq)
	if err != nil {
		g.count(fam + ":error")
	} else {
		g.count(fam + ":ok")
	}
	return err
}

// CIBA: poll mode (pending / denied / tokens), ping mode (notification, then poll), push mode (tokens or the
// failure are pushed by NotifyCIBASuccess / NotifyCIBAFailure)
func (g *c20G) flowCIBA() {
	c, ok := g.pickClient(func(c c20client) bool { return c.mode != "" })
	if !ok {
		return
	}
	v := url.Values{"scope": {"openid email"}, "login_hint": {"user1"}}
	if c.mode != "poll" {
		v.Set("client_notification_token", "cnt-0123456789")
	}
	fam := "bc-authorize-" + c.mode
	m := g.form(fam, "/bc-authorize", g.authn(c, v))
	g.outcome(fam, m)
	id := str(m, "auth_req_id")
	if id == "" {
		return
	}
	g.w.put("auth_req_id", id+"|"+c.id)
	switch c.mode {
	case "push":
		if g.r.Intn(3) == 0 {
			_ = g.api("ciba-push-failure", func(ctx context.Context) error {
				return g.w.p.NotifyCIBAFailure(ctx, id, goidc.NewError(goidc.ErrorCodeAccessDenied, "user denied"))
			})
		} else {
			_ = g.api("ciba-push-success", func(ctx context.Context) error { return g.w.p.NotifyCIBASuccess(ctx, id) })
		}
		return
	case "ping":
		_ = g.api("ciba-ping", func(ctx context.Context) error { return g.w.p.NotifyCIBASuccess(ctx, id) })
	}
	if g.r.Intn(5) == 0 {
		return // left to another goroutine
	}
	for i := 0; i < 2 && !g.late(); i++ {
		m = g.form("ciba-poll", "/token", g.authn(c, url.Values{"grant_type": {"urn:openid:params:grant-type:ciba"}, "auth_req_id": {id}}))
		g.outcome("ciba-poll", m)
		g.learn(m, c)
		if str(m, "error") != "authorization_pending" {
			break
		}
	}
}

// somebody else's auth_req_id: polled by its client from another goroutine, or pushed a second time
func (g *c20G) flowCIBAShared() {
	p := g.w.take(g.r, "auth_req_id")
	if len(p) != 2 {
		return
	}
	c, ok := g.clientByID(p[1])
	if !ok {
		return
	}
	if c.mode == "push" {
		_ = g.api("ciba-push-shared", func(ctx context.Context) error { return g.w.p.NotifyCIBASuccess(ctx, p[0]) })
		return
	}
	m := g.form("ciba-poll-shared", "/token", g.authn(c, url.Values{"grant_type": {"urn:openid:params:grant-type:ciba"}, "auth_req_id": {p[0]}}))
	g.outcome("ciba-poll-shared", m)
	g.learn(m, c)
}

func (g *c20G) flowClientCredentials() {
	c, ok := g.pickClient(func(c c20client) bool { return c.auth != "none" })
	if !ok {
		return
	}
	m := g.form("client_credentials", "/token", g.authn(c, url.Values{"grant_type": {"client_credentials"}, "scope": {"email"}}))
	g.outcome("client_credentials", m)
	g.learn(m, c)
}

func c20AuthKind(r *mrand.Rand) string {
	switch k := r.Intn(10); {
	case k < 4:
		return "none"
	case k < 7:
		return "pkjwt-uri"
	case k < 9:
		return "pkjwt"
	}
	return "post"
}

// a client of this goroutine alone
func (g *c20G) flowRegisterOwn() {
	if len(g.own) >= 3 {
		g.flowDCRChurn()
		return
	}
	if c, ok := g.register(c20AuthKind(g.r), 1+g.r.Intn(8), "dcr-create"); ok {
		g.own = append(g.own, c)
	}
}

// DCR: create, read, update (another number of redirect URIs), lend to the other goroutines, use, delete
func (g *c20G) flowDCRChurn() {
	auth := c20AuthKind(g.r)
	c, ok := g.register(auth, 1+g.r.Intn(8), "dcr-create")
	if !ok || g.late() {
		return
	}
	h := map[string]string{"Authorization": "Bearer " + c.regTok}
	rec := g.call("dcr-read", "GET", "/register/"+c.id, "", "", h)
	g.count(fmt.Sprintf("dcr-read:%d", rec.Code))
	g.w.lend(c)
	if g.late() {
		return
	}
	if c.auth != "post" { // an update gives a secret_post client a new secret, and hashes it
		n := 1 + g.r.Intn(8)
		a := auth
		rec = g.call("dcr-update", "PUT", "/register/"+c.id, g.metaFor(a, n, c.mode), "application/json", h)
		g.count(fmt.Sprintf("dcr-update:%d:uris=%d", rec.Code, n))
	}
	if g.late() {
		return
	}
	if c.auth != "none" {
		m := g.form("client_credentials", "/token", g.authn(c, url.Values{"grant_type": {"client_credentials"}, "scope": {"email"}}))
		g.outcome("client_credentials", m)
		g.learn(m, c)
	}
	if g.r.Intn(3) != 0 && !g.late() {
		rec = g.call("dcr-delete", "DELETE", "/register/"+c.id, "", "", h)
		g.count(fmt.Sprintf("dcr-delete:%d", rec.Code))
	}
}

// DCR read / update of a client other goroutines are using right now (shared or lent)
func (g *c20G) flowDCRShared() {
	c, ok := g.pickClient(func(c c20client) bool { return !c.static && c.auth != "post" && c.regTok != "" })
	if !ok {
		return
	}
	h := map[string]string{"Authorization": "Bearer " + c.regTok}
	if g.r.Intn(2) == 0 {
		rec := g.call("dcr-read", "GET", "/register/"+c.id, "", "", h)
		g.count(fmt.Sprintf("dcr-read-shared:%d", rec.Code))
		return
	}
	// the same registration again (same authentication method, same number of redirect URIs)
	auth := c.auth
	if auth == "pkjwt" {
		auth = "pkjwt-uri"
	}
	rec := g.call("dcr-update", "PUT", "/register/"+c.id, g.metaFor(auth, len(c.uris), c.mode), "application/json", h)
	g.count(fmt.Sprintf("dcr-update-shared:%d", rec.Code))
}

type c20Flow struct {
	name   string
	weight int
	f      func(g *c20G)
}

var c20Flows = []c20Flow{
	{"authorize", 26, (*c20G).flowAuthorize},
	{"shared-artifacts", 10, (*c20G).flowShared},
	{"refresh", 12, (*c20G).flowRefresh},
	{"introspect", 10, (*c20G).flowIntrospect},
	{"userinfo", 9, (*c20G).flowUserinfo},
	{"revoke", 4, (*c20G).flowRevoke},
	{"ciba", 10, (*c20G).flowCIBA},
	{"ciba-shared", 3, (*c20G).flowCIBAShared},
	{"client_credentials", 5, (*c20G).flowClientCredentials},
	{"dcr-own", 3, (*c20G).flowRegisterOwn},
	{"dcr-churn", 5, (*c20G).flowDCRChurn},
	{"dcr-shared", 4, (*c20G).flowDCRShared},
	{"request_uri-burst", 3, (*c20G).flowURIBurst},
}

func (g *c20G) run() {
	// first every flow once (in an order of the goroutine's own), then by weight
	flows := c20Flows
	if g.w.flows != nil {
		flows = g.w.flows
	}
	total := 0
	for _, f := range flows {
		total += f.weight
	}
	for _, i := range g.r.Perm(len(flows)) {
		if g.late() {
			return
		}
		flows[i].f(g)
	}
	for !g.late() {
		k := g.r.Intn(total)
		for _, f := range flows {
			if k < f.weight {
				f.f(g)
				break
			}
			k -= f.weight
		}
	}
}

func cloneValues(v url.Values) url.Values {
	o := url.Values{}
	for k, l := range v {
		o[k] = append([]string(nil), l...)
	}
	return o
}

// ------------------------------------------------------------------ coverage from the logs

var c20Managers = []string{"ClientManager", "AuthnSessionManager", "GrantSessionManager"}

func c20ManagerOf(method string) int {
	for i, m := range c20Managers {
		if strings.HasPrefix(method, m+".") {
			return i
		}
	}
	return 0
}

// c20Coverage: per storage method and per handler family, the number of invocations and the number of those
// made while a request of another goroutine that used the same manager (for families: any request of another
// goroutine) was in flight
func c20Coverage(reqs []*c20req, dist map[string]int) {
	methods := c20StorageMethods()
	mgr := make([]int, len(methods))
	for i, m := range methods {
		mgr[i] = c20ManagerOf(m)
		dist["method/"+m] += 0
		dist["method-concurrent/"+m] += 0
	}
	sort.Slice(reqs, func(i, j int) bool { return reqs[i].t0 < reqs[j].t0 })
	mask := func(r *c20req) (b uint8) {
		for _, c := range r.calls {
			b |= 1 << mgr[c]
		}
		return b
	}
	var active []*c20req
	others := make(map[*c20req]uint8, len(reqs)) // managers used by overlapping requests of other goroutines
	overl := make(map[*c20req]bool, len(reqs))
	for _, r := range reqs {
		k := 0
		for _, a := range active {
			if a.t1 >= r.t0 {
				active[k] = a
				k++
			}
		}
		active = active[:k]
		for _, a := range active {
			if a.g != r.g {
				others[r] |= mask(a)
				others[a] |= mask(r)
				overl[r], overl[a] = true, true
			}
		}
		active = append(active, r)
	}
	for _, r := range reqs {
		dist["handler/"+r.fam]++
		if overl[r] {
			dist["handler-concurrent/"+r.fam]++
		}
		for _, c := range r.calls {
			dist["method/"+methods[c]]++
			if others[r]&(1<<mgr[c]) != 0 {
				dist["method-concurrent/"+methods[c]]++
			}
		}
	}
}

func c20Work(ctx *RunCtx) {
	worlds := map[bool]*c20W{}
	for _, rot := range []bool{true, false} {
		name := "N"
		if rot {
			name = "R"
		}
		w, err := newC20World(name, rot)
		if err != nil {
			panic(err)
		}
		worlds[rot] = w
	}
	fapi := map[string]*c20W{}
	for _, p := range c20FapiProfiles {
		w, err := newC20FapiWorld(p)
		if err != nil {
			panic(err)
		}
		fapi[p] = w
	}
	// the wide-configuration provider (suite_c20cfg.go) runs levels of its own, like the FAPI ones
	wide, err := newC20WideWorld()
	if err != nil {
		panic(err)
	}
	fapi["wide"] = wide
	// (goroutines, share of the time); the provider alternates, both get a 16-goroutine level
	type level struct {
		g     int
		share float64
		fapi  string
	}
	levels := []level{{2, 0.10, ""}, {4, 0.11, ""}, {8, 0.17, ""}, {16, 0.22, ""}, {16, 0.22, ""},
		{8, 0.045, "fapi2"}, {8, 0.045, "fapi1"}, {16, 0.045, "fapi2"}, {16, 0.045, "fapi1"}, {8, 0.05, "wide"}, {16, 0.05, "wide"}}
	if !ctx.Quick() {
		levels = []level{{2, 0.035, ""}, {4, 0.045, ""}, {8, 0.07, ""}, {16, 0.09, ""}, {16, 0.09, ""}, {4, 0.02, "fapi2"}, {4, 0.02, "fapi1"},
			{3, 0.035, ""}, {6, 0.05, ""}, {12, 0.09, ""}, {16, 0.09, ""}, {16, 0.09, ""}, {8, 0.025, "fapi2"}, {8, 0.025, "fapi1"},
			{5, 0.025, ""}, {16, 0.09, ""}, {16, 0.09, ""}, {16, 0.03, "fapi2"}, {16, 0.03, "fapi1"}, {2, 0.01, "fapi2"}, {2, 0.01, "fapi1"},
			{4, 0.012, "wide"}, {8, 0.02, "wide"}, {16, 0.025, "wide"}}
	}
	total := time.Duration(ctx.N(30, 240)) * time.Second
	base := time.Now()
	var all []*c20req
	served := 0
	outcomes := map[string]int{}
	collect := func(logs []*c20glog) (n int) {
		for _, l := range logs {
			all = append(all, l.reqs...)
			n += len(l.reqs)
			for k, v := range l.cnt {
				outcomes["outcome/"+k] += v
			}
		}
		served += n
		return n
	}
	// cold start first (and once more at the end): fresh providers, concurrent FIRST requests of static clients
	coldRounds := ctx.N(36, 240)
	coldStats := map[string]int{}
	cold := func(part int64, rounds int) {
		logs, stats := c20ColdStart(ctx.Seed*10+part, rounds, base)
		collect(logs)
		for k, v := range stats {
			coldStats[k] += v
		}
	}
	cold(0, coldRounds/2)
	// the same against BARE providers (no optional function, no WithHTTPClientFunc; real loopback listeners), and the
	// bursts of assertion-carrying requests against the wide-configuration provider (suite_c20cfg.go)
	bareRounds, burstRounds := ctx.N(18, 120), ctx.N(6, 40)
	bare := func(part int64, rounds int) {
		logs, stats := c20ColdBareStart(ctx.Seed*10+part, rounds, base)
		collect(logs)
		for k, v := range stats {
			coldStats[k] += v
		}
	}
	burst := func(part int64, rounds int) {
		logs, stats := c20WideBurst(wide, ctx.Seed*10+part, rounds, base)
		collect(logs)
		for k, v := range stats {
			coldStats[k] += v
		}
	}
	c20WideConfigStats(wide, coldStats)
	bare(0, bareRounds/2)
	burst(0, burstRounds/2)
	runLevel := func(li int, w *c20W, n int, d time.Duration) {
		deadline := time.Now().Add(d)
		var wg sync.WaitGroup
		gs := make([]*c20G, n)
		for i := range gs {
			gs[i] = &c20G{w: w, r: mrand.New(mrand.NewSource(ctx.Seed*1000 + int64(li*100+i))), log: &c20glog{g: li*100 + i, cnt: map[string]int{}},
				deadline: deadline, base: base}
			wg.Add(1)
			go func(g *c20G) {
				defer wg.Done()
				g.run()
			}(gs[i])
		}
		wg.Wait()
		var logs []*c20glog
		for _, g := range gs {
			logs = append(logs, g.log)
		}
		w.mu.Lock()
		logs = append(logs, w.extraLogs...)
		w.extraLogs = nil
		w.mu.Unlock()
		ctx.Meta.Dist[fmt.Sprintf("level/%02d:goroutines=%d:provider=%s", li, len(gs), w.name)] = collect(logs)
	}
	for li, lv := range levels {
		w := worlds[(li+int(ctx.Seed))%2 == 0]
		if lv.fapi != "" {
			w = fapi[lv.fapi]
		}
		runLevel(li, w, lv.g, time.Duration(float64(total)*lv.share))
	}
	cold(1, coldRounds-coldRounds/2)
	bare(1, bareRounds-bareRounds/2)
	burst(1, burstRounds-burstRounds/2)
	coverage := func() map[string]int {
		d := map[string]int{}
		for k, v := range outcomes {
			d[k] = v
		}
		for k, v := range coldStats {
			d[k] = v
		}
		c20Coverage(all, d)
		var wideReqs []*c20req
		for _, r := range all {
			if strings.HasSuffix(r.fam, "@wide") {
				wideReqs = append(wideReqs, r)
			}
		}
		d["wide/assertion-requests-in-flight-together"], d["wide/assertion-requests-of-both-kinds-in-flight-together"] = c20AssertionOverlap(wideReqs)
		return d
	}
	// a slow machine serves fewer requests: rather than report a gap of the workload, go on (16 goroutines, a few
	// seconds at a time, the provider that has a gap - the OpenID ones in turn) until everything the property
	// quantifies over has been exercised
	for extra := 0; extra < 10; extra++ {
		gaps := c20Gaps(coverage())
		if len(gaps) == 0 {
			break
		}
		li := len(levels) + extra
		w := worlds[(li+int(ctx.Seed))%2 == 0]
		onlyFapi := true
		for _, gp := range gaps {
			if !strings.Contains(gp, "@fapi") {
				onlyFapi = false
			}
		}
		if onlyFapi || extra%3 == 2 {
			for _, gp := range gaps {
				for _, p := range c20FapiProfiles {
					if strings.Contains(gp, "@"+p) {
						w = fapi[p]
					}
				}
			}
		}
		joined := strings.Join(gaps, " ")
		if strings.Contains(joined, "cold-start:") || strings.Contains(joined, "@cold") {
			cold(int64(2+extra), 12)
		}
		if strings.Contains(joined, "cold-bare:") || strings.Contains(joined, "@bare") {
			bare(int64(2+extra), 12)
		}
		wideGap, otherGap := false, false
		for _, gp := range gaps {
			switch {
			case strings.Contains(gp, "@wide") || strings.HasPrefix(gp, "wide-config:"):
				wideGap = true
			case strings.Contains(gp, "@bare") || strings.Contains(gp, "@cold") || strings.HasPrefix(gp, "cold-"):
			default:
				otherGap = true
			}
		}
		if wideGap {
			burst(int64(2+extra), 4)
			if !otherGap || extra%3 == 1 {
				w = wide
			}
		}
		runLevel(li, w, 16, total/10)
	}
	for k, v := range coverage() {
		ctx.Meta.Dist[k] = v
	}
	ctx.Meta.Cases = served
	ctx.Meta.Rule = "requests served"
}
