package main

// Storage owned by the harness: two flavours behind one decorator.
//   alias: the repository's default in-memory managers (internal/storage), which keep and hand
//          back the very pointers they were given;
//   copy : every Save and every lookup goes through encoding/json, as a database would.
// The decorator logs every call, can fail / miss / crash at the k-th call of a request,
// can park a goroutine before a call until a scheduler releases it, and implements
// "advance the clock by d" by moving every stored timestamp d into the past.

import (
	"context"
	"encoding/json"
	"errors"
	"sort"
	"sync"

	"github.com/luikyv/go-oidc/internal/storage"
	"github.com/luikyv/go-oidc/pkg/goidc"
)

type crashSentinel struct{}

type Fault int

const (
	FNone Fault = iota
	FErr
	FMiss
)

var errInjected = errors.New("injected storage failure")
var errNotFound = errors.New("entity not found")

// ---- JSON copy store ----
type jstore[T any] struct {
	mu sync.Mutex
	m  map[string][]byte
}

func newJ[T any]() *jstore[T] { return &jstore[T]{m: map[string][]byte{}} }
func (s *jstore[T]) put(id string, v *T) error {
	b, err := json.Marshal(v)
	if err != nil {
		return err
	}
	s.mu.Lock()
	defer s.mu.Unlock()
	s.m[id] = b
	return nil
}
func (s *jstore[T]) find(pred func(*T) bool) (*T, error) {
	s.mu.Lock()
	defer s.mu.Unlock()
	keys := make([]string, 0, len(s.m))
	for k := range s.m {
		keys = append(keys, k)
	}
	sort.Strings(keys)
	for _, k := range keys {
		var v T
		if err := json.Unmarshal(s.m[k], &v); err != nil {
			return nil, err
		}
		if pred(&v) {
			return &v, nil
		}
	}
	return nil, errNotFound
}
func (s *jstore[T]) del(id string) { s.mu.Lock(); delete(s.m, id); s.mu.Unlock() }
func (s *jstore[T]) each(f func(*T)) {
	s.mu.Lock()
	defer s.mu.Unlock()
	for k, b := range s.m {
		var v T
		if json.Unmarshal(b, &v) == nil {
			f(&v)
			nb, _ := json.Marshal(&v)
			s.m[k] = nb
		}
	}
}

type jClients struct{ *jstore[goidc.Client] }

func (s jClients) Save(_ context.Context, c *goidc.Client) error { return s.put(c.ID, c) }
func (s jClients) Client(_ context.Context, id string) (*goidc.Client, error) {
	return s.find(func(c *goidc.Client) bool { return c.ID == id })
}
func (s jClients) Delete(_ context.Context, id string) error { s.del(id); return nil }

type jAuthn struct{ *jstore[goidc.AuthnSession] }

func (s jAuthn) Save(_ context.Context, v *goidc.AuthnSession) error { return s.put(v.ID, v) }
func (s jAuthn) SessionByCallbackID(_ context.Context, id string) (*goidc.AuthnSession, error) {
	return s.find(func(v *goidc.AuthnSession) bool { return v.CallbackID == id })
}
func (s jAuthn) SessionByAuthCode(_ context.Context, id string) (*goidc.AuthnSession, error) {
	return s.find(func(v *goidc.AuthnSession) bool { return v.AuthCode == id })
}
func (s jAuthn) SessionByPushedAuthReqID(_ context.Context, id string) (*goidc.AuthnSession, error) {
	return s.find(func(v *goidc.AuthnSession) bool { return v.PushedAuthReqID == id })
}
func (s jAuthn) SessionByCIBAAuthID(_ context.Context, id string) (*goidc.AuthnSession, error) {
	return s.find(func(v *goidc.AuthnSession) bool { return v.CIBAAuthID == id })
}
func (s jAuthn) Delete(_ context.Context, id string) error { s.del(id); return nil }

type jGrant struct{ *jstore[goidc.GrantSession] }

func (s jGrant) Save(_ context.Context, v *goidc.GrantSession) error { return s.put(v.ID, v) }
func (s jGrant) SessionByTokenID(_ context.Context, id string) (*goidc.GrantSession, error) {
	return s.find(func(v *goidc.GrantSession) bool { return v.TokenID == id })
}
func (s jGrant) SessionByRefreshToken(_ context.Context, id string) (*goidc.GrantSession, error) {
	return s.find(func(v *goidc.GrantSession) bool { return v.RefreshToken == id })
}
func (s jGrant) Delete(_ context.Context, id string) error { s.del(id); return nil }
func (s jGrant) DeleteByAuthorizationCode(_ context.Context, code string) error {
	g, err := s.find(func(v *goidc.GrantSession) bool { return v.AuthorizationCode == code })
	if err != nil {
		return nil
	}
	s.del(g.ID)
	return nil
}

// ---- the decorator ----
type CallKind int

const (
	KCGet CallKind = iota
	KCSave
	KCDel
	KASave
	KAGet
	KADel
	KGSave
	KGGet
	KGDel
	KGDelByCode
)

func (k CallKind) isRead() bool { return k == KCGet || k == KAGet || k == KGGet }

type Stores struct {
	Flavour string
	C       goidc.ClientManager
	A       goidc.AuthnSessionManager
	G       goidc.GrantSessionManager
	// handles on the underlying data, for Tick and snapshots
	aliasC *storage.ClientManager
	aliasA *storage.AuthnSessionManager
	aliasG *storage.GrantSessionManager
	copyC  *jstore[goidc.Client]
	copyA  *jstore[goidc.AuthnSession]
	copyG  *jstore[goidc.GrantSession]

	mu      sync.Mutex
	log     []CallKind        // calls of the current request
	plan    map[int]Fault     // call index -> fault, for the current request
	crashAt int               // crash before call number crashAt (-1: never)
	gate    func(req int, k CallKind) // scheduler hook (may block)
	lastSavedAuthn []goidc.AuthnSession  // every session passed to Save (copies), this request
}

func NewStores(flavour string) *Stores {
	s := &Stores{Flavour: flavour, crashAt: -1}
	if flavour == "alias" {
		s.aliasC, s.aliasA, s.aliasG = storage.NewClientManager(), storage.NewAuthnSessionManager(), storage.NewGrantSessionManager()
		s.C, s.A, s.G = s.aliasC, s.aliasA, s.aliasG
	} else {
		s.copyC, s.copyA, s.copyG = newJ[goidc.Client](), newJ[goidc.AuthnSession](), newJ[goidc.GrantSession]()
		s.C, s.A, s.G = jClients{s.copyC}, jAuthn{s.copyA}, jGrant{s.copyG}
	}
	return s
}

type reqKey struct{}

func reqOf(ctx context.Context) int {
	if v, ok := ctx.Value(reqKey{}).(int); ok {
		return v
	}
	return 0
}

// observerKey marks a context used by the harness itself to LOOK at the provider between requests (e.g. the
// TokenInfo helper asked for the confirmation of a token just issued): such calls are not part of any
// request - no log entry, no fault, no scheduling.
type observerKey struct{}

func observerCtx() context.Context { return context.WithValue(context.Background(), observerKey{}, true) }

// before is called at the start of every storage call; it returns the fault to apply.
func (s *Stores) before(ctx context.Context, k CallKind) Fault {
	if ctx.Value(observerKey{}) != nil {
		return FNone
	}
	if s.gate != nil {
		s.gate(reqOf(ctx), k)
	}
	s.mu.Lock()
	n := len(s.log)
	if s.crashAt >= 0 && n == s.crashAt {
		s.mu.Unlock()
		panic(crashSentinel{})
	}
	s.log = append(s.log, k)
	f := s.plan[n]
	s.mu.Unlock()
	if f == FMiss && !k.isRead() {
		f = FNone
	}
	return f
}

func (s *Stores) BeginRequest(plan map[int]Fault, crashAt int) {
	s.mu.Lock()
	s.log = nil
	s.plan = plan
	s.crashAt = crashAt
	s.lastSavedAuthn = nil
	s.mu.Unlock()
}
func (s *Stores) Log() []CallKind {
	s.mu.Lock()
	defer s.mu.Unlock()
	return append([]CallKind(nil), s.log...)
}

type decC struct{ s *Stores }
type decA struct{ s *Stores }
type decG struct{ s *Stores }

func (d decC) Save(ctx context.Context, c *goidc.Client) error {
	if f := d.s.before(ctx, KCSave); f == FErr {
		return errInjected
	}
	return d.s.C.Save(ctx, c)
}
func (d decC) Client(ctx context.Context, id string) (*goidc.Client, error) {
	switch d.s.before(ctx, KCGet) {
	case FErr:
		return nil, errInjected
	case FMiss:
		return nil, errNotFound
	}
	return d.s.C.Client(ctx, id)
}
func (d decC) Delete(ctx context.Context, id string) error {
	if f := d.s.before(ctx, KCDel); f == FErr {
		return errInjected
	}
	return d.s.C.Delete(ctx, id)
}

func (d decA) Save(ctx context.Context, v *goidc.AuthnSession) error {
	f := d.s.before(ctx, KASave)
	d.s.mu.Lock()
	d.s.lastSavedAuthn = append(d.s.lastSavedAuthn, *v)
	d.s.mu.Unlock()
	if f == FErr {
		return errInjected
	}
	return d.s.A.Save(ctx, v)
}
func (d decA) get(ctx context.Context, f func() (*goidc.AuthnSession, error)) (*goidc.AuthnSession, error) {
	switch d.s.before(ctx, KAGet) {
	case FErr:
		return nil, errInjected
	case FMiss:
		return nil, errNotFound
	}
	return f()
}
func (d decA) SessionByCallbackID(ctx context.Context, id string) (*goidc.AuthnSession, error) {
	return d.get(ctx, func() (*goidc.AuthnSession, error) { return d.s.A.SessionByCallbackID(ctx, id) })
}
func (d decA) SessionByAuthCode(ctx context.Context, id string) (*goidc.AuthnSession, error) {
	return d.get(ctx, func() (*goidc.AuthnSession, error) { return d.s.A.SessionByAuthCode(ctx, id) })
}
func (d decA) SessionByPushedAuthReqID(ctx context.Context, id string) (*goidc.AuthnSession, error) {
	return d.get(ctx, func() (*goidc.AuthnSession, error) { return d.s.A.SessionByPushedAuthReqID(ctx, id) })
}
func (d decA) SessionByCIBAAuthID(ctx context.Context, id string) (*goidc.AuthnSession, error) {
	return d.get(ctx, func() (*goidc.AuthnSession, error) { return d.s.A.SessionByCIBAAuthID(ctx, id) })
}
func (d decA) Delete(ctx context.Context, id string) error {
	if f := d.s.before(ctx, KADel); f == FErr {
		return errInjected
	}
	return d.s.A.Delete(ctx, id)
}

func (d decG) Save(ctx context.Context, v *goidc.GrantSession) error {
	if f := d.s.before(ctx, KGSave); f == FErr {
		return errInjected
	}
	return d.s.G.Save(ctx, v)
}
func (d decG) get(ctx context.Context, f func() (*goidc.GrantSession, error)) (*goidc.GrantSession, error) {
	switch d.s.before(ctx, KGGet) {
	case FErr:
		return nil, errInjected
	case FMiss:
		return nil, errNotFound
	}
	return f()
}
func (d decG) SessionByTokenID(ctx context.Context, id string) (*goidc.GrantSession, error) {
	return d.get(ctx, func() (*goidc.GrantSession, error) { return d.s.G.SessionByTokenID(ctx, id) })
}
func (d decG) SessionByRefreshToken(ctx context.Context, id string) (*goidc.GrantSession, error) {
	return d.get(ctx, func() (*goidc.GrantSession, error) { return d.s.G.SessionByRefreshToken(ctx, id) })
}
func (d decG) Delete(ctx context.Context, id string) error {
	if f := d.s.before(ctx, KGDel); f == FErr {
		return errInjected
	}
	return d.s.G.Delete(ctx, id)
}
func (d decG) DeleteByAuthorizationCode(ctx context.Context, code string) error {
	if f := d.s.before(ctx, KGDelByCode); f == FErr {
		return errInjected
	}
	return d.s.G.DeleteByAuthorizationCode(ctx, code)
}

func (s *Stores) Clients() goidc.ClientManager       { return decC{s} }
func (s *Stores) Authn() goidc.AuthnSessionManager   { return decA{s} }
func (s *Stores) Grants() goidc.GrantSessionManager  { return decG{s} }

// Tick: advancing the clock by d is moving every stored timestamp d into the past.
func (s *Stores) Tick(d int) {
	fa := func(v *goidc.AuthnSession) { v.ExpiresAtTimestamp -= d; v.CreatedAtTimestamp -= d }
	fg := func(v *goidc.GrantSession) {
		v.ExpiresAtTimestamp -= d
		v.CreatedAtTimestamp -= d
		v.LastTokenExpiresAtTimestamp -= d
	}
	if s.Flavour == "alias" {
		for _, v := range s.aliasA.Sessions {
			fa(v)
		}
		for _, v := range s.aliasG.Sessions {
			fg(v)
		}
	} else {
		s.copyA.each(fa)
		s.copyG.each(fg)
	}
}

// Timestamps returns every stored expiry, for boundary avoidance.
func (s *Stores) Timestamps() []int {
	var out []int
	fa := func(v *goidc.AuthnSession) { out = append(out, v.ExpiresAtTimestamp) }
	fg := func(v *goidc.GrantSession) { out = append(out, v.ExpiresAtTimestamp, v.LastTokenExpiresAtTimestamp) }
	if s.Flavour == "alias" {
		for _, v := range s.aliasA.Sessions {
			fa(v)
		}
		for _, v := range s.aliasG.Sessions {
			fg(v)
		}
	} else {
		s.copyA.each(fa)
		s.copyG.each(fg)
	}
	return out
}

// Snapshot: a canonical rendering of the stored sessions and grants (for frame checks).
func (s *Stores) Snapshot() string {
	var as []goidc.AuthnSession
	var gs []goidc.GrantSession
	var cs []goidc.Client
	if s.Flavour == "alias" {
		for _, v := range s.aliasA.Sessions {
			as = append(as, *v)
		}
		for _, v := range s.aliasG.Sessions {
			gs = append(gs, *v)
		}
		for _, v := range s.aliasC.Clients {
			cs = append(cs, *v)
		}
	} else {
		s.copyA.each(func(v *goidc.AuthnSession) { as = append(as, *v) })
		s.copyG.each(func(v *goidc.GrantSession) { gs = append(gs, *v) })
		s.copyC.each(func(v *goidc.Client) { cs = append(cs, *v) })
	}
	sort.Slice(as, func(i, j int) bool { return as[i].ID < as[j].ID })
	sort.Slice(gs, func(i, j int) bool { return gs[i].ID < gs[j].ID })
	sort.Slice(cs, func(i, j int) bool { return cs[i].ID < cs[j].ID })
	for i := range cs {
		cs[i].PublicJWKS = nil
	}
	b, _ := json.Marshal(struct {
		A []goidc.AuthnSession
		G []goidc.GrantSession
		C []goidc.Client
	}{as, gs, cs})
	return string(b)
}

func (s *Stores) AuthnSessions() []goidc.AuthnSession {
	var as []goidc.AuthnSession
	if s.Flavour == "alias" {
		for _, v := range s.aliasA.Sessions {
			as = append(as, *v)
		}
	} else {
		s.copyA.each(func(v *goidc.AuthnSession) { as = append(as, *v) })
	}
	return as
}
func (s *Stores) GrantSessions() []goidc.GrantSession {
	var gs []goidc.GrantSession
	if s.Flavour == "alias" {
		for _, v := range s.aliasG.Sessions {
			gs = append(gs, *v)
		}
	} else {
		s.copyG.each(func(v *goidc.GrantSession) { gs = append(gs, *v) })
	}
	return gs
}
