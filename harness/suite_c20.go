package main

// C20: concurrent requests on the DEFAULT in-memory storage under the Go race detector.
//
//   suite c20      (ordinary binary) builds this very package with `go build -race` (CGO_ENABLED=1; the go
//                  command reuses its cache, so an unchanged tree costs a fraction of a second),
//                  runs `verifharness_race c20work` with GORACE="halt_on_error=0 log_path=...",
//                  parses the race reports and reduces each to a signature:
//                      unordered pair of (innermost github.com/luikyv/go-oidc frame function, read|write)
//                  (function names, no line numbers: stable across runs).  Every signature is a Finding;
//                  ./check prints those listed as "known" in known_findings.json as KNOWN-FINDING (they
//                  are the pairs Model/Access.v predicts) and reports anything else - in particular any
//                  race whose access is a map operation inside internal/storage - as a violation.  The
//                  suite also writes a case file that asks the model whether each observed signature is in
//                  its predicted set, and checks the workload's coverage: every storage method of the three
//                  default managers and every handler family of the property's quantifier must have run
//                  while requests of other goroutines were in flight (a gap is a finding of its own).
//   suite c20work  (race binary) the workload: suite_c20work.go (OpenID worlds), suite_c20cold.go (cold start, FAPI),
//                  suite_c20cfg.go (the configuration as shared memory: wide configuration, bare cold start).

import (
	"encoding/json"
	"fmt"
	"os"
	"os/exec"
	"path/filepath"
	"regexp"
	"sort"
	"strings"
)

// ------------------------------------------------------------------ the driver (ordinary binary)

type raceAccess struct {
	Kind  string // read | write
	Func  string // innermost go-oidc frame
	IsMap bool   // the access itself is a runtime map operation
	Top   string // innermost frame of all
	Lost  bool   // the detector could not restore this side's stack
	// which class of object the access can concern, read off the stack:
	InitAuth bool // below internal/authorize.initAuth: the FIRST request of an authorization (GET/POST /authorize). Every session it
	// handles is private to the request until it saves it - a new one, or a COPY of the pushed one
	Cold bool // below main.c20Cold*: a first request against a provider with static clients only (suite_c20cold.go)
	Wide bool // below main.c20WideRequest: a request of a burst against the wide-configuration provider (suite_c20cfg.go)
}

// c20Qualify: the object class a WRITE site concerns, where the stack tells.  The writers of sessions (internal/authorize,
// the setters of goidc.AuthnSession the policy calls) below initAuth must be working on a private session: such a write
// in a race report is named "<site>[initAuth]" - it is NOT the known in-place rewrite of the stored session by the
// callback.  The writers of clients (goidc.Client methods) in the cold-start phase can only reach STATIC clients, which
// a request must never write: "<site>[static-client]" - NOT the known write to a client held by the client storage.
//
// The CONFIGURATION (suite_c20cfg.go): a write whose innermost go-oidc frame is a method of oidc.Context or
// oidc.Configuration - the request context is a VALUE that embeds the shared *Configuration; nothing else a Context
// method touches is shared, and no method of it writes anything but locals on the verified tree (Context.Client, which
// hands out the static clients, is left to the [static-client] rule) -, a function of pkg/provider (the package that
// builds and owns the configuration) or of internal/discovery (whose handlers touch nothing but the configuration) is a
// request-time write to a configuration object: "<site>[config]" (ClientAuthnSigAlgs' append into the spare capacity
// of PrivateKeyJWTSigAlgs, a lazily assigned HTTPClientFunc).  Requests only READ the configuration
// (Model/AccessCfg.v, Props/C20.v config_never_written): no [config] signature is predicted or known.
//
// The bursts of the wide phase (below main.c20WideRequest) send client_credentials, /par, /introspect and /revoke
// of an unknown token, /bc-authorize and discovery only: every session or grant is created by the request that saves
// it and nothing stored is rewritten, so NO unsynchronised write is expected there at all - a writer not qualified
// otherwise is named "<site>[wide-burst]" and cannot be taken for one of the known in-place writes.
func c20Qualify(a raceAccess) string {
	if a.Kind != "write" {
		return ""
	}
	switch {
	case c20ConfigWriter(a.Func):
		return "[config]"
	case a.InitAuth && (strings.HasPrefix(a.Func, "internal/authorize.") || strings.HasPrefix(a.Func, "pkg/goidc.(*AuthnSession).") || strings.HasPrefix(a.Func, "internal/strutil.")):
		return "[initAuth]"
	case a.Cold && (strings.HasPrefix(a.Func, "pkg/goidc.(*Client).") || strings.HasPrefix(a.Func, "internal/oidc.")):
		return "[static-client]"
	case a.Wide:
		return "[wide-burst]"
	}
	return ""
}

func c20ConfigWriter(fn string) bool {
	for _, recv := range []string{"internal/oidc.Context.", "internal/oidc.(*Context).", "internal/oidc.Configuration.", "internal/oidc.(*Configuration)."} {
		if rest, ok := strings.CutPrefix(fn, recv); ok {
			return rest != "Client" && !strings.HasPrefix(rest, "Client.")
		}
	}
	return strings.HasPrefix(fn, "pkg/provider.") || strings.HasPrefix(fn, "internal/discovery.")
}

var raceHead = regexp.MustCompile(`^(Previous )?(atomic )?([Rr]ead|[Ww]rite) at 0x[0-9a-f]+ by `)

// parseRaceReports returns signature -> first report, and the number of reports one side of which has no stack
// and whose other side is a read (they cannot be named; history_size=7 keeps them rare)
func parseRaceReports(txt string) (sigs map[string]string, unnamed int) {
	sigs = map[string]string{}
	for _, block := range strings.Split(txt, "==================") {
		if !strings.Contains(block, "WARNING: DATA RACE") {
			continue
		}
		lines := strings.Split(block, "\n")
		var accs []raceAccess
		for i := 0; i < len(lines); i++ {
			m := raceHead.FindStringSubmatch(lines[i])
			if m == nil {
				continue
			}
			a := raceAccess{Kind: strings.ToLower(m[3])}
			for j := i + 1; j < len(lines) && strings.TrimSpace(lines[j]) != ""; j++ {
				l := lines[j]
				if !strings.HasPrefix(l, "  ") || strings.HasPrefix(l, "      ") {
					continue
				}
				fn := strings.TrimSpace(l)
				if strings.HasPrefix(fn, "[failed to restore the stack]") {
					a.Lost = true
					continue
				}
				if k := strings.LastIndex(fn, "("); k > 0 {
					fn = fn[:k]
				}
				if a.Top == "" {
					a.Top = fn
					a.IsMap = strings.HasPrefix(fn, "runtime.map")
				}
				if a.Func == "" && strings.HasPrefix(fn, "github.com/luikyv/go-oidc/") && !strings.Contains(fn, "/verifharness") {
					a.Func = strings.TrimPrefix(fn, "github.com/luikyv/go-oidc/")
				}
				if fn == "github.com/luikyv/go-oidc/internal/authorize.initAuth" {
					a.InitAuth = true
				}
				if strings.HasPrefix(fn, "main.c20Cold") {
					a.Cold = true
				}
				if strings.HasPrefix(fn, "main.c20WideRequest") {
					a.Wide = true
				}
			}
			if a.Func == "" && !a.Lost {
				a.Func = "outside-go-oidc:" + a.Top
			}
			accs = append(accs, a)
		}
		if len(accs) < 2 {
			continue
		}
		el := func(a raceAccess) string {
			if a.Lost {
				return "stack-not-restored:" + a.Kind
			}
			s := coarseSite(a.Func, a.Kind) + c20Qualify(a) + ":" + a.Kind
			if a.IsMap {
				s += ":map"
			}
			return s
		}
		if accs[0].Lost || accs[1].Lost {
			o := accs[0]
			if o.Lost {
				o = accs[1]
			}
			// named by the side that has a stack when that side is a write (the finding is named by write sites
			// anyway) or a map operation; otherwise nothing can be said
			if o.Lost || (o.Kind != "write" && !o.IsMap) {
				unnamed++
				continue
			}
		}
		pair := []string{el(accs[0]), el(accs[1])}
		sort.Strings(pair)
		sig := pair[0] + " | " + pair[1]
		if _, ok := sigs[sig]; !ok {
			sigs[sig] = strings.TrimSpace(block)
		}
	}
	return sigs, unnamed
}

// coarseSite keeps the exact function for writers and for the storage's own methods (finite sets
// the model enumerates) and reduces any other reader of a loaded object to its package / receiver
// class, so that the signature vocabulary is finite and does not depend on which of the many
// reading functions the schedule happened to catch.
func coarseSite(fn, kind string) string {
	if kind == "write" || strings.HasPrefix(fn, "internal/storage.") || strings.HasPrefix(fn, "outside-go-oidc:") {
		return fn
	}
	if i := strings.Index(fn, ")."); i > 0 && strings.Contains(fn[:i], "(*") {
		return fn[:i+2] + "*"
	}
	if i := strings.LastIndex(fn, "/"); i >= 0 {
		if j := strings.Index(fn[i:], "."); j > 0 {
			return fn[:i+j+1] + "*"
		}
	}
	return fn
}

// the handler families of the property's quantifier: each must have been served (handler/<name> of the workload's
// log) while requests of other goroutines were in flight, and the listed outcomes must have occurred
var c20Families = []string{
	"authorize", "callback", "callback-shared", // interactive authorization, multi-step policies, shared sessions
	"par", "par-unregistered-redirect", "request_uri-shared", "request_uri-burst", "authorize-foreign-request_uri",
	"code", "code-replay", // redemption AND replay
	"refresh-rotation", "refresh-no-rotation",
	"introspect", "userinfo", "revoke",
	"bc-authorize-poll", "bc-authorize-ping", "bc-authorize-push", "ciba-poll", "ciba-poll-shared", "ciba-ping", "ciba-push-success", "ciba-push-failure",
	"client_credentials",
	"dcr-create", "dcr-read", "dcr-update", "dcr-delete",
}
var c20Outcomes = []string{
	"authorize:code:steps=1", "authorize:code:steps=2", "authorize:code:steps=3", "authorize:redirected-access_denied", "authorize:in-progress",
	"callback-shared:in-progress", "request_uri-shared:in-progress", "request_uri-burst:several-in-the-window",
	"code:ok", "code-replay:invalid_grant", "par:ok", "par-unregistered-redirect:ok",
	"refresh-rotation:ok", "refresh-no-rotation:ok", "introspect:active", "introspect:inactive", "userinfo:200", "revoke:200",
	"ciba-poll:ok", "ciba-poll:authorization_pending", "ciba-poll:access_denied", "ciba-push-success:ok", "ciba-push-failure:ok", "ciba-ping:ok",
	"client_credentials:ok", "client-with-jwks_uri", "dcr-read:200", "dcr-delete:204",
	"dcr-create:ok:uris=1", "dcr-create:ok:uris=2", "dcr-create:ok:uris=3", "dcr-create:ok:uris=4", "dcr-create:ok:uris=5", "dcr-create:ok:uris=6", "dcr-create:ok:uris=7", "dcr-create:ok:uris=8",
}

// c20Gaps lists what the workload failed to cover
func c20Gaps(dist map[string]int) (gaps []string) {
	for _, m := range c20StorageMethods() {
		if dist["method-concurrent/"+m] == 0 {
			gaps = append(gaps, "storage-method:"+m)
		}
	}
	for _, f := range c20Families {
		if dist["handler-concurrent/"+f] == 0 {
			gaps = append(gaps, "handler:"+f)
		}
	}
	for _, o := range c20Outcomes {
		if dist["outcome/"+o] == 0 {
			gaps = append(gaps, "outcome:"+o)
		}
	}
	// handler families x profile: the FAPI 1.0 and FAPI 2.0 providers (PAR required, pushed session used alone)
	for _, p := range c20FapiProfiles {
		for _, f := range c20FapiFamilies {
			if dist["handler-concurrent/"+f+"@"+p] == 0 {
				gaps = append(gaps, "handler:"+f+"@"+p)
			}
		}
		for _, o := range c20FapiOutcomes {
			i := strings.Index(o, ":")
			if dist["outcome/"+o[:i]+"@"+p+o[i:]] == 0 {
				gaps = append(gaps, "outcome:"+o[:i]+"@"+p+o[i:])
			}
		}
	}
	// cold start: concurrent first requests of static jwks_uri clients against fresh providers
	for _, f := range []string{"cold-start-token@cold", "cold-start-par@cold", "cold-start-introspect@cold"} {
		if dist["handler-concurrent/"+f] == 0 {
			gaps = append(gaps, "handler:"+f)
		}
	}
	for _, o := range []string{"cold-start-token@cold:ok", "cold-start-par@cold:ok", "cold-start-introspect@cold:ok"} {
		if dist["outcome/"+o] == 0 {
			gaps = append(gaps, "outcome:"+o)
		}
	}
	for _, k := range []string{"cold-start/rounds-with-2+-fetches-of-jwks_uri", "cold-start/rounds-with-all-first-fetches-in-flight-together"} {
		if dist[k] < 3 {
			gaps = append(gaps, "cold-start:"+strings.TrimPrefix(k, "cold-start/"))
		}
	}
	// the configuration as shared memory: the wide-configuration provider and the bare cold start (suite_c20cfg.go)
	gaps = append(gaps, c20CfgGaps(dist)...)
	return gaps
}

var c20Fatal = regexp.MustCompile(`fatal error: (concurrent map[a-z ]+)`)
var c20Panic = regexp.MustCompile(`(?m)^panic: (.*)$`)

func c20Drive(ctx *RunCtx) {
	env := append(os.Environ(), "CGO_ENABLED=1", "GOFLAGS=-mod=mod", "GOPROXY=off", "GOSUMDB=off", "GOTOOLCHAIN=local")
	// bcrypt (registration access tokens and secrets of dynamic clients, default cost) is twelve times slower when
	// blowfish is instrumented: that package works on private state only and is built without the detector
	build := exec.Command("go", "build", "-race", "-gcflags=golang.org/x/crypto/blowfish=-race=false", "-o", "verifharness_race", ".")
	build.Env = env
	if out, err := build.CombinedOutput(); err != nil {
		panic(fmt.Sprintf("c20: go build -race failed: %v\n%s", err, out))
	}
	abs, _ := filepath.Abs(ctx.Out)
	workOut := filepath.Join(abs, "work")
	_ = os.MkdirAll(workOut, 0o755)
	logBase := filepath.Join(abs, "race")
	workload := "verifharness_race c20work -tier " + ctx.Tier + " -seed " + fmt.Sprint(ctx.Seed)
	crashed := ""
	var wm Meta
	// The Go runtime aborts on some unsynchronised map accesses ("fatal error: concurrent map ..."): that is a
	// finding, not a failure of the harness.  On a map of internal/storage it is a violation like any race there;
	// elsewhere (the Storage map of a session two callbacks write through StoreParameter) it is named by the writing
	// function like the race reports, and the workload is run once more (next seed) so that the rest is explored.
	for attempt := 0; attempt < 2; attempt++ {
		seed := ctx.Seed + int64(1000*attempt)
		run := exec.Command("./verifharness_race", "c20work", "-tier", ctx.Tier, "-seed", fmt.Sprint(seed), "-out", workOut)
		run.Env = append(env, "GORACE=halt_on_error=0 history_size=7 log_path="+logBase)
		out, err := run.CombinedOutput()
		if ee, ok := err.(*exec.ExitError); err == nil || (ok && ee.ExitCode() == 66) {
			// (the race runtime exits with 66 when races were reported: not an error of the workload)
			if b, err := os.ReadFile(filepath.Join(workOut, "meta.json")); err == nil {
				_ = json.Unmarshal(b, &wm)
			}
			crashed = ""
			break
		}
		fatal := true
		m := c20Fatal.FindStringSubmatch(string(out))
		if m == nil {
			// a panic inside a handler (served on the goroutine's own stack, so it takes the process down): with an
			// unlocked map write a concurrent scan can meet a half-written bucket and dereference nil
			fatal = false
			if m = c20Panic.FindStringSubmatch(string(out)); m == nil {
				panic(fmt.Sprintf("c20: workload failed: %v\n%s", err, truncate(string(out), 3000)))
			}
		}
		crashed = m[1]
		fn := ""
		for _, l := range strings.Split(string(out), "\n") {
			if l = strings.TrimSpace(l); strings.HasPrefix(l, "github.com/luikyv/go-oidc/") && !strings.Contains(l, "/verifharness") {
				fn = strings.TrimPrefix(l, "github.com/luikyv/go-oidc/")
				if k := strings.LastIndex(fn, "("); k > 0 {
					fn = fn[:k]
				}
				break
			}
		}
		if !fatal {
			if fn == "" {
				panic(fmt.Sprintf("c20: workload failed: %v\n%s", err, truncate(string(out), 3000)))
			}
			ctx.Meta.Findings = append(ctx.Meta.Findings, Finding{Property: "C20", Signature: "workload-crash:" + fn,
				What:   "a request of the concurrent workload panicked in " + fn + ": " + crashed,
				Replay: map[string]any{"output": truncate(string(out), 6000), "workload": "verifharness_race c20work -tier " + ctx.Tier + " -seed " + fmt.Sprint(seed)}})
			break
		}
		// the same object-class qualifier as for race reports, read off the stack of the goroutine that crashed (the first
		// one printed): a writer of sessions below internal/authorize.initAuth
		crashStack := string(out)
		if i := strings.Index(crashStack, "[running]:"); i >= 0 {
			crashStack = crashStack[i:]
			if j := strings.Index(crashStack, "\n\n"); j >= 0 {
				crashStack = crashStack[:j]
			}
		}
		qual := c20Qualify(raceAccess{Kind: "write", Func: fn, InitAuth: strings.Contains(crashStack, "internal/authorize.initAuth("), Cold: strings.Contains(crashStack, "main.c20Cold"),
			Wide: strings.Contains(crashStack, "main.c20WideRequest")})
		sig := "unsynchronised-write:" + fn + qual
		if fn == "" || strings.HasPrefix(fn, "internal/storage.") {
			sig = "runtime-abort:" + crashed + ":" + fn
		}
		ctx.Meta.Findings = append(ctx.Meta.Findings, Finding{Property: "C20", Signature: sig,
			What:   "the Go runtime aborted the workload: fatal error: " + crashed + " in " + fn,
			Replay: map[string]any{"output": truncate(string(out), 6000), "workload": "verifharness_race c20work -tier " + ctx.Tier + " -seed " + fmt.Sprint(seed)}})
		if strings.HasPrefix(sig, "runtime-abort:") {
			break
		}
	}
	var txt strings.Builder
	logs, _ := filepath.Glob(logBase + ".*")
	for _, l := range logs {
		b, _ := os.ReadFile(l)
		txt.Write(b)
	}
	sigs, unnamed := parseRaceReports(txt.String())
	var keys []string
	for k := range sigs {
		keys = append(keys, k)
	}
	sort.Strings(keys)
	// A finding is named by the unsynchronised WRITE site(s) of the racing pair - the root cause - so that
	// which of the many readers happened to be scheduled against it does not change the name; a race on a
	// storage map keeps the full pair as its name.
	emitted := map[string]bool{}
	for _, k := range keys {
		if strings.Contains(k, ":map") && strings.Contains(k, "internal/storage") {
			ctx.Meta.Findings = append(ctx.Meta.Findings, Finding{Property: "C20", Signature: k, What: "data race on a storage map: " + k,
				Replay: map[string]any{"race_report": truncate(sigs[k], 6000), "workload": workload}})
			continue
		}
		writers := 0
		for _, part := range strings.Split(k, " | ") {
			// "<site>:write" or, when the write is a map operation outside internal/storage (the Storage map of
			// a session written by StoreParameter, say), "<site>:write:map": named by the site all the same
			site, isWrite := strings.CutSuffix(strings.TrimSuffix(part, ":map"), ":write")
			if isWrite && !strings.HasPrefix(part, "stack-not-restored:") {
				writers++
				sig := "unsynchronised-write:" + site
				if emitted[sig] {
					continue
				}
				emitted[sig] = true
				ctx.Meta.Findings = append(ctx.Meta.Findings, Finding{Property: "C20", Signature: sig,
					What:   "data race: unsynchronised write in " + site + " (observed pair: " + k + ")",
					Replay: map[string]any{"race_report": truncate(sigs[k], 6000), "workload": workload}})
			}
		}
		if writers == 0 {
			ctx.Meta.Findings = append(ctx.Meta.Findings, Finding{Property: "C20", Signature: k, What: "data race report without a named write side: " + k,
				Replay: map[string]any{"race_report": truncate(sigs[k], 6000)}})
		}
	}
	// the workload must have covered the property's quantifier
	var gaps []string
	if crashed == "" {
		gaps = c20Gaps(wm.Dist)
		for _, gp := range gaps {
			ctx.Meta.Findings = append(ctx.Meta.Findings, Finding{Property: "C20", Signature: "workload-coverage:" + gp,
				What:   "the C20 workload did not exercise " + gp + " concurrently with requests of other goroutines: the run says nothing about it",
				Replay: map[string]any{"workload": workload, "input_distribution": wm.Dist}})
		}
	}
	// ask the model whether each observed signature is in its predicted set (Model/AccessCfg.v predicted_signature_cfg:
	// Access.predicted_signature, except that no signature with a [config] / [wide-burst] element is predicted)
	var b strings.Builder
	b.WriteString("From Verif Require Import Base Access AccessCfg.\nLocal Open Scope N_scope.\nDefinition observed : list (string * string) := [\n")
	var jcases []map[string]any
	n := 0
	for _, k := range keys {
		if strings.Contains(k, "stack-not-restored:") {
			continue
		}
		p := strings.Split(k, " | ")
		if n > 0 {
			b.WriteString(";\n")
		}
		fmt.Fprintf(&b, "  (%s, %s)", cS(p[0]), cS(p[1]))
		jcases = append(jcases, map[string]any{"Index": n, "Note": "race signature " + k, "Spec": k, "Obs": truncate(sigs[k], 2000)})
		n++
	}
	b.WriteString("].\nDefinition corr := Eval vm_compute in map (fun s => if predicted_signature_cfg (fst s) (snd s) then 0 else 1) observed.\nPrint corr.\n")
	_ = os.WriteFile(filepath.Join(ctx.Out, "cases_000.v"), []byte(b.String()), 0o644)
	jb, _ := json.Marshal(jcases)
	_ = os.WriteFile(filepath.Join(ctx.Out, "cases.json"), jb, 0o644)
	ctx.Meta.Files = []string{"cases_000.v"}
	ctx.Meta.Cases = wm.Cases
	ctx.Meta.Distinct = len(keys)
	for k, v := range wm.Dist {
		ctx.Meta.Dist[k] = v
	}
	ctx.Meta.Extra = map[string]any{"race_signatures": keys, "race_logs": len(logs), "reports_without_a_nameable_side": unnamed,
		"storage_methods": c20StorageMethods(), "handler_families": c20Families, "handler_families_per_fapi_profile": c20FapiFamilies, "fapi_profiles": c20FapiProfiles, "handler_families_wide_configuration": c20WideFamilies, "handler_families_bare_cold_start": c20BareFamilies, "coverage_gaps": gaps, "runtime_abort": crashed}
	ctx.Meta.Rule = "requests served concurrently under the race detector, five phases: cold start (fresh providers with static clients only, 2..8 concurrent FIRST requests of static private_key_jwt clients with jwks_uri, first fetches held at the jwks endpoint / free / staggered: cold-start/...), FAPI 1.0 and FAPI 2.0 providers (PAR required, PKCE, private_key_jwt; families and outcomes suffixed @fapi1 / @fapi2), bare cold start (the same against providers created with NO optional function - no WithHTTPClientFunc: Context.HTTPClient falls back to http.DefaultClient - whose jwks_uri, CIBA notification endpoint and sector_identifier_uri are real loopback listeners: cold-bare/..., families @bare), wide configuration (one provider with three or more values in every list-taking option, private_key_jwt with four algorithms and client_secret_jwt: bursts of 8 fresh goroutines x 3 assertion-carrying requests, then levels of 8 and 16 goroutines with discovery, DCR, JAR/JARM, DPoP flows besides the usual ones: wide/..., families @wide; a request-time write to a configuration object is named <site>[config]), and the OpenID workload (2, 4, 8, 16, 16 goroutines in turn, alternately by a provider with and one without refresh-token rotation), every provider with its default in-memory storage; clients shared between goroutines, private to one, and registered/updated/deleted meanwhile; input_distribution: method/<M> and handler/<F> = invocations of every storage method of the three default managers and of every handler family, *-concurrent/ = those made while a request of another goroutine (for methods: one using the same manager) was in flight, outcome/ = what the requests answered; distinct = distinct race signatures (unordered pair of innermost go-oidc frame function and access kind)"
	for i, k := range keys {
		if i < 3 {
			ctx.Meta.Samples = append(ctx.Meta.Samples, map[string]any{"signature": k, "report": truncate(sigs[k], 1500)})
		}
	}
}

func init() {
	register(&Suite{Name: "c20work", Run: c20Work})
	register(&Suite{Name: "c20", Run: c20Drive})
}
