package main

// C20: concurrent requests on the DEFAULT in-memory storage under the Go race detector.
//
//   suite c20      (ordinary binary) builds this very package with `go build -race` (CGO_ENABLED=1),
//                  runs `verifharness_race c20work` with GORACE="halt_on_error=0 log_path=...",
//                  parses the race reports and reduces each to a signature:
//                      unordered pair of (innermost github.com/luikyv/go-oidc frame function, read|write)
//                  (function names, no line numbers: stable across runs).  Every signature is a Finding;
//                  ./check prints those listed as "known" in known_findings.json as KNOWN-FINDING (they
//                  are the pairs Model/Access.v predicts) and reports anything else - in particular any
//                  race whose access is a map operation inside internal/storage - as a violation.  The
//                  suite also writes a case file that asks the model whether each observed signature is in
//                  its predicted set.
//   suite c20work  (race binary) the workload of the property on 2..16 goroutines against ONE provider
//                  with the default storage: interactive authorization with a two-step policy, code
//                  redemption, refresh, introspection, userinfo, PAR, CIBA polling, DCR, private_key_jwt
//                  with jwks_uri; goroutines also pick up each other's live sessions and tokens.

import (
	"context"
	"crypto/ecdsa"
	"encoding/json"
	"fmt"
	"io"
	mrand "math/rand"
	"net/http"
	"net/http/httptest"
	"net/url"
	"os"
	"os/exec"
	"path/filepath"
	"regexp"
	"sort"
	"strings"
	"sync"
	"sync/atomic"
	"time"

	"github.com/go-jose/go-jose/v4"
	"github.com/luikyv/go-oidc/pkg/goidc"
	"github.com/luikyv/go-oidc/pkg/provider"
)

// ------------------------------------------------------------------ the workload (race binary)

type c20W struct {
	h    http.Handler
	ckey *ecdsa.PrivateKey
	jwks []byte
	mu   sync.Mutex
	pool map[string][]string // live artifacts shared between goroutines
	reqs atomic.Int64
	byK  sync.Map
}

func (w *c20W) put(kind, s string) {
	if s == "" {
		return
	}
	w.mu.Lock()
	l := append(w.pool[kind], s)
	if len(l) > 64 {
		l = l[len(l)-64:]
	}
	w.pool[kind] = l
	w.mu.Unlock()
}
func (w *c20W) take(r *mrand.Rand, kind string) string {
	w.mu.Lock()
	defer w.mu.Unlock()
	l := w.pool[kind]
	if len(l) == 0 {
		return ""
	}
	return l[r.Intn(len(l))]
}

type c20rt struct{ w *c20W }

func (t c20rt) RoundTrip(r *http.Request) (*http.Response, error) {
	if strings.HasSuffix(r.URL.Path, "/jwks.json") {
		return &http.Response{StatusCode: 200, Body: io.NopCloser(strings.NewReader(string(t.w.jwks))), Header: http.Header{}}, nil
	}
	return &http.Response{StatusCode: 204, Body: io.NopCloser(strings.NewReader("")), Header: http.Header{}}, nil
}

func newC20World() (*c20W, error) {
	w := &c20W{pool: map[string][]string{}}
	w.ckey = genKey()
	pub := jose.JSONWebKey{Key: &w.ckey.PublicKey, KeyID: "ck1", Algorithm: "ES256", Use: "sig"}
	w.jwks, _ = json.Marshal(jose.JSONWebKeySet{Keys: []jose.JSONWebKey{pub}})
	srvKey := genKey()
	srv := goidc.JSONWebKeySet{Keys: []goidc.JSONWebKey{{Key: srvKey, KeyID: "srv-es256", Algorithm: "ES256", Use: "sig"}}}
	allGrants := []goidc.GrantType{goidc.GrantAuthorizationCode, goidc.GrantRefreshToken, goidc.GrantClientCredentials, goidc.GrantCIBA}
	mk := func(id string, method goidc.ClientAuthnType) *goidc.Client {
		c := &goidc.Client{ID: id}
		c.TokenAuthnMethod = method
		c.GrantTypes = allGrants
		c.ResponseTypes = []goidc.ResponseType{goidc.ResponseTypeCode}
		c.RedirectURIs = []string{c13Redirect}
		c.ScopeIDs = "openid email offline_access"
		c.CIBATokenDeliveryMode = goidc.CIBATokenDeliveryModePoll
		return c
	}
	s1 := mk("s1", goidc.ClientAuthnSecretPost) // static
	s1.HashedSecret = bcryptOf(c13Secret)
	d1 := mk("d1", goidc.ClientAuthnSecretPost) // in the default client store
	d1.HashedSecret = bcryptOf(c13Secret)
	d2 := mk("d2", goidc.ClientAuthnPrivateKeyJWT) // private_key_jwt with jwks_uri, in the default client store
	d2.TokenAuthnSigAlg = goidc.ES256
	d2.PublicJWKSURI = "https://d2.example/jwks.json"
	opts := []provider.ProviderOption{
		// no With*Storage option: the provider's DEFAULT in-memory managers (internal/storage)
		provider.WithScopes(goidc.ScopeOpenID, goidc.NewScope("email"), goidc.ScopeOfflineAccess),
		provider.WithIDTokenSignatureAlgs(goidc.ES256),
		provider.WithAuthorizationCodeGrant(), provider.WithClientCredentialsGrant(),
		provider.WithRefreshTokenGrant(func(*goidc.Client, goidc.GrantInfo) bool { return true }, 600),
		provider.WithRefreshTokenRotation(),
		provider.WithCIBAGrant(
			func(_ context.Context, s *goidc.AuthnSession) error { s.SetUserID("user1"); s.GrantScopes(s.Scopes); return nil },
			func(_ context.Context, s *goidc.AuthnSession) error {
				// read-only (the embedder's validation is its own business): some requests stay pending
				if id := s.CIBAAuthID; id != "" && id[len(id)-1] < 'H' {
					return goidc.NewError(goidc.ErrorCodeAuthPending, "pending")
				}
				return nil
			},
			goidc.CIBATokenDeliveryModePoll),
		provider.WithPAR(60), provider.WithUnregisteredRedirectURIsForPAR(),
		provider.WithPKCE(goidc.CodeChallengeMethodSHA256),
		provider.WithTokenAuthnMethods(goidc.ClientAuthnSecretPost, goidc.ClientAuthnPrivateKeyJWT, goidc.ClientAuthnNone),
		provider.WithPrivateKeyJWTSignatureAlgs(goidc.ES256),
		provider.WithTokenIntrospection(func(*goidc.Client) bool { return true }, goidc.ClientAuthnSecretPost, goidc.ClientAuthnPrivateKeyJWT),
		provider.WithDCR(nil, nil),
		provider.WithStaticClient(s1),
		provider.WithHTTPClientFunc(func(context.Context) *http.Client { return &http.Client{Transport: c20rt{w}} }),
		provider.WithTokenOptions(func(gi goidc.GrantInfo, c *goidc.Client) goidc.TokenOptions {
			return goidc.NewOpaqueTokenOptions(goidc.DefaultOpaqueTokenLength, 300)
		}),
		// two-step policy: the first invocation shows a page, the second one succeeds
		provider.WithPolicy(goidc.NewPolicy("main",
			func(*http.Request, *goidc.Client, *goidc.AuthnSession) bool { return true },
			func(rw http.ResponseWriter, r *http.Request, s *goidc.AuthnSession) (goidc.AuthnStatus, error) {
				if s.StoredParameter("step") == nil {
					s.StoreParameter("step", 1)
					rw.WriteHeader(200)
					fmt.Fprintf(rw, "PAGE cb=%s", s.CallbackID)
					return goidc.StatusInProgress, nil
				}
				s.SetUserID("user1")
				s.GrantScopes(s.Scopes)
				return goidc.StatusSuccess, nil
			})),
	}
	p, err := provider.New(goidc.ProfileOpenID, issuer, func(context.Context) (goidc.JSONWebKeySet, error) { return srv, nil }, opts...)
	if err != nil {
		return nil, err
	}
	w.h = p.Handler()
	// dynamic clients go into the provider's own default client store through the DCR endpoint's
	// storage: the only handle on it is the HTTP API, so they are registered that way
	for _, c := range []*goidc.Client{d1, d2} {
		meta := map[string]any{"redirect_uris": c.RedirectURIs, "grant_types": c.GrantTypes, "response_types": c.ResponseTypes,
			"scope": c.ScopeIDs, "token_endpoint_auth_method": c.TokenAuthnMethod, "backchannel_token_delivery_mode": "poll"}
		if c.PublicJWKSURI != "" {
			meta["jwks_uri"] = c.PublicJWKSURI
			meta["token_endpoint_auth_signing_alg"] = "ES256"
		}
		b, _ := json.Marshal(meta)
		rec := w.call("POST", "/register", string(b), "application/json", nil)
		var m map[string]any
		_ = json.Unmarshal(rec.Body.Bytes(), &m)
		id, _ := m["client_id"].(string)
		sec, _ := m["client_secret"].(string)
		tok, _ := m["registration_access_token"].(string)
		if id == "" {
			return nil, fmt.Errorf("c20: DCR seeding failed: %s", rec.Body.String())
		}
		kind := "dyn_secret"
		if c.PublicJWKSURI != "" {
			kind = "dyn_pkjwt"
		}
		w.put(kind, id+"|"+sec+"|"+tok)
	}
	return w, nil
}

func (w *c20W) call(method, target, body, ct string, hdr map[string]string) *httptest.ResponseRecorder {
	var rd io.Reader
	if body != "" {
		rd = strings.NewReader(body)
	}
	req := httptest.NewRequest(method, target, rd)
	if ct != "" {
		req.Header.Set("Content-Type", ct)
	}
	for k, v := range hdr {
		req.Header.Set(k, v)
	}
	rec := httptest.NewRecorder()
	w.h.ServeHTTP(rec, req)
	w.reqs.Add(1)
	return rec
}

func (w *c20W) form(path string, v url.Values) map[string]any {
	rec := w.call("POST", path, v.Encode(), "application/x-www-form-urlencoded", nil)
	var m map[string]any
	_ = json.Unmarshal(rec.Body.Bytes(), &m)
	return m
}

type c20client struct{ id, secret, regTok string; pkjwt bool }

func (w *c20W) pickClient(r *mrand.Rand) c20client {
	switch k := r.Intn(20); {
	case k < 9:
		return c20client{id: "s1", secret: c13Secret}
	case k < 11: // secrets of DCR clients are hashed with the default bcrypt cost: slow under -race
		p := strings.Split(w.take(r, "dyn_secret"), "|")
		return c20client{id: p[0], secret: p[1], regTok: p[2]}
	}
	p := strings.Split(w.take(r, "dyn_pkjwt"), "|")
	return c20client{id: p[0], regTok: p[2], pkjwt: true}
}

func (w *c20W) authn(r *mrand.Rand, c c20client, v url.Values) url.Values {
	v.Set("client_id", c.id)
	if c.pkjwt {
		v.Set("client_assertion_type", "urn:ietf:params:oauth:client-assertion-type:jwt-bearer")
		v.Set("client_assertion", c13Sign(w.ckey, "ck1", "JWT", map[string]any{"iss": c.id, "sub": c.id, "aud": issuer,
			"jti": fmt.Sprint(r.Int63()), "exp": time.Now().Unix() + 60, "iat": time.Now().Unix()}, nil))
	} else {
		v.Set("client_secret", c.secret)
	}
	return v
}

func str(m map[string]any, k string) string { s, _ := m[k].(string); return s }

func (w *c20W) count(k string) {
	v, _ := w.byK.LoadOrStore(k, new(atomic.Int64))
	v.(*atomic.Int64).Add(1)
}

// one unit of work of a goroutine
func (w *c20W) flow(r *mrand.Rand) {
	verifier := strings.Repeat("v", 50)
	switch k := r.Intn(100); {
	case k < 30: // interactive authorization (two policy steps), optionally through PAR, then the code
		c := w.pickClient(r)
		q := url.Values{"client_id": {c.id}, "response_type": {"code"}, "scope": {"openid email offline_access"}, "redirect_uri": {c13Redirect},
			"state": {"s"}, "nonce": {"n"}, "code_challenge": {thumb(verifier)}, "code_challenge_method": {"S256"}}
		if r.Intn(3) == 0 {
			if r.Intn(2) == 0 {
				q.Set("redirect_uri", fmt.Sprintf("https://unregistered%d.example/cb", r.Intn(1000)))
			}
			m := w.form("/par", w.authn(r, c, cloneValues(q)))
			if ru := str(m, "request_uri"); ru != "" {
				w.put("request_uri", ru+"|"+c.id)
				q = url.Values{"client_id": {c.id}, "request_uri": {ru}}
			}
			w.count("par")
		}
		rec := w.call("GET", "/authorize?"+q.Encode(), "", "", nil)
		w.count("authorize")
		body := rec.Body.String()
		if !strings.HasPrefix(body, "PAGE cb=") {
			return
		}
		cb := strings.TrimPrefix(body, "PAGE cb=")
		w.put("callback", cb)
		rec = w.call("POST", "/authorize/"+cb, "", "application/x-www-form-urlencoded", nil)
		w.count("callback")
		code := locParam(rec.Header().Get("Location"), "code")
		if code == "" {
			return
		}
		w.put("code", code+"|"+c.id)
		w.redeem(r, c, code)
	case k < 38: // somebody else's callback / code / request_uri (same-object concurrency)
		switch r.Intn(3) {
		case 0:
			if cb := w.take(r, "callback"); cb != "" {
				w.call("POST", "/authorize/"+cb, "", "application/x-www-form-urlencoded", nil)
				w.count("callback-shared")
			}
		case 1:
			if p := strings.Split(w.take(r, "code"), "|"); len(p) == 2 {
				w.redeem(r, w.clientByID(r, p[1]), p[0])
				w.count("code-shared")
			}
		case 2:
			if p := strings.Split(w.take(r, "request_uri"), "|"); len(p) == 2 {
				w.call("GET", "/authorize?"+url.Values{"client_id": {p[1]}, "request_uri": {p[0]}}.Encode(), "", "", nil)
				w.count("request_uri-shared")
			}
		}
	case k < 55: // refresh (own or shared token)
		if p := strings.Split(w.take(r, "refresh_token"), "|"); len(p) == 2 {
			c := w.clientByID(r, p[1])
			m := w.form("/token", w.authn(r, c, url.Values{"grant_type": {"refresh_token"}, "refresh_token": {p[0]}}))
			w.count("refresh")
			w.learn(m, c)
		}
	case k < 68: // introspection
		c := w.pickClient(r)
		tok := w.take(r, pick(r, []string{"access_token", "refresh_token"}))
		tok = strings.Split(tok, "|")[0]
		w.form("/introspect", w.authn(r, c, url.Values{"token": {tok}}))
		w.count("introspect")
	case k < 78: // userinfo
		tok := strings.Split(w.take(r, "access_token"), "|")[0]
		w.call("GET", "/userinfo", "", "", map[string]string{"Authorization": "Bearer " + tok})
		w.count("userinfo")
	case k < 86: // CIBA: request, poll (pending), poll (tokens)
		c := w.pickClient(r)
		m := w.form("/bc-authorize", w.authn(r, c, url.Values{"scope": {"openid email"}, "login_hint": {"user1"}}))
		w.count("bc-authorize")
		id := str(m, "auth_req_id")
		if id == "" {
			return
		}
		w.put("auth_req_id", id+"|"+c.id)
		for i := 0; i < 2; i++ {
			m = w.form("/token", w.authn(r, c, url.Values{"grant_type": {"urn:openid:params:grant-type:ciba"}, "auth_req_id": {id}}))
			w.count("ciba-poll")
			w.learn(m, c)
		}
	case k < 89: // somebody else's auth_req_id
		if p := strings.Split(w.take(r, "auth_req_id"), "|"); len(p) == 2 {
			c := w.clientByID(r, p[1])
			w.form("/token", w.authn(r, c, url.Values{"grant_type": {"urn:openid:params:grant-type:ciba"}, "auth_req_id": {p[0]}}))
			w.count("ciba-poll-shared")
		}
	case k < 95: // client_credentials (private_key_jwt with jwks_uri among the clients)
		c := w.pickClient(r)
		m := w.form("/token", w.authn(r, c, url.Values{"grant_type": {"client_credentials"}, "scope": {"email"}}))
		w.count("client_credentials")
		w.learn(m, c)
	default: // DCR: create, read, update, (sometimes) delete
		meta := `{"redirect_uris":["` + c13Redirect + `"],"grant_types":["authorization_code","refresh_token","client_credentials","urn:openid:params:grant-type:ciba"],"response_types":["code"],"scope":"openid email offline_access","token_endpoint_auth_method":"client_secret_post","backchannel_token_delivery_mode":"poll"}`
		rec := w.call("POST", "/register", meta, "application/json", nil)
		w.count("dcr")
		var m map[string]any
		_ = json.Unmarshal(rec.Body.Bytes(), &m)
		id, sec, tok := str(m, "client_id"), str(m, "client_secret"), str(m, "registration_access_token")
		if id == "" {
			return
		}
		h := map[string]string{"Authorization": "Bearer " + tok}
		w.call("GET", "/register/"+id, "", "", h)
		rec = w.call("PUT", "/register/"+id, meta, "application/json", h)
		_ = json.Unmarshal(rec.Body.Bytes(), &m)
		if s := str(m, "client_secret"); s != "" {
			sec = s
		}
		if r.Intn(3) == 0 {
			w.call("DELETE", "/register/"+id, "", "", h)
		} else {
			w.put("dyn_secret", id+"|"+sec+"|"+tok)
		}
	}
}

func cloneValues(v url.Values) url.Values {
	o := url.Values{}
	for k, l := range v {
		o[k] = append([]string(nil), l...)
	}
	return o
}

func (w *c20W) clientByID(r *mrand.Rand, id string) c20client {
	if id == "s1" {
		return c20client{id: "s1", secret: c13Secret}
	}
	w.mu.Lock()
	defer w.mu.Unlock()
	for _, kind := range []string{"dyn_secret", "dyn_pkjwt"} {
		for _, e := range w.pool[kind] {
			p := strings.Split(e, "|")
			if p[0] == id {
				return c20client{id: id, secret: p[1], regTok: p[2], pkjwt: kind == "dyn_pkjwt"}
			}
		}
	}
	return c20client{id: id, secret: c13Secret}
}

func (w *c20W) learn(m map[string]any, c c20client) {
	if at := str(m, "access_token"); at != "" {
		w.put("access_token", at+"|"+c.id)
	}
	if rt := str(m, "refresh_token"); rt != "" {
		w.put("refresh_token", rt+"|"+c.id)
	}
}

func (w *c20W) redeem(r *mrand.Rand, c c20client, code string) {
	m := w.form("/token", w.authn(r, c, url.Values{"grant_type": {"authorization_code"}, "code": {code}, "redirect_uri": {c13Redirect},
		"code_verifier": {strings.Repeat("v", 50)}}))
	w.count("code")
	w.learn(m, c)
}

func c20Work(ctx *RunCtx) {
	w, err := newC20World()
	if err != nil {
		panic(err)
	}
	total := time.Duration(ctx.N(20, 240)) * time.Second
	levels := []int{2, 4, 8, 16}
	for li, g := range levels {
		deadline := time.Now().Add(total / time.Duration(len(levels)))
		var wg sync.WaitGroup
		for i := 0; i < g; i++ {
			wg.Add(1)
			seed := ctx.Seed*1000 + int64(li*100+i)
			go func() {
				defer wg.Done()
				r := mrand.New(mrand.NewSource(seed))
				for time.Now().Before(deadline) {
					w.flow(r)
				}
			}()
		}
		wg.Wait()
	}
	ctx.Meta.Cases = int(w.reqs.Load())
	w.byK.Range(func(k, v any) bool { ctx.Meta.Dist[k.(string)] = int(v.(*atomic.Int64).Load()); return true })
	ctx.Meta.Rule = "requests served"
}

// ------------------------------------------------------------------ the driver (ordinary binary)

type raceAccess struct {
	Kind  string // read | write
	Func  string // innermost go-oidc frame
	IsMap bool   // the access itself is a runtime map operation
	Top   string // innermost frame of all
}

var raceHead = regexp.MustCompile(`^(Previous )?(atomic )?([Rr]ead|[Ww]rite) at 0x[0-9a-f]+ by `)

func parseRaceReports(txt string) (sigs map[string]string) {
	sigs = map[string]string{}
	for _, block := range strings.Split(txt, "==================") {
		if !strings.Contains(block, "WARNING: DATA RACE") {
			continue
		}
		lines := strings.Split(block, "\n")
		var accs []raceAccess
		for i := 0; i < len(lines); i++ {
			m := raceHead.FindStringSubmatch(lines[i])
			if m == nil {
				continue
			}
			a := raceAccess{Kind: strings.ToLower(m[3])}
			for j := i + 1; j < len(lines) && strings.TrimSpace(lines[j]) != ""; j++ {
				l := lines[j]
				if !strings.HasPrefix(l, "  ") || strings.HasPrefix(l, "      ") {
					continue
				}
				fn := strings.TrimSpace(l)
				if k := strings.LastIndex(fn, "("); k > 0 {
					fn = fn[:k]
				}
				if a.Top == "" {
					a.Top = fn
					a.IsMap = strings.HasPrefix(fn, "runtime.map")
				}
				if a.Func == "" && strings.HasPrefix(fn, "github.com/luikyv/go-oidc/") && !strings.Contains(fn, "/verifharness") {
					a.Func = strings.TrimPrefix(fn, "github.com/luikyv/go-oidc/")
				}
			}
			if a.Func == "" {
				a.Func = "outside-go-oidc:" + a.Top
			}
			accs = append(accs, a)
		}
		if len(accs) < 2 {
			continue
		}
		el := func(a raceAccess) string {
			s := coarseSite(a.Func, a.Kind) + ":" + a.Kind
			if a.IsMap {
				s += ":map"
			}
			return s
		}
		pair := []string{el(accs[0]), el(accs[1])}
		sort.Strings(pair)
		sig := pair[0] + " | " + pair[1]
		if _, ok := sigs[sig]; !ok {
			sigs[sig] = strings.TrimSpace(block)
		}
	}
	return sigs
}

// coarseSite keeps the exact function for writers and for the storage's own methods (finite sets
// the model enumerates) and reduces any other reader of a loaded object to its package / receiver
// class, so that the signature vocabulary is finite and does not depend on which of the many
// reading functions the schedule happened to catch.
func coarseSite(fn, kind string) string {
	if kind == "write" || strings.HasPrefix(fn, "internal/storage.") || strings.HasPrefix(fn, "outside-go-oidc:") {
		return fn
	}
	if i := strings.Index(fn, ")."); i > 0 && strings.Contains(fn[:i], "(*") {
		return fn[:i+2] + "*"
	}
	if i := strings.LastIndex(fn, "/"); i >= 0 {
		if j := strings.Index(fn[i:], "."); j > 0 {
			return fn[:i+j+1] + "*"
		}
	}
	return fn
}

func c20Drive(ctx *RunCtx) {
	env := append(os.Environ(), "CGO_ENABLED=1", "GOFLAGS=-mod=mod", "GOPROXY=off", "GOSUMDB=off", "GOTOOLCHAIN=local")
	build := exec.Command("go", "build", "-race", "-o", "verifharness_race", ".")
	build.Env = env
	if out, err := build.CombinedOutput(); err != nil {
		panic(fmt.Sprintf("c20: go build -race failed: %v\n%s", err, out))
	}
	abs, _ := filepath.Abs(ctx.Out)
	workOut := filepath.Join(abs, "work")
	_ = os.MkdirAll(workOut, 0o755)
	logBase := filepath.Join(abs, "race")
	run := exec.Command("./verifharness_race", "c20work", "-tier", ctx.Tier, "-seed", fmt.Sprint(ctx.Seed), "-out", workOut)
	run.Env = append(env, "GORACE=halt_on_error=0 log_path="+logBase)
	out, err := run.CombinedOutput()
	if err != nil {
		// the race runtime exits with 66 when races were reported: not an error of the workload
		if ee, ok := err.(*exec.ExitError); !ok || ee.ExitCode() != 66 {
			panic(fmt.Sprintf("c20: workload failed: %v\n%s", err, truncate(string(out), 3000)))
		}
	}
	var wm Meta
	if b, err := os.ReadFile(filepath.Join(workOut, "meta.json")); err == nil {
		_ = json.Unmarshal(b, &wm)
	}
	var txt strings.Builder
	logs, _ := filepath.Glob(logBase + ".*")
	for _, l := range logs {
		b, _ := os.ReadFile(l)
		txt.Write(b)
	}
	sigs := parseRaceReports(txt.String())
	var keys []string
	for k := range sigs {
		keys = append(keys, k)
	}
	sort.Strings(keys)
	// A finding is named by the unsynchronised WRITE site(s) of the racing pair - the root cause - so that
	// which of the many readers happened to be scheduled against it does not change the name; a race on a
	// storage map keeps the full pair as its name.
	emitted := map[string]bool{}
	for _, k := range keys {
		if strings.Contains(k, ":map") && strings.Contains(k, "internal/storage") {
			ctx.Meta.Findings = append(ctx.Meta.Findings, Finding{Property: "C20", Signature: k, What: "data race on a storage map: " + k,
				Replay: map[string]any{"race_report": truncate(sigs[k], 6000), "workload": "verifharness_race c20work -tier " + ctx.Tier + " -seed " + fmt.Sprint(ctx.Seed)}})
			continue
		}
		writers := 0
		for _, part := range strings.Split(k, " | ") {
			if strings.HasSuffix(part, ":write") {
				writers++
				sig := "unsynchronised-write:" + strings.TrimSuffix(part, ":write")
				if emitted[sig] {
					continue
				}
				emitted[sig] = true
				ctx.Meta.Findings = append(ctx.Meta.Findings, Finding{Property: "C20", Signature: sig,
					What: "data race: unsynchronised write in " + strings.TrimSuffix(part, ":write") + " (observed pair: " + k + ")",
					Replay: map[string]any{"race_report": truncate(sigs[k], 6000), "workload": "verifharness_race c20work -tier " + ctx.Tier + " -seed " + fmt.Sprint(ctx.Seed)}})
			}
		}
		if writers == 0 {
			ctx.Meta.Findings = append(ctx.Meta.Findings, Finding{Property: "C20", Signature: k, What: "data race report without a write side: " + k,
				Replay: map[string]any{"race_report": truncate(sigs[k], 6000)}})
		}
	}
	// ask the model whether each observed signature is in its predicted set
	var b strings.Builder
	b.WriteString("From Verif Require Import Base Access.\nLocal Open Scope N_scope.\nDefinition observed : list (string * string) := [\n")
	var jcases []map[string]any
	for i, k := range keys {
		p := strings.Split(k, " | ")
		if i > 0 {
			b.WriteString(";\n")
		}
		fmt.Fprintf(&b, "  (%s, %s)", cS(p[0]), cS(p[1]))
		jcases = append(jcases, map[string]any{"Index": i, "Note": "race signature " + k, "Spec": k, "Obs": truncate(sigs[k], 2000)})
	}
	b.WriteString("].\nDefinition corr := Eval vm_compute in map (fun s => if predicted_signature (fst s) (snd s) then 0 else 1) observed.\nPrint corr.\n")
	_ = os.WriteFile(filepath.Join(ctx.Out, "cases_000.v"), []byte(b.String()), 0o644)
	jb, _ := json.Marshal(jcases)
	_ = os.WriteFile(filepath.Join(ctx.Out, "cases.json"), jb, 0o644)
	ctx.Meta.Files = []string{"cases_000.v"}
	ctx.Meta.Cases = wm.Cases
	ctx.Meta.Distinct = len(keys)
	for k, v := range wm.Dist {
		ctx.Meta.Dist[k] = v
	}
	ctx.Meta.Extra = map[string]any{"race_signatures": keys, "race_logs": len(logs)}
	ctx.Meta.Rule = "requests served concurrently (2, 4, 8, 16 goroutines in turn) by one provider with the default in-memory storage under the race detector; distinct = distinct race signatures (unordered pair of innermost go-oidc frame function and access kind)"
	for i, k := range keys {
		if i < 3 {
			ctx.Meta.Samples = append(ctx.Meta.Samples, map[string]any{"signature": k, "report": truncate(sigs[k], 1500)})
		}
	}
}

func init() {
	register(&Suite{Name: "c20work", Run: c20Work})
	register(&Suite{Name: "c20", Run: c20Drive})
}
