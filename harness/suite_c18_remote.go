package main

// Suite c18, second half — state that lives OUTSIDE the three storages but that requests depend on.
//
// The four-execution comparison of suite_c18.go covers what is written through the storage
// interfaces.  A request also depends on
//   (1) remote key material: what a client publishes at its jwks_uri (private_key_jwt assertions,
//       signed request objects), fetched by goidc.Client.FetchPublicJWKS and CACHED ON THE CLIENT
//       OBJECT it is called on - an aliasing storage hands that object out again, a copying storage
//       does not, a static client object lives as long as the provider instance;
//   (2) the other outbound fetches of the provider (every use of ctx.HTTPClient() in the repository):
//         internal/clientutil/util.go   JWKByKeyID, JWKByAlg        -> jwks_uri
//         internal/clientutil/authn.go  jwkMatchingCert             -> jwks_uri (self signed TLS; not exercised)
//         internal/authorize/jar.go     jarFromRequestURI           -> request_uri (request object by reference)
//         internal/dcr/validation.go    validateSectorIdentifierURI -> sector_identifier_uri
//         internal/token/ciba.go        sendClientNotification      -> the client's notification endpoint
//   (3) state held by the serving instance / process: the static client objects of the configuration
//       (the key cache of (1) again) and the anonymous jwt-bearer client built once per process
//       (internal/token/jwt_bearer.go, sync.Once); nothing else on oidc.Configuration is written
//       after provider.New (setDefaults is the only writer).
// The harness owns all of it: the world answers those URLs from a table (c18Remote) and pseudo
// operations - embedder/world events like the client removal of suite_c18.go, not requests, not in
// the model's op type - change the table BETWEEN requests: a key rotation, a jwks_uri outage, new
// contents of sector_identifier_uri or of the hosted request object, a failing notification
// endpoint.  The same operations are replayed under the four executions and compared on the Go side.

import (
	"context"
	"crypto/ecdsa"
	"encoding/json"
	"fmt"
	"io"
	"math/rand"
	"net/http"
	"net/http/httptest"
	"net/url"
	"strings"
	"sync"
	"time"

	"github.com/go-jose/go-jose/v4"
	"github.com/go-jose/go-jose/v4/jwt"
	"github.com/luikyv/go-oidc/pkg/goidc"
	"github.com/luikyv/go-oidc/pkg/provider"
)

// pseudo-operations (all kinds start with "C18")
const (
	c18OpRotateKeys     = "C18RotateKeys"       // Client: its jwks_uri publishes a new key (new kid) and no longer the previous one
	c18OpJwksDown       = "C18JwksAvailable"    // Client, D: 0 = jwks_uri answers 503 from now on, 1 = it answers again
	c18OpJwtBearer      = "C18JwtBearer"        // Cred (ID 0: no client), Scope, Sub ("" = an assertion the embedder refuses): a jwt-bearer token request
	c18OpJarAuthorize   = "C18JarAuthorize"     // Client, Params, PolicyAvail, Pol, Cred (which key signs): /authorize with a signed request object
	c18OpSetRequestObj  = "C18SetRequestObject" // Client, Params, Cred: the client now hosts this signed request object at its request_uri
	c18OpAuthorizeByRef = "C18AuthorizeByRef"   // Client, PolicyAvail, Pol: /authorize?request_uri=<the hosted request object>
	c18OpSector         = "C18SectorContents"   // Client, D: sector_identifier_uri lists 0 = the client's URIs, 1 = other URIs, 2 = answers 503
	c18OpDcrCreate      = "C18DcrCreate"        // Client (>= 100), D: bit 0 = pairwise with sector_identifier_uri
	c18OpDcrUpdate      = "C18DcrUpdate"        // Client, D as for create
	c18OpDcrGet         = "C18DcrGet"           // Client
	c18OpNotifyEndpoint = "C18NotifyEndpoint"   // Client, D: HTTP status its CIBA notification endpoint answers from now on (0: accepts)
)

func c18JwksURI(id int) string       { return fmt.Sprintf("https://client%d.example/jwks.json", id) }
func c18SectorURI(id int) string     { return fmt.Sprintf("https://client%d.example/sector.json", id) }
func c18RequestObjURI(id int) string { return fmt.Sprintf("https://client%d.example/ro.jwt", id) }
func c18RedirectOf(id int) string    { return fmt.Sprintf("https://client%d.example/cb", id) }

// ---- keys: one per (client, generation); generation = number of rotations so far ----
var c18KeyMu sync.Mutex
var c18KeyTab = map[[2]int]*ecdsa.PrivateKey{}

func c18Key(id, gen int) *ecdsa.PrivateKey {
	c18KeyMu.Lock()
	defer c18KeyMu.Unlock()
	k, ok := c18KeyTab[[2]int{id, gen}]
	if !ok {
		k = genKey()
		c18KeyTab[[2]int{id, gen}] = k
	}
	return k
}

func c18Kid(id, gen int) string { return fmt.Sprintf("c%d-key-%d", id, gen) }

func c18JWKSBody(id, gen int) []byte {
	b, err := json.Marshal(jose.JSONWebKeySet{Keys: []jose.JSONWebKey{{Key: &c18Key(id, gen).PublicKey, KeyID: c18Kid(id, gen), Algorithm: "ES256", Use: "sig"}}})
	if err != nil {
		panic(err)
	}
	return b
}

// a client with ClientSpec.Authn but without JwksURI registers generation 0 inline (`jwks`)
func c18InlineJWKS(id int) json.RawMessage { return c18JWKSBody(id, 0) }

// ---- the remote state of one world ----
type c18DcrReg struct {
	ID    string
	Token string
	// clients registered by c18OpDcrRegister (suite_c18_authn.go): how they authenticate, the secret the
	// registration answer carried, and the one before the last re-registration
	Variant, Secret, OldSecret string
}

type c18Remote struct {
	mu     sync.Mutex
	// the embedder's HandleGrantFunc attaches additional claims to what it grants (suite_c18_claims.go)
	EmbedderClaims bool
	// every client authentication method, mutual TLS, rich authorization requests (suite_c18_authn.go)
	AllAuthn bool
	Gen    map[int]int
	Down   map[int]bool
	Sector map[int]int
	Notify map[int]int
	ReqObj map[int]string
	Dcr    map[int]*c18DcrReg
}

func (w *World) c18r() *c18Remote {
	if w.c18 == nil {
		w.c18 = &c18Remote{Gen: map[int]int{}, Down: map[int]bool{}, Sector: map[int]int{}, Notify: map[int]int{}, ReqObj: map[int]string{}, Dcr: map[int]*c18DcrReg{}}
	}
	return w.c18
}

// the client id a credential number stands for: c<n> for configured clients, the id the provider
// minted for clients registered through DCR (numbers >= 100)
func (w *World) c18ClientID(n int) string {
	if n >= 100 {
		if reg := w.c18r().Dcr[n]; reg != nil {
			return reg.ID
		}
		return fmt.Sprintf("dc-never-registered-%d", n)
	}
	return clientName(n)
}

// the stable name of a client id in digests (ids minted by DCR are random)
func (w *World) c18ClientLabel(id string) string {
	if w.c18 != nil {
		for n, reg := range w.c18.Dcr {
			if reg.ID == id {
				return fmt.Sprintf("dcr%d", n)
			}
		}
	}
	return id
}

func c18SpecHas(spec WorldSpec, opt string) bool {
	for _, o := range spec.Opts {
		if o.Name == opt {
			return true
		}
	}
	return false
}

// does the world have clients / options outside the model (then it is compared on the Go side only)
func c18SpecRemote(spec WorldSpec) bool {
	for _, cs := range append(append([]ClientSpec{}, spec.Static...), spec.Dyn...) {
		if cs.Authn != "" || cs.JwksURI {
			return true
		}
	}
	// (the jwt-bearer grant is in the model: Token.jwt_bearer_grant; the directed jwt-bearer histories of this suite
	// use jwks_uri clients and stay on the Go side for that reason)
	return c18SpecHas(spec, "WithDCR") || c18SpecHas(spec, "WithJAR") || c18SpecHas(spec, "WithJARByReference")
}

func c18Resp(status int, body string) *http.Response {
	return &http.Response{StatusCode: status, Body: io.NopCloser(strings.NewReader(body)), Header: http.Header{"Content-Type": []string{"application/json"}}}
}

// ---- hooks into the generic world (installed by the suite and by the replayer) ----
func c18InstallHooks() {
	extraProviderOpts = func(w *World) []provider.ProviderOption {
		if !c18SpecRemote(w.Spec) {
			return append(c18EmbedderClaimsOpts(w), c18AuthnOpts(w)...)
		}
		ms := []goidc.ClientAuthnType{goidc.ClientAuthnNone, goidc.ClientAuthnPrivateKeyJWT}
		opts := []provider.ProviderOption{
			provider.WithTokenAuthnMethods(goidc.ClientAuthnSecretPost, ms...),
			provider.WithPrivateKeyJWTSignatureAlgs(goidc.ES256),
		}
		if c18SpecHas(w.Spec, "WithTokenIntrospection") {
			opts = append(opts, provider.WithTokenIntrospection(func(*goidc.Client) bool { return w.allowed }, goidc.ClientAuthnSecretPost, ms...))
		}
		if c18SpecHas(w.Spec, "WithTokenRevocation") {
			opts = append(opts, provider.WithTokenRevocation(func(*goidc.Client) bool { return w.allowed }, goidc.ClientAuthnSecretPost, ms...))
		}
		return append(append(opts, c18EmbedderClaimsOpts(w)...), c18AuthnOpts(w)...)
	}
	extraRoundTrip = func(w *World, r *http.Request) *http.Response {
		var id int
		if _, err := fmt.Sscanf(r.URL.Host, "client%d.example", &id); err != nil {
			return nil
		}
		st := w.c18r()
		st.mu.Lock()
		defer st.mu.Unlock()
		switch r.URL.Path {
		case "/jwks.json":
			if st.Down[id] {
				return c18Resp(503, "")
			}
			return c18Resp(200, string(c18JWKSBody(id, st.Gen[id])))
		case "/sector.json":
			switch st.Sector[id] {
			case 0:
				b, _ := json.Marshal([]string{c18RedirectOf(id), c18JwksURI(id)})
				return c18Resp(200, string(b))
			case 1:
				return c18Resp(200, `["https://somebody-else.example/cb"]`)
			}
			return c18Resp(503, "")
		case "/ro.jwt":
			if s, ok := st.ReqObj[id]; ok {
				return c18Resp(200, s)
			}
			return c18Resp(404, "")
		case "/notify":
			if s := st.Notify[id]; s != 0 {
				return c18Resp(s, "")
			}
		}
		return nil
	}
	extraApplyCred = func(w *World, c Cred, form url.Values) bool {
		if c.ID < 100 {
			if cs := w.clientSpec(c.ID); cs == nil || cs.Authn != string(goidc.ClientAuthnPrivateKeyJWT) {
				return false
			}
		}
		id := w.c18ClientID(c.ID)
		form.Set("client_id", id)
		form.Set("client_assertion_type", "urn:ietf:params:oauth:client-assertion-type:jwt-bearer")
		now := time.Now().Unix()
		form.Set("client_assertion", w.c18Sign(c, "JWT", map[string]any{"iss": id, "sub": id, "aud": issuer, "iat": now, "exp": now + 120,
			"jti": fmt.Sprintf("assertion-%d-%d", w.step, time.Now().UnixNano())}))
		return true
	}
}

// a JWS by the client named in c: signed with the key it publishes now (OK), with the key it
// published before its last rotation (Old), or with a key it never published under the current kid
func (w *World) c18Sign(c Cred, typ string, claims map[string]any) string {
	st := w.c18r()
	st.mu.Lock()
	gen := st.Gen[c.ID]
	st.mu.Unlock()
	key, kid := c18Key(c.ID, gen), c18Kid(c.ID, gen)
	switch {
	case c.Old:
		key, kid = c18Key(c.ID, gen-1), c18Kid(c.ID, gen-1)
	case !c.OK:
		key = c18Key(-c.ID, gen)
	}
	sg, err := jose.NewSigner(jose.SigningKey{Algorithm: jose.ES256, Key: key}, (&jose.SignerOptions{}).WithType(jose.ContentType(typ)).WithHeader("kid", kid))
	if err != nil {
		panic(err)
	}
	s, err := jwt.Signed(sg).Claims(claims).Serialize()
	if err != nil {
		panic(err)
	}
	return s
}

func (w *World) c18RequestObject(client int, signer Cred, p Params) string {
	id := w.c18ClientID(client)
	v := url.Values{}
	p.values(w, v)
	now := time.Now().Unix()
	claims := map[string]any{"iss": id, "aud": issuer, "client_id": id, "iat": now, "nbf": now, "exp": now + 300}
	for k := range v {
		claims[k] = v.Get(k)
	}
	signer.ID = client
	return w.c18Sign(signer, "oauth-authz-req+jwt", claims)
}

// one raw request (DCR speaks JSON)
func (w *World) c18Serve(method, target, body string, hdr http.Header) (rec *httptest.ResponseRecorder, panicked any) {
	var rd io.Reader
	if body != "" {
		rd = strings.NewReader(body)
	}
	req := httptest.NewRequest(method, target, rd)
	for k, vs := range hdr {
		for _, v := range vs {
			req.Header.Add(k, v)
		}
	}
	rec = httptest.NewRecorder()
	defer func() {
		if r := recover(); r != nil {
			panicked = r
		}
	}()
	w.provider().Handler().ServeHTTP(rec, req)
	return rec, nil
}

func c18DcrMeta(n, flags int) string {
	m := map[string]any{
		"redirect_uris": []string{c18RedirectOf(n)}, "grant_types": []string{"client_credentials", "authorization_code"},
		"response_types": []string{"code"}, "scope": "openid email", "token_endpoint_auth_method": "private_key_jwt", "jwks_uri": c18JwksURI(n),
	}
	if flags&1 != 0 {
		m["subject_type"] = "pairwise"
		m["sector_identifier_uri"] = c18SectorURI(n)
	}
	b, _ := json.Marshal(m)
	return string(b)
}

func (w *World) c18DcrObs(rec *httptest.ResponseRecorder, pan any, n int, learn bool) Obs {
	if pan != nil {
		if _, ok := pan.(crashSentinel); ok {
			panic(pan)
		}
		return Obs{Kind: "Panic", Raw: fmt.Sprint(pan)}
	}
	raw := rec.Body.String()
	var m map[string]any
	_ = json.Unmarshal([]byte(raw), &m)
	if rec.Code >= 400 {
		e, _ := m["error"].(string)
		return Obs{Kind: "Err", Err: ecode(e), Status: rec.Code, Raw: raw}
	}
	id, _ := m["client_id"].(string)
	tok, _ := m["registration_access_token"].(string)
	if learn && id != "" {
		reg := w.c18r().Dcr[n]
		if reg == nil {
			reg = &c18DcrReg{}
			w.c18r().Dcr[n] = reg
		}
		reg.ID = id
		if tok != "" {
			reg.Token = tok
		}
	}
	// what the registration says about the remote documents must not depend on the execution either
	ju, _ := m["jwks_uri"].(string)
	su, _ := m["sector_identifier_uri"].(string)
	_, inline := m["jwks"]
	return Obs{Kind: "Ok", Status: rec.Code, Raw: raw, Scope: fmt.Sprintf("jwks_uri=%s sector_identifier_uri=%s jwks_member=%v", ju, su, inline)}
}

func c18IsPseudo(o Op) bool { return strings.HasPrefix(o.Kind, "C18") }

func c18Describe(o Op) string {
	if !c18IsPseudo(o) {
		s := o.coq()
		if o.Cred.Old {
			s += "  (credential: the key withdrawn by the last rotation)"
		}
		return s
	}
	key := func(c Cred) string {
		switch {
		case c.Old:
			return "the key withdrawn by the last rotation"
		case c.OK:
			return "the key published now"
		}
		return "a key never published"
	}
	switch o.Kind {
	case c18OpDcrRegister, c18OpDcrAuthorize:
		return c18AuthnDescribe(o)
	case c18OpRotateKeys:
		return fmt.Sprintf("%s: jwks_uri of client %d publishes a new key instead of the previous one", o.Kind, o.Client)
	case c18OpJwksDown:
		return fmt.Sprintf("%s: jwks_uri of client %d available=%v", o.Kind, o.Client, o.D != 0)
	case c18OpJwtBearer:
		who := "no client (the anonymous client of the process)"
		if o.Cred.ID != 0 {
			who = fmt.Sprintf("client %d authenticating with %s", o.Cred.ID, key(o.Cred))
		}
		return fmt.Sprintf("%s: token request, grant jwt-bearer, %s, scope %q, assertion for subject %q", o.Kind, who, o.Scope, o.Sub)
	case c18OpJarAuthorize:
		return fmt.Sprintf("%s: client %d, request object signed with %s, %s policy=%v %s", o.Kind, o.Client, key(o.Cred), o.Params.coq(), o.PolicyAvail, o.Pol.coq())
	case c18OpSetRequestObj:
		return fmt.Sprintf("%s: client %d hosts a request object signed with %s, %s", o.Kind, o.Client, key(o.Cred), o.Params.coq())
	case c18OpAuthorizeByRef:
		return fmt.Sprintf("%s: client %d, request_uri=%s policy=%v %s", o.Kind, o.Client, c18RequestObjURI(o.Client), o.PolicyAvail, o.Pol.coq())
	case c18OpSector:
		return fmt.Sprintf("%s: sector_identifier_uri of client %d now answers variant %d (0 the client's URIs, 1 other URIs, 2 unavailable)", o.Kind, o.Client, o.D)
	case c18OpNotifyEndpoint:
		return fmt.Sprintf("%s: notification endpoint of client %d answers status %d (0: accepts)", o.Kind, o.Client, o.D)
	case c18OpDiscovery:
		return o.Kind + ": GET /.well-known/openid-configuration"
	case c18OpJwks:
		return o.Kind + ": GET /jwks"
	case c18OpTokenInfoJSON:
		return fmt.Sprintf("%s: the provider's TokenInfo helper on %s, its answer serialised with encoding/json", o.Kind, o.Tok.coq())
	}
	return fmt.Sprintf("%s client %d flags %d", o.Kind, o.Client, o.D)
}

// ---- executing a pseudo-operation ----
func c18ExecOp(w *World, o Op) Obs {
	if !c18IsPseudo(o) {
		if c18AuthnOwn(w, o) {
			return c18AuthnExec(w, o)
		}
		return w.Exec(o)
	}
	w.Stores.BeginRequest(nil, -1)
	w.notifs, w.curCert = nil, nil
	pfx := w.prefix()
	st := w.c18r()
	set := func(f func()) Obs {
		st.mu.Lock()
		f()
		st.mu.Unlock()
		return Obs{Kind: "Ok"}
	}
	switch o.Kind {
	case c18OpDelClient:
		_ = w.Stores.C.Delete(context.Background(), clientName(o.Client))
		return Obs{Kind: "Ok"}
	case c18OpPutClient:
		if cs := w.clientSpec(o.Client); cs != nil {
			_ = w.Stores.C.Save(context.Background(), cs.build())
		}
		return Obs{Kind: "Ok"}
	case c18OpDiscovery, c18OpJwks, c18OpTokenInfoJSON:
		return c18ExecReadOnlyPseudo(w, o)
	case c18OpDcrRegister, c18OpDcrAuthorize:
		return c18AuthnExecPseudo(w, o)
	case c18OpRotateKeys:
		return set(func() { st.Gen[o.Client]++ })
	case c18OpJwksDown:
		return set(func() { st.Down[o.Client] = o.D == 0 })
	case c18OpSector:
		return set(func() { st.Sector[o.Client] = o.D })
	case c18OpNotifyEndpoint:
		return set(func() { st.Notify[o.Client] = o.D })
	case c18OpSetRequestObj:
		ro := w.c18RequestObject(o.Client, o.Cred, o.Params)
		return set(func() { st.ReqObj[o.Client] = ro })
	case c18OpJwtBearer:
		v := url.Values{}
		w.applyCred(o.Cred, v)
		v.Set("grant_type", "urn:ietf:params:oauth:grant-type:jwt-bearer")
		if o.Sub != "" {
			v.Set("assertion", "ok:"+o.Sub)
		} else {
			v.Set("assertion", "refused-by-the-embedder")
		}
		if o.Scope != "" {
			v.Set("scope", o.Scope)
		}
		w.hg = o.HG
		rec, pan := w.serve("POST", pfx+"/token", v, nil)
		return w.absJSON(rec, pan, "token")
	case c18OpJarAuthorize, c18OpAuthorizeByRef:
		w.polAvail, w.pol = o.PolicyAvail, o.Pol
		v := url.Values{}
		v.Set("client_id", w.c18ClientID(o.Client))
		// OpenID Connect wants response_type and scope outside as well
		if o.Params.RespType != "" {
			v.Set("response_type", o.Params.RespType)
		}
		if o.Params.Scopes != "" {
			v.Set("scope", o.Params.Scopes)
		}
		if o.Kind == c18OpJarAuthorize {
			v.Set("request", w.c18RequestObject(o.Client, o.Cred, o.Params))
		} else {
			v.Set("request_uri", c18RequestObjURI(o.Client))
		}
		rec, pan := w.serve("GET", pfx+"/authorize?"+v.Encode(), nil, nil)
		return w.absAuthorize(rec, pan)
	case c18OpDcrCreate:
		rec, pan := w.c18Serve("POST", pfx+"/register", c18DcrMeta(o.Client, o.D), http.Header{"Content-Type": {"application/json"}})
		return w.c18DcrObs(rec, pan, o.Client, true)
	case c18OpDcrUpdate, c18OpDcrGet:
		reg := st.Dcr[o.Client]
		if reg == nil {
			reg = &c18DcrReg{ID: w.c18ClientID(o.Client), Token: "no-registration-token"}
		}
		hdr := http.Header{"Content-Type": {"application/json"}, "Authorization": {"Bearer " + reg.Token}}
		if o.Kind == c18OpDcrGet {
			rec, pan := w.c18Serve("GET", pfx+"/register/"+url.PathEscape(reg.ID), "", hdr)
			return w.c18DcrObs(rec, pan, o.Client, false)
		}
		rec, pan := w.c18Serve("PUT", pfx+"/register/"+url.PathEscape(reg.ID), c18DcrMeta(o.Client, o.D), hdr)
		return w.c18DcrObs(rec, pan, o.Client, true)
	}
	panic("c18: pseudo-operation " + o.Kind)
}

// ---- which client does an operation act for (to qualify the signature of a difference) ----
func c18ActingClient(o Op) int {
	switch o.Kind {
	case "Authorize", c18OpJarAuthorize, c18OpAuthorizeByRef, c18OpDcrCreate, c18OpDcrUpdate, c18OpDcrGet, c18OpDcrRegister, c18OpDcrAuthorize:
		return o.Client
	}
	return o.Cred.ID
}

func c18StaticJwksURIClient(spec WorldSpec, id int) bool {
	for _, cs := range spec.Static {
		if cs.ID == id && cs.JwksURI {
			return true
		}
	}
	return false
}

// A difference between a long-lived and a fresh instance on a request of a STATIC client that
// publishes its keys at jwks_uri, after those keys changed or became unavailable: the one root
// cause "FetchPublicJWKS caches on the configuration's client object for the life of the instance".
// It gets one signature whatever request shows it first, so that it can be listed narrowly.
const c18SigStaticKeyCache = "static-jwks_uri-client:keys-cached-for-the-life-of-the-instance"

func c18Signature(spec WorldSpec, ops []Op, d *c18Difference) string {
	if d.B < 0 { // an observation about one execution (a read-only endpoint wrote): the field is the signature
		return d.Field
	}
	plain := ops[d.Op].Kind + ":" + d.Field
	if c18EmptyAuthDetailTypes(ops, d) {
		return c18SigEmptyAuthDetailTypes
	}
	if d.Field == "store" || c18Execs[d.A].Fresh == c18Execs[d.B].Fresh {
		return plain
	}
	c := c18ActingClient(ops[d.Op])
	if !c18StaticJwksURIClient(spec, c) {
		return plain
	}
	for _, o := range ops[:d.Op] {
		if (o.Kind == c18OpRotateKeys || o.Kind == c18OpJwksDown) && o.Client == c {
			return c18SigStaticKeyCache
		}
	}
	return plain
}

// ---- worlds with remote state ----
var c18PKJ = string(goidc.ClientAuthnPrivateKeyJWT)

// the clients of the generic generator, some of them authenticating with private_key_jwt:
// 2, 4 (and the CIBA clients 5, 6) publish their keys at jwks_uri, 1 registers them inline
func c18RemoteClients(cs []ClientSpec) []ClientSpec {
	out := append([]ClientSpec(nil), cs...)
	for i := range out {
		switch out[i].ID {
		case 1:
			out[i].Authn = c18PKJ
		case 2, 4, 5, 6:
			out[i].Authn, out[i].JwksURI = c18PKJ, true
		}
	}
	return out
}

func c18SpecClients(spec WorldSpec) []ClientSpec {
	if len(spec.Static) > 0 {
		return spec.Static
	}
	return spec.Dyn
}

// generated: the generic online generator over a world whose confidential clients use
// private_key_jwt, cut into segments with a world event between two segments
func c18GenerateRemote(r *rand.Rand, k int) c18History {
	prof := c18Profiles[[]int{3, 0, 2, 3}[k%4]] // tokens, code+refresh, ciba, tokens
	want := map[string]bool{}
	for f, v := range prof.Want {
		want[f] = v
	}
	dynamic := k%4 != 1 // three out of four with stored clients
	want["dynamic"] = dynamic
	gen := c18Execs[(k/4)%len(c18Execs)]
	spec := randomSpec(r, gen.Flavour, want)
	spec.FreshPer = gen.Fresh
	if dynamic {
		spec.Dyn = c18RemoteClients(spec.Dyn)
	} else {
		spec.Static = c18RemoteClients(spec.Static)
	}
	g, err := NewSysGen(r, spec)
	if err != nil {
		panic(err)
	}
	for name, v := range prof.Weights {
		g.Weights[name] = v
	}
	g.Weights["cc"] += 10 // the cheapest authenticated request
	g.DevRate = prof.Dev / 2
	pseudo := func(o Op) {
		g.W.step = len(g.Ops)
		g.Obs = append(g.Obs, c18ExecOp(g.W, o))
		g.Ops = append(g.Ops, o)
	}
	var remote []int
	for _, cs := range c18SpecClients(spec) {
		if cs.JwksURI {
			remote = append(remote, cs.ID)
		}
	}
	segs := 4
	rotated := map[int]int{} // client -> index of its first rotation
	for s := 0; s < segs; s++ {
		g.Run((s + 1) * prof.Nops / segs)
		if s == segs-1 {
			break
		}
		c := pick(r, remote)
		switch x := r.Intn(10); {
		case x < 6:
			pseudo(Op{Kind: c18OpRotateKeys, Client: c})
			if _, ok := rotated[c]; !ok {
				rotated[c] = len(g.Ops)
			}
		case x < 8:
			pseudo(Op{Kind: c18OpJwksDown, Client: c, D: 0})
		case x < 9:
			pseudo(Op{Kind: c18OpJwksDown, Client: c, D: 1})
		default:
			if dynamic { // the embedder saves the registration again
				pseudo(Op{Kind: c18OpPutClient, Client: c})
			} else {
				pseudo(Op{Kind: c18OpRotateKeys, Client: c})
			}
		}
		// make sure the client whose world changed is heard from again
		pseudo(Op{Kind: "Token", Grant: "client_credentials", Cred: Cred{ID: c, OK: true}, Scope: "openid", HG: "HgOk", BA: "BaApprove"})
	}
	// afterwards (the later operations name what they use by operation index, so this is still the
	// same abstract history for every execution): some accepted credentials become the withdrawn key
	ops := append([]Op(nil), g.Ops...)
	for i := range ops {
		if at, ok := rotated[ops[i].Cred.ID]; ok && i >= at && ops[i].Cred.OK && !c18IsPseudo(ops[i]) && r.Intn(4) == 0 {
			ops[i].Cred.Old = true
		}
	}
	note := fmt.Sprintf("remote:%s#%d/%s/generated-under:%s", prof.Name, k, map[bool]string{false: "static-clients", true: "stored-clients"}[dynamic], gen)
	spec.Flavour, spec.FreshPer = "", false
	return c18History{Note: note, Spec: spec, Ops: ops, Extra: g.W.extraTargets}
}

// ---- directed histories ----
func c18RemoteCorpus(r *rand.Rand) []c18History {
	var out []c18History
	base := []Opt{{Name: "WithScopes", Scopes: serverScopes}, {Name: "WithAuthorizationCodeGrant"}, {Name: "WithClientCredentialsGrant"},
		{Name: "WithRefreshTokenGrant", Z: 1000}, {Name: "WithTokenIntrospection"}, {Name: "WithTokenRevocation"}, {Name: "WithTokenLifetime", Z: 300},
		{Name: "WithPAR", Z: 60}, {Name: "WithJAR"}, {Name: "WithJARByReference"}, {Name: "WithCIBAGrant"}}
	pol := Pol{Kind: "PolSuccess", Sub: "alice", Granted: "openid email"}
	cc := func(c Cred) Op {
		return Op{Kind: "Token", Grant: "client_credentials", Cred: c, Scope: "openid", HG: "HgOk", BA: "BaApprove"}
	}
	for _, dynamic := range []bool{false, true} {
		spec := WorldSpec{Profile: "openid", Opts: base}
		cl := c18RemoteClients(append(baseClients(r), cibaClients()...))
		if dynamic {
			spec.Dyn = cl
		} else {
			spec.Static = cl
		}
		tag := map[bool]string{false: "/static-clients", true: "/stored-clients"}[dynamic]
		now, old, forged := Cred{ID: 2, OK: true}, Cred{ID: 2, OK: true, Old: true}, Cred{ID: 2}
		p := Params{Redirect: "https://c2.example/cb", RespType: "code", Scopes: "openid email", State: "in-the-request-object"}

		// private_key_jwt at every authenticated endpoint, before and after a rotation, with the new,
		// the withdrawn and a foreign key; then an outage of jwks_uri; then the registration saved again
		out = append(out, c18History{Note: "corpus:remote:key-rotation" + tag, Spec: spec, Ops: []Op{
			cc(now), cc(forged), cc(old),
			{Kind: c18OpRotateKeys, Client: 2},
			cc(now), cc(old), cc(forged),
			{Kind: "Introspect", Cred: now, Tok: PTok{Kind: "PExact", H: mint(4, KAtJwt)}, Allowed: true},
			{Kind: "Introspect", Cred: old, Tok: PTok{Kind: "PExact", H: mint(4, KAtJwt)}, Allowed: true},
			{Kind: "Par", Cred: now, Params: p}, {Kind: "Par", Cred: old, Params: p},
			{Kind: "Revoke", Cred: old, Tok: PTok{Kind: "PExact", H: mint(4, KAtJwt)}, Allowed: true},
			{Kind: "Revoke", Cred: now, Tok: PTok{Kind: "PExact", H: mint(4, KAtJwt)}, Allowed: true},
			{Kind: c18OpRotateKeys, Client: 2}, {Kind: c18OpRotateKeys, Client: 2},
			cc(old), cc(now),
			{Kind: c18OpJwksDown, Client: 2, D: 0},
			cc(now), cc(old),
			{Kind: c18OpJwksDown, Client: 2, D: 1},
			cc(now),
			{Kind: c18OpRotateKeys, Client: 2}, {Kind: c18OpPutClient, Client: 2},
			cc(old), cc(now),
			// a client with inline keys is not concerned
			cc(Cred{ID: 1, OK: true}), {Kind: c18OpRotateKeys, Client: 1}, cc(Cred{ID: 1, OK: true, Old: true}), cc(Cred{ID: 1, OK: true})}})

		// a code flow whose token requests straddle a rotation (the refresh token outlives the key)
		p1 := Params{Redirect: "https://c2.example/cb", RespType: "code", Scopes: "openid email"}
		out = append(out, c18History{Note: "corpus:remote:code-flow-across-rotation" + tag, Spec: spec, Ops: []Op{
			{Kind: "Authorize", Client: 2, Params: p1, PolicyAvail: true, Pol: pol},
			{Kind: "Token", Grant: "authorization_code", Cred: now, Code: mint(0, KCode), Redirect: p1.Redirect, HG: "HgOk", BA: "BaApprove"},
			{Kind: c18OpRotateKeys, Client: 2},
			{Kind: "Token", Grant: "refresh_token", Cred: old, Refresh: mint(1, KRefresh), HG: "HgOk", BA: "BaApprove"},
			{Kind: "Token", Grant: "refresh_token", Cred: now, Refresh: mint(1, KRefresh), HG: "HgOk", BA: "BaApprove"},
			{Kind: "Authorize", Client: 2, Params: p1, PolicyAvail: true, Pol: pol},
			{Kind: c18OpRotateKeys, Client: 2},
			{Kind: "Token", Grant: "authorization_code", Cred: old, Code: mint(5, KCode), Redirect: p1.Redirect, HG: "HgOk", BA: "BaApprove"},
			{Kind: "Token", Grant: "authorization_code", Cred: now, Code: mint(5, KCode), Redirect: p1.Redirect, HG: "HgOk", BA: "BaApprove"}}})

		// request objects: by value and by reference, the signing key rotates, the hosted object changes
		p2 := p
		p2.State = "second-object"
		out = append(out, c18History{Note: "corpus:remote:request-objects" + tag, Spec: spec, Ops: []Op{
			{Kind: c18OpJarAuthorize, Client: 2, Cred: now, Params: p, PolicyAvail: true, Pol: pol},
			{Kind: c18OpSetRequestObj, Client: 2, Cred: now, Params: p},
			{Kind: c18OpAuthorizeByRef, Client: 2, Params: p, PolicyAvail: true, Pol: pol},
			{Kind: c18OpSetRequestObj, Client: 2, Cred: now, Params: p2},
			{Kind: c18OpAuthorizeByRef, Client: 2, Params: p, PolicyAvail: true, Pol: pol},
			{Kind: c18OpRotateKeys, Client: 2},
			{Kind: c18OpAuthorizeByRef, Client: 2, Params: p, PolicyAvail: true, Pol: pol}, // hosted object still signed with the withdrawn key
			{Kind: c18OpJarAuthorize, Client: 2, Cred: old, Params: p, PolicyAvail: true, Pol: pol},
			{Kind: c18OpJarAuthorize, Client: 2, Cred: now, Params: p, PolicyAvail: true, Pol: pol},
			{Kind: c18OpSetRequestObj, Client: 2, Cred: now, Params: p},
			{Kind: c18OpAuthorizeByRef, Client: 2, Params: p, PolicyAvail: true, Pol: pol},
			{Kind: "Par", Cred: now, Params: p1},
			{Kind: "Token", Grant: "authorization_code", Cred: now, Code: mint(10, KCode), Redirect: p.Redirect, HG: "HgOk", BA: "BaApprove"}}})

		// CIBA: a ping client that authenticates with a rotating key, and whose notification endpoint fails for a while
		bp := Params{Scopes: "openid email", LoginHint: "alice", NotifToken: unknownBase + 5006}
		c6, c6old := Cred{ID: 6, OK: true}, Cred{ID: 6, OK: true, Old: true}
		poll := func(c Cred, b int, ba string) Op {
			return Op{Kind: "Token", Grant: "urn:openid:params:grant-type:ciba", Cred: c, AuthReq: mint(b, KAuthReq), HG: "HgOk", BA: ba}
		}
		out = append(out, c18History{Note: "corpus:remote:ciba-ping" + tag, Spec: spec, Ops: []Op{
			{Kind: "BcAuthorize", Cred: c6, Params: bp, InitOK: true, Sub: "alice", Granted: "openid email"},
			{Kind: c18OpRotateKeys, Client: 6},
			poll(c6old, 0, "BaPending"), poll(c6, 0, "BaPending"),
			{Kind: c18OpNotifyEndpoint, Client: 6, D: 500},
			{Kind: "NotifyOk", AuthReq: mint(0, KAuthReq), HG: "HgOk"},
			{Kind: c18OpNotifyEndpoint, Client: 6, D: 0},
			{Kind: "NotifyOk", AuthReq: mint(0, KAuthReq), HG: "HgOk"},
			poll(c6, 0, "BaApprove"), poll(c6, 0, "BaApprove"),
			{Kind: "BcAuthorize", Cred: c6old, Params: bp, InitOK: true, Sub: "alice", Granted: "openid email"},
			{Kind: "BcAuthorize", Cred: c6, Params: bp, InitOK: true, Sub: "alice", Granted: "openid email"}}})
	}

	// the jwt-bearer grant: without a client (the anonymous client built once per process) and with one
	for _, dynamic := range []bool{false, true} {
		for _, required := range []bool{false, true} {
			opts := []Opt{{Name: "WithScopes", Scopes: serverScopes}, {Name: "WithClientCredentialsGrant"}, {Name: "WithJWTBearerGrant"},
				{Name: "WithRefreshTokenGrant", Z: 1000}, {Name: "WithTokenIntrospection"}, {Name: "WithTokenLifetime", Z: 300}}
			if required {
				opts = append(opts, Opt{Name: "WithJWTBearerGrantClientAuthnRequired"})
			}
			cl := c18RemoteClients(baseClients(r))
			for i := range cl {
				if cl[i].ID == 2 || cl[i].ID == 3 {
					cl[i].Grants = append(append([]string(nil), cl[i].Grants...), "urn:ietf:params:oauth:grant-type:jwt-bearer")
				}
			}
			spec := WorldSpec{Profile: "openid", Opts: opts}
			if dynamic {
				spec.Dyn = cl
			} else {
				spec.Static = cl
			}
			jb := func(c Cred, scope, sub string) Op {
				return Op{Kind: c18OpJwtBearer, Cred: c, Scope: scope, Sub: sub, HG: "HgOk"}
			}
			intro := func(n, kind int) Op {
				return Op{Kind: "Introspect", Cred: Cred{ID: 1, OK: true}, Tok: PTok{Kind: "PExact", H: mint(n, kind)}, Allowed: true}
			}
			out = append(out, c18History{Note: fmt.Sprintf("corpus:remote:jwt-bearer/%s/client-required=%v", map[bool]string{false: "static-clients", true: "stored-clients"}[dynamic], required), Spec: spec, Ops: []Op{
				jb(Cred{}, "openid email", "alice"), intro(0, KAtOpaque),
				jb(Cred{}, "admin", "bob"), intro(2, KAtOpaque),
				jb(Cred{}, "no-such-scope", "bob"), jb(Cred{}, "openid", ""),
				jb(Cred{ID: 2, OK: true}, "openid email", "alice"), intro(6, KAtJwt),
				jb(Cred{ID: 3, OK: true}, "openid", "carol"),
				{Kind: c18OpRotateKeys, Client: 2},
				jb(Cred{ID: 2, OK: true}, "openid", "alice"), jb(Cred{ID: 2, OK: true, Old: true}, "openid", "alice"), jb(Cred{ID: 2}, "openid", "alice"),
				jb(Cred{ID: 4, OK: true}, "openid", "alice"), // a client without the grant
				jb(Cred{}, "openid email profile offline_access", "dave"), intro(14, KAtOpaque),
				{Kind: "Token", Grant: "refresh_token", Cred: Cred{ID: 2, OK: true}, Refresh: mint(6, KRefresh), HG: "HgOk", BA: "BaApprove"}}})
		}
	}

	// dynamic registration: jwks_uri and sector_identifier_uri are the registrant's documents
	dopts := []Opt{{Name: "WithScopes", Scopes: serverScopes}, {Name: "WithAuthorizationCodeGrant"}, {Name: "WithClientCredentialsGrant"},
		{Name: "WithTokenIntrospection"}, {Name: "WithTokenLifetime", Z: 300}, {Name: "WithDCR"}}
	for _, rot := range []bool{false, true} {
		opts := dopts
		if rot {
			opts = append(append([]Opt(nil), dopts...), Opt{Name: "WithDCRTokenRotation"})
		}
		spec := WorldSpec{Profile: "openid", Opts: opts, Dyn: baseClients(r)}
		d1, d1old := Cred{ID: 101, OK: true}, Cred{ID: 101, OK: true, Old: true}
		cc101 := func(c Cred) Op {
			return Op{Kind: "Token", Grant: "client_credentials", Cred: c, Scope: "openid", HG: "HgOk", BA: "BaApprove"}
		}
		out = append(out, c18History{Note: fmt.Sprintf("corpus:remote:dcr-jwks_uri-sector/token-rotation=%v", rot), Spec: spec, Ops: []Op{
			{Kind: c18OpSector, Client: 101, D: 1},
			{Kind: c18OpDcrCreate, Client: 101, D: 1}, // refused: the sector document does not list the redirect URI
			{Kind: c18OpSector, Client: 101, D: 2},
			{Kind: c18OpDcrCreate, Client: 101, D: 1}, // refused: unavailable
			{Kind: c18OpSector, Client: 101, D: 0},
			{Kind: c18OpDcrCreate, Client: 101, D: 1},
			cc101(d1), cc101(Cred{ID: 101}),
			{Kind: c18OpRotateKeys, Client: 101},
			cc101(d1), cc101(d1old),
			{Kind: c18OpDcrGet, Client: 101},
			{Kind: c18OpSector, Client: 101, D: 1},
			{Kind: c18OpDcrUpdate, Client: 101, D: 1}, // refused now
			cc101(d1),
			{Kind: c18OpDcrUpdate, Client: 101, D: 0}, // accepted: no sector document needed
			cc101(d1), cc101(d1old),
			{Kind: c18OpRotateKeys, Client: 101},
			cc101(d1), cc101(d1old),
			{Kind: c18OpSector, Client: 101, D: 0},
			{Kind: c18OpDcrUpdate, Client: 101, D: 1},
			{Kind: c18OpDcrGet, Client: 101},
			cc101(d1), cc101(d1old),
			{Kind: c18OpDcrCreate, Client: 102, D: 0}, cc101(Cred{ID: 102, OK: true}), {Kind: c18OpDcrGet, Client: 102}}})
	}
	return out
}
