package main

// C13: the malformed stream through the REAL mux (provider.Handler()) of a provider with every
// optional feature enabled.  Requests are written as raw HTTP/1.1 bytes and parsed by
// http.ReadRequest, exactly as net/http's server would (what it rejects never reaches a handler
// and is only counted).  Oracles (Go-side findings):
//   panic:<innermost go-oidc frame>      the handler goroutine panicked
//   incomplete:<route>                   no status / unparsable JSON body
//   <route>:<status>                     API route answered an error that is not a JSON object with an
//                                        "error" member and a 4xx status, or a 5xx without injected failure
//   frame:<route>:<what changed>         a refused request changed the store beyond the presented credential
// A second part feeds refused token-endpoint requests (junk codes, refresh tokens, auth_req_ids, DPoP
// headers) through the modelled world and writes them as syscases (correspondence + mon_C13).

import (
	"bufio"
	"bytes"
	"context"
	"crypto/ecdsa"
	"crypto/rsa"
	"crypto/rand"
	"crypto/x509"
	"encoding/base64"
	"encoding/json"
	"errors"
	"fmt"
	"io"
	mrand "math/rand"
	"net/http"
	"net/http/httptest"
	"net/url"
	"os"
	"path/filepath"
	"regexp"
	"runtime/debug"
	"sort"
	"strings"
	"time"

	"github.com/go-jose/go-jose/v4"
	"github.com/go-jose/go-jose/v4/jwt"
	"github.com/luikyv/go-oidc/pkg/goidc"
	"github.com/luikyv/go-oidc/pkg/provider"
)

type c13W struct {
	name   string
	stores *Stores
	h      http.Handler
	prov   *provider.Provider
	pfx    string
	r      *mrand.Rand
	// script for the request being served
	polMode  string // success | inprogress | fail | failerr | internal
	hgFail   bool
	hgDeny   bool
	owner    map[string]string
	baMode   string // approve | pending | slow | deny | fail
	dcrFail  bool
	cert     *x509.Certificate
	cbFailed bool // a scripted callback returned a failure during this request
	// keys
	ckey  *ecdsa.PrivateKey
	rsaK  *rsa.PrivateKey
	arts  map[string][]string
	dynID string
	dynTok string
	refs  map[string]string // request objects served by reference (URL -> body)
}

const c13Secret = "secret-of-the-c13-client-0123456789"

var c13Redirect = "https://c1.example/cb"

func (w *c13W) add(kind, s string) {
	if s != "" {
		w.arts[kind] = append(w.arts[kind], s)
	}
}
func (w *c13W) art(kind string) string {
	l := w.arts[kind]
	if len(l) == 0 {
		return ""
	}
	return l[w.r.Intn(len(l))]
}

func c13Clients(ckey *ecdsa.PrivateKey) []*goidc.Client {
	allGrants := []goidc.GrantType{goidc.GrantAuthorizationCode, goidc.GrantImplicit, goidc.GrantRefreshToken,
		goidc.GrantClientCredentials, goidc.GrantJWTBearer, goidc.GrantCIBA}
	allResp := []goidc.ResponseType{goidc.ResponseTypeCode, goidc.ResponseTypeIDToken, goidc.ResponseTypeToken,
		goidc.ResponseTypeCodeAndIDToken, goidc.ResponseTypeCodeAndToken, goidc.ResponseTypeIDTokenAndToken, goidc.ResponseTypeCodeAndIDTokenAndToken}
	pub := jose.JSONWebKey{Key: &ckey.PublicKey, KeyID: "ck1", Algorithm: "ES256", Use: "sig"}
	jwksRaw, _ := json.Marshal(jose.JSONWebKeySet{Keys: []jose.JSONWebKey{pub}})
	mk := func(id string, method goidc.ClientAuthnType) *goidc.Client {
		c := &goidc.Client{ID: id}
		c.TokenAuthnMethod = method
		c.GrantTypes = allGrants
		c.ResponseTypes = allResp
		c.RedirectURIs = []string{c13Redirect, "https://c1.example/cb?x=1"}
		c.ScopeIDs = "openid email profile offline_access pay"
		c.CIBATokenDeliveryMode = goidc.CIBATokenDeliveryModePoll
		c.PublicJWKS = jwksRaw
		return c
	}
	c1 := mk("c1", goidc.ClientAuthnSecretPost)
	c1.HashedSecret = bcryptOf(c13Secret)
	c2 := mk("c2", goidc.ClientAuthnNone)
	c2.GrantTypes = []goidc.GrantType{goidc.GrantAuthorizationCode, goidc.GrantImplicit, goidc.GrantRefreshToken}
	c3 := mk("c3", goidc.ClientAuthnPrivateKeyJWT)
	c3.TokenAuthnSigAlg = goidc.ES256
	c4 := mk("c4", goidc.ClientAuthnSecretBasic)
	c4.HashedSecret = bcryptOf(c13Secret)
	c4.CIBATokenDeliveryMode = goidc.CIBATokenDeliveryModePing
	c4.CIBANotificationEndpoint = "https://client4.example/notify"
	c5 := mk("c5", goidc.ClientAuthnSecretPost)
	c5.HashedSecret = bcryptOf(c13Secret)
	c5.CIBATokenDeliveryMode = goidc.CIBATokenDeliveryModePush
	c5.CIBANotificationEndpoint = "https://client5.example/notify"
	c6 := mk("c6", goidc.ClientAuthnSecretPost)
	c6.HashedSecret = bcryptOf(c13Secret)
	c6.SetAttribute("jwt", true)
	c6.JARMSigAlg = goidc.ES256
	c7 := mk("c7", goidc.ClientAuthnSecretJWT)
	c7.Secret = c13Secret
	return []*goidc.Client{c1, c2, c3, c4, c5, c6, c7}
}

type c13rt struct{ w *c13W }

func (t c13rt) RoundTrip(r *http.Request) (*http.Response, error) {
	if r.Body != nil {
		_, _ = io.ReadAll(r.Body)
	}
	if body, ok := t.w.refs[r.URL.String()]; ok {
		return &http.Response{StatusCode: 200, Body: io.NopCloser(strings.NewReader(body)), Header: http.Header{}}, nil
	}
	code := 404
	if strings.HasSuffix(r.URL.Path, "/notify") {
		code = 204
	}
	return &http.Response{StatusCode: code, Body: io.NopCloser(strings.NewReader("")), Header: http.Header{}}, nil
}

func newC13World(r *mrand.Rand, flavour, pfx string, variant int) (*c13W, error) {
	if serverKeyCache == nil {
		serverKeyCache = genKey()
	}
	for len(certCache) < 3 {
		keyCache = append(keyCache, genKey())
		certCache = append(certCache, genCert(fmt.Sprintf("client%d.example", len(certCache)+1)))
	}
	w := &c13W{name: fmt.Sprintf("%s%s/v%d", flavour, pfx, variant), stores: NewStores(flavour), pfx: pfx, r: r, arts: map[string][]string{}, owner: map[string]string{}, refs: map[string]string{},
		polMode: "success", baMode: "approve"}
	w.ckey = genKey()
	w.rsaK, _ = rsa.GenerateKey(rand.Reader, 2048)
	srv := goidc.JSONWebKeySet{Keys: []goidc.JSONWebKey{
		{Key: serverKeyCache, KeyID: "srv-es256", Algorithm: "ES256", Use: "sig"},
		{Key: w.rsaK, KeyID: "srv-enc", Algorithm: "RSA-OAEP", Use: "enc"},
	}}
	fail := func() error { w.cbFailed = true; return errors.New("embedder failure") }
	opts := []provider.ProviderOption{
		provider.WithClientStorage(w.stores.Clients()),
		provider.WithAuthnSessionStorage(w.stores.Authn()),
		provider.WithGrantSessionStorage(w.stores.Grants()),
		provider.WithScopes(goidc.ScopeOpenID, goidc.NewScope("email"), goidc.NewScope("profile"), goidc.ScopeOfflineAccess,
			goidc.NewDynamicScope("pay", func(s string) bool { return strings.HasPrefix(s, "pay:") })),
		provider.WithIDTokenSignatureAlgs(goidc.ES256),
		provider.WithUserInfoSignatureAlgs(goidc.ES256),
		provider.WithAuthorizationCodeGrant(), provider.WithImplicitGrant(), provider.WithClientCredentialsGrant(),
		provider.WithRefreshTokenGrant(func(*goidc.Client, goidc.GrantInfo) bool { return true }, 600),
		provider.WithRefreshTokenRotation(),
		provider.WithJWTBearerGrant(func(r *http.Request, a string) (goidc.JWTBearerGrantInfo, error) {
			if strings.HasPrefix(a, "ok:") {
				return goidc.JWTBearerGrantInfo{Subject: strings.TrimPrefix(a, "ok:")}, nil
			}
			return goidc.JWTBearerGrantInfo{}, goidc.NewError(goidc.ErrorCodeInvalidGrant, "bad assertion")
		}),
		provider.WithCIBAGrant(
			func(_ context.Context, s *goidc.AuthnSession) error {
				// the embedder refuses some hints: a refused backchannel request must leave no session behind
				switch s.LoginHint {
				case "nobody":
					return goidc.NewError(goidc.ErrorCodeUnknownUserID, "unknown user")
				case "gone":
					return goidc.NewError(goidc.ErrorCodeExpiredLoginHintToken, "expired hint")
				case "boom":
					return fail()
				}
				s.SetUserID("user1")
				s.GrantScopes(s.Scopes)
				return nil
			},
			func(_ context.Context, s *goidc.AuthnSession) error {
				switch w.baMode {
				case "pending":
					return goidc.NewError(goidc.ErrorCodeAuthPending, "pending")
				case "slow":
					return goidc.NewError(goidc.ErrorCodeSlowDown, "slow down")
				case "deny":
					return goidc.NewError(goidc.ErrorCodeAccessDenied, "denied")
				case "fail":
					return fail()
				}
				return nil
			},
			goidc.CIBATokenDeliveryModePoll, goidc.CIBATokenDeliveryModePing, goidc.CIBATokenDeliveryModePush),
		provider.WithCIBAUserCode(),
		provider.WithCIBAJAR(goidc.ES256),
		provider.WithPAR(60), provider.WithUnregisteredRedirectURIsForPAR(),
		provider.WithJAR(goidc.ES256), provider.WithJARByReference(false),
		provider.WithJAREncryption(goidc.RSA_OAEP),
		provider.WithDPoP(goidc.ES256),
		provider.WithMTLS("https://mtls.as.example", func(*http.Request) (*x509.Certificate, error) {
			if w.cert == nil {
				return nil, errors.New("no client certificate")
			}
			return w.cert, nil
		}),
		provider.WithTLSCertTokenBinding(),
		provider.WithTokenAuthnMethods(goidc.ClientAuthnSecretPost, goidc.ClientAuthnSecretBasic, goidc.ClientAuthnNone,
			goidc.ClientAuthnPrivateKeyJWT, goidc.ClientAuthnSecretJWT, goidc.ClientAuthnTLS, goidc.ClientAuthnSelfSignedTLS),
		provider.WithPrivateKeyJWTSignatureAlgs(goidc.ES256),
		provider.WithTokenIntrospection(func(*goidc.Client) bool { return true }, goidc.ClientAuthnSecretPost, goidc.ClientAuthnSecretBasic, goidc.ClientAuthnPrivateKeyJWT),
		provider.WithTokenRevocation(func(*goidc.Client) bool { return true }, goidc.ClientAuthnSecretPost, goidc.ClientAuthnSecretBasic, goidc.ClientAuthnPrivateKeyJWT, goidc.ClientAuthnNone),
		provider.WithDCR(func(*http.Request, *goidc.ClientMetaInfo) error {
			if w.dcrFail {
				return fail()
			}
			return nil
		}, nil),
		provider.WithDCRTokenRotation(),
		provider.WithPKCE(goidc.CodeChallengeMethodSHA256, goidc.CodeChallengeMethodPlain),
		provider.WithResourceIndicators("https://rs.example", "https://rs2.example"),
		provider.WithAuthorizationDetails(func(granted, requested []goidc.AuthorizationDetail) error {
			if len(requested) > len(granted) {
				return errors.New("more details than granted")
			}
			return nil
		}, "payment", "account"),
		provider.WithClaimsParameter(),
		provider.WithClaims("email", "name"),
		provider.WithACRs("urn:acr:1", "urn:acr:2"),
		provider.WithIssuerResponseParameter(),
		provider.WithHandleGrantFunc(func(*http.Request, *goidc.GrantInfo) error {
			if w.hgFail {
				return fail()
			}
			if w.hgDeny {
				return goidc.NewError(goidc.ErrorCodeAccessDenied, "grant denied by the embedder")
			}
			return nil
		}),
		provider.WithHTTPClientFunc(func(context.Context) *http.Client { return &http.Client{Transport: c13rt{w}} }),
		provider.WithTokenOptions(func(gi goidc.GrantInfo, c *goidc.Client) goidc.TokenOptions {
			if c.Attribute("jwt") == true {
				return goidc.NewJWTTokenOptions(goidc.ES256, 300)
			}
			return goidc.NewOpaqueTokenOptions(goidc.DefaultOpaqueTokenLength, 300)
		}),
		provider.WithPolicy(goidc.NewPolicy("main",
			func(*http.Request, *goidc.Client, *goidc.AuthnSession) bool { return true },
			func(rw http.ResponseWriter, r *http.Request, s *goidc.AuthnSession) (goidc.AuthnStatus, error) {
				switch w.polMode {
				case "success":
					s.SetUserID("user1")
					s.GrantScopes(s.Scopes)
					s.GrantResources(s.Resources)
					s.GrantAuthorizationDetails(s.AuthDetails)
					return goidc.StatusSuccess, nil
				case "inprogress":
					s.StoreParameter("steps", 1)
					rw.WriteHeader(200)
					fmt.Fprintf(rw, "PAGE cb=%s", s.CallbackID)
					return goidc.StatusInProgress, nil
				case "failerr":
					return goidc.StatusFailure, goidc.NewError(goidc.ErrorCodeLoginRequired, "policy refused")
				case "internal":
					w.cbFailed = true
					return goidc.StatusFailure, goidc.NewError(goidc.ErrorCodeInternalError, "policy broke")
				}
				return goidc.StatusFailure, nil
			})),
	}
	if pfx != "" {
		opts = append(opts, provider.WithPathPrefix(pfx))
	}
	if variant == 1 {
		opts = append(opts, provider.WithOpenIDScopeRequired())
	}
	if variant != 2 {
		opts = append(opts, provider.WithJARM(goidc.ES256))
	}
	clients := c13Clients(w.ckey)
	if variant == 2 {
		for _, c := range clients {
			c.JARMSigAlg = ""
		}
	}
	for i, c := range clients {
		if i%2 == 0 {
			opts = append(opts, provider.WithStaticClient(c))
		} else if err := w.stores.C.Save(context.Background(), c); err != nil {
			return nil, err
		}
	}
	p, err := provider.New(goidc.ProfileOpenID, issuer, func(context.Context) (goidc.JSONWebKeySet, error) { return srv, nil }, opts...)
	if err != nil {
		return nil, err
	}
	w.prov = &p
	w.h = p.Handler()
	return w, nil
}

// ---- raw requests ----
type rawReq struct {
	Method  string
	Target  string
	Hdr     [][2]string
	Body    string
	Cert    bool
	CertAlt int // 0: per Cert; 1: a certificate of ANOTHER key; 2: a certificate object without content (nothing parsed)
	Note    string
	Route   string   // canonical route this request aims at (for signatures), "" = unknown
	Present []string // one-time credentials presented
	Fault   int      // storage call index to fail (-1: none)
}

type rawRes struct {
	Rejected bool // net/http would not have delivered it to a handler
	Status   int
	CT       string
	Body     string
	Loc      string
	Panic    string
	Stack    string
	FaultHit bool
	CbFailed bool
}

func (r rawReq) bytes() []byte {
	var b bytes.Buffer
	fmt.Fprintf(&b, "%s %s HTTP/1.1\r\nHost: as.example\r\n", r.Method, r.Target)
	for _, h := range r.Hdr {
		fmt.Fprintf(&b, "%s: %s\r\n", h[0], h[1])
	}
	if r.Body != "" || r.Method == "POST" || r.Method == "PUT" {
		fmt.Fprintf(&b, "Content-Length: %d\r\n", len(r.Body))
	}
	b.WriteString("\r\n")
	b.WriteString(r.Body)
	return b.Bytes()
}

var frameRe = regexp.MustCompile(`^(github\.com/luikyv/go-oidc/[^\s(]+(?:\(\*?[A-Za-z0-9_]+\))?[^\s(]*)\(`)

// innermost frame of the code under verification in a stack dump
func innermostFrame(stack string) string {
	for _, line := range strings.Split(stack, "\n") {
		if strings.HasPrefix(line, "github.com/luikyv/go-oidc/") && !strings.Contains(line, "/verifharness") {
			if i := strings.LastIndex(line, "("); i > 0 {
				return strings.TrimPrefix(line[:i], "github.com/luikyv/go-oidc/")
			}
			return line
		}
	}
	return "unknown"
}

func (w *c13W) do(r rawReq) (res rawRes) {
	req, err := http.ReadRequest(bufio.NewReader(bytes.NewReader(r.bytes())))
	if err != nil {
		return rawRes{Rejected: true}
	}
	req.RemoteAddr = "192.0.2.1:1234"
	w.cert = nil
	if r.Cert {
		w.cert = certCache[0]
	}
	switch r.CertAlt {
	case 1:
		w.cert = certCache[1]
	case 2:
		w.cert = &x509.Certificate{}
	}
	w.cbFailed = false
	var plan map[int]Fault
	if r.Fault >= 0 {
		plan = map[int]Fault{r.Fault: FErr}
	}
	w.stores.BeginRequest(plan, -1)
	rec := httptest.NewRecorder()
	func() {
		defer func() {
			if p := recover(); p != nil {
				res.Panic = fmt.Sprint(p)
				res.Stack = string(debug.Stack())
			}
		}()
		w.h.ServeHTTP(rec, req)
	}()
	res.Status = rec.Code
	res.CT = rec.Header().Get("Content-Type")
	res.Body = rec.Body.String()
	res.Loc = rec.Header().Get("Location")
	res.FaultHit = r.Fault >= 0 && len(w.stores.Log()) > r.Fault
	res.CbFailed = w.cbFailed
	return res
}

// ---- store snapshots ----
type snap struct {
	A []goidc.AuthnSession
	G []goidc.GrantSession
	C []goidc.Client
}

func asJSON(v any) string { b, _ := json.Marshal(v); return string(b) }

// frameDiff explains how `after` differs from `before` beyond what the property allows a refused
// request to do: delete the session indexed by a one-time credential it presented (code, request_uri,
// auth_req_id, callback id) and the grant issued from a presented code / holding a presented refresh
// token or token.  Every changed object is attributed to the request by comparing the object's own
// index fields with the NON-EMPTY values the request carried in its credential-bearing fields: an
// object none of them names belongs to another party (foreign-...).  An empty or missing credential
// names nothing.
func frameDiff(before, after string, presented []string) string {
	if before == after {
		return ""
	}
	var b, a snap
	_ = json.Unmarshal([]byte(before), &b)
	_ = json.Unmarshal([]byte(after), &a)
	pres := map[string]bool{}
	for _, p := range presented {
		if p != "" {
			pres[p] = true
		}
	}
	am := map[string]string{}
	for _, s := range a.A {
		am[s.ID] = asJSON(s)
	}
	gm := map[string]string{}
	for _, g := range a.G {
		gm[g.ID] = asJSON(g)
	}
	if asJSON(b.C) != asJSON(a.C) {
		return "client-registration-changed"
	}
	for _, s := range b.A {
		now, ok := am[s.ID]
		if !ok {
			if !(pres[s.AuthCode] || pres[s.PushedAuthReqID] || pres[s.CIBAAuthID] || pres[s.CallbackID]) {
				return "foreign-session-deleted"
			}
			continue
		}
		if now != asJSON(s) {
			return "session-modified"
		}
		delete(am, s.ID)
	}
	if len(am) > 0 {
		return "session-created"
	}
	for _, g := range b.G {
		now, ok := gm[g.ID]
		if !ok {
			if !(pres[g.AuthorizationCode] || pres[g.RefreshToken] || pres[g.TokenID]) {
				return "foreign-grant-deleted"
			}
			continue
		}
		if now != asJSON(g) {
			return "grant-modified"
		}
		delete(gm, g.ID)
	}
	if len(gm) > 0 {
		return "grant-created"
	}
	return ""
}

// ---- junk ----
func c13Junk(r *mrand.Rand, w *c13W) string {
	hdr := func(s string) string { return base64.RawURLEncoding.EncodeToString([]byte(s)) }
	long99 := strings.Repeat("a", 99)
	switch r.Intn(34) {
	case 0:
		return ""
	case 1:
		return " "
	case 2:
		return "a"
	case 3:
		return long99
	case 4:
		return strings.Repeat("Z9", 49) + "_"
	case 5:
		return "123e4567-e89b-42d3-a456-426614174000"
	case 6:
		return "00000000-0000-0000-0000-000000000000"
	case 7:
		return "a.b.c"
	case 8:
		return "eyJhbGciOiJub25lIn0.e30."
	case 9:
		return hdr(`{"alg":"ES256"}`) + "." + hdr(`{"jti":5,"iss":"x"}`) + "." + strings.Repeat("A", 86)
	case 10:
		return hdr(`{"alg":"ES256","typ":"dpop+jwt"}`) + "." + hdr(`{"jti":"x","htm":"POST","htu":"https://as.example/token","iat":1}`) + "." + strings.Repeat("A", 86)
	case 11:
		return hdr(`{"alg":"ES256","typ":"dpop+jwt","jwk":{"kty":"EC"}}`) + "." + hdr(`{}`) + "." + strings.Repeat("A", 86)
	case 12:
		return hdr(`{"alg":"ES256","typ":"dpop+jwt","jwk":"str"}`) + "." + hdr(`{}`) + "." + strings.Repeat("A", 86)
	case 13:
		return hdr(`{"alg":"RS256","kid":"srv-es256"}`) + "." + hdr(`{"sub":"x"}`) + "." + strings.Repeat("B", 342)
	case 14:
		return "a.b.c.d.e"
	case 15:
		return hdr(`{"alg":"RSA-OAEP","enc":"A128CBC-HS256"}`) + "." + strings.Repeat("A", 342) + "." + strings.Repeat("A", 22) + "." + strings.Repeat("A", 40) + "." + strings.Repeat("A", 22)
	case 16:
		return "...."
	case 17:
		return strings.Repeat("x", 64*1024)
	case 18:
		return "%"
	case 19:
		return "https://%zz/cb"
	case 20:
		return "://"
	case 21:
		return "http://[::1"
	case 22:
		return "urn:ietf:params:oauth:request_uri:" + long99
	case 23:
		return "urn:ietf:params:oauth:request_uri:"
	case 24:
		return "https://client.example/request.jwt"
	case 25:
		return "\x00\x01\x02"
	case 26:
		return "çãé\u202e𝒳"
	case 27:
		return "a\r\nb"
	case 28:
		return "{\"type\":\"payment\"}"
	case 29:
		return "[{\"type\":5}]"
	case 30:
		// a well-formed JWS signed by a key nobody registered
		return c13Sign(w.ckey, "nokid", "JWT", map[string]any{"iss": "c1", "sub": "c1", "aud": issuer, "jti": fmt.Sprint(r.Int63()), "exp": time.Now().Unix() + 60, "iat": time.Now().Unix()}, nil)
	case 31:
		// a JWS signed by the server key with a non-string jti (cannot be minted by the server itself)
		return c13Sign(serverKeyCache, "srv-es256", "at+jwt", map[string]any{"iss": issuer, "sub": "u", "jti": 5, "exp": time.Now().Unix() + 60, "iat": time.Now().Unix(), "client_id": "c1", "scope": "openid"}, nil)
	case 32:
		// a real artifact of another kind
		return w.art(pick(r, []string{"code", "refresh_token", "access_token", "request_uri", "auth_req_id", "callback", "id_token"}))
	}
	return strings.Repeat("0123456789", 10)[:99]
}

func c13Sign(k *ecdsa.PrivateKey, kid, typ string, claims map[string]any, extra map[string]any) string {
	so := (&jose.SignerOptions{}).WithType(jose.ContentType(typ))
	if kid != "" {
		so = so.WithHeader("kid", kid)
	}
	for k, v := range extra {
		so = so.WithHeader(jose.HeaderKey(k), v)
	}
	sg, err := jose.NewSigner(jose.SigningKey{Algorithm: jose.ES256, Key: k}, so)
	if err != nil {
		return "sign-error"
	}
	s, err := jwt.Signed(sg).Claims(claims).Serialize()
	if err != nil {
		return "sign-error"
	}
	return s
}

func (w *c13W) validDPoP(method, path string, ath string) string {
	claims := map[string]any{"htm": method, "htu": issuer + path, "iat": time.Now().Unix(), "jti": fmt.Sprint(w.r.Int63())}
	if ath != "" {
		claims["ath"] = thumb(ath)
	}
	return c13Sign(w.ckey, "", "dpop+jwt", claims, map[string]any{"jwk": jose.JSONWebKey{Key: &w.ckey.PublicKey}})
}

func (w *c13W) assertion(cid string) string {
	return c13Sign(w.ckey, "ck1", "JWT", map[string]any{"iss": cid, "sub": cid, "aud": issuer, "jti": fmt.Sprint(w.r.Int63()),
		"exp": time.Now().Unix() + 60, "iat": time.Now().Unix()}, nil)
}

// form with (possibly) duplicated keys, encoded by hand so that broken encodings can be spliced in
type kv struct{ K, V string }
type form []kv

func (f form) enc() string {
	var parts []string
	for _, p := range f {
		parts = append(parts, url.QueryEscape(p.K)+"="+url.QueryEscape(p.V))
	}
	return strings.Join(parts, "&")
}
func (f form) set(k, v string) form {
	for i := range f {
		if f[i].K == k {
			f[i].V = v
			return f
		}
	}
	return append(f, kv{k, v})
}
func (f form) get(k string) string {
	for _, p := range f {
		if p.K == k {
			return p.V
		}
	}
	return ""
}

// client authentication as registered for c1..c7
func (w *c13W) auth(cid string, f form, hdr *[][2]string) form {
	switch cid {
	case "c1", "c5", "c6":
		return f.set("client_id", cid).set("client_secret", c13Secret)
	case "c2":
		return f.set("client_id", cid)
	case "c3":
		return f.set("client_id", cid).set("client_assertion_type", "urn:ietf:params:oauth:client-assertion-type:jwt-bearer").set("client_assertion", w.assertion(cid))
	case "c4":
		*hdr = append(*hdr, [2]string{"Authorization", "Basic " + base64.StdEncoding.EncodeToString([]byte(cid+":"+c13Secret))})
		return f
	}
	return f.set("client_id", cid)
}

var c13Routes = []string{"/token", "/par", "/bc-authorize", "/introspect", "/revoke", "/userinfo", "/register", "/authorize", "/jwks", "/.well-known/openid-configuration"}
var c13API = map[string]bool{"/token": true, "/par": true, "/bc-authorize": true, "/introspect": true, "/revoke": true, "/userinfo": true, "/register": true}

// ---- seeding: valid flows that leave live artifacts of every kind ----
func (w *c13W) postForm(path string, f form, hdr [][2]string) rawRes {
	hdr = append(hdr, [2]string{"Content-Type", "application/x-www-form-urlencoded"})
	return w.do(rawReq{Method: "POST", Target: w.pfx + path, Hdr: hdr, Body: f.enc(), Fault: -1})
}

func jsonField(body, k string) string {
	var m map[string]any
	_ = json.Unmarshal([]byte(body), &m)
	s, _ := m[k].(string)
	return s
}

func locParam(loc, k string) string {
	u, err := url.Parse(loc)
	if err != nil {
		return ""
	}
	if v := u.Query().Get(k); v != "" {
		return v
	}
	fv, _ := url.ParseQuery(u.Fragment)
	return fv.Get(k)
}

func (w *c13W) seed() {
	w.polMode, w.baMode, w.hgFail, w.hgDeny = "success", "approve", false, false
	for _, cid := range []string{"c1", "c6", "c3"} {
		var h [][2]string
		res := w.postForm("/token", w.auth(cid, form{{"grant_type", "client_credentials"}, {"scope", "email"}}, &h), h)
		w.add("access_token", jsonField(res.Body, "access_token"))
	}
	for i, cid := range []string{"c1", "c2", "c6", "c1", "c3", "c1"} {
		q := url.Values{"client_id": {cid}, "response_type": {"code"}, "scope": {"openid email offline_access"}, "redirect_uri": {c13Redirect},
			"state": {"st"}, "nonce": {"n1"}, "code_challenge": {thumb(strings.Repeat("v", 50))}, "code_challenge_method": {"S256"}}
		res := w.do(rawReq{Method: "GET", Target: w.pfx + "/authorize?" + q.Encode(), Fault: -1})
		code := locParam(res.Loc, "code")
		if r := locParam(res.Loc, "response"); r != "" {
			code = jwtClaim(r, "code")
		}
		w.add("code", code)
		w.owner[code] = cid
		if i < 3 && code != "" {
			var h [][2]string
			f := w.auth(cid, form{{"grant_type", "authorization_code"}, {"code", code}, {"redirect_uri", c13Redirect}, {"code_verifier", strings.Repeat("v", 50)}}, &h)
			res := w.postForm("/token", f, h)
			w.add("access_token", jsonField(res.Body, "access_token"))
			w.add("refresh_token", jsonField(res.Body, "refresh_token"))
			w.owner[jsonField(res.Body, "refresh_token")] = cid
			w.add("id_token", jsonField(res.Body, "id_token"))
		}
	}
	for _, cid := range []string{"c1", "c3", "c1"} {
		var h [][2]string
		f := w.auth(cid, form{{"response_type", "code"}, {"scope", "openid"}, {"redirect_uri", c13Redirect}, {"state", "ps"}}, &h)
		res := w.postForm("/par", f, h)
		w.add("request_uri", jsonField(res.Body, "request_uri"))
	}
	for _, cid := range []string{"c1", "c4", "c5", "c3"} {
		var h [][2]string
		f := w.auth(cid, form{{"scope", "openid email"}, {"login_hint", "user1"}, {"client_notification_token", "cnt-0123456789"}}, &h)
		res := w.postForm("/bc-authorize", f, h)
		w.add("auth_req_id", jsonField(res.Body, "auth_req_id"))
		w.owner[jsonField(res.Body, "auth_req_id")] = cid
	}
	// grants of further kinds, so that a refused request always has other parties' state to leave alone:
	// implicit, jwt-bearer, and a CIBA grant (poll client)
	{
		q := url.Values{"client_id": {"c1"}, "response_type": {"token"}, "scope": {"openid email"}, "redirect_uri": {c13Redirect}, "state": {"im"}, "nonce": {"n2"}}
		res := w.do(rawReq{Method: "GET", Target: w.pfx + "/authorize?" + q.Encode(), Fault: -1})
		w.add("access_token", locParam(res.Loc, "access_token"))
		var h [][2]string
		res = w.postForm("/token", w.auth("c1", form{{"grant_type", "urn:ietf:params:oauth:grant-type:jwt-bearer"}, {"assertion", "ok:user1"}, {"scope", "email"}}, &h), h)
		w.add("access_token", jsonField(res.Body, "access_token"))
		h = nil
		res = w.postForm("/bc-authorize", w.auth("c1", form{{"scope", "openid email"}, {"login_hint", "user1"}}, &h), h)
		if id := jsonField(res.Body, "auth_req_id"); id != "" {
			h = nil
			res = w.postForm("/token", w.auth("c1", form{{"grant_type", "urn:openid:params:grant-type:ciba"}, {"auth_req_id", id}}, &h), h)
			w.add("access_token", jsonField(res.Body, "access_token"))
		}
	}
	w.polMode = "inprogress"
	for i := 0; i < 2; i++ {
		q := url.Values{"client_id": {"c1"}, "response_type": {"code"}, "scope": {"openid"}, "redirect_uri": {c13Redirect}}
		res := w.do(rawReq{Method: "GET", Target: w.pfx + "/authorize?" + q.Encode(), Fault: -1})
		if strings.HasPrefix(res.Body, "PAGE cb=") {
			w.add("callback", strings.TrimPrefix(res.Body, "PAGE cb="))
		}
	}
	w.polMode = "success"
	meta := `{"redirect_uris":["https://dyn.example/cb"],"grant_types":["authorization_code","refresh_token"],"response_types":["code"],"token_endpoint_auth_method":"client_secret_post","scope":"openid email"}`
	res := w.do(rawReq{Method: "POST", Target: w.pfx + "/register", Hdr: [][2]string{{"Content-Type", "application/json"}}, Body: meta, Fault: -1})
	w.dynID, w.dynTok = jsonField(res.Body, "client_id"), jsonField(res.Body, "registration_access_token")
	// a dynamic client that obtains a token and an interactive session, and is then deleted: its
	// token and callback stay in the artifact pool
	res = w.do(rawReq{Method: "POST", Target: w.pfx + "/register", Hdr: [][2]string{{"Content-Type", "application/json"}}, Body: meta, Fault: -1})
	vid, vtok, vsec := jsonField(res.Body, "client_id"), jsonField(res.Body, "registration_access_token"), jsonField(res.Body, "client_secret")
	if vid != "" {
		q := url.Values{"client_id": {vid}, "response_type": {"code"}, "scope": {"openid email"}, "redirect_uri": {"https://dyn.example/cb"}, "state": {"v"},
			"code_challenge": {thumb(strings.Repeat("v", 50))}, "code_challenge_method": {"S256"}}
		res = w.do(rawReq{Method: "GET", Target: w.pfx + "/authorize?" + q.Encode(), Fault: -1})
		if code := locParam(res.Loc, "code"); code != "" {
			res = w.postForm("/token", form{{"grant_type", "authorization_code"}, {"code", code}, {"redirect_uri", "https://dyn.example/cb"},
				{"code_verifier", strings.Repeat("v", 50)}, {"client_id", vid}, {"client_secret", vsec}}, nil)
			w.add("access_token", jsonField(res.Body, "access_token"))
			w.add("orphan_token", jsonField(res.Body, "access_token"))
			w.add("refresh_token", jsonField(res.Body, "refresh_token"))
		}
		w.polMode = "inprogress"
		res = w.do(rawReq{Method: "GET", Target: w.pfx + "/authorize?" + q.Encode(), Fault: -1})
		if strings.HasPrefix(res.Body, "PAGE cb=") {
			w.add("callback", strings.TrimPrefix(res.Body, "PAGE cb="))
			w.add("orphan_callback", strings.TrimPrefix(res.Body, "PAGE cb="))
		}
		w.polMode = "success"
		w.do(rawReq{Method: "DELETE", Target: w.pfx + "/register/" + vid, Hdr: [][2]string{{"Authorization", "Bearer " + vtok}}, Fault: -1})
	}
}

// ---- the generator ----
var c13Methods = []string{"GET", "POST", "PUT", "DELETE", "PATCH", "HEAD", "OPTIONS", "TRACE", "CONNECT", "PROPFIND", "get", "G@T"}

func (w *c13W) nearPaths() []string {
	var ps []string
	for _, rt := range c13Routes {
		ps = append(ps, rt, rt+"/", rt+"//", rt+"x", "/x"+rt, rt+"/..", rt+"/%2e%2e/token", strings.ToUpper(rt), rt+"?", rt+"#f", "/"+rt, rt+"/%20", rt+";a=b")
	}
	ps = append(ps, "/", "", "*", "/authorize/", "/authorize//", "/authorize/%2F", "/authorize/%00", "/authorize/a/b/c", "/authorize/"+strings.Repeat("z", 5000),
		"/authorize/{callback}", "/register/", "/register/%2F", "/register/../token", "/register/c1", "/register/c1/extra", "/authorize/ ", "/authorize/%20",
		"/authorize/"+w.art("callback")+"/", "/authorize/"+w.art("callback")+"/x/y", "/authorize/"+w.art("code"), "/authorize/"+w.art("request_uri"))
	return ps
}

func (w *c13W) routeOf(target string) string {
	p := target
	if i := strings.IndexAny(p, "?#"); i >= 0 {
		p = p[:i]
	}
	p = strings.TrimPrefix(p, w.pfx)
	for _, rt := range c13Routes {
		if p == rt {
			return rt
		}
	}
	if strings.HasPrefix(p, "/register/") {
		return "/register"
	}
	if strings.HasPrefix(p, "/authorize/") {
		return "/authorize/cb"
	}
	return ""
}

func breakEncoding(r *mrand.Rand, s string) string {
	switch r.Intn(5) {
	case 0:
		return s + "&bad=%zz"
	case 1:
		return s + "&%=%"
	case 2:
		return "%gg=1&" + s
	case 3:
		return strings.Replace(s, "=", "=%u00", 1)
	}
	return s + "&a=%E0%A4%A&;=;"
}

func (w *c13W) next() rawReq {
	r := w.r
	w.polMode = pick(r, []string{"success", "success", "inprogress", "fail", "failerr"})
	w.baMode = pick(r, []string{"approve", "approve", "pending", "slow", "deny"})
	w.hgFail, w.dcrFail = false, false
	w.hgDeny = r.Intn(8) == 0
	rq := w.gen()
	rq.Route = w.routeOf(rq.Target)
	rq.Fault = -1
	// injected failures: only these may produce a 5xx
	switch r.Intn(40) {
	case 0:
		rq.Fault = r.Intn(5)
	case 1:
		w.hgFail = true
	case 2:
		w.baMode = "fail"
	case 3:
		w.polMode = "internal"
	case 4:
		w.dcrFail = true
	}
	return rq
}

func (w *c13W) gen() rawReq {
	r := w.r
	junk := func() string { return c13Junk(r, w) }
	ctForm := [2]string{"Content-Type", "application/x-www-form-urlencoded"}
	cid := pick(r, []string{"c1", "c1", "c2", "c3", "c4", "c5", "c6", "c7"})
	var hdr [][2]string
	maybeDPoP := func(method, path string) {
		switch r.Intn(6) {
		case 0:
			hdr = append(hdr, [2]string{"DPoP", w.validDPoP(method, w.pfx+path, "")})
		case 1, 2:
			j := junk()
			if !strings.ContainsAny(j, "\r\n\x00") && len(j) < 8000 {
				hdr = append(hdr, [2]string{"DPoP", j})
			}
		case 3:
			hdr = append(hdr, [2]string{"DPoP", w.validDPoP(method, w.pfx+path, "")}, [2]string{"DPoP", "second"})
		}
	}
	finish := func(path string, f form, present ...string) rawReq {
		body := f.enc()
		switch r.Intn(12) {
		case 0:
			body = breakEncoding(r, body)
		case 1: // duplicated parameter
			if len(f) > 0 {
				p := f[r.Intn(len(f))]
				body += "&" + url.QueryEscape(p.K) + "=" + url.QueryEscape(junk())
			}
		case 2: // oversized parameter
			body += "&pad=" + strings.Repeat("p", 64*1024)
		}
		return rawReq{Method: "POST", Target: w.pfx + path, Hdr: append(hdr, ctForm), Body: body, Cert: r.Intn(8) == 0, Present: present}
	}
	switch k := r.Intn(100); {
	case k < 14: // methods x routes and near-routes
		p := pick(r, w.nearPaths())
		m := pick(r, c13Methods)
		rq := rawReq{Method: m, Target: w.pfx + p}
		if r.Intn(3) == 0 {
			rq.Target = p // without the prefix
		}
		if r.Intn(3) == 0 {
			rq.Hdr = append(rq.Hdr, ctForm)
			rq.Body = "client_id=c1&grant_type=client_credentials&client_secret=" + c13Secret
		}
		if i := strings.Index(p, "/authorize/"); i >= 0 {
			seg := p[i+len("/authorize/"):]
			if j := strings.IndexAny(seg, "/?#"); j >= 0 {
				seg = seg[:j]
			}
			if u, err := url.PathUnescape(seg); err == nil {
				seg = u
			}
			rq.Present = []string{seg}
		}
		return rq
	case k < 40: // token endpoint
		gt := pick(r, []string{"authorization_code", "refresh_token", "client_credentials", "urn:openid:params:grant-type:ciba",
			"urn:ietf:params:oauth:grant-type:jwt-bearer", "password", "", junk()})
		f := form{{"grant_type", gt}}
		code, rt, ar := w.art("code"), w.art("refresh_token"), w.art("auth_req_id")
		if o := w.owner[map[string]string{"authorization_code": code, "refresh_token": rt, "urn:openid:params:grant-type:ciba": ar}[gt]]; o != "" && r.Intn(4) != 0 {
			cid = o
		}
		f = w.auth(cid, f, &hdr)
		switch gt {
		case "authorization_code":
			f = f.set("code", code).set("redirect_uri", c13Redirect).set("code_verifier", strings.Repeat("v", 50))
		case "refresh_token":
			f = f.set("refresh_token", rt)
		case "urn:openid:params:grant-type:ciba":
			f = f.set("auth_req_id", ar)
		case "urn:ietf:params:oauth:grant-type:jwt-bearer":
			f = f.set("assertion", "ok:user1")
		}
		// junk into one or two fields
		for i, n := 0, 1+r.Intn(2); i < n; i++ {
			fld := pick(r, []string{"code", "refresh_token", "auth_req_id", "client_assertion", "assertion", "scope", "redirect_uri", "code_verifier",
				"client_id", "client_secret", "resource", "authorization_details", "client_assertion_type", "grant_type"})
			f = f.set(fld, junk())
		}
		maybeDPoP("POST", "/token")
		return finish("/token", f, f.get("code"), f.get("refresh_token"), f.get("auth_req_id"))
	case k < 52: // authorize
		q := form{{"client_id", pick(r, []string{"c1", "c2", "c6", "c3", "nobody", ""})}, {"response_type", pick(r, []string{"code", "code id_token", "token", "id_token token", "code token", ""})},
			{"scope", pick(r, []string{"openid", "openid email offline_access", "email", ""})}, {"redirect_uri", c13Redirect}, {"state", "s"}, {"nonce", "n"}}
		if r.Intn(3) == 0 {
			q = q.set("request_uri", w.art("request_uri"))
		}
		for i, n := 0, 1+r.Intn(2); i < n; i++ {
			fld := pick(r, []string{"request", "request_uri", "id_token_hint", "redirect_uri", "response_mode", "claims", "authorization_details", "resource",
				"dpop_jkt", "code_challenge", "code_challenge_method", "prompt", "max_age", "display", "acr_values", "login_hint", "scope", "response_type", "client_id", "state", "nonce"})
			v := junk()
			if fld == "response_mode" && r.Intn(2) == 0 {
				v = pick(r, []string{"jwt", "query.jwt", "fragment.jwt", "form_post.jwt", "form_post", "fragment", "query"})
			}
			q = q.set(fld, v)
		}
		if r.Intn(4) == 0 {
			q = q.set("response_mode", pick(r, []string{"jwt", "query.jwt", "fragment.jwt", "form_post.jwt", "form_post", "fragment", "query"}))
		}
		present := []string{q.get("request_uri")}
		if r.Intn(4) == 0 {
			return finish("/authorize", q, present...)
		}
		qs := q.enc()
		if r.Intn(10) == 0 {
			qs = breakEncoding(r, qs)
		}
		if len(qs) > 60000 {
			qs = qs[:60000]
		}
		return rawReq{Method: "GET", Target: w.pfx + "/authorize?" + qs, Present: present}
	case k < 57: // callback
		cb := pick(r, []string{w.art("callback"), w.art("orphan_callback"), junk(), w.art("code"), w.art("request_uri")})
		t := w.pfx + "/authorize/" + url.PathEscape(cb)
		if len(t) > 7000 {
			t = t[:7000]
		}
		return rawReq{Method: pick(r, []string{"GET", "POST"}), Target: t, Present: []string{cb}}
	case k < 66: // par
		f := form{{"response_type", "code"}, {"scope", "openid"}, {"redirect_uri", pick(r, []string{c13Redirect, "%", "https://%zz/cb", "http://[::1", "https://unregistered.example/cb", "://", "\x7f", "https://a b/"})}, {"state", "s"}}
		f = w.auth(cid, f, &hdr)
		for i, n := 0, r.Intn(3); i < n; i++ {
			fld := pick(r, []string{"request", "request_uri", "id_token_hint", "response_mode", "claims", "authorization_details", "resource", "dpop_jkt",
				"code_challenge", "client_assertion", "scope", "response_type", "client_id"})
			f = f.set(fld, junk())
		}
		maybeDPoP("POST", "/par")
		return finish("/par", f)
	case k < 75: // bc-authorize
		f := form{{"scope", "openid email"}, {"login_hint", pick(r, []string{"user1", "user1", "user1", "nobody", "gone", "boom"})}, {"client_notification_token", "cnt-0123456789"}}
		f = w.auth(pick(r, []string{"c1", "c3", "c4", "c5"}), f, &hdr)
		for i, n := 0, 1+r.Intn(2); i < n; i++ {
			fld := pick(r, []string{"login_hint_token", "id_token_hint", "request", "user_code", "requested_expiry", "client_notification_token", "binding_message",
				"acr_values", "login_hint", "scope", "authorization_details", "resource", "client_assertion"})
			f = f.set(fld, junk())
		}
		maybeDPoP("POST", "/bc-authorize")
		return finish("/bc-authorize", f)
	case k < 83: // introspect / revoke
		path := pick(r, []string{"/introspect", "/revoke"})
		f := form{{"token", pick(r, []string{w.art("access_token"), w.art("refresh_token"), junk(), junk()})}, {"token_type_hint", pick(r, []string{"", "access_token", "refresh_token", junk()})}}
		f = w.auth(pick(r, []string{"c1", "c3", "c4", "c2"}), f, &hdr)
		if r.Intn(4) == 0 {
			f = f.set(pick(r, []string{"client_assertion", "client_id", "client_secret"}), junk())
		}
		if r.Intn(4) == 0 {
			j := junk()
			if !strings.ContainsAny(j, "\r\n\x00") && len(j) < 8000 {
				hdr = append(hdr, [2]string{"Authorization", pick(r, []string{"Basic ", "Bearer ", "DPoP ", ""}) + j})
			}
		}
		return finish(path, f)
	case k < 90: // userinfo
		tok := pick(r, []string{w.art("access_token"), w.art("orphan_token"), junk(), junk()})
		if strings.ContainsAny(tok, "\r\n\x00") || len(tok) > 8000 {
			tok = "x"
		}
		scheme := pick(r, []string{"Bearer ", "Bearer ", "DPoP ", "Basic ", "bearer ", "", "Bearer  "})
		hdr = append(hdr, [2]string{"Authorization", scheme + tok})
		maybeDPoP("GET", "/userinfo")
		if r.Intn(3) == 0 {
			return rawReq{Method: "POST", Target: w.pfx + "/userinfo", Hdr: append(hdr, ctForm), Body: "access_token=" + url.QueryEscape(tok), Cert: r.Intn(6) == 0}
		}
		return rawReq{Method: "GET", Target: w.pfx + "/userinfo", Hdr: hdr, Cert: r.Intn(6) == 0}
	default: // register
		bodies := []string{"", "{", "null", "[]", "5", "\"str\"", "{}{}", "{\"redirect_uris\":\"str\"}", "{\"redirect_uris\":[5]}", "{\"grant_types\":5}",
			"{\"jwks\":\"x\"}", "{\"jwks\":{\"keys\":[{\"kty\":\"EC\"}]}}", "{\"redirect_uris\":[\"%\"],\"grant_types\":[\"authorization_code\"],\"response_types\":[\"code\"]}",
			"{\"redirect_uris\":[\"https://d.example/cb\"],\"token_endpoint_auth_method\":5}", "{\"redirect_uris\":[\"https://d.example/cb\"],\"client_id\":{\"a\":1}}",
			"{\"redirect_uris\":[\"https://d.example/cb\"],\"scope\":[\"openid\"]}", "{\"a\":\"\\ud800\"}", "{\"redirect_uris\":[\"https://d.example/cb\"],\"redirect_uris\":5}",
			"{\"redirect_uris\":[\"https://d.example/cb\"],\"backchannel_client_notification_endpoint\":\"%\",\"grant_types\":[\"urn:openid:params:grant-type:ciba\"],\"backchannel_token_delivery_mode\":\"ping\"}",
			"{\"redirect_uris\":[\"https://d.example/cb\"],\"jwks_uri\":\"%\",\"token_endpoint_auth_method\":\"private_key_jwt\"}",
			"{\"redirect_uris\":[\"https://d.example/cb\"],\"sector_identifier_uri\":\"https://%zz\",\"subject_type\":\"pairwise\"}",
			"{\"redirect_uris\":[\"https://d.example/cb\"],\"request_uris\":[\"%\"],\"authorization_details_types\":5}",
			"{\"x\":" + strings.Repeat("[", 3000) + strings.Repeat("]", 3000) + "}",
			"{\"redirect_uris\":[\"" + strings.Repeat("h", 64*1024) + "\"]}",
			"{\"redirect_uris\":[" + strings.TrimSuffix(strings.Repeat("\"https://d.example/cb\",", 20000), ",") + "]}",
			`{"redirect_uris":["https://d.example/cb"],"grant_types":["authorization_code"],"response_types":["code"],"token_endpoint_auth_method":"client_secret_post","scope":"openid email"}`,
		}
		body := pick(r, bodies)
		h := [][2]string{{"Content-Type", pick(r, []string{"application/json", "application/json", "text/plain", "application/x-www-form-urlencoded"})}}
		switch r.Intn(4) {
		case 0:
			return rawReq{Method: "POST", Target: w.pfx + "/register", Hdr: h, Body: body}
		default:
			id := pick(r, []string{w.dynID, w.dynID, "c1", "c2", junk()})
			if len(id) > 6000 {
				id = id[:6000]
			}
			tok := pick(r, []string{w.dynTok, w.dynTok, junk()})
			if !strings.ContainsAny(tok, "\r\n\x00") && len(tok) < 8000 {
				h = append(h, [2]string{"Authorization", pick(r, []string{"Bearer ", "Bearer ", "Basic ", ""}) + tok})
			}
			m := pick(r, []string{"GET", "PUT", "PUT", "DELETE"})
			if m == "DELETE" && id == w.dynID && r.Intn(4) != 0 {
				m = "GET" // keep the dynamic client alive most of the time
			}
			return rawReq{Method: m, Target: w.pfx + "/register/" + url.PathEscape(id), Hdr: h, Body: body}
		}
	}
}

// ---- oracles ----
func c13Replay(w *c13W, rq rawReq, res rawRes) map[string]any {
	body := rq.Body
	if len(body) > 3000 {
		body = body[:3000] + fmt.Sprintf("...(%d bytes)", len(rq.Body))
	}
	tgt := rq.Target
	if len(tgt) > 3000 {
		tgt = tgt[:3000] + "..."
	}
	return map[string]any{"world": w.name, "method": rq.Method, "target": tgt, "headers": rq.Hdr, "body": body, "client_cert": rq.Cert, "client_cert_variant": rq.CertAlt,
		"policy": w.polMode, "ciba_validation": w.baMode, "storage_fault_at_call": rq.Fault,
		"status": res.Status, "content_type": res.CT, "response_body": truncate(res.Body, 600), "location": truncate(res.Loc, 300),
		"panic": res.Panic, "stack": truncate(res.Stack, 3000)}
}

func isMuxText(res rawRes) bool {
	return strings.HasPrefix(res.CT, "text/plain") && (res.Status == 404 || res.Status == 405 || res.Status == 400 || res.Status == 301 || res.Status == 307)
}

func (w *c13W) judge(ctx *RunCtx, rq rawReq, res rawRes, before, after string) (refused bool) {
	find := func(sig, what string) {
		for _, f := range ctx.Meta.Findings {
			if f.Signature == sig {
				return
			}
		}
		ctx.Meta.Findings = append(ctx.Meta.Findings, Finding{Property: "C13", Signature: sig, What: what, Replay: c13Replay(w, rq, res)})
	}
	route := rq.Route
	if route == "" {
		route = "(no route)"
	}
	if res.Panic != "" {
		fr := innermostFrame(res.Stack)
		find("panic:"+fr, fmt.Sprintf("%s %s panicked in %s: %s", rq.Method, route, fr, truncate(res.Panic, 120)))
		return false
	}
	if res.Status < 100 || res.Status > 599 {
		find("incomplete:"+route, fmt.Sprintf("%s %s answered status %d", rq.Method, route, res.Status))
		return false
	}
	injected := res.FaultHit || res.CbFailed
	if res.Status >= 500 && !injected {
		find(fmt.Sprintf("%s:%d", route, res.Status), fmt.Sprintf("%s %s answered %d although no storage call or embedder callback failed: %s", rq.Method, route, res.Status, truncate(res.Body, 160)))
	}
	refused = res.Status >= 400
	isAPI := c13API[rq.Route]
	if isAPI && res.Status >= 400 && !isMuxText(res) {
		var m map[string]any
		err := json.Unmarshal([]byte(res.Body), &m)
		e, _ := m["error"].(string)
		if err != nil || e == "" || !strings.HasPrefix(res.CT, "application/json") {
			find(fmt.Sprintf("%s:%d:not-json-error", route, res.Status), fmt.Sprintf("%s %s answered %d with a body that is not a JSON object with an error member: %s", rq.Method, route, res.Status, truncate(res.Body, 160)))
		} else if res.Status >= 500 && e != "internal_error" {
			find(fmt.Sprintf("%s:%d:%s", route, res.Status, e), fmt.Sprintf("%s %s answered %d for the OAuth error %s", rq.Method, route, res.Status, e))
		} else if res.Status < 500 && e == "internal_error" && !injected {
			find(fmt.Sprintf("%s:%d:internal_error", route, res.Status), "internal_error without failure")
		}
	}
	if isAPI && res.Status < 400 && res.Status >= 200 && strings.HasPrefix(res.CT, "application/json") {
		var v any
		if json.Unmarshal([]byte(res.Body), &v) != nil {
			find("incomplete:"+route, fmt.Sprintf("%s %s answered %d with an unparsable JSON body", rq.Method, route, res.Status))
		}
	}
	// authorization endpoint: a redirect or form carrying an error is a refusal too
	if strings.HasPrefix(rq.Route, "/authorize") {
		if strings.Contains(res.Loc, "error=") || strings.Contains(res.Body, `name="error"`) {
			refused = true
		}
		if r := locParam(res.Loc, "response"); r != "" && jwtClaim(r, "error") != "" {
			refused = true
		}
		if e := locParam(res.Loc, "error"); e == "internal_error" && !injected {
			find("/authorize:redirect:internal_error", fmt.Sprintf("%s %s redirected with internal_error although nothing failed", rq.Method, route))
		}
	}
	if refused && !res.FaultHit {
		if d := frameDiff(before, after, rq.Present); d != "" {
			// the presented callback belongs to a session whose client was deleted: a narrower signature
			for _, p := range rq.Present {
				for _, o := range w.arts["orphan_callback"] {
					if p == o && p != "" {
						d += ":client-deleted"
					}
				}
			}
			find("frame:"+route+":"+d, fmt.Sprintf("refused request (%d) to %s changed the store: %s", res.Status, route, d))
		}
	}
	return refused
}

func c13Stream(ctx *RunCtx, n int) {
	per := 1000
	worlds := 0
	var w *c13W
	var before string
	st := ctx.Meta.Dist
	seenKinds := map[string]bool{}
	for i := 0; i < n; i++ {
		if i%per == 0 {
			var err error
			fl := []string{"alias", "copy"}[worlds%2]
			pfx := []string{"", "/auth"}[(worlds/2)%2]
			w, err = newC13World(ctx.R, fl, pfx, worlds%3)
			if err != nil {
				panic(err)
			}
			w.seed()
			for _, k := range []string{"code", "refresh_token", "access_token", "request_uri", "auth_req_id", "callback", "id_token", "orphan_token", "orphan_callback"} {
				if len(w.arts[k]) == 0 {
					panic("c13: seeding produced no " + k + " in world " + w.name)
				}
			}
			if w.dynID == "" {
				panic("c13: seeding produced no dynamic client")
			}
			worlds++
			before = w.stores.Snapshot()
		}
		rq := w.next()
		res := w.do(rq)
		if res.Rejected {
			st["rejected-by-net/http"]++
			continue
		}
		after := w.stores.Snapshot()
		refused := w.judge(ctx, rq, res, before, after)
		before = after
		rt := rq.Route
		if rt == "" {
			rt = "(no route)"
		}
		st["route:"+rt]++
		st[fmt.Sprintf("status:%dxx", res.Status/100)]++
		if refused {
			st["refused"]++
		} else {
			st["served"]++
		}
		if res.FaultHit {
			st["storage-fault-hit"]++
		}
		if res.CbFailed {
			st["callback-failure"]++
		}
		key := fmt.Sprintf("%s %s %d %s", rq.Method, rt, res.Status, jsonField(res.Body, "error"))
		seenKinds[key] = true
		// harvest fresh artifacts so that later junk lands next to live state
		if !refused {
			w.add("access_token", jsonField(res.Body, "access_token"))
			w.add("refresh_token", jsonField(res.Body, "refresh_token"))
			if rt := jsonField(res.Body, "refresh_token"); rt != "" {
				for _, hv := range rq.Hdr {
					if hv[0] == "Authorization" && strings.HasPrefix(hv[1], "Basic ") {
						w.owner[rt] = "c4"
					}
				}
				if v, err := url.ParseQuery(rq.Body); err == nil && v.Get("client_id") != "" {
					w.owner[rt] = v.Get("client_id")
				}
			}
			w.add("request_uri", jsonField(res.Body, "request_uri"))
			w.add("auth_req_id", jsonField(res.Body, "auth_req_id"))
			w.add("code", locParam(res.Loc, "code"))
			if strings.HasPrefix(res.Body, "PAGE cb=") {
				w.add("callback", strings.TrimPrefix(res.Body, "PAGE cb="))
			}
		}
		if i < 3 {
			ctx.Meta.Samples = append(ctx.Meta.Samples, c13Replay(w, rq, res))
		}
	}
	ctx.Meta.Cases += n
	ctx.Meta.Distinct += len(seenKinds)
	var kinds []string
	for k := range seenKinds {
		kinds = append(kinds, k)
	}
	sort.Strings(kinds)
	if ctx.Meta.Extra == nil {
		ctx.Meta.Extra = map[string]any{}
	}
	ctx.Meta.Extra["distinct_method_route_status_error"] = len(kinds)
	ctx.Meta.Extra["worlds"] = worlds
}

// ---- refused token-endpoint requests through the modelled world, as syscases ----
const c13Header = `From Verif Require Import Base Scope Types Prog Pop Token Authorize System Config Run Monitors Corr.C13.
Local Open Scope N_scope.
`

func c13ModelCases(ctx *RunCtx, n int) {
	r := ctx.R
	junkFor := func(i int) string {
		l := []string{"a.b.c", strings.Repeat("a", 99), "123e4567-e89b-42d3-a456-426614174000", "eyJhbGciOiJub25lIn0.e30.", "a.b.c.d.e", "....", strings.Repeat("x", 70000),
			"urn:ietf:params:oauth:request_uri:zzz", "%25%zz", "a b", "0", strings.Repeat("Z9", 49) + "_", "\x01\x02"}
		return l[i%len(l)]
	}
	for i := 0; i < n; i++ {
		fl := []string{"copy", "alias"}[i%2]
		spec := randomSpec(r, fl, map[string]bool{"refresh": true, "ciba": true, "par": true, "pkce": true})
		if r.Intn(2) == 0 {
			spec.Opts = append(spec.Opts, Opt{Name: "WithDPoP"})
		}
		g, err := NewSysGen(r, spec)
		if err != nil {
			panic(err)
		}
		g.DevRate = 15
		g.Run(14)
		// the malformed tail: junk in every token-bearing field of the token endpoint, with valid client credentials
		for j := 0; j < 10; j++ {
			h := unknownBase + Handle(500+j)
			g.W.name(junkFor(r.Intn(100)), h)
			cl := pick(r, g.clients())
			op := Op{Kind: "Token", Cred: Cred{ID: cl.ID, OK: true}, HG: "HgOk", BA: "BaApprove", Redirect: "https://c1.example/cb"}
			switch r.Intn(7) {
			case 0:
				op.Grant, op.Code = "authorization_code", h
			case 1:
				op.Grant, op.Refresh = "refresh_token", h
			case 2:
				op.Grant, op.AuthReq = "urn:openid:params:grant-type:ciba", h
			case 3:
				op.Grant, op.Scope = "client_credentials", "openid"
			// the credential left out altogether: it names nothing, whatever the store holds
			case 4:
				op.Grant, h = "authorization_code", 0
			case 5:
				op.Grant, h = "refresh_token", 0
			case 6:
				op.Grant, h = "urn:openid:params:grant-type:ciba", 0
			}
			if g.has("WithDPoP") && r.Intn(3) == 0 {
				op.Bind = Bind{Dpop: &Proof{Parses: false, Htu: "HtuExact"}}
			}
			if r.Intn(8) == 0 {
				op.HG = "HgFail"
			}
			before := g.W.Stores.Snapshot()
			obs := g.do(op)
			after := g.W.Stores.Snapshot()
			if obs.Kind == "Err" {
				pres := []string{}
				if h != 0 {
					pres = append(pres, g.W.concrete(h))
				}
				if d := frameDiff(before, after, pres); d != "" {
					ctx.Meta.Findings = append(ctx.Meta.Findings, Finding{Property: "C13", Signature: "frame:/token:" + d,
						What: "refused token request changed the store: " + d, Replay: map[string]any{"Spec": g.W.Spec, "Ops": g.Ops}})
				}
			}
		}
		g.Run(4)
		ctx.AddCase(g.Case(fmt.Sprintf("c13model#%d/%s", i, fl)))
		ctx.AddStats(g.stats)
	}
}

func (c *RunCtx) writeSysCasesHdr(header, monitor string, strict bool) {
	per := 150
	for k := 0; k*per < len(c.cases); k++ {
		hi := (k + 1) * per
		if hi > len(c.cases) {
			hi = len(c.cases)
		}
		var b strings.Builder
		b.WriteString(header)
		var names []string
		for i, cs := range c.cases[k*per : hi] {
			fmt.Fprintf(&b, "(*CASE %d*)\nDefinition c_%d : syscase :=\n%s.\n", k*per+i, k*per+i, cs.coq())
			names = append(names, fmt.Sprintf("c_%d", k*per+i))
		}
		b.WriteString("(*END*)\nDefinition cases : list syscase := [" + strings.Join(names, "; ") + "].\n")
		fmt.Fprintf(&b, "Definition corr := Eval vm_compute in map (check_case %s) cases.\nPrint corr.\n", cB(strict))
		fmt.Fprintf(&b, "Definition mon := Eval vm_compute in map %s cases.\nPrint mon.\n", monitor)
		name := fmt.Sprintf("cases_%03d.v", k)
		if err := os.WriteFile(filepath.Join(c.Out, name), []byte(b.String()), 0o644); err != nil {
			panic(err)
		}
		c.Meta.Files = append(c.Meta.Files, name)
	}
}

func init() {
	register(&Suite{Name: "c13", Run: func(ctx *RunCtx) {
		t0 := time.Now()
		c13Stream(ctx, ctx.N(3000, 85000))
		t1 := time.Now()
		c13Incomplete(ctx)
		t2 := time.Now()
		c13EmptyCreds(ctx)
		t3 := time.Now()
		c13Binding(ctx)
		ctx.Meta.Extra["seconds_stream_incomplete_empty_binding"] = []float64{t1.Sub(t0).Seconds(), t2.Sub(t1).Seconds(), t3.Sub(t2).Seconds(), time.Since(t3).Seconds()}
		ctx.Meta.Rule = "malformed stream through provider.Handler() of providers with every optional feature enabled (alias and copy storage, with and without path prefix): all methods x routes and near-routes, broken percent-encoding, duplicated and 64 KB parameters, JWS/JWE/UUID-shaped and 99-char junk in every token-bearing field, junk DPoP/Authorization headers, invalid/huge/ill-typed JSON to /register, unparsable pushed redirect URIs; then well-formed-but-incomplete artifacts (correctly signed DPoP proofs, client assertions, request objects by value / reference / JWE / CIBA, id_token_hints with each header member and claim removed, nulled or retyped in turn) at every entry point in every state that changes what the handler expects (dpop_jkt or not, code of a plain / dpop_jkt / pushed / proof-bound session, refresh token of a bound / unbound grant of a public / confidential client, bound / unbound token at userinfo, introspection, revocation), and empty / missing / blank values in every credential-bearing field (code, refresh_token, auth_req_id, request_uri, token, bearer token, callback id, registration id) by authenticated and unauthenticated clients while the store holds other parties' pushed, in-progress, CIBA and code sessions and client_credentials / code / implicit / jwt-bearer / CIBA grants; then sender-constrained artifacts used without their proof: per binding mechanism (DPoP, mutual-TLS certificate; both enabled but optional) an artifact bound at issuance by a valid flow - refresh token of a confidential / public / private_key_jwt / stored client, code of a session bound at /par or by dpop_jkt, CIBA auth_req_id bound at /bc-authorize, access token at /userinfo (GET either scheme, POST), /introspect, /revoke and Provider.TokenInfoFromRequest, bound client_credentials token - used with the proof right / absent / of another key / malformed / of the other mechanism only / both; distinct = distinct (probe kind, method, route, status, error code)"
	}})
	register(&Suite{Name: "c13model", Run: func(ctx *RunCtx) {
		c13ModelCases(ctx, ctx.N(40, 600))
		ctx.writeSysCasesHdr(c13Header, "mon_C13", true)
		ctx.Meta.Cases = len(ctx.cases)
		seen := map[string]bool{}
		for _, cs := range ctx.cases {
			var sb strings.Builder
			for i, o := range cs.Obs {
				sb.WriteString(cs.Ops[i].Kind + ":" + o.Kind + ":" + o.Err + ";")
			}
			seen[sb.String()] = true
		}
		ctx.Meta.Distinct = len(seen)
		ctx.Meta.Rule = "structured histories of the modelled world followed by token requests with junk codes / refresh tokens / auth_req_ids / DPoP headers and valid client credentials, then more history; correspondence with the model and mon_C13 (panic, 5xx without embedder failure) on the implementation's trace; distinct by projected trace"
		ctx.writeCasesJSON()
	}})
}
