package main

// C11, suite c11jar: the bypass catalogue for requests that CARRY a request object (JAR by value and
// by reference at /authorize, by value at /par) under the OpenID, FAPI 1.0 and FAPI 2.0 profiles.
// For EVERY required mechanism that travels in the authorization parameters (PKCE, nonce, the
// profiles' response-type and response-mode restrictions, the openid scope, dpop_jkt for the implicit
// flow) the six placements
//     inside the signed object only / outside only / both / neither / inside with nothing outside /
//     outside ALONE next to an object that lacks it
// are sent to the real provider; whenever a code comes back it is redeemed without and with the
// code_verifier; a request_uri that comes back is taken to /authorize and on to /token.  The same
// operations run through Model/RequiredJar.v (step_gj: Model/Jar.v's init_auth_jar / push_auth_jar in
// front of the C11 handlers) and Corr/C11Jar.v compares (check_gjcase, including the parameters of the
// stored session) and evaluates the monitor mon_C11J on the provider's answers: an artifact obtained
// although the mechanism is missing from the parameter set the session must be built from - the signed
// object ALONE under a FAPI profile (clause 11), object completed by the outer parameters otherwise.

import (
	"encoding/json"
	"fmt"
	"os"
	"path/filepath"
	"strings"
)

const c11jHeader = `From Verif Require Import Base Scope Types Prog Pop Token Authorize System Config Required Run Jar JarSpec RequiredJar.
Require Import Verif.Corr.C07 Verif.Corr.C11Jar.
Local Open Scope N_scope.
`

// a required mechanism: the switch that requires it (nil: the profile does), and how a parameter set
// carries it / lacks it
type c11jMech struct {
	Name     string
	Profiles []string
	Opts     []Opt
	With     func(p *Params, w *World)
	Without  func(p *Params, w *World)
	RespType string // response type of the complete request ("" = the profile's default)
}

func c11jMechs() []c11jMech {
	all := []string{"openid", "fapi1", "fapi2"}
	return []c11jMech{
		{Name: "pkce", Profiles: all, Opts: []Opt{{Name: "WithPKCERequired", S: "S256", L: []string{"plain"}}},
			With:    func(p *Params, w *World) { p.Challenge, p.Method = challengeFor("S256") },
			Without: func(p *Params, w *World) { p.Challenge, p.Method = PK{}, "" }},
		{Name: "pkce-plain", Profiles: []string{"openid", "fapi2"}, Opts: []Opt{{Name: "WithPKCERequired", S: "plain", L: []string{"S256"}}},
			With:    func(p *Params, w *World) { p.Challenge, p.Method = challengeFor("plain") },
			Without: func(p *Params, w *World) { p.Challenge, p.Method = PK{}, "" }},
		{Name: "openid-scope", Profiles: all, Opts: []Opt{{Name: "WithOpenIDScopeRequired"}},
			With:    func(p *Params, w *World) { p.Scopes = "openid email" },
			Without: func(p *Params, w *World) { p.Scopes = "email" }},
		{Name: "nonce", Profiles: all, RespType: "code id_token",
			With:    func(p *Params, w *World) { p.Nonce = "n-1" },
			Without: func(p *Params, w *World) { p.Nonce = "" }},
		{Name: "nonce(code)", Profiles: []string{"fapi1"},
			With:    func(p *Params, w *World) { p.Nonce = "n-1" },
			Without: func(p *Params, w *World) { p.Nonce = "" }},
		{Name: "response-type", Profiles: []string{"fapi1"},
			With:    func(p *Params, w *World) { p.RespType, p.RespMode = "code id_token", "" },
			Without: func(p *Params, w *World) { p.RespType, p.RespMode = "code", "" }},
		{Name: "response-type", Profiles: []string{"fapi2"},
			With:    func(p *Params, w *World) { p.RespType = "code" },
			Without: func(p *Params, w *World) { p.RespType = "code id_token" }},
		{Name: "response-mode", Profiles: []string{"fapi1"},
			With:    func(p *Params, w *World) { p.RespType, p.RespMode = "code", "jwt" },
			Without: func(p *Params, w *World) { p.RespType, p.RespMode = "code", "" }},
		{Name: "dpop_jkt(implicit)", Profiles: []string{"openid"}, Opts: []Opt{{Name: "WithDPoPRequired"}}, RespType: "code token",
			With:    func(p *Params, w *World) { p.DpopJkt = w.keys[0].H },
			Without: func(p *Params, w *World) { p.DpopJkt = 0 }},
		{Name: "dpop_jkt(implicit,binding)", Profiles: []string{"openid"}, Opts: []Opt{{Name: "WithTokenBindingRequired"}, {Name: "WithDPoP"}}, RespType: "token",
			With:    func(p *Params, w *World) { p.DpopJkt = w.keys[0].H },
			Without: func(p *Params, w *World) { p.DpopJkt = 0 }},
	}
}

func c11jBase(profile string, jarRequired bool) []Opt {
	o := []Opt{{Name: "WithScopes", Scopes: serverScopes}, {Name: "WithAuthorizationCodeGrant"}, {Name: "WithImplicitGrant"},
		{Name: "WithRefreshTokenGrant", Z: 600}, {Name: "WithPAR", Z: 60}, {Name: "WithJARByReference"}}
	if jarRequired {
		o = append(o, Opt{Name: "WithJARRequired"})
	} else {
		o = append(o, Opt{Name: "WithJAR"})
	}
	if profile == "fapi1" {
		o = append(o, Opt{Name: "WithJARM"})
	}
	return o
}

// the complete request of a profile
func c11jGood(profile string, m c11jMech, client int) Params {
	p := Params{Redirect: fmt.Sprintf("https://c%d.example/cb", client), RespType: "code", Scopes: "openid email", State: "st-1", Nonce: "n-1"}
	if profile == "fapi1" {
		p.RespType = "code id_token"
	}
	if m.RespType != "" {
		p.RespType = m.RespType
	}
	return p
}

type c11jPlacement struct {
	Name       string
	In, Out    bool // the mechanism is in the object / in the outer parameters
	OuterEmpty bool // nothing outside at all
	OuterOnlyM bool // outside: nothing but the mechanism (and what the OpenID profile insists on repeating)
}

var c11jPlacements = []c11jPlacement{
	{Name: "inside-only", In: true},
	{Name: "outside-only", Out: true},
	{Name: "both", In: true, Out: true},
	{Name: "neither"},
	{Name: "inside,nothing-outside", In: true, OuterEmpty: true},
	{Name: "outside-alone", Out: true, OuterOnlyM: true},
}

func c11jWrite(ctx *RunCtx, cases []JCase, stats map[string]int) {
	per := 40
	for k := 0; k*per < len(cases); k++ {
		hi := (k + 1) * per
		if hi > len(cases) {
			hi = len(cases)
		}
		var b strings.Builder
		b.WriteString(c11jHeader)
		var names []string
		for i, cs := range cases[k*per : hi] {
			fmt.Fprintf(&b, "(*CASE %d %s*)\nDefinition c_%d : jarcase :=\n%s.\n", k*per+i, strings.ReplaceAll(cs.Note, "*)", ""), k*per+i, cs.coq())
			names = append(names, fmt.Sprintf("c_%d", k*per+i))
		}
		b.WriteString("(*END*)\nDefinition cases : list jarcase := [" + strings.Join(names, "; ") + "].\n")
		b.WriteString("Definition corr := Eval vm_compute in map check_gjcase cases.\nPrint corr.\n")
		b.WriteString("Definition mon := Eval vm_compute in map mon_C11J cases.\nPrint mon.\n")
		name := fmt.Sprintf("cases_%03d.v", k)
		if err := os.WriteFile(filepath.Join(ctx.Out, name), []byte(b.String()), 0o644); err != nil {
			panic(err)
		}
		ctx.Meta.Files = append(ctx.Meta.Files, name)
	}
	ctx.Meta.Cases = len(cases)
	seen := map[string]bool{}
	type jc struct {
		Index int
		Note  string
		Spec  any
		Ops   []JOp
		Obs   []JObs
	}
	var all []jc
	for i, cs := range cases {
		okN, errN := 0, 0
		var sb strings.Builder
		for j, o := range cs.Obs {
			sb.WriteString(cs.Ops[j].Kind + cs.Ops[j].Jar + ":" + o.Obs.Kind + ":" + o.Obs.Err + o.Obs.NErr + ";")
			if obtained(o.Obs) {
				okN++
			} else {
				errN++
			}
			ctx.Meta.Ops++
		}
		if okN > 0 && errN > 0 {
			seen[cs.Profile+sb.String()] = true
		}
		all = append(all, jc{i, cs.Note, map[string]any{"Profile": cs.Profile, "Opts": cs.Opts, "JCfg": cs.JCfg, "Static": cs.Static, "JClients": cs.JCl}, cs.Ops, cs.Obs})
	}
	ctx.Meta.Distinct = len(seen)
	for i := 0; i < len(cases) && i < 2; i++ {
		cs := cases[i]
		var ops []string
		for j, o := range cs.Ops {
			if j >= 6 {
				break
			}
			ops = append(ops, o.Note+": "+o.coq()+"  ==>  "+cs.Obs[j].coq())
		}
		ctx.Meta.Samples = append(ctx.Meta.Samples, map[string]any{"note": cs.Note, "options": cList(cs.Opts, Opt.coq), "first_ops": ops})
	}
	for k, v := range stats {
		ctx.Meta.Dist[k] += v
	}
	b, _ := json.Marshal(all)
	_ = os.WriteFile(filepath.Join(ctx.Out, "cases.json"), b, 0o644)
}

func init() {
	register(&Suite{Name: "c11jar", Run: func(ctx *RunCtx) {
		var cases []JCase
		stats := map[string]int{}
		r := ctx.R
		jcl := []JClient{{ID: 1, Keys: clientJWKS(1)}, {ID: 2, Keys: clientJWKS(2)}, {ID: 5, Keys: clientJWKS(5)}}
		jc := JCfg{Algs: []string{"AES256"}, CibaAlgs: []string{"AES256"}}
		pol := Pol{Kind: "PolSuccess", Sub: "alice", Granted: "openid email"}
		for _, profile := range []string{"openid", "fapi1", "fapi2"} {
			for _, m := range c11jMechs() {
				applies := false
				for _, p := range m.Profiles {
					applies = applies || p == profile
				}
				if !applies {
					continue
				}
				for _, delivery := range []string{"authorize-value", "authorize-ref", "par"} {
					for _, jarRequired := range []bool{false, true} {
						if jarRequired && ctx.Quick() && r.Intn(3) != 0 {
							continue
						}
						client := 1
						opts := append(c11jBase(profile, jarRequired), m.Opts...)
						spec := WorldSpec{Profile: profile, Opts: opts, Static: c07Clients(false), Flavour: []string{"copy", "alias"}[len(cases)%2]}
						jw, err := NewJWorld(spec, jc, jcl)
						if err != nil {
							stats["config-refused-by-provider.New"]++
							continue
						}
						c := JCase{Profile: profile, Opts: opts, JCfg: jc, Static: spec.Static, JCl: jcl,
							Note: fmt.Sprintf("%s %s %s jar-required=%v", profile, m.Name, delivery, jarRequired)}
						do := func(o JOp) JObs {
							obs := jw.Exec(len(c.Ops), o)
							c.Ops = append(c.Ops, o)
							c.Obs = append(c.Obs, obs)
							k := "refused"
							if obtained(obs.Obs) {
								k = "obtained"
							}
							stats[o.Kind+"/"+o.Jar+" "+k]++
							return obs
						}
						redeem := func(code Handle, note string) {
							if code == 0 {
								return
							}
							// without the verifier first: a session that kept its challenge refuses and is gone
							t := do(JOp{Kind: "Base", Note: note + ": redeem without code_verifier", Base: Op{Kind: "Token", Grant: "authorization_code", Cred: Cred{ID: client, OK: true}, Code: code,
								Redirect: fmt.Sprintf("https://c%d.example/cb", client), HG: "HgOk", BA: "BaApprove"}})
							if t.Obs.Kind != "Tokens" {
								stats["redeem-without-verifier refused"]++
							}
						}
						for _, pl := range c11jPlacements {
							good := c11jGood(profile, m, client)
							inner, outer := good, good
							m.With(&inner, jw.W)
							m.With(&outer, jw.W)
							if !pl.In {
								m.Without(&inner, jw.W)
							}
							if !pl.Out {
								m.Without(&outer, jw.W)
							}
							if pl.OuterEmpty {
								outer = Params{}
							}
							if pl.OuterOnlyM {
								only := Params{RespType: good.RespType, Scopes: good.Scopes}
								m.With(&only, jw.W)
								outer = only
							}
							o := baseRO(profile, client)
							o.Params = inner
							oc := o
							note := m.Name + " " + pl.Name
							switch delivery {
							case "authorize-value", "authorize-ref":
								jar := "value"
								if delivery == "authorize-ref" {
									jar = "ref"
								}
								a := do(JOp{Kind: "JAuthorize", Base: Op{Kind: "Authorize", Client: client, Params: outer, PolicyAvail: true, Pol: pol},
									Jar: jar, Obj: &oc, RefHTTPS: true, Note: note})
								redeem(a.Obs.NCode, note)
							case "par":
								pr := do(JOp{Kind: "JPar", Base: Op{Kind: "Par", Cred: Cred{ID: client, OK: true}, Params: outer}, Jar: "value", Obj: &oc, Note: note})
								if pr.Obs.Kind == "Par" {
									// the outer parameters accompany the request_uri at /authorize as well
									ap := outer
									ap.RequestURI = pr.Obs.H
									if ap.RespType == "" {
										ap.RespType, ap.Scopes = good.RespType, "openid email"
									}
									a := do(JOp{Kind: "JAuthorize", Base: Op{Kind: "Authorize", Client: client, Params: ap, PolicyAvail: true, Pol: pol}, Note: note + ": request_uri at /authorize"})
									redeem(a.Obs.NCode, note)
								}
							}
						}
						// control: the same placements without any object (plain request), mechanism present / absent
						for _, with := range []bool{true, false} {
							p := c11jGood(profile, m, client)
							m.With(&p, jw.W)
							if !with {
								m.Without(&p, jw.W)
							}
							do(JOp{Kind: "JAuthorize", Base: Op{Kind: "Authorize", Client: client, Params: p, PolicyAvail: true, Pol: pol}, Note: fmt.Sprintf("%s no object, mechanism=%v", m.Name, with)})
						}
						cases = append(cases, c)
					}
				}
			}
		}
		c11jParRequired(ctx, &cases, stats)
		c11jCibaClients(ctx, &cases, stats)
		ctx.Meta.Rule = "PAR REQUIRED (server switch, client switch) x JAR optional/required x JAR by reference on/off x three profiles x {plain request, request object by value, by reference over https / http / unfetchable, genuine pushed request_uri redeemed and reused, another client's pushed request_uri, a urn nobody pushed, pushed request_uri together with an object, the three direct forms by the client not bound to PAR}; CIBA JAR {off, enabled, required} on the server x backchannel client registered with {no algorithm, only request_object_signing_alg, only backchannel_authentication_request_signing_alg, both} x {plain, signed, plain} backchannel requests x three profiles; request objects under the three profiles x every required mechanism carried by the authorization parameters (PKCE S256/plain, openid scope, nonce, response type, response mode, dpop_jkt for the implicit flow) x {authorize by value, authorize by reference, par (+ request_uri at /authorize)} x JAR optional/required x six placements (inside only, outside only, both, neither, inside with nothing outside, outside alone), each code redeemed without code_verifier; distinct by projected trace; non-trivial = at least one artifact obtained and one refusal"
		c11jWrite(ctx, cases, stats)
	}})
}
