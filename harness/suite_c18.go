package main

// Suite c18 — behaviour does not depend on storage aliasing or on which instance serves.
//
// Every history (a committed corpus of directed scenarios first, then histories drawn by the online
// generator under several weight profiles, with static and with stored clients) is REPLAYED, as the
// same list of abstract operations, under four executions of the real provider:
//     {copy: every Save/lookup through encoding/json, alias: the repository's internal/storage}
//   x {one provider instance, a fresh provider.New for every request over the same storage}.
// Handles are named by operation index, so the same abstract operations mean the same requests in
// every execution.  The four projected traces and, after every operation, a canonical digest of the
// storage contents are compared pairwise on the Go side (Finding signature
// "<kind of the first differing operation>:<field>"), and every execution's trace is also written as
// a case for the model: `run` for the copy flavour, `run_alias_trace` for the alias flavour
// (Corr/C18.v).  DCR histories (generator of suite c12) are replayed the same way, Go side only.
// The claims of the issued JWT access tokens, the members of read-only answers, the no-write oracle for
// read-only endpoints and the histories that interleave read-only requests: suite_c18_claims.go.
// State that lives OUTSIDE the storages (what clients publish at jwks_uri, sector_identifier_uri and
// request_uri, their notification endpoints, the per-process anonymous jwt-bearer client) and the
// world events that change it between requests: suite_c18_remote.go (Go side only; the model has no
// such operations and no private_key_jwt / jwks_uri clients).

import (
	"encoding/json"
	"fmt"
	"math/rand"
	"os"
	"path/filepath"
	"sort"
	"strings"
	"sync"

	"github.com/luikyv/go-oidc/pkg/goidc"
)

type c18Exec struct {
	Flavour string
	Fresh   bool
}

func (e c18Exec) String() string {
	if e.Fresh {
		return e.Flavour + "/fresh-instance-per-request"
	}
	return e.Flavour + "/one-instance"
}

var c18Execs = []c18Exec{{"copy", false}, {"alias", false}, {"copy", true}, {"alias", true}}

// pseudo-operations of the embedder on the storage (not requests, not in the model's op type):
// the client registration disappears / comes back between two requests of a flow
const (
	c18OpDelClient = "C18DelClient"
	c18OpPutClient = "C18PutClient"
)

// (c18IsPseudo, c18ExecOp: suite_c18_remote.go, with the other world events)

// ---- projected comparison of two observations of the same operation ----
// (the error code answered to a forged token depends on the bytes of the forgery, e.g. on whether a
// truncated signature is still base64url: only the refusal is compared there)
func c18ObsDiff(o Op, a, b Obs) string {
	if o.Tok.Kind == "PForged" && a.Kind == "Err" && b.Kind == "Err" {
		return ""
	}
	abs := func(x int) int {
		if x < 0 {
			return -x
		}
		return x
	}
	switch {
	case a.Kind != b.Kind:
		return "kind"
	case a.Err != b.Err:
		return "error"
	case a.Active != b.Active:
		return "active"
	case a.At != b.At:
		return "access_token"
	case a.Rt != b.Rt:
		return "refresh_token"
	case a.Idt != b.Idt:
		return "id_token"
	case a.Scope != b.Scope:
		return "scope"
	case strings.Join(a.Res, " ") != strings.Join(b.Res, " "):
		return "resources"
	case strings.Join(a.Aud, " ") != strings.Join(b.Aud, " "):
		return "aud"
	case a.Dpop != b.Dpop:
		return "token_type"
	case a.H != b.H:
		return "handle"
	case a.Interval != b.Interval:
		return "interval"
	case a.Active != b.Active:
		return "active"
	case a.Refresh != b.Refresh:
		return "token_kind"
	case a.Client != b.Client:
		return "client"
	case a.Sub != b.Sub:
		return "sub"
	case a.Active && abs(a.Exp-b.Exp) > 3:
		return "exp"
	case a.Jkt != b.Jkt || a.X5t != b.X5t:
		return "cnf"
	case a.Mode != b.Mode:
		return "response_mode"
	case a.Target != b.Target:
		return "redirect_target"
	case a.NCode != b.NCode:
		return "code"
	case a.NAt != b.NAt:
		return "nav_access_token"
	case a.NIdt != b.NIdt:
		return "nav_id_token"
	case a.NState != b.NState:
		return "state"
	case a.NErr != b.NErr:
		return "nav_error"
	case a.NDpop != b.NDpop:
		return "nav_token_type"
	case a.OK != b.OK:
		return "notify_result"
	case len(a.Notifs) != len(b.Notifs):
		return "notifications"
	}
	for i := range a.Notifs {
		if a.Notifs[i] != b.Notifs[i] {
			return "notifications"
		}
	}
	return ""
}

// ---- canonical digest of the storage contents ----
func (w *World) c18Name(s string, jti map[string]Handle) string {
	if s == "" {
		return "-"
	}
	if h, ok := w.str2h[s]; ok {
		return cN(h)
	}
	if h, ok := jti[s]; ok {
		return "jti" + cN(h)
	}
	return "?"
}

func c18Digest(w *World) []string {
	jti := map[string]Handle{}
	for s, h := range w.str2h {
		if strings.Count(s, ".") == 2 {
			if j := jwtClaim(s, "jti"); j != "" {
				jti[j] = h
			}
		}
	}
	var out []string
	for _, s := range w.Stores.AuthnSessions() {
		steps := ""
		if v, ok := s.Storage["steps"]; ok {
			steps = fmt.Sprint(v)
		}
		nonce := ""
		if v, ok := s.AdditionalIDTokenClaims["nonce"]; ok {
			nonce = fmt.Sprint(v)
		}
		out = append(out, fmt.Sprintf("session client=%s sub=%q granted=%q cb=%s par=%s code=%s ciba=%s policy=%s jkt=%s x5t=%s steps=%s nonce_claim=%q redirect=%q scope=%q state=%q nonce=%q rt=%q rm=%q cc=%q ccm=%q dpop_jkt=%s hint=%q",
			w.c18ClientLabel(s.ClientID), w.c18ClientLabel(s.Subject), s.GrantedScopes, w.c18Name(s.CallbackID, jti), w.c18Name(s.PushedAuthReqID, jti), w.c18Name(s.AuthCode, jti),
			w.c18Name(s.CIBAAuthID, jti), s.PolicyID, w.c18Name(s.JWKThumbprint, jti), w.c18Name(s.ClientCertThumbprint, jti), steps, nonce,
			s.RedirectURI, s.Scopes, s.State, s.Nonce, s.ResponseType, s.ResponseMode, s.CodeChallenge, s.CodeChallengeMethod,
			w.c18Name(s.DPoPJKT, jti), s.LoginHint)+w.c18DeepSession(&s, jti))
	}
	for _, g := range w.Stores.GrantSessions() {
		out = append(out, fmt.Sprintf("grant client=%s sub=%q type=%s active=%q granted=%q token=%s refresh=%s code=%s jkt=%s x5t=%s",
			w.c18ClientLabel(g.ClientID), w.c18ClientLabel(g.Subject), g.GrantType, g.ActiveScopes, g.GrantedScopes, w.c18Name(g.TokenID, jti), w.c18Name(g.RefreshToken, jti),
			w.c18Name(g.AuthorizationCode, jti), w.c18Name(g.JWKThumbprint, jti), w.c18Name(g.ClientCertThumbprint, jti))+w.c18DeepGrant(&g, jti))
	}
	for _, c := range w.c18Clients() {
		out = append(out, fmt.Sprintf("client %s redirects=%q scopes=%q grants=%v resp=%v authn=%s/%s/%s jwks_uri=%s sector=%s sub=%s clear_secret=%v hashed_secret=%v inline_jwks=%v tls=%q",
			w.c18ClientLabel(c.ID), c.RedirectURIs, c.ScopeIDs, c.GrantTypes, c.ResponseTypes,
			c.TokenAuthnMethod, c.TokenIntrospectionAuthnMethod, c.TokenRevocationAuthnMethod, c.PublicJWKSURI, c.SectorIdentifierURI, c.SubIdentifierType,
			c.Secret != "", c.HashedSecret != "", c.PublicJWKSURI == "" && len(c.PublicJWKS) > 0, c.TLSSubDistinguishedName+"|"+c.TLSSubAlternativeName+"|"+c.TLSSubAlternativeNameIp))
	}
	sort.Strings(out)
	return out
}

// stored clients, and the static client objects of the one-instance world (a registration changed
// in place shows there; a fresh instance starts from the configuration again, as another process would)
func (w *World) c18Clients() []goidc.Client {
	var cs []goidc.Client
	if w.Stores.Flavour == "alias" {
		for _, v := range w.Stores.aliasC.Clients {
			cs = append(cs, *v)
		}
	} else {
		w.Stores.copyC.each(func(v *goidc.Client) { cs = append(cs, *v) })
	}
	return cs
}

func c18DigestDiff(a, b []string) string {
	in := func(l []string, s string) bool {
		for _, x := range l {
			if x == s {
				return true
			}
		}
		return false
	}
	var d []string
	for _, x := range a {
		if !in(b, x) {
			d = append(d, "only in the first: "+x)
		}
	}
	for _, x := range b {
		if !in(a, x) {
			d = append(d, "only in the second: "+x)
		}
	}
	return strings.Join(d, "; ")
}

// ---- one history under one execution ----
type c18Trace struct {
	Exec    c18Exec
	Obs     []Obs
	Digests [][]string
	Claims  [][]string // per operation: the normalised claims of every JWT access token it handed out
	Wrote   []string   // per operation: what a request to a read-only endpoint changed in the storage ("" nothing)
}

func c18Run(spec WorldSpec, ex c18Exec, ops []Op, extraTargets []string) c18Trace {
	spec.Flavour, spec.FreshPer = ex.Flavour, ex.Fresh
	if jwtbSpecHasGrant(spec) {
		// NewWorld puts the package-level anonymous jwt-bearer client (a sync.Once in internal/token) back into
		// its start-of-process state: worlds with that grant must not overlap (jwtb_anon.go); resetting the Once
		// while another world's request is inside it kills the process
		jwtbWorldMu.Lock()
		defer jwtbWorldMu.Unlock()
	}
	w, err := NewWorld(spec)
	if err != nil {
		panic(err)
	}
	w.extraTargets = append([]string(nil), extraTargets...)
	if c18HasFlag(extraTargets, c18FlagClaims) {
		c18EnableEmbedderClaims(w)
	}
	if c18HasFlag(extraTargets, c18FlagAuthn) {
		c18EnableAuthn(w)
	}
	tr := c18Trace{Exec: ex}
	for i, o := range ops {
		w.step = i
		ep := c18ReadOnlyEndpoint(o)
		var before map[string]string
		if ep != "" {
			before = c18DeepSnapshot(w)
		}
		obs := c18ExecOp(w, o)
		obs.Sub = w.c18ClientLabel(obs.Sub) // (the subject of a client_credentials token is the client id, random for registered clients)
		wrote := ""
		if ep != "" {
			wrote = c18SnapshotDiff(before, c18DeepSnapshot(w))
		}
		tr.Obs = append(tr.Obs, obs)
		tr.Wrote = append(tr.Wrote, wrote)
		tr.Claims = append(tr.Claims, w.c18TokenClaims(obs))
		tr.Digests = append(tr.Digests, c18Digest(w))
	}
	return tr
}

type c18Difference struct {
	A, B   int // indexes into c18Execs (B = -1: an observation about execution A alone)
	Op     int
	Field  string
	Detail string
}

// which oracles count in a comparison.  The answers and the claims of the issued JWT access tokens
// (what a client / resource server sees) always do.
const (
	c18CmpStore = 1 // the storage digests after every operation
	c18CmpWrote = 2 // writes of read-only endpoints
	c18CmpAll   = c18CmpStore | c18CmpWrote
)

const c18WrotePrefix = "C18:read-only-endpoint-wrote:"

func c18ModeOf(field string) int {
	switch {
	case field == "store":
		return c18CmpStore
	case strings.HasPrefix(field, c18WrotePrefix):
		return c18CmpWrote
	}
	return 0
}

// (signature of a difference: c18Signature, suite_c18_remote.go)

// first difference between two traces of the same operations
func c18TraceDiff(ops []Op, a, b c18Trace, mode int) (int, string, string) {
	for i := range a.Obs {
		if f := c18ObsDiff(ops[i], a.Obs[i], b.Obs[i]); f != "" {
			return i, f, fmt.Sprintf("%s answered %s [%d %s]; %s answered %s [%d %s]", a.Exec, a.Obs[i].coq(), a.Obs[i].Status, truncate(a.Obs[i].Raw, 160),
				b.Exec, b.Obs[i].coq(), b.Obs[i].Status, truncate(b.Obs[i].Raw, 160))
		}
		if f, d := c18ClaimsDiff(a.Claims[i], b.Claims[i]); f != "" {
			return i, f, fmt.Sprintf("same projected answer (%s) but %s differ between %s and %s: %s", a.Obs[i].coq(),
				map[string]string{"access_token_claims": "the claims of the JWT access token issued", "answer_members": "the members of the answer"}[f], a.Exec, b.Exec, d)
		}
		if mode&c18CmpStore == 0 {
			continue
		}
		if d := c18DigestDiff(a.Digests[i], b.Digests[i]); d != "" {
			return i, "store", fmt.Sprintf("same answer (%s) but the storage contents differ afterwards between %s and %s: %s", a.Obs[i].coq(), a.Exec, b.Exec, d)
		}
	}
	return -1, "", ""
}

// the earliest difference among the executions (ties: a write by a read-only endpoint first - it is
// the cause, not the symptom - then the pair listed first)
func c18Compare(ops []Op, trs []c18Trace, mode int) *c18Difference {
	var best *c18Difference
	if mode&c18CmpWrote != 0 {
		for a := range trs {
			for i, wr := range trs[a].Wrote {
				if wr != "" && (best == nil || i < best.Op) {
					best = &c18Difference{A: a, B: -1, Op: i, Field: c18WrotePrefix + c18ReadOnlyEndpoint(ops[i]),
						Detail: fmt.Sprintf("under %s the request (answer %s) changed what is stored: %s", trs[a].Exec, trs[a].Obs[i].coq(), wr)}
					break
				}
			}
		}
	}
	for a := 0; a < len(trs); a++ {
		for b := a + 1; b < len(trs); b++ {
			if i, f, d := c18TraceDiff(ops, trs[a], trs[b], mode); i >= 0 && (best == nil || i < best.Op) {
				best = &c18Difference{A: a, B: b, Op: i, Field: f, Detail: d}
			}
		}
	}
	return best
}

// all four executions
func c18RunAll(spec WorldSpec, ops []Op, extra []string, mode int) ([]c18Trace, *c18Difference) {
	trs := make([]c18Trace, len(c18Execs))
	for k, ex := range c18Execs {
		trs[k] = c18Run(spec, ex, ops, extra)
	}
	return trs, c18Compare(ops, trs, mode)
}

// ---- shrinking: handles are named by operation index, so dropping operation j renames the rest ----
func c18Remap(h Handle, j int) Handle {
	if h < 32 || h >= unknownBase {
		return h
	}
	n := int(h/32) - 1
	switch {
	case n == j:
		return unknownBase + 777 // what that operation minted no longer exists
	case n > j:
		return h - 32
	}
	return h
}

func c18Drop(ops []Op, j int) []Op {
	var out []Op
	for i, o := range ops {
		if i == j {
			continue
		}
		o.Params.RequestURI = c18Remap(o.Params.RequestURI, j)
		o.Cb = c18Remap(o.Cb, j)
		o.Code = c18Remap(o.Code, j)
		o.Refresh = c18Remap(o.Refresh, j)
		o.AuthReq = c18Remap(o.AuthReq, j)
		o.Tok.H = c18Remap(o.Tok.H, j)
		if o.Bind.Dpop != nil {
			p := *o.Bind.Dpop
			p.Ath = c18Remap(p.Ath, j)
			o.Bind.Dpop = &p
		}
		out = append(out, o)
	}
	return out
}

func c18Shrink(spec WorldSpec, ops []Op, extra []string, d *c18Difference, mode int) ([]Op, []c18Trace, *c18Difference) {
	sig := c18Signature(spec, ops, d)
	ops = append([]Op(nil), ops[:d.Op+1]...)
	trs, cur := c18RunAll(spec, ops, extra, mode)
	if cur == nil || c18Signature(spec, ops, cur) != sig {
		return nil, nil, nil
	}
	for j := len(ops) - 2; j >= 0; j-- {
		cand := c18Drop(ops, j)
		t2, d2 := c18RunAll(spec, cand, extra, mode)
		if d2 != nil && c18Signature(spec, cand, d2) == sig {
			cand = cand[:d2.Op+1]
			ops, trs, cur = cand, t2, d2
			for k := range trs {
				trs[k].Obs = trs[k].Obs[:len(ops)]
				trs[k].Digests = trs[k].Digests[:len(ops)]
				trs[k].Claims = trs[k].Claims[:len(ops)]
				trs[k].Wrote = trs[k].Wrote[:len(ops)]
			}
			if j > len(ops)-1 {
				j = len(ops) - 1
			}
		}
	}
	return ops, trs, cur
}

// ---- a history, its four executions, and what is written out ----
type c18History struct {
	Note  string
	Spec  WorldSpec
	Ops   []Op
	Extra []string
}

type c18Result struct {
	H      c18History
	Traces []c18Trace
	Diff   *c18Difference
}

func c18Finding(h c18History, trs []c18Trace, d *c18Difference) Finding {
	ops, t2, d2 := c18Shrink(h.Spec, h.Ops, h.Extra, d, c18ModeOf(d.Field))
	if d2 == nil { // not reproducible in isolation: report the original
		ops, t2, d2 = h.Ops, trs, d
	}
	var lines []string
	for i, o := range ops {
		lines = append(lines, fmt.Sprintf("%d: %s", i, c18Describe(o)))
	}
	execs, claims, wrote := map[string]any{}, map[string]any{}, map[string]any{}
	for _, t := range t2 {
		var obs []string
		cl, wr := map[string][]string{}, map[string]string{}
		for i, o := range t.Obs {
			obs = append(obs, o.coq())
			if i < len(t.Claims) && len(t.Claims[i]) > 0 {
				cl[fmt.Sprint(i)] = t.Claims[i]
			}
			if i < len(t.Wrote) && t.Wrote[i] != "" {
				wr[fmt.Sprint(i)] = t.Wrote[i]
			}
		}
		execs[t.Exec.String()] = obs
		claims[t.Exec.String()] = cl
		wrote[t.Exec.String()] = wr
	}
	what, differing := "", []string{c18Execs[d2.A].String()}
	if d2.B < 0 {
		what = fmt.Sprintf("a request to a read-only endpoint changed what is stored: operation %d (%s) of %d, under %s: %s  [history %s]",
			d2.Op, ops[d2.Op].Kind, len(ops), c18Execs[d2.A], d2.Detail, h.Note)
	} else {
		differing = append(differing, c18Execs[d2.B].String())
		what = fmt.Sprintf("the same %d operations behave differently under %s and under %s: first difference at operation %d (%s), field %s: %s  [history %s]",
			len(ops), c18Execs[d2.A], c18Execs[d2.B], d2.Op, ops[d2.Op].Kind, d2.Field, d2.Detail, h.Note)
	}
	return Finding{Property: "C18", Signature: c18Signature(h.Spec, ops, d2), What: what,
		Replay: map[string]any{"Spec": h.Spec, "Ops": ops, "ExtraTargets": h.Extra, "operations": lines, "observations": execs,
			"access_token_claims": claims, "written_by_read_only_requests": wrote,
			"differing_executions": differing, "first_difference_op": d2.Op, "field": d2.Field}}
}

// ---- generation ----
var c18Profiles = []struct {
	Name    string
	Want    map[string]bool
	Weights map[string]int
	Dev     int
	Nops    int
}{
	{"code+refresh", map[string]bool{"refresh": true, "pkce": true},
		map[string]int{"authorize": 16, "callback": 6, "par": 2, "code": 20, "refresh": 24, "cc": 2, "query": 18, "tick": 6, "bc": 1, "poll": 1, "notify": 1}, 35, 30},
	{"par+sessions", map[string]bool{"par": true, "refresh": true},
		map[string]int{"authorize": 28, "callback": 22, "par": 16, "code": 10, "refresh": 6, "cc": 1, "query": 8, "tick": 6, "bc": 1, "poll": 1, "notify": 1}, 40, 32},
	{"ciba", map[string]bool{"ciba": true, "refresh": true},
		map[string]int{"authorize": 3, "callback": 1, "par": 1, "code": 3, "refresh": 8, "cc": 1, "query": 10, "tick": 8, "bc": 22, "poll": 28, "notify": 14}, 30, 30},
	{"tokens", map[string]bool{"refresh": true, "implicit": true},
		map[string]int{"authorize": 14, "callback": 4, "par": 2, "code": 14, "refresh": 14, "cc": 8, "query": 34, "tick": 7, "bc": 2, "poll": 3, "notify": 1}, 35, 32},
}

func c18Generate(r *rand.Rand, k int) c18History {
	prof := c18Profiles[k%len(c18Profiles)]
	want := map[string]bool{}
	for f, v := range prof.Want {
		want[f] = v
	}
	dynamic := (k/len(c18Profiles))%2 == 1
	want["dynamic"] = dynamic
	gen := c18Execs[(k/(2*len(c18Profiles)))%len(c18Execs)]
	spec := randomSpec(r, gen.Flavour, want)
	spec.FreshPer = gen.Fresh
	g, err := NewSysGen(r, spec)
	if err != nil {
		panic(err)
	}
	for name, v := range prof.Weights {
		g.Weights[name] = v
	}
	g.DevRate = prof.Dev
	churn := dynamic && k%3 == 0 // the embedder removes and restores a registration in mid-history
	if churn {
		g.Run(prof.Nops / 3)
		c := pick(r, g.clients()).ID
		pseudo := func(kind string) {
			o := Op{Kind: kind, Client: c}
			g.W.step = len(g.Ops)
			g.Obs = append(g.Obs, c18ExecOp(g.W, o))
			g.Ops = append(g.Ops, o)
		}
		pseudo(c18OpDelClient)
		g.Run(2 * prof.Nops / 3)
		pseudo(c18OpPutClient)
	}
	g.Run(prof.Nops)
	note := fmt.Sprintf("%s#%d/%s/generated-under:%s", prof.Name, k, map[bool]string{false: "static-clients", true: "stored-clients"}[dynamic], gen)
	if churn {
		note += "/client-churn"
	}
	spec.Flavour, spec.FreshPer = "", false
	return c18History{Note: note, Spec: spec, Ops: g.Ops, Extra: g.W.extraTargets}
}

// ---- the corpus: minimised histories of the defects this property found on the pinned tree
//      (D1, D8, D13, the half-processed session) and one tour through every in-place write ----
func c18Corpus(r *rand.Rand) []c18History {
	var out []c18History
	base := []Opt{{Name: "WithScopes", Scopes: serverScopes}, {Name: "WithAuthorizationCodeGrant"}, {Name: "WithClientCredentialsGrant"},
		{Name: "WithRefreshTokenGrant", Z: 1000}, {Name: "WithTokenIntrospection"}, {Name: "WithTokenRevocation"}, {Name: "WithTokenLifetime", Z: 300},
		{Name: "WithPAR", Z: 60}, {Name: "WithUnregisteredRedirectURIsForPAR"}, {Name: "WithImplicitGrant"}}
	ok := Cred{ID: 1, OK: true}
	pol := Pol{Kind: "PolSuccess", Sub: "alice", Granted: "openid email"}
	for _, dynamic := range []bool{false, true} {
		for _, rotation := range []bool{false, true} {
			opts := append([]Opt(nil), base...)
			if rotation {
				opts = append(opts, Opt{Name: "WithRefreshTokenRotation"})
			}
			spec := WorldSpec{Profile: "openid", Opts: opts}
			if dynamic {
				spec.Dyn = baseClients(r)
			} else {
				spec.Static = baseClients(r)
			}
			tag := fmt.Sprintf("/%s/rotation=%v", map[bool]string{false: "static-clients", true: "stored-clients"}[dynamic], rotation)
			p := Params{Redirect: "https://c1.example/cb", RespType: "code", Scopes: "openid email"}
			// D1: a pushed unregistered redirect URI must not become a registered one
			unreg := "https://unregistered.example/cb"
			pu := p
			pu.Redirect = unreg
			out = append(out, c18History{Note: "corpus:par-unregistered-redirect" + tag, Spec: spec, Extra: []string{unreg}, Ops: []Op{
				{Kind: "Par", Cred: ok, Params: pu},
				{Kind: "Authorize", Client: 1, Params: pu, PolicyAvail: true, Pol: pol},
				{Kind: "Authorize", Client: 1, Params: Params{RequestURI: mint(0, KParUri)}, PolicyAvail: true, Pol: pol},
				{Kind: "Authorize", Client: 1, Params: pu, PolicyAvail: true, Pol: pol},
				{Kind: "Par", Cred: ok, Params: pu},
				{Kind: "Authorize", Client: 1, Params: pu, PolicyAvail: true, Pol: pol}}})
			// D13: outer parameters of a refused redemption must not stick to the pushed session
			out = append(out, c18History{Note: "corpus:par-refused-then-redeemed" + tag, Spec: spec, Ops: []Op{
				{Kind: "Par", Cred: ok, Params: p},
				{Kind: "Authorize", Client: 1, Params: Params{RequestURI: mint(0, KParUri), State: "FIRST", Scopes: p.Scopes, RespType: p.RespType}, PolicyAvail: false, Pol: pol},
				{Kind: "Authorize", Client: 1, Params: Params{RequestURI: mint(0, KParUri), State: "SECOND", Scopes: p.Scopes, RespType: p.RespType}, PolicyAvail: true, Pol: pol},
				{Kind: "Token", Grant: "authorization_code", Cred: ok, Code: mint(2, KCode), Redirect: p.Redirect, HG: "HgOk", BA: "BaApprove"}}})
			// D8: a refused refresh must leave the grant as it was
			rt0, at0 := mint(4, KRefresh), mint(4, KAtOpaque)
			refresh := func(scope, hg string) Op {
				return Op{Kind: "Token", Grant: "refresh_token", Cred: ok, Refresh: rt0, Scope: scope, HG: hg, BA: "BaApprove"}
			}
			introAt := Op{Kind: "Introspect", Cred: ok, Tok: PTok{Kind: "PExact", H: at0}, Allowed: true}
			rops := []Op{
				{Kind: "Par", Cred: ok, Params: p},
				{Kind: "Authorize", Client: 1, Params: Params{RequestURI: mint(0, KParUri), State: "outer", Scopes: p.Scopes, RespType: p.RespType}, PolicyAvail: true, Pol: Pol{Kind: "PolInProgress"}},
				{Kind: "Callback", Cb: mint(1, KCallback), Pol: Pol{Kind: "PolInProgress"}},
				{Kind: "Callback", Cb: mint(1, KCallback), Pol: pol},
				{Kind: "Token", Grant: "authorization_code", Cred: ok, Code: mint(3, KCode), Redirect: p.Redirect, HG: "HgOk", BA: "BaApprove"},
				refresh("openid", "HgDeny"), introAt, // refused by the embedder
				refresh("openid email admin", "HgOk"), introAt, // refused: more than was granted
				{Kind: "Token", Grant: "refresh_token", Cred: Cred{ID: 2, OK: true}, Refresh: rt0, Scope: "openid", HG: "HgOk", BA: "BaApprove"}, introAt, // refused: another client
				refresh("openid", "HgFail"), introAt, // the embedder fails
				{Kind: "Introspect", Cred: ok, Tok: PTok{Kind: "PExact", H: rt0}, Allowed: true},
				{Kind: "UserInfo", Tok: PTok{Kind: "PExact", H: at0}, HasHeader: true},
				{Kind: "TokenInfo", Tok: PTok{Kind: "PExact", H: at0}}}
			k := len(rops)
			rops = append(rops, refresh("openid", "HgOk"), // accepted, narrowed
				Op{Kind: "Introspect", Cred: ok, Tok: PTok{Kind: "PExact", H: mint(k, KAtOpaque)}, Allowed: true},
				Op{Kind: "Revoke", Cred: ok, Tok: PTok{Kind: "PExact", H: mint(k, KAtOpaque)}, Allowed: true},
				refresh("", "HgOk"))
			out = append(out, c18History{Note: "corpus:refresh-refused" + tag, Spec: spec, Ops: rops})
			if dynamic {
				// the registration disappears while the user is at the login page
				out = append(out, c18History{Note: "corpus:client-removed-during-interaction" + tag, Spec: spec, Ops: []Op{
					{Kind: "Authorize", Client: 1, Params: p, PolicyAvail: true, Pol: Pol{Kind: "PolInProgress"}},
					{Kind: c18OpDelClient, Client: 1},
					{Kind: "Callback", Cb: mint(0, KCallback), Pol: pol},
					{Kind: c18OpPutClient, Client: 1},
					{Kind: "Callback", Cb: mint(0, KCallback), Pol: pol},
					{Kind: "Authorize", Client: 1, Params: p, PolicyAvail: true, Pol: Pol{Kind: "PolInProgress"}},
					{Kind: c18OpDelClient, Client: 1},
					{Kind: "Callback", Cb: mint(5, KCallback), Pol: Pol{Kind: "PolInProgress"}},
					{Kind: c18OpPutClient, Client: 1},
					{Kind: "Callback", Cb: mint(5, KCallback), Pol: pol}}})
			}
		}
	}
	// CIBA, all delivery modes
	spec := WorldSpec{Profile: "openid", Static: append(baseClients(r), cibaClients()...), Opts: []Opt{{Name: "WithScopes", Scopes: serverScopes},
		{Name: "WithAuthorizationCodeGrant"}, {Name: "WithCIBAGrant"}, {Name: "WithRefreshTokenGrant", Z: 400}, {Name: "WithTokenIntrospection"}, {Name: "WithTokenLifetime", Z: 80}}}
	var ops []Op
	for i, c := range []int{5, 6, 7} {
		bp := Params{Scopes: "openid email", LoginHint: "alice"}
		if c != 5 {
			bp.NotifToken = unknownBase + 5000 + Handle(c)
		}
		b := len(ops)
		ops = append(ops,
			Op{Kind: "BcAuthorize", Cred: Cred{ID: c, OK: true}, Params: bp, InitOK: true, Sub: "alice", Granted: "openid email"},
			Op{Kind: "Token", Grant: "urn:openid:params:grant-type:ciba", Cred: Cred{ID: c, OK: true}, AuthReq: mint(b, KAuthReq), HG: "HgOk", BA: "BaPending"},
			Op{Kind: "NotifyOk", AuthReq: mint(b, KAuthReq), HG: "HgOk"},
			Op{Kind: "Token", Grant: "urn:openid:params:grant-type:ciba", Cred: Cred{ID: c, OK: true}, AuthReq: mint(b, KAuthReq), HG: "HgOk", BA: "BaApprove"},
			Op{Kind: "Token", Grant: "urn:openid:params:grant-type:ciba", Cred: Cred{ID: c, OK: true}, AuthReq: mint(b, KAuthReq), HG: "HgOk", BA: "BaApprove"})
		_ = i
	}
	out = append(out, c18History{Note: "corpus:ciba-poll-ping-push", Spec: spec, Ops: ops})
	return out
}

// ---- DCR histories (generator of suite c12), Go side only ----
func c18DcrObsDiff(a, b DObs) string {
	if a.Kind != b.Kind || a.Created != b.Created || a.OK != b.OK {
		return "kind"
	}
	if (a.Status >= 400) != (b.Status >= 400) {
		return "status"
	}
	am, bm := map[string]string{}, map[string]string{}
	for _, m := range a.Doc {
		am[m.K] += m.V.coq() + "|"
	}
	for _, m := range b.Doc {
		bm[m.K] += m.V.coq() + "|"
	}
	for k, v := range am {
		if strings.HasSuffix(k, "_at") { // issue / expiry times
			continue
		}
		if bm[k] != v {
			return "member " + k
		}
	}
	for k := range bm {
		if _, ok := am[k]; !ok && !strings.HasSuffix(k, "_at") {
			return "member " + k
		}
	}
	return ""
}

// a c12 world whose provider is rebuilt for every request over the storage of `base`
func c18DcrFresh(base *c12World) *c12World {
	nw, err := newC12World(base.srv, base.stores.Flavour)
	if err != nil {
		panic(err)
	}
	s, t := nw.stores, base.stores
	s.C, s.A, s.G = t.C, t.A, t.G
	s.aliasC, s.aliasA, s.aliasG, s.copyC, s.copyA, s.copyG = t.aliasC, t.aliasA, t.aliasG, t.copyC, t.copyA, t.copyG
	nw.str2h, nw.h2str, nw.sent, nw.nmal = base.str2h, base.h2str, base.sent, base.nmal
	return nw
}

func c18DcrRun(cs c12Case, ex c18Exec) []DObs {
	w, err := newC12World(cs.Spec, ex.Flavour)
	if err != nil {
		panic(err)
	}
	var out []DObs
	for i, o := range cs.Ops {
		x := w
		if ex.Fresh {
			x = c18DcrFresh(w)
		}
		x.step = i
		out = append(out, x.exec(o))
		w.nmal = x.nmal
	}
	return out
}

func c18Dcr(ctx *RunCtx, n int) (histories, ops int) {
	type job struct {
		seed int64
		k    int
		fam  string
	}
	fams := []string{"random", "rotation", "guard", "members", "hook"}
	var jobs []job
	for i := 0; i < n; i++ {
		jobs = append(jobs, job{ctx.R.Int63(), i, fams[i%len(fams)]})
	}
	findings := make([]*Finding, len(jobs))
	nops := make([]int, len(jobs))
	var wg sync.WaitGroup
	sem := make(chan struct{}, 12)
	for i, j := range jobs {
		wg.Add(1)
		sem <- struct{}{}
		go func(i int, j job) {
			defer wg.Done()
			defer func() { <-sem }()
			cs := runC12History(j.seed, j.k, j.fam)
			nops[i] = len(cs.Ops)
			var trs [][]DObs
			for _, ex := range c18Execs {
				trs = append(trs, c18DcrRun(cs, ex))
			}
			for a := 0; a < len(trs) && findings[i] == nil; a++ {
				for b := a + 1; b < len(trs) && findings[i] == nil; b++ {
					for k := range cs.Ops {
						if f := c18DcrObsDiff(trs[a][k], trs[b][k]); f != "" {
							findings[i] = &Finding{Property: "C18", Signature: "Dcr" + cs.Ops[k].Kind + ":" + strings.Fields(f)[0],
								What: fmt.Sprintf("the same %d registration operations behave differently under %s and under %s: first difference at operation %d (%s), %s: %s vs %s  [history dcr:%s]",
									len(cs.Ops), c18Execs[a], c18Execs[b], k, cs.Ops[k].Kind, f, truncate(trs[a][k].coq(), 300), truncate(trs[b][k].coq(), 300), cs.Note),
								Replay: map[string]any{"dcr": true, "server": cs.Spec, "Ops": cs.Ops[:k+1], "first": trs[a][:k+1], "second": trs[b][:k+1]}}
							break
						}
					}
				}
			}
		}(i, j)
	}
	wg.Wait()
	for i, f := range findings {
		if f != nil {
			ctx.Meta.Findings = append(ctx.Meta.Findings, *f)
		}
		ops += nops[i]
	}
	return len(jobs), ops
}

// ---- the suite ----
const c18Header = `From Verif Require Import Base Scope Types Prog Pop Token Authorize System Config Run.
From Verif.Corr Require Import C18.
Local Open Scope N_scope.
`

func c18HasPseudo(ops []Op) bool {
	for _, o := range ops {
		if c18IsPseudo(o) {
			return true
		}
	}
	return false
}

func init() {
	register(&Suite{Name: "c18", Run: func(ctx *RunCtx) {
		// warm the package-level caches (keys, certificates, bcrypt hashes) before worlds run in parallel
		for id := 1; id <= 9; id++ {
			bcryptOf(clientSecret(id))
		}
		if _, err := NewWorld(WorldSpec{Profile: "openid", Flavour: "copy", Static: baseClients(ctx.R),
			Opts: []Opt{{Name: "WithScopes", Scopes: serverScopes}, {Name: "WithAuthorizationCodeGrant"}}}); err != nil {
			panic(err)
		}
		c18InstallHooks()
		var hs []c18History
		hs = append(hs, c18Corpus(ctx.R)...)
		hs = append(hs, c18RemoteCorpus(ctx.R)...)
		hs = append(hs, c18ReadOnlyCorpus(ctx.R)...)
		hs = append(hs, c18AuthnCorpus(ctx.R, ctx.N(0, 1) == 1)...)
		hs = append(hs, c18PopCorpus(ctx.R, ctx.N(0, 1) == 1)...)
		hs = append(hs, c18FieldsCorpus(ctx.R)...)
		n := ctx.N(128, 2000)
		for k := 0; k < n; k++ {
			hs = append(hs, c18Generate(ctx.R, k))
		}
		for k := 0; k < ctx.N(64, 600); k++ {
			hs = append(hs, c18GenerateRemote(ctx.R, k))
		}
		for k := 0; k < ctx.N(48, 700); k++ {
			hs = append(hs, c18GenerateReadOnly(ctx.R, k))
		}
		for k := 0; k < ctx.N(30, 450); k++ {
			hs = append(hs, c18GeneratePop(ctx.R, k))
		}
		// the four executions of every history (independent worlds: in parallel)
		res := make([]c18Result, len(hs))
		var wg sync.WaitGroup
		sem := make(chan struct{}, 12)
		for i := range hs {
			wg.Add(1)
			sem <- struct{}{}
			go func(i int) {
				defer wg.Done()
				defer func() { <-sem }()
				trs, d := c18RunAll(hs[i].Spec, hs[i].Ops, hs[i].Extra, c18CmpAll)
				res[i] = c18Result{H: hs[i], Traces: trs, Diff: d}
			}(i)
		}
		wg.Wait()

		type jc struct {
			Index int
			Note  string
			Spec  WorldSpec
			Ops   []Op
			Obs   []Obs
		}
		var jcases []jc
		var coqCases []string
		seen := map[string]bool{}
		sigSeen := map[string]bool{}
		compared := 0
		for _, r := range res {
			ctx.Meta.Dist["history:"+strings.SplitN(strings.SplitN(r.H.Note, "#", 2)[0], "/", 2)[0]]++
			if r.Diff != nil {
				ctx.Meta.Dist["histories-with-a-difference"]++
				ds := []*c18Difference{r.Diff}
				if m := c18ModeOf(r.Diff.Field); m != 0 { // what the other oracles see of it later in the same history, if anything
					if m == c18CmpWrote {
						if d2 := c18Compare(r.H.Ops, r.Traces, c18CmpStore); d2 != nil {
							ds = append(ds, d2)
						}
					}
					if d2 := c18Compare(r.H.Ops, r.Traces, 0); d2 != nil && (len(ds) < 2 || *d2 != *ds[1]) {
						ds = append(ds, d2)
					}
				}
				for _, d := range ds {
					if sig := c18Signature(r.H.Spec, r.H.Ops, d); !sigSeen[sig] { // one (shrunk) replay per signature
						sigSeen[sig] = true
						ctx.Meta.Findings = append(ctx.Meta.Findings, c18Finding(r.H, r.Traces, d))
					}
				}
			}
			compared += 6
			ctx.Meta.Ops += 4 * len(r.H.Ops)
			ref := r.Traces[0]
			okN, errN := 0, 0
			var sb strings.Builder
			for i, o := range ref.Obs {
				k := r.H.Ops[i].Kind
				ctx.Meta.Dist["op:"+k]++
				ctx.Meta.Dist["obs:"+o.Kind]++
				sb.WriteString(k + ":" + o.Kind + ":" + o.Err + ";")
				if o.Kind == "Err" || (o.Kind == "Nav" && o.NErr != "") || (o.Kind == "Intro" && !o.Active) {
					errN++
				} else if k != "Tick" && !c18IsPseudo(r.H.Ops[i]) {
					okN++
				}
			}
			if okN > 0 && errN > 0 {
				seen[sb.String()] = true
			}
			if c18HasPseudo(r.H.Ops) || c18SpecRemote(r.H.Spec) || c18HasFlag(r.H.Extra, c18FlagClaims) {
				ctx.Meta.Dist["histories-compared-on-the-go-side-only"]++
				continue
			}
			for _, t := range r.Traces {
				spec := r.H.Spec
				spec.Flavour, spec.FreshPer = t.Exec.Flavour, t.Exec.Fresh
				cs := Case{Profile: spec.Profile, Opts: spec.Opts, Static: spec.Static, Dyn: spec.Dyn, Ops: r.H.Ops, Obs: t.Obs}
				coqCases = append(coqCases, fmt.Sprintf("(mkC18 %s %s\n%s)", cB(t.Exec.Flavour == "alias"), cB(t.Exec.Fresh), cs.coq()))
				jcases = append(jcases, jc{len(jcases), r.H.Note + " under " + t.Exec.String(), spec, r.H.Ops, t.Obs})
			}
		}
		per := 150
		for k := 0; k*per < len(coqCases); k++ {
			hi := (k + 1) * per
			if hi > len(coqCases) {
				hi = len(coqCases)
			}
			var b strings.Builder
			b.WriteString(c18Header)
			var names []string
			for i, s := range coqCases[k*per : hi] {
				fmt.Fprintf(&b, "(*CASE %d %s*)\nDefinition c_%d : c18case :=\n%s.\n", k*per+i, jcases[k*per+i].Note, k*per+i, s)
				names = append(names, fmt.Sprintf("c_%d", k*per+i))
			}
			b.WriteString("(*END*)\nDefinition cases : list c18case := [" + strings.Join(names, "; ") + "].\n")
			b.WriteString("Definition corr := Eval vm_compute in map check_c18 cases.\nPrint corr.\n")
			name := fmt.Sprintf("cases_%03d.v", k)
			if err := os.WriteFile(filepath.Join(ctx.Out, name), []byte(b.String()), 0o644); err != nil {
				panic(err)
			}
			ctx.Meta.Files = append(ctx.Meta.Files, name)
		}
		jb, _ := json.Marshal(jcases)
		_ = os.WriteFile(filepath.Join(ctx.Out, "cases.json"), jb, 0o644)
		// the directed histories about state outside the storages, as they went (first execution)
		var tour []map[string]any
		for _, r := range res {
			if !strings.HasPrefix(r.H.Note, "corpus:remote:") && !strings.HasPrefix(r.H.Note, "corpus:authn:") && !strings.HasPrefix(r.H.Note, "corpus:pop:") && !strings.HasPrefix(r.H.Note, "corpus:fields:") {
				continue
			}
			var lines []string
			for i, o := range r.H.Ops {
				lines = append(lines, fmt.Sprintf("%d: %s  ==>  %s [%d]", i, c18Describe(o), r.Traces[0].Obs[i].coq(), r.Traces[0].Obs[i].Status))
			}
			tour = append(tour, map[string]any{"note": r.H.Note, "agree": r.Diff == nil, "operations": lines})
		}
		tb, _ := json.MarshalIndent(tour, "", " ")
		_ = os.WriteFile(filepath.Join(ctx.Out, "remote_corpus.json"), tb, 0o644)

		dh, dops := c18Dcr(ctx, ctx.N(10, 60))
		ctx.Meta.Ops += 4 * dops
		ctx.Meta.Dist["history:dcr"] = dh

		ctx.Meta.Cases = len(coqCases)
		ctx.Meta.Distinct = len(seen)
		ctx.Meta.Extra = map[string]any{"histories": len(hs), "executions_per_history": 4, "pairwise_trace_comparisons": compared,
			"dcr_histories": dh, "cases_for_the_model": len(coqCases), "histories_compared_on_the_go_side_only": ctx.Meta.Dist["histories-compared-on-the-go-side-only"]}
		ctx.Meta.Rule = "each history (corpus of the defects found + generator profiles code/refresh, PAR/sessions, CIBA, token life cycle; static or stored clients; sometimes a registration removed and restored in mid-history) is and, for state outside the storages, directed and generated histories whose clients authenticate with private_key_jwt and publish their keys at jwks_uri (static and stored), with world events between requests - key rotation, jwks_uri outage, new contents of sector_identifier_uri / of the request object hosted at request_uri, a failing CIBA notification endpoint, DCR of jwks_uri clients, the jwt-bearer grant with and without a client - is replayed under {copy, alias} x {one instance, fresh provider.New per request}; the four projected traces and the storage digests after every operation are compared pairwise; the transcript of an execution also holds the normalised claims of every JWT access token issued and every member of the introspection / userinfo answers; read-only requests (introspection, userinfo, TokenInfo helpers, discovery, jwks; directed blocks between the state changing steps of code / hybrid / CIBA flows with JWT and opaque tokens, and a generator dimension) must leave a deep snapshot of everything stored unchanged, under both storage flavours; directed histories for what the JSON document of a client and of a grant must carry: one registered client per authentication method (secret basic / post / jwt, private_key_jwt inline and jwks_uri, tls, self-signed tls, none, mixed per endpoint) authenticating at /token, /introspect, /revoke, /par with right, wrong and superseded credentials, re-registered and changing method; grants re-bound at refresh to another DPoP key / certificate and then asked about (introspection cnf, userinfo, TokenInfoFromRequest with both keys); life-time fields decided by Tick (code, session, access token, grant); each execution's trace is a case for the model (run / run_alias_trace); distinct by projected trace; non-trivial = at least one accepted and one refused operation"
		for i := 0; i < len(res) && len(ctx.Meta.Samples) < 2; i += 9 {
			var ops []string
			for j, o := range res[i].H.Ops {
				if j >= 10 || c18IsPseudo(o) {
					break
				}
				ops = append(ops, o.coq()+"  ==>  "+res[i].Traces[0].Obs[j].coq())
			}
			ctx.Meta.Samples = append(ctx.Meta.Samples, map[string]any{"note": res[i].H.Note, "options": cList(res[i].H.Spec.Opts, Opt.coq), "first_ops": ops})
		}
	}})

	// ./check C18 --replay <file>: re-run the four executions of a reported history
	replayers["c18"] = func(path string) int {
		b, err := os.ReadFile(path)
		if err != nil {
			fmt.Fprintln(os.Stderr, err)
			return 2
		}
		var fd struct {
			Replay struct {
				Spec         WorldSpec
				Ops          []Op
				ExtraTargets []string
			} `json:"replay"`
			Spec WorldSpec
			Ops  []Op
		}
		if err := json.Unmarshal(b, &fd); err != nil {
			fmt.Fprintln(os.Stderr, err)
			return 2
		}
		spec, ops, extra := fd.Replay.Spec, fd.Replay.Ops, fd.Replay.ExtraTargets
		if len(ops) == 0 {
			spec, ops = fd.Spec, fd.Ops
		}
		c18InstallHooks()
		trs, d := c18RunAll(spec, ops, extra, c18CmpAll)
		for i, o := range ops {
			fmt.Printf("%3d %s\n", i, c18Describe(o))
			for _, t := range trs {
				fmt.Printf("      %-34s => %s   [%d] %s\n", t.Exec, t.Obs[i].coq(), t.Obs[i].Status, truncate(t.Obs[i].Raw, 120))
				for _, c := range t.Claims[i] {
					fmt.Printf("      %-34s    %s\n", "", c)
				}
				if t.Wrote[i] != "" {
					fmt.Printf("      %-34s    READ-ONLY REQUEST WROTE: %s\n", "", t.Wrote[i])
				}
			}
		}
		if d == nil {
			fmt.Println("the four executions agree")
			return 0
		}
		fmt.Printf("DIFFERENCE %s at operation %d between %s and %s: %s\n", c18Signature(spec, ops, d), d.Op, c18Execs[d.A], c18Execs[d.B], d.Detail)
		return 1
	}
}
