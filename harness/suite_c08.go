package main

// C08 — every signed artifact verifies against the published keys and tells the truth.
//
// A configuration matrix (server signing algorithm x response type x response mode, with the
// per-client algorithm choices, encryption to a client key, subject type and token format rotating
// through it) is run against the REAL provider: authorize -> (code ->) token -> userinfo, plus
// client_credentials and jwt-bearer.  Go-side oracles, on real bytes:
//   * GET /jwks is fetched from the provider and parsed by hand; every JWS is verified with
//     crypto/rsa and crypto/ecdsa DIRECTLY (not go-jose) under the published key named by its kid,
//     with the algorithm that key is registered for, which must be the one selected for the client;
//   * at_hash / c_hash / s_hash are recomputed with SHA-256/384/512 from the sibling values delivered
//     in the same response;
//   * iss, aud / client_id, exp - iat = configured lifetime, expires_in, nonce, and the agreement of
//     sub between ID tokens and userinfo after the pairwise transformation.
// Each failed check is a Finding "<artifact kind>:<claim>".  The same responses, abstracted to flat
// atom lists, are compared with Model/Artifacts.v by Corr/C08.v (cases_NNN.v).
//
// Every configuration is additionally drawn from: path prefix ("", "/auth", "/a/b"), issuer variant
// (plain host, host:port, issuer with a path), subject configuration (subject_type public / pairwise /
// absent x default subject type public / pairwise, with and without a pairwise function, sector
// identifier), delegated signing (provider.WithSignFunc with a key set that holds only the public halves
// of the signing keys).  The relying party's view is taken literally: the discovery document is fetched
// from <prefix>/.well-known/openid-configuration, every endpoint and the jwks_uri are read from it, the
// keys are fetched from that jwks_uri, and iss of every artifact is compared with discovery's issuer.
// A deterministic cross section (every artifact kind x prefix x issuer variant x client algorithm
// choice x subject configuration) is run for every seed; the covered matrix is printed into meta.json.

import (
	"context"
	"regexp"
	"crypto"
	"crypto/ecdsa"
	"crypto/elliptic"
	"crypto/rand"
	"crypto/rsa"
	"crypto/sha256"
	"crypto/sha512"
	"encoding/base64"
	"encoding/json"
	"fmt"
	"hash"
	"html"
	"io"
	"math/big"
	"net/http"
	"net/http/httptest"
	"net/url"
	"os"
	"path/filepath"
	"sort"
	"strings"

	"github.com/go-jose/go-jose/v4"
	"github.com/luikyv/go-oidc/pkg/goidc"
	"github.com/luikyv/go-oidc/pkg/provider"
)

// ---- keys: generated once per run ----
type c08KeySet struct {
	rsa, rsaEnc              *rsa.PrivateKey
	ec256, ec384, ec521      *ecdsa.PrivateKey
	ecEnc                    *ecdsa.PrivateKey // a server ECDH-ES key (P-384)
	clientRSA                *rsa.PrivateKey
	clientEC                 *ecdsa.PrivateKey
}

var c08K *c08KeySet

func c08Keys() *c08KeySet {
	if c08K != nil {
		return c08K
	}
	mustRSA := func() *rsa.PrivateKey {
		k, err := rsa.GenerateKey(rand.Reader, 2048)
		if err != nil {
			panic(err)
		}
		return k
	}
	mustEC := func(c elliptic.Curve) *ecdsa.PrivateKey {
		k, err := ecdsa.GenerateKey(c, rand.Reader)
		if err != nil {
			panic(err)
		}
		return k
	}
	r := mustRSA() // one RSA key serves RS*/PS* and, under other kids, the encryption roles
	c08K = &c08KeySet{rsa: r, rsaEnc: mustRSA(), ec256: mustEC(elliptic.P256()), ec384: mustEC(elliptic.P384()),
		ec521: mustEC(elliptic.P521()), clientEC: mustEC(elliptic.P256()), ecEnc: mustEC(elliptic.P384())}
	c08K.clientRSA = c08K.rsaEnc // the client's RSA encryption key (a different party; same material saves a keygen)
	return c08K
}

var c08SigAlgs = []string{"RS256", "PS256", "PS384", "PS512", "ES256", "ES384", "ES512"}

// key pair numbers, as in the model cases
const (
	pairRSA = 1
	pairEC256 = 2
	pairEC384 = 3
	pairEC521 = 4
	pairSrvEnc = 5
	pairSrvECEnc = 6
	pairClientRSA = 11
	pairClientEC = 12
)

func (k *c08KeySet) signerFor(alg string) (any, int, string) {
	switch alg {
	case "ES256":
		return k.ec256, pairEC256, "KtyEC 256"
	case "ES384":
		return k.ec384, pairEC384, "KtyEC 384"
	case "ES512":
		return k.ec521, pairEC521, "KtyEC 521"
	}
	return k.rsa, pairRSA, "KtyRSA"
}

func c08PublicOf(key any) any {
	switch p := key.(type) {
	case *rsa.PrivateKey:
		return &p.PublicKey
	case *ecdsa.PrivateKey:
		return &p.PublicKey
	}
	return key
}

// what the embedder's JWKSFunc returns: one signing key per algorithm plus an encryption key.
// publicSig: signing is delegated (provider.WithSignFunc) and the set holds only the public halves of
// the signing keys; the encryption key stays private (request objects are still decrypted with it).
func (k *c08KeySet) serverJWKS(publicSig bool) goidc.JSONWebKeySet {
	var ks []goidc.JSONWebKey
	for _, a := range c08SigAlgs {
		key, _, _ := k.signerFor(a)
		if publicSig {
			key = c08PublicOf(key)
		}
		ks = append(ks, goidc.JSONWebKey{Key: key, KeyID: "srv-" + strings.ToLower(a), Algorithm: a, Use: "sig"})
	}
	ks = append(ks, goidc.JSONWebKey{Key: k.rsaEnc, KeyID: "srv-enc", Algorithm: "RSA-OAEP-256", Use: "enc"})
	return goidc.JSONWebKeySet{Keys: ks}
}

func (k *c08KeySet) serverJWKSCoq() string {
	var parts []string
	for _, a := range c08SigAlgs {
		_, pair, kty := k.signerFor(a)
		parts = append(parts, fmt.Sprintf("mkJwk %s (ASig %s) UseSig (%s) %d true", cS("srv-"+strings.ToLower(a)), a, kty, pair))
	}
	parts = append(parts, fmt.Sprintf("mkJwk %s (AEnc 1) UseEnc KtyRSA %d true", cS("srv-enc"), pairSrvEnc))
	return "[" + strings.Join(parts, "; ") + "]"
}

func (k *c08KeySet) pairOf(pub any) int {
	switch p := pub.(type) {
	case *rsa.PublicKey:
		if p.N.Cmp(k.rsa.N) == 0 && p.E == k.rsa.E {
			return pairRSA
		}
		if p.N.Cmp(k.rsaEnc.N) == 0 {
			return pairSrvEnc
		}
	case *ecdsa.PublicKey:
		for _, c := range []struct {
			k *ecdsa.PrivateKey
			n int
		}{{k.ec256, pairEC256}, {k.ec384, pairEC384}, {k.ec521, pairEC521}, {k.ecEnc, pairSrvECEnc}} {
			if p.Curve == c.k.Curve && p.X.Cmp(c.k.X) == 0 && p.Y.Cmp(c.k.Y) == 0 {
				return c.n
			}
		}
	}
	return 0
}

func (k *c08KeySet) clientJWKS() json.RawMessage {
	set := jose.JSONWebKeySet{Keys: []jose.JSONWebKey{
		{Key: &k.clientRSA.PublicKey, KeyID: "c-rsa", Algorithm: "RSA-OAEP-256", Use: "enc"},
		{Key: &k.clientEC.PublicKey, KeyID: "c-ec", Algorithm: "ECDH-ES", Use: "enc"},
	}}
	b, _ := json.Marshal(set)
	return b
}

// ---- the published key set, parsed by hand ----
type pubJWK struct {
	Kid, Alg, Use, Kty, Crv string
	Pub                     any
	Members                 []string
}

func b64big(s any) *big.Int {
	str, _ := s.(string)
	b, err := base64.RawURLEncoding.DecodeString(str)
	if err != nil || len(b) == 0 {
		return nil
	}
	return new(big.Int).SetBytes(b)
}

func parseJWKS(raw []byte) ([]pubJWK, error) {
	var doc struct {
		Keys []map[string]any `json:"keys"`
	}
	if err := json.Unmarshal(raw, &doc); err != nil {
		return nil, err
	}
	var out []pubJWK
	for _, m := range doc.Keys {
		s := func(k string) string { v, _ := m[k].(string); return v }
		j := pubJWK{Kid: s("kid"), Alg: s("alg"), Use: s("use"), Kty: s("kty"), Crv: s("crv")}
		for name := range m {
			j.Members = append(j.Members, name)
		}
		sort.Strings(j.Members)
		switch j.Kty {
		case "RSA":
			n, e := b64big(m["n"]), b64big(m["e"])
			if n != nil && e != nil {
				j.Pub = &rsa.PublicKey{N: n, E: int(e.Int64())}
			}
		case "EC":
			var c elliptic.Curve
			switch j.Crv {
			case "P-256":
				c = elliptic.P256()
			case "P-384":
				c = elliptic.P384()
			case "P-521":
				c = elliptic.P521()
			}
			x, y := b64big(m["x"]), b64big(m["y"])
			if c != nil && x != nil && y != nil {
				j.Pub = &ecdsa.PublicKey{Curve: c, X: x, Y: y}
			}
		}
		out = append(out, j)
	}
	return out, nil
}

func c08Hash(alg string) (crypto.Hash, func() hash.Hash) {
	switch {
	case strings.HasSuffix(alg, "512"):
		return crypto.SHA512, sha512.New
	case strings.HasSuffix(alg, "384"):
		return crypto.SHA384, sha512.New384
	}
	return crypto.SHA256, sha256.New
}

// verifyCompact verifies header.payload.signature under pub with alg, using only the standard library.
func verifyCompact(compact string, pub any, alg string) error {
	parts := strings.Split(compact, ".")
	if len(parts) != 3 {
		return fmt.Errorf("not a compact JWS (%d parts)", len(parts))
	}
	sig, err := base64.RawURLEncoding.Strict().DecodeString(parts[2])
	if err != nil {
		return fmt.Errorf("signature is not canonical base64url: %v", err)
	}
	ch, newH := c08Hash(alg)
	h := newH()
	h.Write([]byte(parts[0] + "." + parts[1]))
	digest := h.Sum(nil)
	switch alg[:2] {
	case "RS":
		p, ok := pub.(*rsa.PublicKey)
		if !ok {
			return fmt.Errorf("alg %s needs an RSA key", alg)
		}
		return rsa.VerifyPKCS1v15(p, ch, digest, sig)
	case "PS":
		p, ok := pub.(*rsa.PublicKey)
		if !ok {
			return fmt.Errorf("alg %s needs an RSA key", alg)
		}
		return rsa.VerifyPSS(p, ch, digest, sig, &rsa.PSSOptions{SaltLength: rsa.PSSSaltLengthEqualsHash, Hash: ch})
	case "ES":
		p, ok := pub.(*ecdsa.PublicKey)
		if !ok {
			return fmt.Errorf("alg %s needs an EC key", alg)
		}
		want := map[string]int{"ES256": 256, "ES384": 384, "ES512": 521}[alg]
		if p.Curve.Params().BitSize != want {
			return fmt.Errorf("alg %s needs a P-%d key, the published key is P-%d", alg, want, p.Curve.Params().BitSize)
		}
		n := (want + 7) / 8
		if len(sig) != 2*n {
			return fmt.Errorf("ECDSA signature of %d bytes, want %d", len(sig), 2*n)
		}
		if !ecdsa.Verify(p, digest, new(big.Int).SetBytes(sig[:n]), new(big.Int).SetBytes(sig[n:])) {
			return fmt.Errorf("ECDSA verification failed")
		}
		return nil
	}
	return fmt.Errorf("unsupported alg %q", alg)
}

func halfHashGo(value string, bits int) string {
	var h hash.Hash
	switch bits {
	case 512:
		h = sha512.New()
	case 384:
		h = sha512.New384()
	default:
		h = sha256.New()
	}
	h.Write([]byte(value))
	sum := h.Sum(nil)
	return base64.RawURLEncoding.EncodeToString(sum[:len(sum)/2])
}

func algBits(alg string) int {
	switch {
	case strings.HasSuffix(alg, "512"):
		return 512
	case strings.HasSuffix(alg, "384"):
		return 384
	}
	return 256
}

// ---- one configuration ----
type c08Cfg struct {
	SrvAlg      string // default ID token / userinfo / JARM algorithm and the JWT access-token algorithm
	IdtLifetime int
	TokLifetime int
	IssuerParam bool
	JARM        bool
	Enc         bool
	ClIdtAlg    string
	ClUiAlg     string
	ClJarmAlg   string
	ClEnc       string // "", RSA-OAEP-256, ECDH-ES
	// subjects: the client's subject_type ("public", "pairwise" or "" = absent), whether the provider's
	// DEFAULT subject type is pairwise, whether a pairwise function is configured (without one the
	// pairwise subject is the subject itself), whether the client registered a sector_identifier_uri
	SubType         string
	DefaultPairwise bool
	NoPairwiseFn    bool
	Sector          bool
	// mounting: endpoint prefix (provider.WithPathPrefix) and issuer ("" = the harness's default)
	Prefix string
	Issuer string
	// signing delegated to provider.WithSignFunc; the key set then holds only public signing keys
	SignFunc  bool
	JWTTokens bool
	RespType    string
	RespMode    string
	State       string
	Nonce       string
	Sub         string
	Scopes      string

	disc *c08Disc // the discovery document of the provider built from this configuration (set by the run)
}

var c08Prefixes = []string{"", "/auth", "/a/b"}
var c08Issuers = []string{"", "https://as.example:8443", "https://login.example/tenant1"}

func (cf c08Cfg) issuer() string {
	if cf.Issuer != "" {
		return cf.Issuer
	}
	return issuer
}

// the issuer the relying party expects: the one the discovery document names
func (cf c08Cfg) wantIss() string {
	if cf.disc != nil {
		return cf.disc.Issuer
	}
	return cf.issuer()
}
func (cf c08Cfg) issuerKind() string {
	switch cf.Issuer {
	case "":
		return "host"
	case c08Issuers[1]:
		return "host:port"
	}
	return "host/path"
}

// shouldGeneratePairwiseSub, as the registration determines it
func (cf c08Cfg) pairwise() bool {
	return cf.SubType == "pairwise" || (cf.SubType == "" && cf.DefaultPairwise)
}
func (cf c08Cfg) subjectConfig() string {
	st := cf.SubType
	if st == "" {
		st = "absent"
	}
	d := "public"
	if cf.DefaultPairwise {
		d = "pairwise"
	}
	s := "subject_type=" + st + ",default=" + d
	if cf.Sector {
		s += ",sector_identifier_uri"
	}
	if cf.NoPairwiseFn {
		s += ",no-pairwise-func"
	}
	return s
}

const c08Client = "c1"
const c08Secret = "c08-client-secret"
const c08Redirect = "https://c1.example/cb"

func (cf c08Cfg) idtAlg() string {
	if cf.ClIdtAlg != "" {
		return cf.ClIdtAlg
	}
	return cf.SrvAlg
}
func (cf c08Cfg) uiAlg() string {
	if cf.ClUiAlg != "" {
		return cf.ClUiAlg
	}
	return cf.SrvAlg
}
func (cf c08Cfg) jarmAlg() string {
	if cf.ClJarmAlg != "" {
		return cf.ClJarmAlg
	}
	return cf.SrvAlg
}
func (cf c08Cfg) exportSub() string {
	if cf.pairwise() && !cf.NoPairwiseFn {
		return "pw:" + c08Client + ":" + cf.Sub
	}
	return cf.Sub
}
func (cf c08Cfg) encPair() int {
	if !cf.Enc {
		return 0
	}
	switch cf.ClEnc {
	case "RSA-OAEP-256":
		return pairClientRSA
	case "ECDH-ES":
		return pairClientEC
	}
	return 0
}

func cOptAlg(a string) string {
	if a == "" {
		return "None"
	}
	return "(Some " + a + ")"
}
func cOptN(n int) string {
	if n == 0 {
		return "None"
	}
	return fmt.Sprintf("(Some %d)", n)
}

func (cf c08Cfg) acfgCoq() string {
	k := c08Keys()
	// a SignerFunc is modelled as the holder of the private halves: the model signs with the keys of
	// the set (Props/C08.v delegated_signature_verifies_under_published_key relates the two)
	return fmt.Sprintf("(mkACfg %s %s %s false %s %s %s false %s %s %s 600%%Z %s %s %s %s)",
		cS(cf.issuer()), k.serverJWKSCoq(), cf.SrvAlg, cZ(cf.IdtLifetime), cB(cf.Enc), cf.SrvAlg, cB(cf.Enc),
		cB(cf.JARM), cf.SrvAlg, cB(cf.Enc), cB(cf.IssuerParam), cB(cf.DefaultPairwise), cB(!cf.NoPairwiseFn))
}

// the configuration as the /jwks endpoint sees it: the key set as JWKSFunc returns it
func (cf c08Cfg) acfgMetaCoq() string {
	k := c08Keys()
	keys := k.serverJWKSCoq()
	if cf.SignFunc {
		var parts []string
		for _, a := range c08SigAlgs {
			_, pair, kty := k.signerFor(a)
			parts = append(parts, fmt.Sprintf("mkJwk %s (ASig %s) UseSig (%s) %d false", cS("srv-"+strings.ToLower(a)), a, kty, pair))
		}
		parts = append(parts, fmt.Sprintf("mkJwk %s (AEnc 1) UseEnc KtyRSA %d true", cS("srv-enc"), pairSrvEnc))
		keys = "[" + strings.Join(parts, "; ") + "]"
	}
	return fmt.Sprintf("(mkACfg %s %s %s false %s %s %s false %s %s %s 600%%Z %s %s %s %s)",
		cS(cf.issuer()), keys, cf.SrvAlg, cZ(cf.IdtLifetime), cB(cf.Enc), cf.SrvAlg, cB(cf.Enc),
		cB(cf.JARM), cf.SrvAlg, cB(cf.Enc), cB(cf.IssuerParam), cB(cf.DefaultPairwise), cB(!cf.NoPairwiseFn))
}
func (cf c08Cfg) khCoq() string {
	signer := "None"
	if cf.SignFunc {
		k := c08Keys()
		var parts []string
		for _, a := range c08SigAlgs {
			_, pair, _ := k.signerFor(a)
			parts = append(parts, fmt.Sprintf("(%s, (%s, %d))", a, cS("srv-"+strings.ToLower(a)), pair))
		}
		signer = "(Some [" + strings.Join(parts, "; ") + "])"
	}
	return fmt.Sprintf("(mkKeyHandling %s %s false)", cS(cf.Prefix), signer)
}
func (cf c08Cfg) aclientCoq() string {
	e := cOptN(cf.encPair())
	if cf.ClEnc == "" {
		e = "None"
	} else if !cf.Enc {
		// registered for encryption although the server has it disabled: the model must ignore it too
		e = cOptN(map[string]int{"RSA-OAEP-256": pairClientRSA, "ECDH-ES": pairClientEC}[cf.ClEnc])
	}
	st := map[string]string{"": "None", "public": "(Some false)", "pairwise": "(Some true)"}[cf.SubType]
	return fmt.Sprintf("(mkAClient %s %s %s %s %s %s %s %s)", cS(c08Client), cOptAlg(cf.ClIdtAlg), e,
		cOptAlg(cf.ClUiAlg), e, cOptAlg(cf.ClJarmAlg), e, st)
}
func (cf c08Cfg) tokoptsCoq() string {
	return fmt.Sprintf("(mkTokOpts %s %s %s)", cB(cf.JWTTokens), cf.SrvAlg, cZ(cf.TokLifetime))
}

// ---- the run ----
type c08Run struct {
	ctx      *RunCtx
	findings map[string]Finding
	cases    []string
	notes    []map[string]any
	arts     map[string]int
	matrix   map[string]int // the covered configuration matrix (artifact kind @ where issued x configuration dimension)
	metaSeen map[string]bool
	site     string // where the artifact being opened was issued
	seen     map[string]bool
	nontriv  int
}

func newC08Run(ctx *RunCtx) *c08Run {
	return &c08Run{ctx: ctx, findings: map[string]Finding{}, arts: map[string]int{}, matrix: map[string]int{},
		metaSeen: map[string]bool{}, seen: map[string]bool{}}
}

// cover records one verified artifact in the configuration matrix
func (r *c08Run) cover(kind string, cf c08Cfg, signed bool) {
	own := "default"
	switch kind {
	case "id_token":
		if cf.ClIdtAlg != "" {
			own = "client"
		}
	case "userinfo":
		if cf.ClUiAlg != "" {
			own = "client"
		}
	case "jarm":
		if cf.ClJarmAlg != "" {
			own = "client"
		}
	default:
		own = "token-options"
	}
	a := kind + "@" + r.site
	if !signed {
		a += "(unsigned)"
	}
	r.matrix[fmt.Sprintf("%s | prefix=%q | issuer=%s | alg-choice=%s", a, cf.Prefix, cf.issuerKind(), own)]++
	r.matrix[fmt.Sprintf("%s | %s", a, cf.subjectConfig())]++
	r.matrix[fmt.Sprintf("%s | signfunc=%v | encrypted=%v", a, cf.SignFunc, cf.encPair() != 0)]++
}

// what a relying party reads from the discovery document
type c08Disc struct {
	Issuer   string `json:"issuer"`
	JWKSURI  string `json:"jwks_uri"`
	Authz    string `json:"authorization_endpoint"`
	Token    string `json:"token_endpoint"`
	Userinfo string `json:"userinfo_endpoint"`
}

// path: the request target of an advertised endpoint (the embedder mounts the handler at the issuer)
func (cf c08Cfg) path(endpoint string) string {
	if strings.HasPrefix(endpoint, cf.issuer()) {
		return endpoint[len(cf.issuer()):]
	}
	if u, err := url.Parse(endpoint); err == nil {
		return u.Path
	}
	return endpoint
}

// discover fetches the discovery document from where the provider serves it, checks that it names the
// configured issuer and endpoints under the prefix, fetches the key set from the advertised jwks_uri,
// and emits the CMeta model case.  On success cf.disc is set.
func (r *c08Run) discover(h http.Handler, cf *c08Cfg) ([]pubJWK, bool) {
	target := cf.Prefix + "/.well-known/openid-configuration"
	rec := c08Serve(h, "GET", target, nil, nil)
	var d c08Disc
	if rec.Code != 200 || json.Unmarshal(rec.Body.Bytes(), &d) != nil {
		r.fail("discovery", "format", fmt.Sprintf("GET %s: status %d", target, rec.Code), *cf, map[string]any{"response": truncate(rec.Body.String(), 600)})
		return nil, false
	}
	rp := map[string]any{"discovery": d, "request": "GET " + target}
	if d.Issuer != cf.issuer() {
		r.fail("discovery", "issuer", fmt.Sprintf("issuer = %q, the provider was created with %q", d.Issuer, cf.issuer()), *cf, rp)
	}
	for name, e := range map[string]string{"jwks_uri": d.JWKSURI, "authorization_endpoint": d.Authz, "token_endpoint": d.Token, "userinfo_endpoint": d.Userinfo} {
		if !strings.HasPrefix(e, cf.issuer()+cf.Prefix+"/") {
			r.fail("discovery", "endpoint", fmt.Sprintf("%s = %q is not under %q", name, e, cf.issuer()+cf.Prefix), *cf, rp)
		}
	}
	cf.disc = &d
	rec = c08Serve(h, "GET", cf.path(d.JWKSURI), nil, nil)
	keys, err := parseJWKS(rec.Body.Bytes())
	if err != nil || rec.Code != 200 {
		r.fail("jwks", "format", fmt.Sprintf("GET %s: status %d, %v", cf.path(d.JWKSURI), rec.Code, err), *cf, rp)
		return nil, false
	}
	var mo atoms
	mo.S(d.Issuer)
	mo.S(d.JWKSURI)
	for _, k := range keys {
		priv := 0
		for _, m := range k.Members {
			switch m {
			case "d", "p", "q", "dp", "dq", "qi", "k", "oth":
				priv = 1
				r.fail("jwks", "private-member", fmt.Sprintf("GET %s: key %q publishes the private member %q", cf.path(d.JWKSURI), k.Kid, m), *cf, rp)
			}
		}
		mo.S(k.Kid)
		mo.N(c08KalgIx(k.Alg))
		mo.N(c08Keys().pairOf(k.Pub))
		mo.N(priv)
	}
	r.matrix[fmt.Sprintf("jwks+discovery | prefix=%q | issuer=%s | signfunc=%v", cf.Prefix, cf.issuerKind(), cf.SignFunc)]++
	if key := fmt.Sprintf("%s|%s|%v", cf.Prefix, cf.issuer(), cf.SignFunc); !r.metaSeen[key] {
		r.metaSeen[key] = true
		r.addCase(fmt.Sprintf("CMeta %s %s %s", cf.acfgMetaCoq(), cf.khCoq(), mo.coq()),
			fmt.Sprintf("discovery+jwks prefix=%q issuer=%s signfunc=%v", cf.Prefix, cf.issuer(), cf.SignFunc), map[string]any{"cfg": *cf}, mo)
	}
	return keys, true
}

// the index of a JWK's alg member, as Model/ArtifactsX.v kalg_ix
func c08KalgIx(alg string) int {
	if n, ok := algIx[alg]; ok {
		return n
	}
	switch alg {
	case "RSA-OAEP-256":
		return 101
	case "ECDH-ES":
		return 102
	case "RSA-OAEP":
		return 103
	case "HS256":
		return 10
	}
	return 100
}

// c08ServeHook, when set, sees every response the c08 flows obtain (suite c09 scans them)
var c08ServeHook func(method, target string, form url.Values, hdr http.Header, rec *httptest.ResponseRecorder)

func (r *c08Run) fail(kind, claim, what string, cf any, extra map[string]any) {
	sig := kind + ":" + claim
	r.arts["FAILED "+sig]++
	if _, ok := r.findings[sig]; ok {
		return
	}
	rp := map[string]any{"configuration": cf}
	for k, v := range extra {
		rp[k] = v
	}
	r.findings[sig] = Finding{Property: "C08", Signature: sig, What: kind + ": " + what, Replay: rp}
}

func c08Serve(h http.Handler, method, target string, form url.Values, hdr http.Header) *httptest.ResponseRecorder {
	var body io.Reader
	if form != nil {
		body = strings.NewReader(form.Encode())
	}
	req := httptest.NewRequest(method, target, body)
	if form != nil {
		req.Header.Set("Content-Type", "application/x-www-form-urlencoded")
	}
	for k, vs := range hdr {
		for _, v := range vs {
			req.Header.Add(k, v)
		}
	}
	rec := httptest.NewRecorder()
	h.ServeHTTP(rec, req)
	if c08ServeHook != nil {
		c08ServeHook(method, target, form, hdr, rec)
	}
	return rec
}

func (cf c08Cfg) client() *goidc.Client {
	c := &goidc.Client{ID: c08Client, HashedSecret: bcryptOf(c08Secret)}
	c.TokenAuthnMethod = goidc.ClientAuthnSecretPost
	c.GrantTypes = []goidc.GrantType{goidc.GrantAuthorizationCode, goidc.GrantImplicit, goidc.GrantClientCredentials, goidc.GrantJWTBearer, goidc.GrantRefreshToken}
	c.ResponseTypes = []goidc.ResponseType{"code", "token", "id_token", "id_token token", "code id_token", "code token", "code id_token token"}
	c.RedirectURIs = []string{c08Redirect}
	c.ScopeIDs = "openid email profile"
	c.IDTokenSigAlg = goidc.SignatureAlgorithm(cf.ClIdtAlg)
	c.UserInfoSigAlg = goidc.SignatureAlgorithm(cf.ClUiAlg)
	c.JARMSigAlg = goidc.SignatureAlgorithm(cf.ClJarmAlg)
	if cf.ClEnc != "" {
		c.IDTokenKeyEncAlg = goidc.KeyEncryptionAlgorithm(cf.ClEnc)
		c.UserInfoKeyEncAlg = goidc.KeyEncryptionAlgorithm(cf.ClEnc)
		c.JARMKeyEncAlg = goidc.KeyEncryptionAlgorithm(cf.ClEnc)
		c.PublicJWKS = c08Keys().clientJWKS()
	}
	c.SubIdentifierType = goidc.SubIdentifierType(cf.SubType) // "" : the provider's default applies
	if cf.Sector {
		c.SectorIdentifierURI = "https://sector.example/" + c08Client + ".json"
	}
	return c
}

func (cf c08Cfg) provider() (http.Handler, error) {
	k := c08Keys()
	var algs []goidc.SignatureAlgorithm
	for _, a := range c08SigAlgs {
		algs = append(algs, goidc.SignatureAlgorithm(a))
	}
	def := goidc.SignatureAlgorithm(cf.SrvAlg)
	opts := []provider.ProviderOption{
		provider.WithScopes(goidc.ScopeOpenID, goidc.NewScope("email"), goidc.NewScope("profile")),
		provider.WithAuthorizationCodeGrant(), provider.WithImplicitGrant(), provider.WithClientCredentialsGrant(),
		provider.WithRefreshTokenGrant(func(*goidc.Client, goidc.GrantInfo) bool { return true }, 600),
		provider.WithJWTBearerGrant(func(r *http.Request, a string) (goidc.JWTBearerGrantInfo, error) {
			return goidc.JWTBearerGrantInfo{Subject: strings.TrimPrefix(a, "ok:")}, nil
		}),
		provider.WithTokenAuthnMethods(goidc.ClientAuthnSecretPost),
		provider.WithIDTokenSignatureAlgs(def, algs...),
		provider.WithUserInfoSignatureAlgs(def, algs...),
		provider.WithIDTokenLifetime(cf.IdtLifetime),
		provider.WithStaticClient(cf.client()),
		provider.WithTokenOptions(func(gi goidc.GrantInfo, c *goidc.Client) goidc.TokenOptions {
			if cf.JWTTokens {
				return goidc.NewJWTTokenOptions(def, cf.TokLifetime)
			}
			return goidc.NewOpaqueTokenOptions(goidc.DefaultOpaqueTokenLength, cf.TokLifetime)
		}),
		provider.WithPolicy(goidc.NewPolicy("main",
			func(*http.Request, *goidc.Client, *goidc.AuthnSession) bool { return true },
			func(rw http.ResponseWriter, r *http.Request, s *goidc.AuthnSession) (goidc.AuthnStatus, error) {
				s.SetUserID(cf.Sub)
				s.GrantScopes(s.Scopes)
				return goidc.StatusSuccess, nil
			})),
	}
	if cf.DefaultPairwise {
		opts = append(opts, provider.WithSubIdentifierTypes(goidc.SubIdentifierPairwise, goidc.SubIdentifierPublic))
	} else {
		opts = append(opts, provider.WithSubIdentifierTypes(goidc.SubIdentifierPublic, goidc.SubIdentifierPairwise))
	}
	if !cf.NoPairwiseFn {
		opts = append(opts, provider.WithGeneratePairwiseSubIDFunc(func(_ context.Context, sub string, c *goidc.Client) string {
			return "pw:" + c.ID + ":" + sub
		}))
	}
	if cf.Prefix != "" {
		opts = append(opts, provider.WithPathPrefix(cf.Prefix))
	}
	if cf.SignFunc {
		opts = append(opts, provider.WithSignFunc(func(_ context.Context, a goidc.SignatureAlgorithm) (string, crypto.Signer, error) {
			key, _, _ := k.signerFor(string(a))
			return "srv-" + strings.ToLower(string(a)), key.(crypto.Signer), nil
		}))
	}
	if cf.JARM {
		opts = append(opts, provider.WithJARM(def, algs...))
	}
	if cf.IssuerParam {
		opts = append(opts, provider.WithIssuerResponseParameter())
	}
	if cf.Enc {
		opts = append(opts, provider.WithIDTokenEncryption(goidc.RSA_OAEP_256, "ECDH-ES"),
			provider.WithUserInfoEncryption(goidc.RSA_OAEP_256, "ECDH-ES"))
		if cf.JARM {
			opts = append(opts, provider.WithJARMEncryption(goidc.RSA_OAEP_256, "ECDH-ES"))
		}
	}
	jwks := k.serverJWKS(cf.SignFunc)
	p, err := provider.New(goidc.ProfileOpenID, cf.issuer(), func(context.Context) (goidc.JSONWebKeySet, error) { return jwks, nil }, opts...)
	if err != nil {
		return nil, err
	}
	return p.Handler(), nil
}

// a JWT as the harness sees it after decrypting and verifying
type seenJWT struct {
	Raw     string
	Enc     int // client key pair it was encrypted to (0: not encrypted)
	Signed  bool
	Pair    int
	Alg     string
	Kid     string
	Typ     string
	Claims  map[string]any
	Present bool
}

func (r *c08Run) decrypt(kind string, tok string, cf c08Cfg) (string, int) {
	if strings.Count(tok, ".") != 4 {
		return tok, 0
	}
	k := c08Keys()
	jwe, err := jose.ParseEncrypted(tok, []jose.KeyAlgorithm{jose.RSA_OAEP_256, jose.ECDH_ES},
		[]jose.ContentEncryption{jose.A128CBC_HS256, jose.A128GCM, jose.A256GCM})
	if err != nil {
		r.fail(kind, "encryption", "not a JWE the client can parse: "+err.Error(), cf, map[string]any{"token": tok})
		return "", 0
	}
	var key any = k.clientRSA
	pair := pairClientRSA
	if jwe.Header.Algorithm == "ECDH-ES" {
		key, pair = k.clientEC, pairClientEC
	}
	plain, err := jwe.Decrypt(key)
	if err != nil {
		r.fail(kind, "encryption", "the client's key does not decrypt it: "+err.Error(), cf, map[string]any{"token": tok})
		return "", 0
	}
	return string(plain), pair
}

// open decrypts (if needed), verifies under the published keys with the standard library and decodes.
func (r *c08Run) open(kind, tok string, wantAlg string, wantEnc int, keys []pubJWK, cf c08Cfg) seenJWT {
	out := seenJWT{Raw: tok, Present: tok != ""}
	if tok == "" {
		return out
	}
	r.arts[kind]++
	inner, enc := r.decrypt(kind, tok, cf)
	out.Enc = enc
	if enc != wantEnc {
		r.fail(kind, "encryption", fmt.Sprintf("encrypted to key %d, expected %d (0 = not encrypted)", enc, wantEnc), cf, map[string]any{"token": tok})
	}
	parts := strings.Split(inner, ".")
	if len(parts) != 3 {
		r.fail(kind, "format", "not a compact JWS", cf, map[string]any{"token": tok})
		return out
	}
	hb, err1 := base64.RawURLEncoding.DecodeString(parts[0])
	pb, err2 := base64.RawURLEncoding.DecodeString(parts[1])
	var hdr map[string]any
	if err1 != nil || err2 != nil || json.Unmarshal(hb, &hdr) != nil || json.Unmarshal(pb, &out.Claims) != nil {
		r.fail(kind, "format", "header or payload does not decode", cf, map[string]any{"token": tok})
		return out
	}
	out.Alg, _ = hdr["alg"].(string)
	out.Kid, _ = hdr["kid"].(string)
	out.Typ, _ = hdr["typ"].(string)
	if out.Alg == "none" || parts[2] == "" {
		r.fail(kind, "signature", "unsigned artifact", cf, map[string]any{"token": inner})
		return out
	}
	out.Signed = true
	if out.Alg != wantAlg {
		r.fail(kind, "alg", fmt.Sprintf("signed with %s, the algorithm selected for the client is %s", out.Alg, wantAlg), cf, map[string]any{"token": inner})
	}
	var key *pubJWK
	for i := range keys {
		if keys[i].Kid == out.Kid {
			key = &keys[i]
			break
		}
	}
	if key == nil || key.Pub == nil {
		r.fail(kind, "kid", fmt.Sprintf("kid %q names no usable key published at /jwks", out.Kid), cf, map[string]any{"token": inner})
		return out
	}
	if key.Alg != out.Alg {
		r.fail(kind, "kid", fmt.Sprintf("kid %q is published for alg %s, the header says %s", out.Kid, key.Alg, out.Alg), cf, map[string]any{"token": inner})
	}
	if err := verifyCompact(inner, key.Pub, out.Alg); err != nil {
		r.fail(kind, "signature", fmt.Sprintf("does not verify under the published key %q with %s: %v", out.Kid, out.Alg, err), cf, map[string]any{"token": inner})
		return out
	}
	out.Pair = c08Keys().pairOf(key.Pub)
	r.cover(kind, cf, true)
	return out
}

func claimStr(m map[string]any, k string) string { s, _ := m[k].(string); return s }
func claimInt(m map[string]any, k string) int {
	f, _ := m[k].(float64)
	return int(f)
}
func claimHas(m map[string]any, k string) bool { _, ok := m[k]; return ok }

// aud may be a string or a one-element array
func claimAud(m map[string]any) (string, bool) {
	switch v := m["aud"].(type) {
	case string:
		return v, true
	case []any:
		if len(v) == 1 {
			s, _ := v[0].(string)
			return s, true
		}
		return fmt.Sprint(v), true
	}
	return "", false
}

// ---- atoms (Corr/C08.v) ----
type atoms []string

func (a *atoms) N(n int)      { *a = append(*a, fmt.Sprintf("AN %d", n)) }
func (a *atoms) S(s string)   { *a = append(*a, "AS "+cS(s)) }
func (a *atoms) Z(z int)      { *a = append(*a, "AZ "+cZ(z)) }
func (a *atoms) OptS(s string, present bool) {
	if present {
		a.N(1)
		a.S(s)
	} else {
		a.N(0)
		a.S("")
	}
}
func (a atoms) coq() string { return "[" + strings.Join(a, "; ") + "]" }

var algIx = map[string]int{"RS256": 1, "RS384": 2, "RS512": 3, "PS256": 4, "PS384": 5, "PS512": 6, "ES256": 7, "ES384": 8, "ES512": 9}

func (a *atoms) sig(j seenJWT) {
	a.N(j.Pair)
	a.N(algIx[j.Alg])
	a.S(j.Kid)
	a.S(j.Typ)
}
func (a *atoms) body(j seenJWT) {
	if j.Signed {
		a.N(1)
		a.sig(j)
	} else {
		a.N(0)
	}
}

type siblings struct{ At, Code, State, Rt string }

// hashAtoms classifies a hash claim: which hash size and which delivered sibling reproduce it
func (a *atoms) hash(m map[string]any, name string, sb siblings) {
	v, ok := m[name].(string)
	if !ok {
		a.N(0)
		a.N(0)
		return
	}
	for _, bits := range []int{256, 384, 512} {
		for cls, val := range map[int]string{1: sb.At, 2: sb.Code, 3: sb.State, 4: sb.Rt} {
			if val != "" && halfHashGo(val, bits) == v {
				a.N(bits)
				a.N(cls)
				return
			}
		}
	}
	a.N(999)
	a.N(9)
}

func (a *atoms) idt(j seenJWT, sb siblings) {
	a.N(j.Enc)
	a.body(j)
	a.S(claimStr(j.Claims, "sub"))
	a.S(claimStr(j.Claims, "iss"))
	a.Z(claimInt(j.Claims, "exp") - claimInt(j.Claims, "iat"))
	aud, has := claimAud(j.Claims)
	a.OptS(aud, has)
	a.hash(j.Claims, "at_hash", sb)
	a.hash(j.Claims, "c_hash", sb)
	a.hash(j.Claims, "s_hash", sb)
	a.hash(j.Claims, "urn:openid:params:jwt:claim:rt_hash", sb)
	a.hash(j.Claims, "urn:openid:params:jwt:claim:auth_req_id", sb)
	a.OptS(claimStr(j.Claims, "nonce"), claimHas(j.Claims, "nonce"))
}
func (a *atoms) oidt(j seenJWT, sb siblings) {
	if !j.Present {
		a.N(0)
		return
	}
	a.N(1)
	a.idt(j, sb)
}

func (a *atoms) token(tok string, j seenJWT) {
	switch {
	case tok == "":
		a.N(0)
	case strings.Count(tok, ".") != 2:
		a.N(1)
	default:
		a.N(2)
		a.sig(j)
		a.S(claimStr(j.Claims, "iss"))
		a.S(claimStr(j.Claims, "sub"))
		a.S(claimStr(j.Claims, "scope"))
		a.Z(claimInt(j.Claims, "exp") - claimInt(j.Claims, "iat"))
		a.OptS(claimStr(j.Claims, "client_id"), claimHas(j.Claims, "client_id"))
		if claimHas(j.Claims, "cnf") {
			a.N(1)
		} else {
			a.N(0)
		}
	}
}

// ---- Go-side checks ----
func (r *c08Run) checkIDToken(kind string, j seenJWT, cf c08Cfg, sb siblings, hashesRequired bool) {
	if !j.Present || j.Claims == nil {
		return
	}
	rp := map[string]any{"id_token": j.Raw, "claims": j.Claims, "siblings": sb}
	if claimStr(j.Claims, "iss") != cf.wantIss() {
		r.fail(kind, "iss", fmt.Sprintf("iss = %q, the issuer named by the discovery document is %q", claimStr(j.Claims, "iss"), cf.wantIss()), cf, rp)
	}
	if aud, _ := claimAud(j.Claims); aud != c08Client {
		r.fail(kind, "aud", fmt.Sprintf("aud = %q, the client is %q", aud, c08Client), cf, rp)
	}
	if d := claimInt(j.Claims, "exp") - claimInt(j.Claims, "iat"); d != cf.IdtLifetime {
		r.fail(kind, "exp", fmt.Sprintf("exp - iat = %d, the configured ID token lifetime is %d", d, cf.IdtLifetime), cf, rp)
	}
	if now := int(nowUnix()); claimInt(j.Claims, "iat") < now-5 || claimInt(j.Claims, "iat") > now+1 {
		r.fail(kind, "iat", "iat is not the time of issuance", cf, rp)
	}
	if cf.Nonce != "" && claimStr(j.Claims, "nonce") != cf.Nonce {
		r.fail(kind, "nonce", fmt.Sprintf("nonce = %q, the request's nonce is %q", claimStr(j.Claims, "nonce"), cf.Nonce), cf, rp)
	}
	if claimStr(j.Claims, "sub") != cf.exportSub() {
		r.fail(kind, "sub", fmt.Sprintf("sub = %q, expected %q (%s)", claimStr(j.Claims, "sub"), cf.exportSub(), cf.subjectConfig()), cf, rp)
	}
	bits := algBits(j.Alg)
	for _, h := range []struct{ name, sibling string }{{"at_hash", sb.At}, {"c_hash", sb.Code}, {"s_hash", sb.State}} {
		v, present := j.Claims[h.name].(string)
		switch {
		case present && h.sibling == "":
			r.fail(kind, h.name, h.name+" present although no such value is delivered in the same response", cf, rp)
		case present && v != halfHashGo(h.sibling, bits):
			r.fail(kind, h.name, fmt.Sprintf("%s = %q, the left half of SHA-%d of the delivered value is %q", h.name, v, bits, halfHashGo(h.sibling, bits)), cf, rp)
		case !present && h.sibling != "" && hashesRequired:
			r.fail(kind, h.name, h.name+" missing although the value is delivered in the same authorization response", cf, rp)
		}
	}
}

func (r *c08Run) checkAccessToken(kind, tok string, j seenJWT, cf c08Cfg, sub string, expiresIn int, hasExpiresIn bool, clientCredentials bool) {
	if tok == "" {
		return
	}
	rp := map[string]any{"access_token": tok, "claims": j.Claims}
	if hasExpiresIn && expiresIn != cf.TokLifetime {
		r.fail(kind, "expires_in", fmt.Sprintf("expires_in = %d, the configured lifetime is %d", expiresIn, cf.TokLifetime), cf, rp)
	}
	if strings.Count(tok, ".") != 2 || j.Claims == nil {
		return
	}
	if j.Typ != "at+jwt" {
		r.fail(kind, "typ", fmt.Sprintf("typ = %q", j.Typ), cf, rp)
	}
	if claimStr(j.Claims, "iss") != cf.wantIss() {
		r.fail(kind, "iss", fmt.Sprintf("iss = %q, the issuer named by the discovery document is %q", claimStr(j.Claims, "iss"), cf.wantIss()), cf, rp)
	}
	// one grant, one subject: a client whose ID tokens and userinfo carry the pairwise subject must not
	// be handed the raw subject in a self-contained access token (client_credentials has no end user)
	if cf.pairwise() && !clientCredentials {
		r.fail(kind, "sub", fmt.Sprintf("JWT access token with sub = %q issued at %s to a client whose subject is pairwise (%s): ID token and userinfo carry %q",
			claimStr(j.Claims, "sub"), r.site, cf.subjectConfig(), cf.exportSub()), cf, rp)
	}
	if claimStr(j.Claims, "client_id") != c08Client {
		r.fail(kind, "client_id", fmt.Sprintf("client_id = %q, the client is %q", claimStr(j.Claims, "client_id"), c08Client), cf, rp)
	}
	d := claimInt(j.Claims, "exp") - claimInt(j.Claims, "iat")
	if d != cf.TokLifetime {
		r.fail(kind, "exp", fmt.Sprintf("exp - iat = %d, the configured lifetime is %d", d, cf.TokLifetime), cf, rp)
	}
	if hasExpiresIn && d != expiresIn {
		r.fail(kind, "expires_in", fmt.Sprintf("exp - iat = %d but expires_in = %d", d, expiresIn), cf, rp)
	}
	if claimStr(j.Claims, "sub") != sub {
		r.fail(kind, "sub", fmt.Sprintf("sub = %q, the grant's subject is %q", claimStr(j.Claims, "sub"), sub), cf, rp)
	}
	if claimStr(j.Claims, "jti") == "" {
		r.fail(kind, "jti", "no jti", cf, rp)
	}
}

var c08FormAction = regexp.MustCompile(`action="([^"]*)"`)
var c08FormInput = regexp.MustCompile(`name="([^"]*)" value="([^"]*)"`)

// flow runs one configuration end to end and returns the Coq cases describing what was seen
func (r *c08Run) flow(cf c08Cfg) {
	h, err := cf.provider()
	if err != nil {
		panic(fmt.Sprintf("c08: provider.New: %v (%+v)", err, cf))
	}
	// the discovery document and the published keys
	keys, ok := r.discover(h, &cf)
	if !ok {
		return
	}
	r.site = "authorize"
	// ---- authorize ----
	q := url.Values{"client_id": {c08Client}, "redirect_uri": {c08Redirect}, "response_type": {cf.RespType}, "scope": {cf.Scopes}}
	if cf.RespMode != "" {
		q.Set("response_mode", cf.RespMode)
	}
	if cf.State != "" {
		q.Set("state", cf.State)
	}
	if cf.Nonce != "" {
		q.Set("nonce", cf.Nonce)
	}
	rec := c08Serve(h, "GET", cf.path(cf.disc.Authz)+"?"+q.Encode(), nil, nil)
	vals, transport := c08NavParams(rec)
	if vals == nil {
		panic(fmt.Sprintf("c08: authorization request not answered with a navigation: %d %s (%+v)", rec.Code, rec.Body.String(), cf))
	}
	note := map[string]any{"cfg": cf, "transport": transport}
	var obs atoms
	obs.S(transport)
	// JARM?
	var jarm seenJWT
	if resp := vals.Get("response"); resp != "" {
		jarm = r.open("jarm", resp, cf.jarmAlg(), cf.encPair(), keys, cf)
		obs.N(1)
		obs.N(jarm.Enc)
		obs.body(jarm)
		aud, _ := claimAud(jarm.Claims)
		obs.S(claimStr(jarm.Claims, "iss"))
		obs.S(aud)
		obs.Z(claimInt(jarm.Claims, "exp") - claimInt(jarm.Claims, "iat"))
		rp := map[string]any{"response": resp, "claims": jarm.Claims}
		if jarm.Claims != nil {
			if claimStr(jarm.Claims, "iss") != cf.wantIss() {
				r.fail("jarm", "iss", fmt.Sprintf("iss = %q, the issuer named by the discovery document is %q", claimStr(jarm.Claims, "iss"), cf.wantIss()), cf, rp)
			}
			if aud != c08Client {
				r.fail("jarm", "aud", fmt.Sprintf("aud = %q, the client is %q", aud, c08Client), cf, rp)
			}
			if d := claimInt(jarm.Claims, "exp") - claimInt(jarm.Claims, "iat"); d != 600 {
				r.fail("jarm", "exp", fmt.Sprintf("exp - iat = %d, the response object lifetime is 600", d), cf, rp)
			}
		}
		if len(vals) != 1 {
			r.fail("jarm", "parameters", "parameters delivered beside the response object", cf, rp)
		}
		inner := url.Values{}
		for k, v := range jarm.Claims {
			if s, ok := v.(string); ok && k != "iss" && k != "aud" {
				inner.Set(k, s)
			}
		}
		// the iss response parameter and the iss claim are the same member of the response object
		if cf.IssuerParam {
			inner.Set("iss", claimStr(jarm.Claims, "iss"))
		}
		vals = inner
		wantJarm := strings.HasSuffix(cf.RespMode, "jwt") || cf.ClJarmAlg != ""
		if !wantJarm {
			r.fail("jarm", "mode", "a response object was sent although none was asked for", cf, rp)
		}
	} else {
		obs.N(0)
		if cf.JARM && (strings.HasSuffix(cf.RespMode, "jwt") || cf.ClJarmAlg != "") {
			r.fail("jarm", "mode", "plain parameters although a JWT response mode applies", cf, map[string]any{"parameters": vals})
		}
	}
	if e := vals.Get("error"); e != "" {
		panic(fmt.Sprintf("c08: authorization request refused: %s %s (%+v)", e, vals.Get("error_description"), cf))
	}
	code, at, idtRaw, state := vals.Get("code"), vals.Get("access_token"), vals.Get("id_token"), vals.Get("state")
	sb := siblings{At: at, Code: code, State: state}
	if cf.IssuerParam && vals.Get("iss") != cf.wantIss() {
		r.fail("authorization_response", "iss", fmt.Sprintf("iss parameter = %q, the issuer named by the discovery document is %q", vals.Get("iss"), cf.wantIss()), cf, map[string]any{"parameters": vals})
	}
	if state != cf.State {
		r.fail("authorization_response", "state", "state not echoed", cf, map[string]any{"parameters": vals})
	}
	atJ := seenJWT{}
	if strings.Count(at, ".") == 2 {
		atJ = r.open("access_token", at, cf.SrvAlg, 0, keys, cf)
	} else if at != "" {
		r.arts["access_token(opaque)"]++
	}
	r.checkAccessToken("access_token", at, atJ, cf, cf.Sub, 0, false, false)
	idt := r.open("id_token", idtRaw, cf.idtAlg(), cf.encPair(), keys, cf)
	r.checkIDToken("id_token", idt, cf, sb, true)
	obs.S(vals.Get("iss"))
	obs.token(at, atJ)
	obs.oidt(idt, sb)
	if code != "" {
		obs.N(1)
	} else {
		obs.N(0)
	}
	obs.S(state)
	obs.N(0)
	codeH := "0"
	if strings.Contains(cf.RespType, "code") {
		codeH = cN(mint(0, KCode))
	}
	prm := Params{Redirect: c08Redirect, RespMode: cf.RespMode, RespType: cf.RespType, Scopes: cf.Scopes, State: cf.State, Nonce: cf.Nonce}
	r.addCase(fmt.Sprintf("CAuthz %s %s %s (mkAuthzIn %s %s %s %s %s 0) %s", cf.acfgCoq(), cf.aclientCoq(), cf.tokoptsCoq(),
		cS(cf.Sub), cS(cf.Nonce), cS(cf.Scopes), prm.coq(), codeH, obs.coq()),
		fmt.Sprintf("authorize alg=%s type=%q mode=%q enc=%v/%s %s jwt=%v clientalgs=%s/%s/%s prefix=%q issuer=%s signfunc=%v", cf.SrvAlg, cf.RespType, cf.RespMode, cf.Enc, cf.ClEnc, cf.subjectConfig(), cf.JWTTokens, cf.ClIdtAlg, cf.ClUiAlg, cf.ClJarmAlg, cf.Prefix, cf.issuer(), cf.SignFunc), note, obs)

	subs := map[string]string{}
	if idt.Claims != nil {
		subs["id_token(authorize)"] = claimStr(idt.Claims, "sub")
	}
	// ---- token ----
	useAT := at
	if code != "" {
		form := url.Values{"grant_type": {"authorization_code"}, "code": {code}, "redirect_uri": {c08Redirect},
			"client_id": {c08Client}, "client_secret": {c08Secret}}
		rec = c08Serve(h, "POST", cf.path(cf.disc.Token), form, nil)
		var m map[string]any
		_ = json.Unmarshal(rec.Body.Bytes(), &m)
		if rec.Code != 200 {
			panic(fmt.Sprintf("c08: code not redeemed: %d %s (%+v)", rec.Code, rec.Body.String(), cf))
		}
		r.site = "token"
		r.tokenResponse("token_response", m, keys, cf, cf.Sub, "GAuthorizationCode", cf.Scopes, cf.Nonce, subs, true)
		useAT = claimStr(m, "access_token")
		// refresh: the ID token of a refreshed grant
		if rt := claimStr(m, "refresh_token"); rt != "" {
			form = url.Values{"grant_type": {"refresh_token"}, "refresh_token": {rt}, "client_id": {c08Client}, "client_secret": {c08Secret}}
			rec = c08Serve(h, "POST", cf.path(cf.disc.Token), form, nil)
			var m2 map[string]any
			_ = json.Unmarshal(rec.Body.Bytes(), &m2)
			r.site = "refresh"
			if rec.Code == 200 {
				r.tokenResponse("token_response(refresh)", m2, keys, cf, cf.Sub, "GRefreshToken", cf.Scopes, cf.Nonce, subs, true)
				useAT = claimStr(m2, "access_token")
			}
		}
	}
	// ---- userinfo ----
	if useAT != "" && strings.Contains(" "+cf.Scopes+" ", " openid ") {
		r.site = "userinfo"
		rec = c08Serve(h, "GET", cf.path(cf.disc.Userinfo), nil, http.Header{"Authorization": {"Bearer " + useAT}})
		if rec.Code != 200 {
			panic(fmt.Sprintf("c08: userinfo refused: %d %s (%+v)", rec.Code, rec.Body.String(), cf))
		}
		var uo atoms
		ct := rec.Header().Get("Content-Type")
		body := rec.Body.String()
		if strings.HasPrefix(ct, "application/jwt") {
			uj := r.open("userinfo", body, cf.uiAlg(), cf.encPair(), keys, cf)
			rp := map[string]any{"userinfo": body, "claims": uj.Claims}
			aud, _ := claimAud(uj.Claims)
			if uj.Claims != nil {
				if claimStr(uj.Claims, "iss") != cf.wantIss() {
					r.fail("userinfo", "iss", fmt.Sprintf("GET %s: the signed userinfo response says iss = %q, the issuer named by the discovery document (and by the ID token) is %q",
						cf.path(cf.disc.Userinfo), claimStr(uj.Claims, "iss"), cf.wantIss()), cf, rp)
				}
				if aud != c08Client {
					r.fail("userinfo", "aud", fmt.Sprintf("aud = %q, the client is %q", aud, c08Client), cf, rp)
				}
				subs["userinfo"] = claimStr(uj.Claims, "sub")
			}
			if cf.ClUiAlg == "" {
				r.fail("userinfo", "format", "signed although the client registered no userinfo algorithm", cf, rp)
			}
			uo.N(1)
			uo.N(uj.Enc)
			uo.body(uj)
			uo.S(claimStr(uj.Claims, "sub"))
			uo.S(claimStr(uj.Claims, "iss"))
			uo.S(aud)
		} else {
			r.arts["userinfo(json)"]++
			r.cover("userinfo", cf, false)
			var m map[string]any
			_ = json.Unmarshal([]byte(body), &m)
			subs["userinfo"] = claimStr(m, "sub")
			if cf.ClUiAlg != "" {
				r.fail("userinfo", "signature", "plain JSON although the client registered a userinfo signing algorithm", cf, map[string]any{"userinfo": body})
			}
			uo.N(0)
			uo.S(claimStr(m, "sub"))
		}
		r.addCase(fmt.Sprintf("CUserInfo %s %s %s %s", cf.acfgCoq(), cf.aclientCoq(), cS(cf.Sub), uo.coq()),
			fmt.Sprintf("userinfo alg=%s clientalg=%q enc=%v/%s %s prefix=%q issuer=%s signfunc=%v", cf.SrvAlg, cf.ClUiAlg, cf.Enc, cf.ClEnc, cf.subjectConfig(), cf.Prefix, cf.issuer(), cf.SignFunc), note, uo)
	}
	// one grant: every sub agrees, after the pairwise transformation
	for where, s := range subs {
		if s != cf.exportSub() {
			r.fail(strings.Split(where, "(")[0], "sub", fmt.Sprintf("%s carries sub %q; for this grant and client it must be %q (all: %v)", where, s, cf.exportSub(), subs), cf, map[string]any{"subs": subs})
		}
	}
}

// tokenResponse checks a token-endpoint answer and emits its model case
func (r *c08Run) tokenResponse(kind string, m map[string]any, keys []pubJWK, cf c08Cfg, sub, gt, scopes, nonce string, subs map[string]string, wantIDT bool) {
	at := claimStr(m, "access_token")
	atJ := seenJWT{}
	if strings.Count(at, ".") == 2 {
		atJ = r.open("access_token", at, cf.SrvAlg, 0, keys, cf)
	} else if at != "" {
		r.arts["access_token(opaque)"]++
	}
	_, hasExp := m["expires_in"]
	r.checkAccessToken("access_token", at, atJ, cf, sub, claimInt(m, "expires_in"), true, gt == "GClientCredentials")
	if !hasExp {
		r.fail(kind, "expires_in", "no expires_in", cf, map[string]any{"response": m})
	}
	idtRaw := claimStr(m, "id_token")
	var idt seenJWT
	sb := siblings{At: at, Rt: claimStr(m, "refresh_token")}
	if idtRaw != "" {
		// the jwt-bearer grant never encrypts its ID token (makeIDToken)
		wantEnc := cf.encPair()
		if gt == "GJwtBearer" {
			wantEnc = 0
		}
		idt = r.open("id_token", idtRaw, cf.idtAlg(), wantEnc, keys, cf)
		c2 := cf
		c2.Nonce = nonce
		c2.Sub = sub
		r.checkIDToken("id_token", idt, c2, sb, false)
		if idt.Claims != nil && subs != nil {
			subs["id_token("+kind+")"] = claimStr(idt.Claims, "sub")
		}
	} else if wantIDT && strings.Contains(" "+scopes+" ", " openid ") {
		r.fail(kind, "id_token", "no id_token although openid was granted", cf, map[string]any{"response": m})
	}
	if gt == "GJwtBearer" {
		return // not in the artifact model (Token.v has no jwt-bearer handler); Go-side checks only
	}
	var o atoms
	o.token(at, atJ)
	o.Z(claimInt(m, "expires_in"))
	o.oidt(idt, sb)
	client := cS(c08Client)
	r.addCase(fmt.Sprintf("CToken %s %s %s (mkGInfo %s %s %s %s 0 0) %s %s", cf.acfgCoq(), cf.aclientCoq(), cf.tokoptsCoq(),
		gt, cS(sub), client, cS(scopes), cS(nonce), o.coq()),
		fmt.Sprintf("%s alg=%s grant=%s enc=%v/%s %s jwt=%v prefix=%q issuer=%s signfunc=%v", kind, cf.SrvAlg, gt, cf.Enc, cf.ClEnc, cf.subjectConfig(), cf.JWTTokens, cf.Prefix, cf.issuer(), cf.SignFunc), map[string]any{"cfg": cf}, o)
}

func (r *c08Run) addCase(term, note string, spec map[string]any, obs atoms) {
	r.cases = append(r.cases, term)
	r.notes = append(r.notes, map[string]any{"Index": len(r.notes), "Note": note, "Spec": spec, "Obs": []string(obs)})
	key := strings.Join(obs, ";")
	if !r.seen[key] {
		r.seen[key] = true
		r.nontriv++
	}
}

// c08NavParams: the parameters an authorization response carries and how they travelled
func c08NavParams(rec *httptest.ResponseRecorder) (url.Values, string) {
	body := rec.Body.String()
	if loc := rec.Header().Get("Location"); loc != "" {
		if i := strings.Index(loc, "#"); i >= 0 {
			v, _ := url.ParseQuery(loc[i+1:])
			return v, "fragment"
		}
		u, err := url.Parse(loc)
		if err != nil {
			return nil, ""
		}
		return u.Query(), "query"
	}
	if strings.Contains(body, "<form") {
		v := url.Values{}
		for _, m := range c08FormInput.FindAllStringSubmatch(body, -1) {
			v.Set(html.UnescapeString(m[1]), html.UnescapeString(m[2]))
		}
		return v, "form_post"
	}
	return nil, ""
}

// other grants: client_credentials and jwt-bearer
func (r *c08Run) grants(cf c08Cfg) {
	h, err := cf.provider()
	if err != nil {
		panic(err)
	}
	keys, ok := r.discover(h, &cf)
	if !ok {
		return
	}
	r.site = "client_credentials"
	form := url.Values{"grant_type": {"client_credentials"}, "scope": {"email"}, "client_id": {c08Client}, "client_secret": {c08Secret}}
	rec := c08Serve(h, "POST", cf.path(cf.disc.Token), form, nil)
	var m map[string]any
	_ = json.Unmarshal(rec.Body.Bytes(), &m)
	if rec.Code != 200 {
		panic(fmt.Sprintf("c08: client_credentials refused: %d %s", rec.Code, rec.Body.String()))
	}
	r.tokenResponse("token_response(client_credentials)", m, keys, cf, c08Client, "GClientCredentials", "email", "", nil, false)
	form = url.Values{"grant_type": {"urn:ietf:params:oauth:grant-type:jwt-bearer"}, "assertion": {"ok:" + cf.Sub}, "scope": {cf.Scopes},
		"client_id": {c08Client}, "client_secret": {c08Secret}}
	r.site = "jwt-bearer"
	rec = c08Serve(h, "POST", cf.path(cf.disc.Token), form, nil)
	m = nil
	_ = json.Unmarshal(rec.Body.Bytes(), &m)
	if rec.Code != 200 {
		panic(fmt.Sprintf("c08: jwt-bearer refused: %d %s", rec.Code, rec.Body.String()))
	}
	subs := map[string]string{}
	r.tokenResponse("token_response(jwt-bearer)", m, keys, cf, cf.Sub, "GJwtBearer", cf.Scopes, "", subs, true)
	for where, s := range subs {
		if s != cf.exportSub() {
			r.fail("id_token", "sub", fmt.Sprintf("%s carries sub %q, expected %q", where, s, cf.exportSub()), cf, nil)
		}
	}
}

const c08Header = `From Verif Require Import Base Scope Types Prog Pop Token Authorize Artifacts ArtifactsX.
From Verif.Corr Require Import C08.
Local Open Scope N_scope.
`

func (r *c08Run) write() {
	ctx := r.ctx
	per := 120
	for k := 0; k*per < len(r.cases); k++ {
		hi := (k + 1) * per
		if hi > len(r.cases) {
			hi = len(r.cases)
		}
		var b strings.Builder
		b.WriteString(c08Header)
		var names []string
		for i, c := range r.cases[k*per : hi] {
			fmt.Fprintf(&b, "(*CASE %d*)\nDefinition c_%d : c08case :=\n  %s.\n", k*per+i, k*per+i, c)
			names = append(names, fmt.Sprintf("c_%d", k*per+i))
		}
		b.WriteString("Definition cases : list c08case := [" + strings.Join(names, "; ") + "].\n")
		b.WriteString("Definition corr := Eval vm_compute in map check_c08 cases.\nPrint corr.\n")
		name := fmt.Sprintf("cases_%03d.v", k)
		if err := os.WriteFile(filepath.Join(ctx.Out, name), []byte(b.String()), 0o644); err != nil {
			panic(err)
		}
		ctx.Meta.Files = append(ctx.Meta.Files, name)
	}
	jb, _ := json.Marshal(r.notes)
	_ = os.WriteFile(filepath.Join(ctx.Out, "cases.json"), jb, 0o644)
	ctx.Meta.Cases = len(r.cases)
	ctx.Meta.Distinct = r.nontriv
	var sigs []string
	for s := range r.findings {
		sigs = append(sigs, s)
	}
	sort.Strings(sigs)
	for _, s := range sigs {
		ctx.Meta.Findings = append(ctx.Meta.Findings, r.findings[s])
	}
	for k, v := range r.arts {
		ctx.Meta.Dist[k] += v
	}
	for k, v := range r.matrix {
		ctx.Meta.Dist["matrix/"+k] += v
	}
}

var c08RespTypes = []string{"code", "token", "id_token", "id_token token", "code id_token", "code token", "code id_token token"}

func c08Modes(respType string, jarm bool, clientJarm bool) []string {
	implicit := strings.Contains(respType, "token")
	var ms []string
	if clientJarm {
		ms = []string{"", "jwt", "fragment.jwt", "form_post.jwt"}
		if !implicit {
			ms = append(ms, "query.jwt")
		}
		return ms
	}
	ms = []string{"", "fragment", "form_post"}
	if !implicit {
		ms = append(ms, "query")
	}
	if jarm {
		ms = append(ms, "jwt", "fragment.jwt", "form_post.jwt")
		if !implicit {
			ms = append(ms, "query.jwt")
		}
	}
	return ms
}

// every way a registration and a provider determine the subject type
var c08Subjects = []struct {
	SubType         string
	DefaultPairwise bool
}{{"public", false}, {"pairwise", false}, {"", false}, {"", true}, {"public", true}, {"pairwise", true}}

func c08OtherAlg(a string, k int) string {
	for j, x := range c08SigAlgs {
		if x == a {
			return c08SigAlgs[(j+k)%len(c08SigAlgs)]
		}
	}
	return a
}

func init() {
	register(&Suite{Name: "c08", Run: func(ctx *RunCtx) {
		r := newC08Run(ctx)
		rng := ctx.R
		rounds := ctx.N(1, 10)
		i := rng.Intn(1000)
		otherAlg := c08OtherAlg
		for round := 0; round < rounds; round++ {
			for _, alg := range c08SigAlgs {
				for _, rt := range c08RespTypes {
					clientJarm := (i/3)%4 == 0
					for _, mode := range c08Modes(rt, true, clientJarm) {
						i++
						sc := c08Subjects[rng.Intn(len(c08Subjects))]
						cf := c08Cfg{SrvAlg: alg, RespType: rt, RespMode: mode, JARM: true,
							IdtLifetime: pick(rng, []int{600, 120, 3599}), TokLifetime: pick(rng, []int{300, 77, 3600}),
							IssuerParam: i%3 == 0, Enc: i%2 == 0, SubType: sc.SubType, DefaultPairwise: sc.DefaultPairwise, JWTTokens: (i/4)%3 != 0,
							Sector: rng.Intn(4) == 0, NoPairwiseFn: rng.Intn(8) == 0,
							Prefix: pick(rng, c08Prefixes), Issuer: pick(rng, c08Issuers), SignFunc: rng.Intn(4) == 0,
							Sub: pick(rng, []string{"alice", "bob", "user-" + fmt.Sprint(rng.Intn(1000))}),
							Scopes: pick(rng, []string{"openid", "openid email", "openid email profile"})}
						if cf.Enc {
							cf.ClEnc = pick(rng, []string{"RSA-OAEP-256", "ECDH-ES", "ECDH-ES", ""})
						} else if i%7 == 0 {
							cf.ClEnc = "ECDH-ES" // registered, but the server has encryption off
						}
						if clientJarm {
							cf.ClJarmAlg = otherAlg(alg, 1+i%6)
						}
						if i%3 != 0 {
							cf.ClIdtAlg = otherAlg(alg, 1+(i/3)%6)
						}
						if i%5 < 3 {
							cf.ClUiAlg = otherAlg(alg, (i/5)%7)
						}
						if round == 0 {
							cf.State = pick(rng, []string{"st-1", "state with spaces&x=1", "", "s"})
							cf.Nonce = pick(rng, []string{"n-1", "nonce-2"})
						} else {
							cf.State = fmt.Sprintf("st-%d", rng.Int63())
							cf.Nonce = fmt.Sprintf("n-%d", rng.Int63())
							if rng.Intn(6) == 0 {
								cf.State = ""
							}
						}
						if !strings.Contains(rt, "id_token") && rng.Intn(3) == 0 {
							cf.Nonce = ""
						}
						if rt == "code" && rng.Intn(4) == 0 {
							cf.Scopes = "email" // no openid: no ID token anywhere
						}
						r.flow(cf)
						if i%9 == 0 {
							r.grants(cf)
						}
					}
				}
			}
		}
		// a provider without JARM: plain modes only
		for _, alg := range []string{"RS256", "ES512"} {
			for _, rt := range c08RespTypes {
				for _, mode := range c08Modes(rt, false, false) {
					r.flow(c08Cfg{SrvAlg: alg, RespType: rt, RespMode: mode, IdtLifetime: 600, TokLifetime: 300, JWTTokens: true,
						SubType: "public", Sub: "carol", Scopes: "openid email", State: "st-nj", Nonce: "n-nj"})
				}
			}
		}
		// the cross section, the same for every seed: every artifact kind (ID token from the authorization,
		// token and refresh responses, JWT access token, JARM response object, signed userinfo; plus the
		// client_credentials and jwt-bearer responses) x path prefix x issuer variant x algorithm choice
		// (the client's own / the provider's default) x subject configuration
		n := 0
		for _, prefix := range c08Prefixes {
			for _, iss := range c08Issuers {
				for _, own := range []bool{false, true} {
					for _, sc := range c08Subjects {
						n++
						alg := c08SigAlgs[n%len(c08SigAlgs)]
						cf := c08Cfg{SrvAlg: alg, RespType: "code id_token token", RespMode: []string{"", "jwt", "form_post.jwt", "fragment.jwt"}[n%4], JARM: true,
							IdtLifetime: 600, TokLifetime: 300, JWTTokens: true, IssuerParam: n%2 == 0,
							SubType: sc.SubType, DefaultPairwise: sc.DefaultPairwise, Sector: n%5 == 0,
							Prefix: prefix, Issuer: iss, SignFunc: n%3 == 0, Enc: n%4 >= 2,
							Sub: fmt.Sprintf("user-%d", rng.Intn(1000)), Scopes: "openid email", State: "st-x", Nonce: "n-x",
							ClUiAlg: alg} // registering the provider's default: userinfo is signed in every cell
						if cf.Enc {
							cf.ClEnc = []string{"RSA-OAEP-256", "ECDH-ES"}[n%2]
						}
						if own {
							cf.ClIdtAlg, cf.ClUiAlg, cf.ClJarmAlg = otherAlg(alg, 1+n%6), otherAlg(alg, 2+n%5), otherAlg(alg, 3+n%4)
						}
						r.flow(cf)
						r.grants(cf)
					}
				}
			}
		}
		r.write()
		ctx.Meta.Rule = "server signing algorithm (RS256, PS256/384/512, ES256/384/512) x 7 response types x every response mode valid for the type (plain and JWT-secured), with per-client ID-token/userinfo/JARM algorithms, encryption to an RSA-OAEP-256 or ECDH-ES client key, opaque/JWT access tokens, issuer parameter, lifetimes, and - drawn independently per configuration - path prefix (none, /auth, /a/b), issuer variant (host, host:port, host/path), subject configuration (subject_type public/pairwise/absent x default public/pairwise, sector identifier, no pairwise function), delegated signing (WithSignFunc, public-only signing keys in the key set); plus a seed-independent cross section prefix x issuer x algorithm choice x subject configuration with every artifact kind in each cell (input_distribution matrix/...); endpoints, issuer and jwks_uri are read from the discovery document served under the prefix; distinct = distinct abstract responses"
		ctx.Meta.Samples = append(ctx.Meta.Samples, r.notes[0], r.notes[len(r.notes)/2])
		ctx.Meta.Extra = map[string]any{"artifacts_verified": r.arts}
	}})
}
