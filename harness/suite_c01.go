package main

// C01 — client authentication is sound on every client-authenticated endpoint.
// The single-deviation catalogue against the REAL provider: registered method x entry point x
// credential deviation (+ the valid credential of every cell).  Every case is one HTTP request to a
// fresh provider over a freshly seeded, harness-owned storage; the request, the registrations and
// the configuration are abstracted to the records Model/Authn.v computes on; observed are: served
// or not, error code, artifact, storage writes / store change, jwks_uri fetches.

import (
	"context"
	"crypto/ecdsa"
	"crypto/elliptic"
	"crypto/hmac"
	"crypto/rand"
	"crypto/sha256"
	"crypto/sha512"
	"crypto/x509"
	"crypto/x509/pkix"
	"encoding/base64"
	"encoding/json"
	"errors"
	"fmt"
	"io"
	"math/big"
	"net"
	"net/http"
	"net/http/httptest"
	"net/url"
	"os"
	"path/filepath"
	"strings"
	"time"

	"github.com/go-jose/go-jose/v4"
	"github.com/luikyv/go-oidc/pkg/goidc"
	"github.com/luikyv/go-oidc/pkg/provider"
)

// ---------- abstract side (mirrors Model/Authn.v) ----------

type aJwk struct {
	Kid    int    // 0 = none
	Alg    string // "" = none
	Key    int
	Kty    string // KtEC256 | KtEC384
	Public bool
	Cert   int
}

type aClient struct {
	ID                                int
	Method, IntroMethod, RevokeMethod string // Coq constructor names
	Alg, IntroAlg, RevokeAlg          string // "" = unset
	Hashed                            int    // -1 = no hash registered
	Secret                            int
	SecretLong                        bool
	Jwks                              string // value | uri | absent
	Keys                              []aJwk
	DN, DNS                           string
	IPKind                            string // IpUnset | IpUnparsable | IpAddr
	IP                                int
	Static                            bool
}

type aCert struct {
	ID, Key int
	DN      string
	DNS     []string
	IPs     []int
}

type aAssertion struct {
	Signer    string // priv | hsecret | hpub | unsigned
	SignerKey int
	Alg       string
	Kid       int
	Iss       *int
	Sub       int
	Aud       []string
	Exp       *int
	Nbf       *int
	Iat       *int
	Jti       bool
}

type aReq struct {
	FormID     int
	FormSecret int
	Basic      *[2]int
	AKind      string // ANone | AGarbage | AJws
	A          *aAssertion
	TypeOK     bool
	TypeAbsent bool // concrete only: the parameter is not sent at all
	Cert       *aCert
	JtiOK      bool
	FetchOK    bool
	FetchKeys  []aJwk
	// placement: the members above describe the x-www-form-urlencoded BODY; these are what the QUERY
	// STRING of the request URI carries (nil / "" = the member is not in the query string)
	QID     *int        `json:",omitempty"` // client_id (0 = present and empty)
	QSecret *int        `json:",omitempty"` // client_secret
	QAKind  string      `json:",omitempty"` // client_assertion: AGarbage | AJws (QA) | Same (the very string of the body)
	QA      *aAssertion `json:",omitempty"`
	QType   string      `json:",omitempty"` // client_assertion_type: ok | other
}

type aCfg struct {
	PkAlgs, SjAlgs []string
	Lifetime       int
	Leeway         int
	Mtls           bool
}

type c01Case struct {
	Note    string
	Cfg     aCfg
	Entry   string
	Clients []aClient
	Req     aReq
	Anon    bool
	// observed
	Accepted, InvalidClient, Artifact, Wrote, Fetched bool
	Status                                            int
	URI                                               string // the request URI that was sent (path and query string)
	Body                                              string
	Log                                               []int
}

func pI(i int) *int { return &i }

func (j aJwk) coq() string {
	alg := "None"
	if j.Alg != "" {
		alg = "(Some " + j.Alg + ")"
	}
	return fmt.Sprintf("(mkJwk %d %s %d %s %s %d)", j.Kid, alg, j.Key, j.Kty, cB(j.Public), j.Cert)
}
func optAlg(a string) string {
	if a == "" {
		return "None"
	}
	return "(Some " + a + ")"
}
func (c aClient) coq() string {
	h := "None"
	if c.Hashed >= 0 {
		h = fmt.Sprintf("(Some %d)", c.Hashed)
	}
	jw := "JwksAbsent"
	switch c.Jwks {
	case "value":
		jw = "(JwksByValue " + cList(c.Keys, aJwk.coq) + ")"
	case "uri":
		jw = "JwksByURI"
	}
	ip := c.IPKind
	if ip == "" {
		ip = "IpUnset"
	}
	if ip == "IpAddr" {
		ip = fmt.Sprintf("(IpAddr %d)", c.IP)
	}
	return fmt.Sprintf("(mkAClient %d %s %s %s %s %s %s %s %d %s %s %s %s %s)", c.ID, c.Method, c.IntroMethod, c.RevokeMethod,
		optAlg(c.Alg), optAlg(c.IntroAlg), optAlg(c.RevokeAlg), h, c.Secret, cB(c.SecretLong), jw, cS(c.DN), cS(c.DNS), ip)
}
func (c aCert) coq() string {
	return fmt.Sprintf("(mkCert %d %d %s %s %s)", c.ID, c.Key, cS(c.DN), cList(c.DNS, cS), cList(c.IPs, func(i int) string { return fmt.Sprint(i) }))
}
func optZ(p *int) string {
	if p == nil {
		return "None"
	}
	return "(Some " + cZ(*p) + ")"
}
func (a aAssertion) coq() string {
	s := "SUnsigned"
	switch a.Signer {
	case "priv":
		s = fmt.Sprintf("(SPriv %d)", a.SignerKey)
	case "hsecret":
		s = fmt.Sprintf("(SHmac (BSecret %d))", a.SignerKey)
	case "hpub":
		s = fmt.Sprintf("(SHmac (BPublicKey %d))", a.SignerKey)
	}
	iss := "None"
	if a.Iss != nil {
		iss = fmt.Sprintf("(Some %d)", *a.Iss)
	}
	return fmt.Sprintf("(mkAssertion %s %s %d %s %d %s %s %s %s %s)", s, a.Alg, a.Kid, iss, a.Sub,
		cList(a.Aud, func(s string) string { return s }), optZ(a.Exp), optZ(a.Nbf), optZ(a.Iat), cB(a.Jti))
}
func (r aReq) coq() string {
	b := "None"
	if r.Basic != nil {
		b = fmt.Sprintf("(Some (%d, %d))", r.Basic[0], r.Basic[1])
	}
	ct := "None"
	if r.Cert != nil {
		ct = "(Some " + r.Cert.coq() + ")"
	}
	f := "None"
	if r.FetchOK {
		f = "(Some " + cList(r.FetchKeys, aJwk.coq) + ")"
	}
	optN := func(p *int) string {
		if p == nil {
			return "None"
		}
		return fmt.Sprintf("(Some %d)", *p)
	}
	body0 := func(v int) string { // in the body, 0 = the parameter is not sent
		if v == 0 {
			return "None"
		}
		return fmt.Sprintf("(Some %d)", v)
	}
	asrt := func(kind string, a *aAssertion) string {
		switch kind {
		case "AGarbage":
			return "(Some AGarbage)"
		case "AJws":
			return "(Some (AJws " + a.coq() + "))"
		}
		return "None"
	}
	bt := "None"
	if r.TypeOK {
		bt = "(Some true)"
	} else if !r.TypeAbsent {
		bt = "(Some false)"
	}
	qa := asrt(r.QAKind, r.QA)
	if r.QAKind == "Same" {
		qa = asrt(r.AKind, r.A)
	}
	qt := "None"
	switch r.QType {
	case "ok":
		qt = "(Some true)"
	case "other":
		qt = "(Some false)"
	}
	return fmt.Sprintf("(mkWreq (mkPlaced %s %s) (mkPlaced %s %s)\n   (mkPlaced %s %s)\n   (mkPlaced %s %s) %s %s %s %s)",
		body0(r.FormID), optN(r.QID), body0(r.FormSecret), optN(r.QSecret),
		asrt(r.AKind, r.A), qa, bt, qt, b, ct, cB(r.JtiOK), f)
}
func (g aCfg) coq() string {
	id := func(s string) string { return s }
	return fmt.Sprintf("(mkACfg %s %s %s %s %s %s)", cList(g.PkAlgs, id), cList(g.SjAlgs, id), cZ(g.Lifetime), cZ(g.Leeway), cB(g.Mtls), cB(g.Mtls))
}
func (k c01Case) coq() string {
	// ctx.Client looks at the static clients first
	var cls []aClient
	for _, c := range k.Clients {
		if c.Static {
			cls = append(cls, c)
		}
	}
	for _, c := range k.Clients {
		if !c.Static {
			cls = append(cls, c)
		}
	}
	return fmt.Sprintf("(mkACase %s %s %s\n  %s %s\n  %s %s %s %s %s)", k.Cfg.coq(), k.Entry, cList(cls, aClient.coq), k.Req.coq(), cB(k.Anon),
		cB(k.Accepted), cB(k.InvalidClient), cB(k.Artifact), cB(k.Wrote), cB(k.Fetched))
}

// ---------- concrete material ----------

const (
	c01MtlsHost = "https://mtls.as.example"
	// secret handles
	hSec1, hSec2, hSecTrunc, hSecExt, hSecWrong = 1001, 1002, 1003, 1004, 1999
	hPlain1, hPlain2, hPlainShort, hPlainWrong  = 1101, 1102, 1103, 1199
	// keys
	kC1, kC2, kForeign, kC1b       = 101, 102, 103, 104
	kCert1, kCert2, kCertF, kCertR = 111, 112, 113, 114
	// certs
	ctC1, ctC2, ctF, ctRegen, ctSameKey = 201, 202, 203, 204, 205
)

var c01Secrets = map[int]string{
	0:           "",
	hSec1:       "hashed-secret-of-client-one-0123456789",
	hSec2:       "hashed-secret-of-client-two-0123456789",
	hSecTrunc:   "hashed-secret-of-client-one-012345678",
	hSecExt:     "hashed-secret-of-client-one-0123456789x",
	hSecWrong:   "a-wrong-secret",
	hPlain1:     "plain-secret-of-client-one-0123456789-0123456789-0123456789-abcdef",
	hPlain2:     "plain-secret-of-client-two-0123456789-0123456789-0123456789-abcdef",
	hPlainShort: "short-one",
	hPlainWrong: "plain-secret-of-nobody-----0123456789-0123456789-0123456789-abcdef",
}

type c01Material struct {
	keys  map[int]*ecdsa.PrivateKey
	certs map[int]*x509.Certificate
}

var c01Mat *c01Material

func c01MakeCert(key *ecdsa.PrivateKey, cn string, ip string, serial int64) *x509.Certificate {
	tmpl := &x509.Certificate{SerialNumber: big.NewInt(serial), Subject: pkix.Name{CommonName: cn},
		NotBefore: time.Now().Add(-time.Hour), NotAfter: time.Now().Add(24 * time.Hour), DNSNames: []string{cn},
		IPAddresses: []net.IP{net.ParseIP(ip)}}
	der, err := x509.CreateCertificate(rand.Reader, tmpl, tmpl, &key.PublicKey, key)
	if err != nil {
		panic(err)
	}
	c, _ := x509.ParseCertificate(der)
	return c
}

func c01Material_() *c01Material {
	if c01Mat != nil {
		return c01Mat
	}
	m := &c01Material{keys: map[int]*ecdsa.PrivateKey{}, certs: map[int]*x509.Certificate{}}
	for _, h := range []int{kC1, kC2, kForeign, kCert1, kCert2, kCertF, kCertR} {
		m.keys[h] = genKey()
	}
	k384, err := ecdsa.GenerateKey(elliptic.P384(), rand.Reader)
	if err != nil {
		panic(err)
	}
	m.keys[kC1b] = k384
	m.certs[ctC1] = c01MakeCert(m.keys[kCert1], "client1.example", "10.0.0.1", 1)
	m.certs[ctC2] = c01MakeCert(m.keys[kCert2], "client2.example", "10.0.0.2", 2)
	m.certs[ctF] = c01MakeCert(m.keys[kCertF], "stranger.example", "10.0.0.9", 3)
	m.certs[ctRegen] = c01MakeCert(m.keys[kCertR], "client1.example", "10.0.0.1", 4)
	m.certs[ctSameKey] = c01MakeCert(m.keys[kCert1], "client1.example", "10.0.0.1", 5)
	c01Mat = m
	return m
}

var c01CertKey = map[int]int{ctC1: kCert1, ctC2: kCert2, ctF: kCertF, ctRegen: kCertR, ctSameKey: kCert1}
var c01IPs = map[string]int{"10.0.0.1": 1, "10.0.0.2": 2, "10.0.0.9": 9}

func c01AbsCert(h int) *aCert {
	x := c01Material_().certs[h]
	var ips []int
	for _, ip := range x.IPAddresses {
		ips = append(ips, c01IPs[ip.String()])
	}
	return &aCert{ID: h, Key: c01CertKey[h], DN: x.Subject.String(), DNS: x.DNSNames, IPs: ips}
}

func c01Kid(n int) string { return fmt.Sprintf("kid-%d", n) }

func c01MethodString(m string) goidc.ClientAuthnType {
	switch m {
	case "MUnset":
		return ""
	case "MNone":
		return goidc.ClientAuthnNone
	case "MSecretBasic":
		return goidc.ClientAuthnSecretBasic
	case "MSecretPost":
		return goidc.ClientAuthnSecretPost
	case "MSecretJWT":
		return goidc.ClientAuthnSecretJWT
	case "MPrivateKeyJWT":
		return goidc.ClientAuthnPrivateKeyJWT
	case "MTLS":
		return goidc.ClientAuthnTLS
	case "MSelfSignedTLS":
		return goidc.ClientAuthnSelfSignedTLS
	}
	return "no_such_method"
}

func c01AlgString(a string) goidc.SignatureAlgorithm {
	if a == "AlgNone" {
		return "none"
	}
	return goidc.SignatureAlgorithm(a)
}

func c01JWKS(keys []aJwk) []byte {
	m := c01Material_()
	set := jose.JSONWebKeySet{}
	for _, j := range keys {
		k := jose.JSONWebKey{Algorithm: string(c01AlgString(j.Alg)), Use: "sig"}
		if j.Alg == "" {
			k.Algorithm = ""
		}
		if j.Kid != 0 {
			k.KeyID = c01Kid(j.Kid)
		}
		if j.Public {
			k.Key = &m.keys[j.Key].PublicKey
		} else {
			k.Key = m.keys[j.Key]
		}
		if j.Cert != 0 {
			h := sha256.Sum256(m.certs[j.Cert].Raw)
			k.CertificateThumbprintSHA256 = h[:]
		}
		set.Keys = append(set.Keys, k)
	}
	b, err := json.Marshal(set)
	if err != nil {
		panic(err)
	}
	return b
}

func (c aClient) build() *goidc.Client {
	g := &goidc.Client{ID: clientName(c.ID)}
	g.TokenAuthnMethod = c01MethodString(c.Method)
	g.TokenIntrospectionAuthnMethod = c01MethodString(c.IntroMethod)
	g.TokenRevocationAuthnMethod = c01MethodString(c.RevokeMethod)
	if c.Alg != "" {
		g.TokenAuthnSigAlg = c01AlgString(c.Alg)
	}
	if c.IntroAlg != "" {
		g.TokenIntrospectionAuthnSigAlg = c01AlgString(c.IntroAlg)
	}
	if c.RevokeAlg != "" {
		g.TokenRevocationAuthnSigAlg = c01AlgString(c.RevokeAlg)
	}
	if c.Hashed >= 0 {
		g.HashedSecret = bcryptOf(c01Secrets[c.Hashed])
	}
	g.Secret = c01Secrets[c.Secret]
	switch c.Jwks {
	case "value":
		g.PublicJWKS = c01JWKS(c.Keys)
	case "uri":
		g.PublicJWKSURI = fmt.Sprintf("https://client%d.example/jwks.json", c.ID)
	}
	g.TLSSubDistinguishedName = c.DN
	g.TLSSubAlternativeName = c.DNS
	switch c.IPKind {
	case "IpUnparsable":
		g.TLSSubAlternativeNameIp = "not-an-ip"
	case "IpAddr":
		g.TLSSubAlternativeNameIp = fmt.Sprintf("10.0.0.%d", c.IP)
	}
	g.GrantTypes = []goidc.GrantType{goidc.GrantClientCredentials, goidc.GrantAuthorizationCode, goidc.GrantRefreshToken,
		goidc.GrantCIBA, goidc.GrantJWTBearer}
	g.ResponseTypes = []goidc.ResponseType{goidc.ResponseTypeCode}
	g.RedirectURIs = []string{"https://client.example/cb"}
	g.ScopeIDs = "openid scope1"
	g.CIBATokenDeliveryMode = goidc.CIBATokenDeliveryModePoll
	return g
}

// ---------- JWS by hand (full control over header, claims and signature) ----------

func b64(b []byte) string { return base64.RawURLEncoding.EncodeToString(b) }

func c01PubBytes(k *ecdsa.PrivateKey) []byte {
	b, _ := x509.MarshalPKIXPublicKey(&k.PublicKey)
	return b
}

func c01Audience(v string, uri string, mtls bool) string {
	path := uri // Request.RequestURI: the path and, when there is one, the query string
	switch v {
	case "AudIssuer":
		return issuer
	case "AudTokenURL":
		return issuer + "/token"
	case "AudRequestURL":
		return issuer + path
	case "AudMtlsTokenURL":
		return c01MtlsHost + "/token"
	case "AudMtlsRequestURL":
		return c01MtlsHost + path
	}
	return "https://elsewhere.example/token"
}

func (a aAssertion) render(uri string, mtls bool, jtiSeq int) string {
	m := c01Material_()
	hdr := map[string]any{"alg": string(c01AlgString(a.Alg)), "typ": "JWT"}
	if a.Kid != 0 {
		hdr["kid"] = c01Kid(a.Kid)
	}
	now := time.Now().Unix()
	cl := map[string]any{}
	if a.Iss != nil {
		cl["iss"] = clientName(*a.Iss)
		if *a.Iss == 0 {
			cl["iss"] = ""
		}
	}
	if a.Sub != 0 {
		cl["sub"] = clientName(a.Sub)
	}
	if len(a.Aud) == 1 {
		cl["aud"] = c01Audience(a.Aud[0], uri, mtls)
	} else if len(a.Aud) > 1 {
		var l []string
		for _, v := range a.Aud {
			l = append(l, c01Audience(v, uri, mtls))
		}
		cl["aud"] = l
	}
	if a.Exp != nil {
		cl["exp"] = now + int64(*a.Exp)
	}
	if a.Nbf != nil {
		cl["nbf"] = now + int64(*a.Nbf)
	}
	if a.Iat != nil {
		cl["iat"] = now + int64(*a.Iat)
	}
	if a.Jti {
		cl["jti"] = fmt.Sprintf("jti-%d-%d", now, jtiSeq)
	}
	hb, _ := json.Marshal(hdr)
	cb, _ := json.Marshal(cl)
	input := b64(hb) + "." + b64(cb)
	var sig []byte
	switch a.Signer {
	case "priv":
		k := m.keys[a.SignerKey]
		var digest []byte
		size := 32
		if k.Curve == elliptic.P384() {
			h := sha512.Sum384([]byte(input))
			digest = h[:]
			size = 48
		} else {
			h := sha256.Sum256([]byte(input))
			digest = h[:]
		}
		r, s, err := ecdsa.Sign(rand.Reader, k, digest)
		if err != nil {
			panic(err)
		}
		sig = make([]byte, 2*size)
		r.FillBytes(sig[:size])
		s.FillBytes(sig[size:])
	case "hsecret":
		mac := hmac.New(sha256.New, []byte(c01Secrets[a.SignerKey]))
		mac.Write([]byte(input))
		sig = mac.Sum(nil)
	case "hpub":
		mac := hmac.New(sha256.New, c01PubBytes(m.keys[a.SignerKey]))
		mac.Write([]byte(input))
		sig = mac.Sum(nil)
	case "unsigned":
		sig = nil
	}
	return input + "." + b64(sig)
}

// ---------- the nine entry points ----------

var c01Entries = []string{"EpClientCredentials", "EpAuthorizationCode", "EpRefreshToken", "EpCibaGrant", "EpJwtBearer",
	"EpPar", "EpBcAuthorize", "EpIntrospect", "EpRevoke"}
var c01Path = map[string]string{"EpClientCredentials": "/token", "EpAuthorizationCode": "/token", "EpRefreshToken": "/token",
	"EpCibaGrant": "/token", "EpJwtBearer": "/token", "EpPar": "/par", "EpBcAuthorize": "/bc-authorize",
	"EpIntrospect": "/introspect", "EpRevoke": "/revoke"}

func c01Ctx(entry string) string {
	switch entry {
	case "EpIntrospect":
		return "intro"
	case "EpRevoke":
		return "revoke"
	}
	return "token"
}

const c01Refresh = "rt-0123456789012345678901234567890123456789012345678901234567890123456789012345678901234567890123456"
const c01Opaque = "opaque-access-token-0123456789-0123456789-0123456789"

type c01World struct {
	stores   *Stores
	prov     *provider.Provider
	cert     *x509.Certificate
	jtiOK    bool
	fetchOK  bool
	fetchRaw []byte
	fetched  int
}

type c01RT struct{ w *c01World }

func (t c01RT) RoundTrip(r *http.Request) (*http.Response, error) {
	if strings.HasSuffix(r.URL.Path, "/jwks.json") {
		t.w.fetched++
		if !t.w.fetchOK {
			return &http.Response{StatusCode: 404, Body: io.NopCloser(strings.NewReader("")), Header: http.Header{}}, nil
		}
		return &http.Response{StatusCode: 200, Body: io.NopCloser(strings.NewReader(string(t.w.fetchRaw))), Header: http.Header{}}, nil
	}
	return &http.Response{StatusCode: 404, Body: io.NopCloser(strings.NewReader("")), Header: http.Header{}}, nil
}

func c01Algs(l []string) []goidc.SignatureAlgorithm {
	var out []goidc.SignatureAlgorithm
	for _, a := range l {
		out = append(out, c01AlgString(a))
	}
	return out
}

func c01NewWorld(k *c01Case) (*c01World, error) {
	w := &c01World{stores: NewStores("copy"), jtiOK: k.Req.JtiOK, fetchOK: k.Req.FetchOK}
	if k.Req.FetchOK {
		w.fetchRaw = c01JWKS(k.Req.FetchKeys)
	}
	all := []goidc.ClientAuthnType{goidc.ClientAuthnNone, goidc.ClientAuthnSecretBasic, goidc.ClientAuthnSecretPost,
		goidc.ClientAuthnSecretJWT, goidc.ClientAuthnPrivateKeyJWT, goidc.ClientAuthnTLS, goidc.ClientAuthnSelfSignedTLS}
	allowed := func(*goidc.Client) bool { return true }
	opts := []provider.ProviderOption{
		provider.WithClientStorage(w.stores.Clients()),
		provider.WithAuthnSessionStorage(w.stores.Authn()),
		provider.WithGrantSessionStorage(w.stores.Grants()),
		provider.WithScopes(goidc.ScopeOpenID, goidc.NewScope("scope1")),
		provider.WithIDTokenSignatureAlgs(goidc.ES256),
		provider.WithTokenAuthnMethods(all[0], all[1:]...),
		provider.WithClientCredentialsGrant(),
		provider.WithAuthorizationCodeGrant(),
		provider.WithRefreshTokenGrant(func(*goidc.Client, goidc.GrantInfo) bool { return true }, 6000),
		provider.WithCIBAGrant(
			func(_ context.Context, s *goidc.AuthnSession) error {
				s.SetUserID("user1")
				s.GrantScopes(s.Scopes)
				return nil
			},
			func(_ context.Context, s *goidc.AuthnSession) error { return nil },
			goidc.CIBATokenDeliveryModePoll),
		provider.WithJWTBearerGrant(func(r *http.Request, a string) (goidc.JWTBearerGrantInfo, error) {
			if strings.HasPrefix(a, "ok:") {
				return goidc.JWTBearerGrantInfo{Subject: strings.TrimPrefix(a, "ok:")}, nil
			}
			return goidc.JWTBearerGrantInfo{}, errors.New("bad assertion")
		}),
		provider.WithPAR(60),
		provider.WithTokenIntrospection(allowed, all[0], all[1:]...),
		provider.WithTokenRevocation(allowed, all[0], all[1:]...),
		provider.WithJWTLifetime(k.Cfg.Lifetime),
		provider.WithJWTLeewayTime(k.Cfg.Leeway),
		provider.WithCheckJTIFunc(func(context.Context, string) error {
			if w.jtiOK {
				return nil
			}
			return errors.New("jti already used")
		}),
		provider.WithHTTPClientFunc(func(context.Context) *http.Client { return &http.Client{Transport: c01RT{w}} }),
		provider.WithPolicy(goidc.NewPolicy("main",
			func(*http.Request, *goidc.Client, *goidc.AuthnSession) bool { return true },
			func(http.ResponseWriter, *http.Request, *goidc.AuthnSession) (goidc.AuthnStatus, error) {
				return goidc.StatusFailure, nil
			})),
		provider.WithTokenOptions(func(goidc.GrantInfo, *goidc.Client) goidc.TokenOptions {
			return goidc.NewOpaqueTokenOptions(goidc.DefaultOpaqueTokenLength, 300)
		}),
	}
	if len(k.Cfg.PkAlgs) > 0 {
		a := c01Algs(k.Cfg.PkAlgs)
		opts = append(opts, provider.WithPrivateKeyJWTSignatureAlgs(a[0], a[1:]...))
	}
	if !k.Anon {
		opts = append(opts, provider.WithJWTBearerGrantClientAuthnRequired())
	}
	if k.Cfg.Mtls {
		opts = append(opts, provider.WithMTLS(c01MtlsHost, func(*http.Request) (*x509.Certificate, error) {
			if w.cert == nil {
				return nil, errors.New("no client certificate")
			}
			return w.cert, nil
		}))
	}
	for _, c := range k.Clients {
		g := c.build()
		if c.Static {
			opts = append(opts, provider.WithStaticClient(g))
		} else if err := w.stores.C.Save(context.Background(), g); err != nil {
			return nil, err
		}
	}
	p, err := provider.New(goidc.ProfileOpenID, issuer, func(context.Context) (goidc.JSONWebKeySet, error) {
		if serverKeyCache == nil {
			serverKeyCache = genKey()
		}
		return goidc.JSONWebKeySet{Keys: []goidc.JSONWebKey{{Key: serverKeyCache, KeyID: "srv-es256", Algorithm: "ES256", Use: "sig"}}}, nil
	}, opts...)
	if err != nil {
		return nil, err
	}
	w.prov = &p
	// seed the storage the flows need: the code / refresh token / auth_req_id / access token belong to
	// the client the request names (c1, unless every identification in the request names c2)
	owner := "c1"
	{
		var ids []int
		if k.Req.FormID != 0 {
			ids = append(ids, k.Req.FormID)
		}
		if k.Req.Basic != nil && k.Req.Basic[0] != 0 {
			ids = append(ids, k.Req.Basic[0])
		}
		if k.Req.AKind == "AJws" && k.Req.A.Iss != nil {
			ids = append(ids, *k.Req.A.Iss)
		}
		all2 := len(ids) > 0
		for _, i := range ids {
			all2 = all2 && i == 2
		}
		if all2 {
			owner = "c2"
		}
	}
	now := int(time.Now().Unix())
	bg := context.Background()
	switch k.Entry {
	case "EpAuthorizationCode":
		s := &goidc.AuthnSession{ID: "sess-1", ClientID: owner, Subject: "user1", AuthCode: "the-authorization-code-0123456789", GrantedScopes: "scope1",
			ExpiresAtTimestamp: now + 600, CreatedAtTimestamp: now}
		s.RedirectURI = "https://client.example/cb"
		s.Scopes = "scope1"
		s.ResponseType = goidc.ResponseTypeCode
		_ = w.stores.A.Save(bg, s)
	case "EpCibaGrant":
		s := &goidc.AuthnSession{ID: "sess-2", ClientID: owner, Subject: "user1", CIBAAuthID: "the-auth-req-id-0123456789", GrantedScopes: "scope1",
			ExpiresAtTimestamp: now + 600, CreatedAtTimestamp: now}
		s.Scopes = "scope1"
		_ = w.stores.A.Save(bg, s)
	case "EpRefreshToken":
		g := &goidc.GrantSession{ID: "grant-1", TokenID: "old-token-id", RefreshToken: c01Refresh, LastTokenExpiresAtTimestamp: now + 300,
			CreatedAtTimestamp: now, ExpiresAtTimestamp: now + 6000}
		g.GrantType = goidc.GrantAuthorizationCode
		g.Subject, g.ClientID, g.ActiveScopes, g.GrantedScopes = "user1", owner, "scope1", "scope1"
		_ = w.stores.G.Save(bg, g)
	case "EpIntrospect", "EpRevoke":
		g := &goidc.GrantSession{ID: "grant-2", TokenID: c01Opaque, LastTokenExpiresAtTimestamp: now + 300,
			CreatedAtTimestamp: now, ExpiresAtTimestamp: now + 300}
		g.GrantType = goidc.GrantClientCredentials
		g.Subject, g.ClientID, g.ActiveScopes, g.GrantedScopes = owner, owner, "scope1", "scope1"
		_ = w.stores.G.Save(bg, g)
	}
	return w, nil
}

func c01Form(entry string) url.Values {
	v := url.Values{}
	switch entry {
	case "EpClientCredentials":
		v.Set("grant_type", "client_credentials")
		v.Set("scope", "scope1")
	case "EpAuthorizationCode":
		v.Set("grant_type", "authorization_code")
		v.Set("code", "the-authorization-code-0123456789")
		v.Set("redirect_uri", "https://client.example/cb")
	case "EpRefreshToken":
		v.Set("grant_type", "refresh_token")
		v.Set("refresh_token", c01Refresh)
	case "EpCibaGrant":
		v.Set("grant_type", "urn:openid:params:grant-type:ciba")
		v.Set("auth_req_id", "the-auth-req-id-0123456789")
	case "EpJwtBearer":
		v.Set("grant_type", "urn:ietf:params:oauth:grant-type:jwt-bearer")
		v.Set("assertion", "ok:user1")
		v.Set("scope", "scope1")
	case "EpPar":
		v.Set("response_type", "code")
		v.Set("redirect_uri", "https://client.example/cb")
		v.Set("scope", "scope1")
	case "EpBcAuthorize":
		v.Set("scope", "openid scope1")
		v.Set("login_hint", "user1")
	case "EpIntrospect", "EpRevoke":
		v.Set("token", c01Opaque)
	}
	return v
}

var c01Seq int

// run one case against the real provider and fill in the observations
func (k *c01Case) run() error {
	w, err := c01NewWorld(k)
	if err != nil {
		return err
	}
	form := c01Form(k.Entry)
	hdr := http.Header{}
	r := k.Req
	if r.FormID != 0 {
		form.Set("client_id", clientName(r.FormID))
	}
	if r.FormSecret != 0 {
		form.Set("client_secret", c01Secrets[r.FormSecret])
	}
	if r.Basic != nil {
		id := ""
		if r.Basic[0] != 0 {
			id = clientName(r.Basic[0])
		}
		hdr.Set("Authorization", "Basic "+base64.StdEncoding.EncodeToString([]byte(id+":"+c01Secrets[r.Basic[1]])))
	}
	// the query string of the request URI
	query := url.Values{}
	if r.QID != nil {
		query.Set("client_id", "")
		if *r.QID != 0 {
			query.Set("client_id", clientName(*r.QID))
		}
	}
	if r.QSecret != nil {
		query.Set("client_secret", c01Secrets[*r.QSecret])
	}
	switch r.QType {
	case "ok":
		query.Set("client_assertion_type", "urn:ietf:params:oauth:client-assertion-type:jwt-bearer")
	case "other":
		query.Set("client_assertion_type", "urn:ietf:params:oauth:client-assertion-type:saml2-bearer")
	}
	bodyAssertion := ""
	switch r.QAKind {
	case "AGarbage":
		query.Set("client_assertion", "this-is-not-a-jws")
	case "AJws":
		c01Seq++
		query.Set("client_assertion", r.QA.render(c01Path[k.Entry], k.Cfg.Mtls, c01Seq))
	case "Same": // the very string the body carries
		if r.AKind == "AJws" {
			c01Seq++
			bodyAssertion = r.A.render(c01Path[k.Entry], k.Cfg.Mtls, c01Seq)
			query.Set("client_assertion", bodyAssertion)
		} else if r.AKind == "AGarbage" {
			query.Set("client_assertion", "this-is-not-a-jws")
		}
	}
	uri := c01Path[k.Entry]
	if len(query) > 0 {
		uri += "?" + query.Encode()
	}
	switch r.AKind {
	case "AGarbage":
		form.Set("client_assertion", "this-is-not-a-jws")
	case "AJws":
		if bodyAssertion == "" {
			c01Seq++
			bodyAssertion = r.A.render(uri, k.Cfg.Mtls, c01Seq)
		}
		form.Set("client_assertion", bodyAssertion)
	}
	if r.TypeOK {
		form.Set("client_assertion_type", "urn:ietf:params:oauth:client-assertion-type:jwt-bearer")
	} else if !r.TypeAbsent {
		form.Set("client_assertion_type", "urn:ietf:params:oauth:client-assertion-type:saml2-bearer")
	}
	if r.Cert != nil {
		w.cert = c01Material_().certs[r.Cert.ID]
	}
	before := w.stores.Snapshot()
	w.stores.BeginRequest(nil, -1)
	k.URI = uri
	req := httptest.NewRequest("POST", uri, strings.NewReader(form.Encode()))
	req.Header.Set("Content-Type", "application/x-www-form-urlencoded")
	for h, vs := range hdr {
		for _, v := range vs {
			req.Header.Add(h, v)
		}
	}
	rec := httptest.NewRecorder()
	func() {
		defer func() {
			if p := recover(); p != nil {
				rec.Code = 599
				rec.Body.WriteString(fmt.Sprint("PANIC ", p))
			}
		}()
		w.prov.Handler().ServeHTTP(rec, req)
	}()
	after := w.stores.Snapshot()
	k.Status = rec.Code
	k.Body = truncate(rec.Body.String(), 300)
	var m map[string]any
	_ = json.Unmarshal(rec.Body.Bytes(), &m)
	str := func(key string) string { s, _ := m[key].(string); return s }
	switch k.Entry {
	case "EpPar":
		k.Artifact = str("request_uri") != ""
	case "EpBcAuthorize":
		k.Artifact = str("auth_req_id") != ""
	case "EpIntrospect":
		_, has := m["active"]
		k.Artifact = has
	case "EpRevoke":
		k.Artifact = false
	default:
		k.Artifact = str("access_token") != ""
	}
	ok := rec.Code >= 200 && rec.Code < 300
	if k.Entry == "EpRevoke" {
		k.Accepted = ok
	} else if k.Entry == "EpIntrospect" {
		act, _ := m["active"].(bool)
		k.Accepted = ok && act
	} else {
		k.Accepted = ok && k.Artifact
	}
	k.InvalidClient = !ok && str("error") == "invalid_client"
	k.Wrote = before != after
	for _, c := range w.stores.Log() {
		k.Log = append(k.Log, int(c))
		if !c.isRead() {
			k.Wrote = true
		}
	}
	k.Fetched = w.fetched > 0
	return nil
}

// ---------- the catalogue ----------

type c01Dev struct {
	name string
	f    func(k *c01Case) // mutates request / registrations / configuration of a valid cell
}

func c01Keys() []aJwk {
	return []aJwk{{Kid: 11, Alg: "ES256", Key: kC1, Kty: "KtEC256", Public: true},
		{Kid: 12, Alg: "ES384", Key: kC1b, Kty: "KtEC384", Public: true},
		{Kid: 13, Alg: "ES256", Key: kCert1, Kty: "KtEC256", Public: true, Cert: ctC1}}
}
func c01Keys2() []aJwk {
	return []aJwk{{Kid: 21, Alg: "ES256", Key: kC2, Kty: "KtEC256", Public: true},
		{Kid: 23, Alg: "ES256", Key: kCert2, Kty: "KtEC256", Public: true, Cert: ctC2}}
}

func c01BaseClient(id int, method string) aClient {
	c := aClient{ID: id, Method: method, IntroMethod: "MUnset", RevokeMethod: "MUnset", Hashed: -1, Jwks: "absent", IPKind: "IpUnset"}
	switch method {
	case "MSecretBasic", "MSecretPost":
		c.Hashed = hSec1 + id - 1
	case "MSecretJWT":
		c.Secret = hPlain1 + id - 1
		c.SecretLong = true
	case "MPrivateKeyJWT", "MSelfSignedTLS":
		c.Jwks = "value"
		c.Keys = c01Keys()
		if id == 2 {
			c.Keys = c01Keys2()
		}
	case "MTLS":
		c.DN = fmt.Sprintf("CN=client%d.example", id)
	}
	return c
}

func c01ValidAssertion(method string) *aAssertion {
	a := &aAssertion{Iss: pI(1), Sub: 1, Aud: []string{"AudTokenURL"}, Exp: pI(60), Jti: true}
	if method == "MSecretJWT" {
		a.Signer, a.SignerKey, a.Alg = "hsecret", hPlain1, "HS256"
	} else {
		a.Signer, a.SignerKey, a.Alg, a.Kid = "priv", kC1, "ES256", 11
	}
	return a
}

// the valid credential of a client registered with `method`, as client c1
func c01ValidReq(method string) aReq {
	r := aReq{AKind: "ANone", TypeAbsent: true, JtiOK: true}
	switch method {
	case "MNone":
		r.FormID = 1
	case "MSecretBasic":
		r.Basic = &[2]int{1, hSec1}
	case "MSecretPost":
		r.FormID, r.FormSecret = 1, hSec1
	case "MSecretJWT", "MPrivateKeyJWT":
		r.AKind, r.A, r.TypeOK, r.TypeAbsent = "AJws", c01ValidAssertion(method), true, false
	case "MTLS", "MSelfSignedTLS":
		r.FormID = 1
		r.Cert = c01AbsCert(ctC1)
	}
	return r
}

func c01BaseCase(method, entry string) *c01Case {
	k := &c01Case{Entry: entry, Cfg: aCfg{PkAlgs: []string{"ES256", "ES384"}, SjAlgs: []string{"HS256"}, Lifetime: 600, Leeway: 0, Mtls: true}}
	k.Clients = []aClient{c01BaseClient(1, method), c01BaseClient(2, method)}
	k.Req = c01ValidReq(method)
	return k
}

func isJWT(m string) bool    { return m == "MSecretJWT" || m == "MPrivateKeyJWT" }
func isSecret(m string) bool { return m == "MSecretBasic" || m == "MSecretPost" }
func isTLS(m string) bool    { return m == "MTLS" || m == "MSelfSignedTLS" }

// deviations that apply to every method
func c01Generic(method string) []c01Dev {
	d := []c01Dev{
		{"valid", func(k *c01Case) {}},
		{"valid, client in the store", func(k *c01Case) {}},
		{"only client_id, no credential", func(k *c01Case) { k.Req = aReq{FormID: 1, AKind: "ANone", TypeAbsent: true, JtiOK: true} }},
		{"no identification at all", func(k *c01Case) { k.Req = aReq{AKind: "ANone", TypeAbsent: true, JtiOK: true, Cert: k.Req.Cert} }},
		{"form client_id names the other registered client", func(k *c01Case) {
			k.Req.FormID = 2
			if method == "MNone" { // that would be the other public client's own valid request
				k.Req.Basic = &[2]int{1, 0}
			}
		}},
		{"form client_id names an unknown client", func(k *c01Case) { k.Req.FormID = 9 }},
		{"Basic user names the other client, rest names this one", func(k *c01Case) {
			if k.Req.Basic != nil {
				k.Req.FormID = 2
			} else {
				k.Req.Basic = &[2]int{2, hSec2}
				if k.Req.FormID == 0 && k.Req.AKind == "ANone" {
					k.Req.FormID = 1
				}
			}
		}},
		{"additional Basic header with this client's id and a wrong secret", func(k *c01Case) {
			if k.Req.Basic == nil {
				k.Req.Basic = &[2]int{1, hSecWrong}
			} else {
				k.Req.FormID = 1
			}
		}},
		{"additional garbage client_assertion", func(k *c01Case) {
			if k.Req.AKind == "ANone" {
				k.Req.AKind = "AGarbage"
			} else {
				k.Req.AKind, k.Req.A = "AGarbage", nil
			}
		}},
		{"additional assertion issued by the other client", func(k *c01Case) {
			if k.Req.AKind == "ANone" {
				k.Req.AKind = "AJws"
				k.Req.A = &aAssertion{Signer: "priv", SignerKey: kC2, Alg: "ES256", Kid: 21, Iss: pI(2), Sub: 2, Aud: []string{"AudTokenURL"}, Exp: pI(60), Jti: true}
				k.Req.TypeOK, k.Req.TypeAbsent = true, false
			} else {
				k.Req.FormID = 2
			}
		}},
		{"credential of the other client under this client's id", func(k *c01Case) {
			switch {
			case k.Req.Basic != nil:
				k.Req.Basic[1] = hSec2
			case k.Req.FormSecret != 0:
				k.Req.FormSecret = hSec2
			case k.Req.AKind == "AJws" && k.Req.A.Signer == "hsecret":
				k.Req.A.SignerKey = hPlain2
			case k.Req.AKind == "AJws":
				k.Req.A.SignerKey, k.Req.A.Kid = kC2, 21
			case k.Req.Cert != nil:
				k.Req.Cert = c01AbsCert(ctC2)
			default:
				k.Req.FormID = 9
			}
		}},
		{"registered method is the empty string", func(k *c01Case) { k.Clients[0].Method = "MUnset" }},
		{"registered method is not a known method", func(k *c01Case) { k.Clients[0].Method = "MUnknown" }},
	}
	// a credential of another method instead of the registered one
	if method != "MSecretPost" {
		d = append(d, c01Dev{"client_secret_post credential instead", func(k *c01Case) {
			k.Clients[0].Hashed = hSec1
			k.Req = aReq{FormID: 1, FormSecret: hSec1, AKind: "ANone", TypeAbsent: true, JtiOK: true}
		}})
	}
	if method != "MSecretBasic" {
		d = append(d, c01Dev{"client_secret_basic credential instead", func(k *c01Case) {
			k.Clients[0].Hashed = hSec1
			k.Req = aReq{Basic: &[2]int{1, hSec1}, AKind: "ANone", TypeAbsent: true, JtiOK: true}
		}})
	}
	if method != "MPrivateKeyJWT" {
		d = append(d, c01Dev{"private_key_jwt credential instead", func(k *c01Case) {
			k.Clients[0].Jwks, k.Clients[0].Keys = "value", c01Keys()
			k.Req = c01ValidReq("MPrivateKeyJWT")
		}})
	}
	return d
}

func c01SecretDevs(method string) []c01Dev {
	set := func(k *c01Case, s int) {
		if k.Req.Basic != nil {
			k.Req.Basic[1] = s
		} else {
			k.Req.FormSecret = s
		}
	}
	return []c01Dev{
		{"wrong secret", func(k *c01Case) { set(k, hSecWrong) }},
		{"empty secret", func(k *c01Case) { set(k, 0) }},
		{"truncated secret", func(k *c01Case) { set(k, hSecTrunc) }},
		{"secret with a trailing character", func(k *c01Case) { set(k, hSecExt) }},
		{"secret in the wrong place (Basic <-> form)", func(k *c01Case) {
			if k.Req.Basic != nil {
				k.Req = aReq{FormID: 1, FormSecret: hSec1, AKind: "ANone", TypeAbsent: true, JtiOK: true}
			} else {
				k.Req = aReq{Basic: &[2]int{1, hSec1}, AKind: "ANone", TypeAbsent: true, JtiOK: true}
			}
		}},
		{"right secret in both places", func(k *c01Case) {
			k.Req.FormID, k.Req.FormSecret, k.Req.Basic = 1, hSec1, &[2]int{1, hSec1}
		}},
		{"no hashed secret registered, empty secret presented", func(k *c01Case) { k.Clients[0].Hashed = -1; set(k, 0) }},
		{"no hashed secret registered, some secret presented", func(k *c01Case) { k.Clients[0].Hashed = -1 }},
		{"the plain Secret field holds the secret, the hash is of another one", func(k *c01Case) {
			k.Clients[0].Secret, k.Clients[0].Hashed = hSec1, hSec2
		}},
		{"Basic user empty, id only in the form", func(k *c01Case) {
			if k.Req.Basic != nil {
				k.Req.Basic[0] = 0
				k.Req.FormID = 1
			} else {
				k.Req.FormID = 0
				k.Req.Basic = &[2]int{1, hSec1}
			}
		}},
	}
}

func c01JWTDevs(method string) []c01Dev {
	pk := method == "MPrivateKeyJWT"
	d := []c01Dev{
		{"assertion type is another URN", func(k *c01Case) { k.Req.TypeOK = false }},
		{"assertion type parameter absent", func(k *c01Case) { k.Req.TypeOK, k.Req.TypeAbsent = false, true }},
		{"alg none, no signature", func(k *c01Case) { k.Req.A.Signer, k.Req.A.Alg = "unsigned", "AlgNone" }},
		{"signature stripped, alg kept", func(k *c01Case) { k.Req.A.Signer = "unsigned" }},
		{"iss names the other client", func(k *c01Case) { k.Req.A.Iss = pI(2) }},
		{"iss names an unknown client", func(k *c01Case) { k.Req.A.Iss = pI(9) }},
		{"iss missing", func(k *c01Case) { k.Req.A.Iss = nil }},
		{"iss missing, client_id in the form", func(k *c01Case) { k.Req.A.Iss = nil; k.Req.FormID = 1 }},
		{"iss is the empty string", func(k *c01Case) { k.Req.A.Iss = pI(0) }},
		{"sub names the other client", func(k *c01Case) { k.Req.A.Sub = 2 }},
		{"sub missing", func(k *c01Case) { k.Req.A.Sub = 0 }},
		{"aud missing", func(k *c01Case) { k.Req.A.Aud = nil }},
		{"aud is another server", func(k *c01Case) { k.Req.A.Aud = []string{"AudOther"} }},
		{"aud is the issuer", func(k *c01Case) { k.Req.A.Aud = []string{"AudIssuer"} }},
		{"aud is the request URL", func(k *c01Case) { k.Req.A.Aud = []string{"AudRequestURL"} }},
		{"aud is the mTLS token URL, mTLS enabled", func(k *c01Case) { k.Req.A.Aud = []string{"AudMtlsTokenURL"} }},
		{"aud is the mTLS request URL, mTLS disabled", func(k *c01Case) { k.Req.A.Aud = []string{"AudMtlsRequestURL"}; k.Cfg.Mtls = false }},
		{"aud lists another server and the token URL", func(k *c01Case) { k.Req.A.Aud = []string{"AudOther", "AudTokenURL"} }},
		{"exp missing", func(k *c01Case) { k.Req.A.Exp = nil }},
		{"expired an hour ago", func(k *c01Case) { k.Req.A.Exp = pI(-3600) }},
		{"expired a minute ago, leeway two minutes", func(k *c01Case) { k.Req.A.Exp = pI(-60); k.Cfg.Leeway = 120 }},
		{"expired five minutes ago, leeway two minutes", func(k *c01Case) { k.Req.A.Exp = pI(-300); k.Cfg.Leeway = 120 }},
		{"lifetime longer than allowed", func(k *c01Case) { k.Req.A.Exp = pI(4200) }},
		{"lifetime allowed by a larger configured maximum", func(k *c01Case) { k.Req.A.Exp = pI(4200); k.Cfg.Lifetime = 7200 }},
		{"jti missing", func(k *c01Case) { k.Req.A.Jti = false }},
		{"jti refused by the embedder (replay)", func(k *c01Case) { k.Req.JtiOK = false }},
		{"nbf in the future", func(k *c01Case) { k.Req.A.Nbf = pI(600) }},
		{"nbf in the past, iat now", func(k *c01Case) { k.Req.A.Nbf = pI(-60); k.Req.A.Iat = pI(-5) }},
		{"iat in the future", func(k *c01Case) { k.Req.A.Iat = pI(600) }},
		{"client_id form parameter too, agreeing", func(k *c01Case) { k.Req.FormID = 1 }},
		{"algorithm pinned by the client, matching", func(k *c01Case) { k.Clients[0].Alg = k.Req.A.Alg }},
		{"algorithm pinned by the client for introspection only", func(k *c01Case) { k.Clients[0].IntroAlg = "ES384" }},
		{"algorithm pinned by the client for revocation only", func(k *c01Case) { k.Clients[0].RevokeAlg = "ES384" }},
		{"algorithm pinned for the token endpoint differs", func(k *c01Case) { k.Clients[0].Alg = "ES384" }},
	}
	if pk {
		d = append(d,
			c01Dev{"signed by a foreign key", func(k *c01Case) { k.Req.A.SignerKey = kForeign }},
			c01Dev{"HS256 keyed with the registered public key", func(k *c01Case) {
				k.Req.A.Signer, k.Req.A.SignerKey, k.Req.A.Alg = "hpub", kC1, "HS256"
			}},
			c01Dev{"HS256 keyed with the public key, client pinned HS256", func(k *c01Case) {
				k.Req.A.Signer, k.Req.A.SignerKey, k.Req.A.Alg = "hpub", kC1, "HS256"
				k.Clients[0].Alg = "HS256"
			}},
			c01Dev{"ES384 with the client's second key", func(k *c01Case) { k.Req.A.SignerKey, k.Req.A.Kid, k.Req.A.Alg = kC1b, 12, "ES384" }},
			c01Dev{"ES384 while the server allows ES256 only", func(k *c01Case) {
				k.Req.A.SignerKey, k.Req.A.Kid, k.Req.A.Alg = kC1b, 12, "ES384"
				k.Cfg.PkAlgs = []string{"ES256"}
			}},
			c01Dev{"ES384 while the client pinned ES256", func(k *c01Case) {
				k.Req.A.SignerKey, k.Req.A.Kid, k.Req.A.Alg = kC1b, 12, "ES384"
				k.Clients[0].Alg = "ES256"
			}},
			c01Dev{"header says ES384, signed with the P-256 key", func(k *c01Case) { k.Req.A.Alg = "ES384" }},
			c01Dev{"kid of the client's other key", func(k *c01Case) { k.Req.A.Kid = 12 }},
			c01Dev{"unknown kid", func(k *c01Case) { k.Req.A.Kid = 77 }},
			c01Dev{"no kid: key found by its alg attribute", func(k *c01Case) { k.Req.A.Kid = 0 }},
			c01Dev{"no kid, no key with that alg attribute", func(k *c01Case) {
				k.Req.A.Kid = 0
				for i := range k.Clients[0].Keys {
					k.Clients[0].Keys[i].Alg = ""
				}
			}},
			c01Dev{"no kid, first key with the alg attribute is another key", func(k *c01Case) {
				k.Req.A.Kid = 0
				ks := k.Clients[0].Keys
				k.Clients[0].Keys = []aJwk{ks[2], ks[0], ks[1]}
			}},
			c01Dev{"registered JWKS holds the private key", func(k *c01Case) { k.Clients[0].Keys[0].Public = false }},
			c01Dev{"no JWKS registered", func(k *c01Case) { k.Clients[0].Jwks, k.Clients[0].Keys = "absent", nil }},
			c01Dev{"JWKS by jwks_uri", func(k *c01Case) {
				k.Req.FetchOK, k.Req.FetchKeys = true, k.Clients[0].Keys
				k.Clients[0].Jwks, k.Clients[0].Keys = "uri", nil
			}},
			c01Dev{"JWKS by jwks_uri, fetch fails", func(k *c01Case) { k.Clients[0].Jwks, k.Clients[0].Keys = "uri", nil }},
			c01Dev{"JWKS by jwks_uri serving other keys", func(k *c01Case) {
				k.Req.FetchOK, k.Req.FetchKeys = true, c01Keys2()
				k.Clients[0].Jwks, k.Clients[0].Keys = "uri", nil
			}},
			c01Dev{"JWKS by jwks_uri, foreign signature", func(k *c01Case) {
				k.Req.FetchOK, k.Req.FetchKeys = true, k.Clients[0].Keys
				k.Clients[0].Jwks, k.Clients[0].Keys = "uri", nil
				k.Req.A.SignerKey = kForeign
			}},
			c01Dev{"JWKS by jwks_uri, wrong assertion type (no fetch expected)", func(k *c01Case) {
				k.Req.FetchOK, k.Req.FetchKeys = true, k.Clients[0].Keys
				k.Clients[0].Jwks, k.Clients[0].Keys = "uri", nil
				k.Req.TypeOK = false
			}},
		)
	} else {
		d = append(d,
			c01Dev{"HMAC keyed with a wrong secret", func(k *c01Case) { k.Req.A.SignerKey = hPlainWrong }},
			c01Dev{"HMAC keyed with the empty string", func(k *c01Case) { k.Req.A.SignerKey = 0 }},
			c01Dev{"registered secret shorter than the HS256 minimum", func(k *c01Case) {
				k.Clients[0].Secret, k.Clients[0].SecretLong = hPlainShort, false
				k.Req.A.SignerKey = hPlainShort
			}},
			c01Dev{"no secret registered, HMAC keyed with the empty string", func(k *c01Case) {
				k.Clients[0].Secret, k.Clients[0].SecretLong = 0, false
				k.Req.A.SignerKey = 0
			}},
			c01Dev{"signed ES256 with a key the client also registered", func(k *c01Case) {
				k.Clients[0].Jwks, k.Clients[0].Keys = "value", c01Keys()
				k.Req.A.Signer, k.Req.A.SignerKey, k.Req.A.Alg, k.Req.A.Kid = "priv", kC1, "ES256", 11
			}},
			c01Dev{"signed ES256, client pinned ES256", func(k *c01Case) {
				k.Clients[0].Jwks, k.Clients[0].Keys = "value", c01Keys()
				k.Clients[0].Alg = "ES256"
				k.Req.A.Signer, k.Req.A.SignerKey, k.Req.A.Alg, k.Req.A.Kid = "priv", kC1, "ES256", 11
			}},
			c01Dev{"hashed secret registered only, HMAC keyed with it", func(k *c01Case) {
				k.Clients[0].Secret, k.Clients[0].SecretLong, k.Clients[0].Hashed = 0, false, hSec1
				k.Req.A.SignerKey = hSec1
			}},
		)
	}
	return d
}

func c01TLSDevs(method string) []c01Dev {
	d := []c01Dev{
		{"no certificate", func(k *c01Case) { k.Req.Cert = nil }},
		{"foreign certificate", func(k *c01Case) { k.Req.Cert = c01AbsCert(ctF) }},
		{"regenerated certificate: new key, same subject and SANs", func(k *c01Case) { k.Req.Cert = c01AbsCert(ctRegen) }},
		{"re-issued certificate: same key, same subject", func(k *c01Case) { k.Req.Cert = c01AbsCert(ctSameKey) }},
		{"mTLS not configured on the server", func(k *c01Case) { k.Cfg.Mtls = false }},
		{"client_id only as Basic user", func(k *c01Case) { k.Req.FormID = 0; k.Req.Basic = &[2]int{1, 0} }},
		{"valid certificate and a client_secret on top", func(k *c01Case) { k.Req.FormSecret = hSecWrong }},
	}
	if method == "MTLS" {
		d = append(d,
			c01Dev{"registered by SAN dNSName", func(k *c01Case) { k.Clients[0].DN, k.Clients[0].DNS = "", "client1.example" }},
			c01Dev{"registered by SAN dNSName, foreign certificate", func(k *c01Case) {
				k.Clients[0].DN, k.Clients[0].DNS = "", "client1.example"
				k.Req.Cert = c01AbsCert(ctF)
			}},
			c01Dev{"registered by SAN iPAddress", func(k *c01Case) { k.Clients[0].DN, k.Clients[0].IPKind, k.Clients[0].IP = "", "IpAddr", 1 }},
			c01Dev{"registered by SAN iPAddress, other client's certificate", func(k *c01Case) {
				k.Clients[0].DN, k.Clients[0].IPKind, k.Clients[0].IP = "", "IpAddr", 1
				k.Req.Cert = c01AbsCert(ctC2)
			}},
			c01Dev{"registered SAN iPAddress is not an address", func(k *c01Case) { k.Clients[0].DN, k.Clients[0].IPKind = "", "IpUnparsable" }},
			c01Dev{"nothing registered to match the certificate", func(k *c01Case) { k.Clients[0].DN = "" }},
			c01Dev{"registered DN differs, SAN dNSName would match", func(k *c01Case) {
				k.Clients[0].DN, k.Clients[0].DNS = "CN=someone-else.example", "client1.example"
			}},
			c01Dev{"registered DN is a prefix of the certificate's", func(k *c01Case) { k.Clients[0].DN = "CN=client1.exampl" }},
		)
	} else {
		d = append(d,
			c01Dev{"JWKS without the certificate's thumbprint", func(k *c01Case) { k.Clients[0].Keys = k.Clients[0].Keys[:2] }},
			c01Dev{"JWK with the thumbprint carries another key", func(k *c01Case) { k.Clients[0].Keys[2].Key = kC1 }},
			c01Dev{"no JWKS registered", func(k *c01Case) { k.Clients[0].Jwks, k.Clients[0].Keys = "absent", nil }},
			c01Dev{"JWKS by jwks_uri", func(k *c01Case) {
				k.Req.FetchOK, k.Req.FetchKeys = true, k.Clients[0].Keys
				k.Clients[0].Jwks, k.Clients[0].Keys = "uri", nil
			}},
			c01Dev{"JWKS by jwks_uri, fetch fails", func(k *c01Case) { k.Clients[0].Jwks, k.Clients[0].Keys = "uri", nil }},
			c01Dev{"JWKS by jwks_uri, no certificate (no fetch expected)", func(k *c01Case) {
				k.Req.FetchOK, k.Req.FetchKeys = true, k.Clients[0].Keys
				k.Clients[0].Jwks, k.Clients[0].Keys = "uri", nil
				k.Req.Cert = nil
			}},
		)
	}
	return d
}

// per-endpoint method / algorithm overrides, at the introspection and revocation endpoints
func c01OverrideDevs(method, entry string) []c01Dev {
	if entry != "EpIntrospect" && entry != "EpRevoke" {
		return nil
	}
	intro := entry == "EpIntrospect"
	setM := func(c *aClient, m string) {
		if intro {
			c.IntroMethod = m
		} else {
			c.RevokeMethod = m
		}
	}
	setA := func(c *aClient, a string) {
		if intro {
			c.IntroAlg = a
		} else {
			c.RevokeAlg = a
		}
	}
	other := func(c *aClient, m string) { // the override of the OTHER endpoint
		if intro {
			c.RevokeMethod = m
		} else {
			c.IntroMethod = m
		}
	}
	giveKeys := func(k *c01Case) { k.Clients[0].Jwks, k.Clients[0].Keys = "value", c01Keys() }
	d := []c01Dev{
		{"endpoint method override private_key_jwt, no algorithm pinned, valid assertion", func(k *c01Case) {
			setM(&k.Clients[0], "MPrivateKeyJWT")
			giveKeys(k)
			k.Req = c01ValidReq("MPrivateKeyJWT")
		}},
		{"endpoint method override private_key_jwt, algorithm pinned ES256, valid assertion", func(k *c01Case) {
			setM(&k.Clients[0], "MPrivateKeyJWT")
			setA(&k.Clients[0], "ES256")
			giveKeys(k)
			k.Req = c01ValidReq("MPrivateKeyJWT")
		}},
		{"endpoint method override private_key_jwt, algorithm pinned ES384, ES256 assertion", func(k *c01Case) {
			setM(&k.Clients[0], "MPrivateKeyJWT")
			setA(&k.Clients[0], "ES384")
			giveKeys(k)
			k.Req = c01ValidReq("MPrivateKeyJWT")
		}},
		{"endpoint method override private_key_jwt, token endpoint algorithm pinned ES384, ES256 assertion", func(k *c01Case) {
			setM(&k.Clients[0], "MPrivateKeyJWT")
			k.Clients[0].Alg = "ES384"
			giveKeys(k)
			k.Req = c01ValidReq("MPrivateKeyJWT")
		}},
		{"endpoint method override private_key_jwt, credential of the token endpoint method", func(k *c01Case) {
			setM(&k.Clients[0], "MPrivateKeyJWT")
			giveKeys(k)
		}},
		{"endpoint method override private_key_jwt, foreign signature", func(k *c01Case) {
			setM(&k.Clients[0], "MPrivateKeyJWT")
			giveKeys(k)
			k.Req = c01ValidReq("MPrivateKeyJWT")
			k.Req.A.SignerKey = kForeign
		}},
		{"endpoint method override client_secret_post, valid secret", func(k *c01Case) {
			setM(&k.Clients[0], "MSecretPost")
			k.Clients[0].Hashed = hSec1
			k.Req = c01ValidReq("MSecretPost")
		}},
		{"endpoint method override client_secret_post, wrong secret", func(k *c01Case) {
			setM(&k.Clients[0], "MSecretPost")
			k.Clients[0].Hashed = hSec1
			k.Req = c01ValidReq("MSecretPost")
			k.Req.FormSecret = hSecWrong
		}},
		{"endpoint method override none", func(k *c01Case) {
			setM(&k.Clients[0], "MNone")
			k.Req = aReq{FormID: 1, AKind: "ANone", TypeAbsent: true, JtiOK: true}
		}},
		{"override registered for the other endpoint only", func(k *c01Case) { other(&k.Clients[0], "MPrivateKeyJWT") }},
		{"endpoint algorithm pinned, no method override", func(k *c01Case) { setA(&k.Clients[0], "ES384") }},
	}
	if method == "MPrivateKeyJWT" {
		d = append(d, c01Dev{"this endpoint pins ES384, assertion ES384; token endpoint pins ES256", func(k *c01Case) {
			k.Clients[0].Alg = "ES256"
			setA(&k.Clients[0], "ES384")
			k.Req.A.SignerKey, k.Req.A.Kid, k.Req.A.Alg = kC1b, 12, "ES384"
		}})
	}
	return d
}

var c01Methods = []string{"MNone", "MSecretBasic", "MSecretPost", "MSecretJWT", "MPrivateKeyJWT", "MTLS", "MSelfSignedTLS"}

func c01Catalogue(ctx *RunCtx) []*c01Case {
	var out []*c01Case
	for _, entry := range c01Entries {
		for _, method := range c01Methods {
			devs := c01Generic(method)
			if isSecret(method) {
				devs = append(devs, c01SecretDevs(method)...)
			}
			if isJWT(method) {
				devs = append(devs, c01JWTDevs(method)...)
			}
			if isTLS(method) {
				devs = append(devs, c01TLSDevs(method)...)
			}
			devs = append(devs, c01OverrideDevs(method, entry)...)
			devs = append(devs, c01PlacementDevs(method)...)
			devs = append(devs, c01PlacementOverrideDevs(method, entry)...)
			for i, d := range devs {
				k := c01BaseCase(method, entry)
				// where the clients live: the target static / stored, decided by the seed; the second valid cell forces the store
				st := ctx.R.Intn(2) == 0
				if i == 1 {
					st = false
				} else if i == 0 {
					st = true
				}
				k.Clients[0].Static = st
				k.Clients[1].Static = ctx.R.Intn(2) == 0
				d.f(k)
				k.Note = fmt.Sprintf("%s / %s / %s", strings.TrimPrefix(entry, "Ep"), strings.TrimPrefix(method, "M"), d.name)
				out = append(out, k)
			}
			if entry == "EpJwtBearer" {
				// the stated exception: no client identification at all, anonymous use allowed
				for _, nm := range []string{"anonymous allowed, no identification", "anonymous allowed, unknown client named", "anonymous allowed, bad credential"} {
					k := c01BaseCase(method, entry)
					k.Anon = true
					k.Clients[0].Static = true
					switch nm {
					case "anonymous allowed, no identification":
						k.Req = aReq{AKind: "ANone", TypeAbsent: true, JtiOK: true}
					case "anonymous allowed, unknown client named":
						k.Req = aReq{FormID: 9, AKind: "ANone", TypeAbsent: true, JtiOK: true}
					default:
						k.Req = aReq{FormID: 1, FormSecret: hSecWrong, AKind: "ANone", TypeAbsent: true, JtiOK: true}
						if method == "MNone" {
							k.Req.FormID = 9
						}
					}
					k.Note = fmt.Sprintf("JwtBearer / %s / %s", strings.TrimPrefix(method, "M"), nm)
					out = append(out, k)
				}
				out = append(out, c01AnonPlacement(method)...)
				out = append(out, c01IdentFamily(ctx, method, entry, true)...)
			}
			out = append(out, c01IdentFamily(ctx, method, entry, false)...)
		}
	}
	return out
}

// thorough tier: random combinations of two or three deviations
func c01Combos(ctx *RunCtx, n int) []*c01Case {
	var out []*c01Case
	for len(out) < n {
		entry := pick(ctx.R, c01Entries)
		method := pick(ctx.R, c01Methods)
		devs := c01Generic(method)[2:]
		if isSecret(method) {
			devs = append(devs, c01SecretDevs(method)...)
		}
		if isJWT(method) {
			devs = append(devs, c01JWTDevs(method)...)
		}
		if isTLS(method) {
			devs = append(devs, c01TLSDevs(method)...)
		}
		devs = append(devs, c01OverrideDevs(method, entry)...)
		devs = append(devs, c01PlacementDevs(method)...)
		devs = append(devs, c01PlacementOverrideDevs(method, entry)...)
		k := c01BaseCase(method, entry)
		k.Clients[0].Static = ctx.R.Intn(2) == 0
		k.Clients[1].Static = ctx.R.Intn(2) == 0
		var names []string
		ok := true
		func() {
			defer func() {
				if recover() != nil {
					ok = false // a combination that does not apply (e.g. touches an assertion that was removed)
				}
			}()
			for j, m := 0, 2+ctx.R.Intn(2); j < m; j++ {
				d := devs[ctx.R.Intn(len(devs))]
				d.f(k)
				names = append(names, d.name)
			}
		}()
		if !ok || (k.Req.AKind == "AJws" && k.Req.A == nil) || (k.Req.QAKind == "AJws" && k.Req.QA == nil) {
			continue
		}
		if k.Req.QAKind == "Same" && k.Req.AKind == "AJws" {
			// the same string in both places cannot name the request URI (which contains it) as its audience
			circular := false
			for _, v := range k.Req.A.Aud {
				circular = circular || v == "AudRequestURL" || v == "AudMtlsRequestURL"
			}
			if circular {
				continue
			}
		}
		if a := k.Req.QA; k.Req.QAKind == "AJws" {
			_, isKey := c01Material_().keys[a.SignerKey]
			_, isSecret := c01Secrets[a.SignerKey]
			if (a.Signer == "priv" || a.Signer == "hpub") && !isKey || a.Signer == "hsecret" && !isSecret {
				continue
			}
		}
		if a := k.Req.A; k.Req.AKind == "AJws" {
			// the combination must still name material that exists
			_, isKey := c01Material_().keys[a.SignerKey]
			_, isSecret := c01Secrets[a.SignerKey]
			if (a.Signer == "priv" || a.Signer == "hpub") && !isKey || a.Signer == "hsecret" && !isSecret {
				continue
			}
		}
		k.Note = fmt.Sprintf("%s / %s / %s", strings.TrimPrefix(entry, "Ep"), strings.TrimPrefix(method, "M"), strings.Join(names, " + "))
		out = append(out, k)
	}
	return out
}

const c01Header = `From Verif Require Import Base Scope Types Prog Pop Token Authorize Authn AuthnSpec AuthnLink AuthnWire Corr.C01.
Local Open Scope N_scope.
Local Open Scope string_scope.
`

// c01Replay re-sends the request of a replay file (written by ./check from cases.json) to the
// real provider and prints what happens.
func c01Replay(path string) int {
	b, err := os.ReadFile(path)
	if err != nil {
		fmt.Fprintln(os.Stderr, err)
		return 2
	}
	var rp struct {
		What string `json:"what"`
		Spec struct {
			Cfg     aCfg      `json:"cfg"`
			Entry   string    `json:"entry"`
			Clients []aClient `json:"clients"`
			Anon    bool      `json:"anonymous_allowed"`
		}
		Ops []aReq
		Obs map[string]any
	}
	if err := json.Unmarshal(b, &rp); err != nil || len(rp.Ops) != 1 {
		fmt.Fprintln(os.Stderr, "not a c01 replay file:", err)
		return 2
	}
	k := &c01Case{Cfg: rp.Spec.Cfg, Entry: rp.Spec.Entry, Clients: rp.Spec.Clients, Anon: rp.Spec.Anon, Req: rp.Ops[0]}
	if err := k.run(); err != nil {
		fmt.Fprintln(os.Stderr, err)
		return 2
	}
	fmt.Println(rp.What)
	fmt.Printf("POST %s as %s (anonymous jwt-bearer use allowed: %v)\n  request: %s\n  clients: %s\n", k.URI, k.Entry, k.Anon, k.Req.coq(), cList(k.Clients, aClient.coq))
	fmt.Printf("  => status %d accepted=%v invalid_client=%v artifact=%v storage-write=%v jwks_uri-fetched=%v storage-calls=%v\n     %s\n",
		k.Status, k.Accepted, k.InvalidClient, k.Artifact, k.Wrote, k.Fetched, k.Log, k.Body)
	fmt.Printf("  recorded: %v\n", rp.Obs)
	return 0
}

func init() {
	replayers["c01"] = c01Replay
	register(&Suite{Name: "c01", Run: func(ctx *RunCtx) {
		cases := c01Catalogue(ctx)
		if !ctx.Quick() {
			cases = append(cases, c01Combos(ctx, 18000)...)
		}
		seen := map[string]bool{}
		acc, ref := 0, 0
		var jcases []map[string]any
		for i, k := range cases {
			if err := k.run(); err != nil {
				panic(fmt.Sprintf("case %d (%s): %v", i, k.Note, err))
			}
			parts := strings.SplitN(k.Note, " / ", 3)
			ctx.Meta.Dist["entry="+parts[0]]++
			ctx.Meta.Dist["method="+parts[1]]++
			if k.Accepted {
				acc++
				ctx.Meta.Dist["accepted"]++
			} else {
				ref++
				ctx.Meta.Dist["refused"]++
				if k.InvalidClient {
					ctx.Meta.Dist["refused:invalid_client"]++
				}
			}
			if k.Fetched {
				ctx.Meta.Dist["jwks_uri fetched"]++
			}
			seen[k.Cfg.coq()+k.Entry+cList(k.Clients, aClient.coq)+k.Req.coq()] = true
			jcases = append(jcases, map[string]any{"Index": i, "Note": k.Note,
				"Spec": map[string]any{"cfg": k.Cfg, "entry": k.Entry, "clients": k.Clients, "anonymous_allowed": k.Anon},
				"Ops":  []any{k.Req},
				"Obs": map[string]any{"accepted": k.Accepted, "invalid_client": k.InvalidClient, "artifact": k.Artifact, "wrote": k.Wrote,
					"fetched": k.Fetched, "status": k.Status, "body": k.Body, "storage_calls": k.Log, "request_uri": k.URI}})
			if i < 3 {
				ctx.Meta.Samples = append(ctx.Meta.Samples, map[string]any{"note": k.Note, "request": k.Req.coq(), "accepted": k.Accepted, "status": k.Status})
			}
		}
		per := 200
		for s := 0; s*per < len(cases); s++ {
			hi := (s + 1) * per
			if hi > len(cases) {
				hi = len(cases)
			}
			var b strings.Builder
			b.WriteString(c01Header)
			var names []string
			for i, k := range cases[s*per : hi] {
				fmt.Fprintf(&b, "(*CASE %d: %s*)\nDefinition c_%d : acase :=\n%s.\n", s*per+i, strings.ReplaceAll(k.Note, "*)", "* )"), s*per+i, k.coq())
				names = append(names, fmt.Sprintf("c_%d", s*per+i))
			}
			b.WriteString("Definition cases : list acase := [" + strings.Join(names, "; ") + "].\n")
			b.WriteString("Definition corr := Eval vm_compute in map check_acase cases.\nPrint corr.\n")
			b.WriteString("Definition mon := Eval vm_compute in map mon_acase cases.\nPrint mon.\n")
			name := fmt.Sprintf("cases_%03d.v", s)
			if err := os.WriteFile(filepath.Join(ctx.Out, name), []byte(b.String()), 0o644); err != nil {
				panic(err)
			}
			ctx.Meta.Files = append(ctx.Meta.Files, name)
		}
		jb, _ := json.Marshal(jcases)
		_ = os.WriteFile(filepath.Join(ctx.Out, "cases.json"), jb, 0o644)
		ctx.Meta.Cases = len(cases)
		ctx.Meta.Ops = len(cases)
		ctx.Meta.Distinct = len(seen)
		ctx.Meta.Rule = "single-deviation catalogue: 7 registered methods x 9 entry points x every credential deviation that applies (+ the valid credential of each cell, per-endpoint overrides at introspection/revocation, the anonymous jwt-bearer exception; PLACEMENT of every form-carried member: body / query string only / both equal / both different, Basic header vs form secret; IDENTIFICATION IN SEVERAL PLACES: 14 agree/disagree patterns of Basic user, body client_id, assertion issuer x right/wrong/absent proof at every entry point, jwt-bearer with authentication required and not required); thorough adds random combinations of 2-3 deviations; distinct by (configuration, entry, registrations, request record); every case is non-trivial in the sense that its cell also holds the accepted valid credential"
		ctx.Meta.Extra = map[string]any{"accepted": acc, "refused": ref}
	}})
}
