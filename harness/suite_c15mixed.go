package main

// Suite c15mixed: racing CIBA polls of ONE auth_req_id that are answered DIFFERENTLY by the embedder's
// ValidateBackAuthFunc (a polling-interval limiter answers slow_down / authorization_pending to one poll and lets
// another one through; a user denies while a poll is in flight), followed by one more, approved, poll.
//
// Model/RaceMixed.v: poll i carries the verdict vs[i]; the polls make different numbers of storage calls on the
// unchanged flow (approve: CGet AGet ADel GSave; deny: CGet AGet ADel; pending / slow_down: CGet AGet - a lookup and
// NO write); every interleaving of those calls is imposed on the real requests through the storage gate
// (c15Execute, the verdict of the request that is released is handed to the validation function), the follow-up
// poll is served alone afterwards.  Verdict lists: every list of 2 (quick and thorough: all 15) and of 3 (54) verdicts
// out of approve / pending / slow_down / deny with AT MOST ONE approve (two approved polls in flight are the known
// window K4 of suite c15).
//
// Correspondence (Corr/C15.v check_mixed_group, storage flavours copy and strict): which of the racing polls and whether
// the follow-up were answered with tokens, every poll's storage-call sequence.
// Monitor (all three flavours): two or more TOKEN RESPONSES over race + follow-up ->
//   race:auth_req_id:mixed-verdicts:several-token-responses      (never known)
// e.g. a poll that is told to wait writes the session it loaded back: lookup(B) < delete(A) < save(B) resurrects the
// consumed session and the follow-up poll obtains a second set of tokens.

import (
	"encoding/json"
	"fmt"
	"os"
	"path/filepath"
	"sort"
	"strings"
)

var c15mxVerdicts = []string{"BaApprove", "BaPending", "BaSlowDown", "BaDeny"}

// storage calls of one poll served alone on the unchanged flow (RaceMixed.mx_counts; Corr code 6 checks the model agrees)
var c15mxCalls = map[string]int{"BaApprove": 4, "BaPending": 2, "BaSlowDown": 2, "BaDeny": 3}

// RaceMixed.mx_cases, in the same order
func c15mxCases(k int) [][]string {
	lists := [][]string{{}}
	for i := 0; i < k; i++ {
		var next [][]string
		// lists_of (S k) = flat_map (fun v => map (cons v) (lists_of k)) verdicts
		for _, v := range c15mxVerdicts {
			for _, l := range lists {
				next = append(next, append([]string{v}, l...))
			}
		}
		lists = next
	}
	var out [][]string
	for _, l := range lists {
		n := 0
		for _, v := range l {
			if v == "BaApprove" {
				n++
			}
		}
		if n <= 1 {
			out = append(out, l)
		}
	}
	return out
}

func c15mxScenario(rotation bool, vs []string) c15Scenario {
	for _, sc := range c15Scenarios(rotation) {
		if sc.Kind == "auth_req_id" {
			sc.Verdicts = vs
			return sc
		}
	}
	panic("c15mixed: no auth_req_id scenario")
}

type c15mxGroup struct {
	sc         c15Scenario
	exhaustive bool
	runs       []c15Run
}

func (g *c15mxGroup) coq(name string) string {
	var b strings.Builder
	r0 := g.runs[0]
	fmt.Fprintf(&b, "Definition %s : mixedgroup := mkMixedGroup (%s %s)\n %s\n %s %s %s\n [", name, g.sc.Coq, cB(g.sc.Rotation),
		c15ScnCoq(g.sc, r0.Spec, g.sc.Prefix, r0.RaceOp), cList(g.sc.Verdicts, func(v string) string { return v }), cB(g.exhaustive), cB(r0.strict()))
	for i := range g.runs {
		r := &g.runs[i]
		if i > 0 {
			b.WriteString(";\n  ")
		}
		fmt.Fprintf(&b, "mkMixedObs %s %s %s", cList(r.Sched, func(i int) string { return fmt.Sprintf("%d", i) }), cList(r.Mixed, cB), cList(r.Logs, c15Kinds))
	}
	b.WriteString("].\n")
	return b.String()
}

func init() {
	register(&Suite{Name: "c15mixed", Run: func(ctx *RunCtx) {
		if _, err := NewWorld(WorldSpec{Profile: "openid", Opts: c15Opts(true), Dyn: []ClientSpec{c15Client}, Flavour: "copy"}); err != nil {
			panic(err)
		}
		var groups []*c15mxGroup
		findings := map[string]Finding{}
		distinct := map[string]bool{}
		var jcases []map[string]any
		harnessErrs := 0
		addFinding := func(sig, what string, replay any) {
			if _, ok := findings[sig]; !ok {
				findings[sig] = Finding{Property: "C15", Signature: sig, What: what, Replay: replay}
			}
		}
		type plan struct {
			rotation   bool
			vs         []string
			scheds     [][]int
			exhaustive bool
		}
		var plans []plan
		counts := func(vs []string) []int {
			c := make([]int, len(vs))
			for i, v := range vs {
				c[i] = c15mxCalls[v]
			}
			return c
		}
		rotations := []bool{true, false}
		for _, rot := range rotations {
			// two racing polls: every verdict list, every interleaving
			for _, vs := range c15mxCases(2) {
				plans = append(plans, plan{rot, vs, c15Interleavings(counts(vs)), true})
			}
			// three racing polls: quick - 2 random interleavings of 24 random verdict lists; thorough - every list,
			// every interleaving, sampled down to 120 per list
			three := c15mxCases(3)
			if ctx.Quick() {
				for i := 0; i < 24; i++ {
					vs := three[ctx.R.Intn(len(three))]
					all := c15Interleavings(counts(vs))
					plans = append(plans, plan{rot, vs, [][]int{all[ctx.R.Intn(len(all))], all[ctx.R.Intn(len(all))]}, false})
				}
			} else {
				for _, vs := range three {
					all := c15Interleavings(counts(vs))
					if len(all) > 120 {
						ctx.R.Shuffle(len(all), func(a, b int) { all[a], all[b] = all[b], all[a] })
						all = all[:120]
						sort.Slice(all, func(a, b int) bool { return fmt.Sprint(all[a]) < fmt.Sprint(all[b]) })
						plans = append(plans, plan{rot, vs, all, false})
					} else {
						plans = append(plans, plan{rot, vs, all, true})
					}
				}
			}
		}
		soloDone := map[string]bool{}
		for _, pl := range plans {
			sc := c15mxScenario(pl.rotation, pl.vs)
			k := len(pl.vs)
			// every verdict served alone: the flow's storage calls are the model's
			for _, v := range pl.vs {
				key := fmt.Sprintf("%v/%s", pl.rotation, v)
				if soloDone[key] {
					continue
				}
				soloDone[key] = true
				solo := c15Execute(c15mxScenario(pl.rotation, []string{v}), "copy", 1, nil, false)
				if solo.Err != "" {
					addFinding("harness:c15mixed:solo:"+v, "a poll served alone could not be run: "+solo.Err, c15Replay(sc, &solo))
				} else if len(solo.Logs[0]) != c15mxCalls[v] {
					ctx.Meta.Dist["solo-flow-differs-from-model/"+v]++
				}
			}
			for _, flavour := range []string{"copy", "strict", "alias"} {
				scheds := pl.scheds
				if flavour == "alias" && ctx.Quick() && len(scheds) > 12 {
					// only monitored; every other schedule
					var sub [][]int
					for i := 0; i < len(scheds); i += 2 {
						sub = append(sub, scheds[i])
					}
					scheds = sub
				}
				runs := c15RunAll(sc, flavour, k, scheds, sc.L, sc.C)
				var good []c15Run
				for i := range runs {
					r := &runs[i]
					if r.Err != "" {
						harnessErrs++
						addFinding("harness:c15mixed", fmt.Sprintf("the scheduler could not impose a schedule on the real polls (verdicts %v): %s", pl.vs, r.Err), c15Replay(sc, r))
						continue
					}
					ctx.Meta.Dist[fmt.Sprintf("k=%d/%s/token-responses=%d", k, flavour, r.mixedTokens())]++
					if r.mixedTokens() >= 2 {
						addFinding("race:auth_req_id:mixed-verdicts:several-token-responses",
							fmt.Sprintf("%d TOKEN RESPONSES out of one auth_req_id: %d racing polls answered %v by the embedder's validation function (rotation=%v, storage=%s, schedule %v, storage calls in order %v), then one more approved poll; answered with tokens (racing polls, then the follow-up): %v - on the unchanged flow a poll that is told to wait performs a lookup and no write, the approved poll deletes the session and every later poll is refused",
								r.mixedTokens(), k, pl.vs, pl.rotation, flavour, r.Sched, c15Replay(sc, r)["storage_calls_in_order"], r.Mixed), c15Replay(sc, r))
					}
					if flavour != "alias" {
						good = append(good, *r)
						if r.mixedTokens() > 0 {
							distinct[fmt.Sprintf("%s/%v/%v/%v/%v", flavour, pl.rotation, pl.vs, r.Mixed, r.Logs)] = true
						}
					}
				}
				if flavour == "alias" || len(good) == 0 {
					continue
				}
				g := &c15mxGroup{sc: sc, exhaustive: pl.exhaustive && len(good) == len(pl.scheds), runs: good}
				groups = append(groups, g)
				for i := range g.runs {
					r := &g.runs[i]
					ops := append([]Op{}, sc.Prefix...)
					obs := append([]Obs{}, r.PrefixObs...)
					for j := 0; j < k; j++ {
						o := r.RaceOp
						o.BA = pl.vs[j]
						ops = append(ops, o)
						obs = append(obs, r.Obs[j])
					}
					ops = append(ops, r.RaceOp)
					obs = append(obs, r.FollowObs)
					for j := range obs {
						obs[j].Raw = truncate(obs[j].Raw, 60)
					}
					jcases = append(jcases, map[string]any{"Note": fmt.Sprintf("auth_req_id mixed verdicts %v rotation=%v storage=%s schedule=%v tokens(racing polls, follow-up)=%v", pl.vs, pl.rotation, flavour, r.Sched, r.Mixed),
						"Spec": r.Spec, "Ops": ops, "Obs": obs, "Race": c15Replay(sc, r)})
				}
			}
		}
		var cur []*c15mxGroup
		curN, fileNo, total := 0, 0, 0
		flush := func() {
			if len(cur) == 0 {
				return
			}
			var b strings.Builder
			b.WriteString(strings.Replace(c15Header, "RaceStrict.", "RaceStrict RaceMixed.", 1))
			var names []string
			for i, g := range cur {
				name := fmt.Sprintf("g_%d", i)
				b.WriteString(g.coq(name))
				names = append(names, "check_mixed_group "+name)
			}
			fmt.Fprintf(&b, "Definition corr := Eval vm_compute in (%s)%%list.\nPrint corr.\n", strings.Join(names, " ++ "))
			name := fmt.Sprintf("cases_%03d.v", fileNo)
			if err := os.WriteFile(filepath.Join(ctx.Out, name), []byte(b.String()), 0o644); err != nil {
				panic(err)
			}
			ctx.Meta.Files = append(ctx.Meta.Files, name)
			fileNo++
			cur, curN = nil, 0
		}
		for _, g := range groups {
			if curN > 0 && curN+len(g.runs) > 320 {
				flush()
			}
			cur = append(cur, g)
			curN += len(g.runs)
			total += len(g.runs)
		}
		flush()
		b, _ := json.Marshal(jcases)
		_ = os.WriteFile(filepath.Join(ctx.Out, "cases.json"), b, 0o644)
		ctx.Meta.Cases = total
		ctx.Meta.Ops = total
		ctx.Meta.Distinct = len(distinct)
		ctx.Meta.Rule = "one case = one schedule imposed on k real concurrent CIBA polls presenting one auth_req_id, poll i being answered by the embedder's validation function with verdict i of a list (every list of 2 verdicts out of approve / pending / slow_down / deny with at most one approve: every interleaving of the polls' storage calls; rotation on and off; lists of 3: quick 48 random (list, interleaving) pairs per rotation setting, thorough every list with up to 120 interleavings), followed by one more approved poll served alone; copy and strict storage compared with the model, alias monitored; distinct by (storage, verdicts, who was answered with tokens, call sequences); non-trivial = some poll answered with tokens"
		var sigs []string
		for s := range findings {
			sigs = append(sigs, s)
		}
		sort.Strings(sigs)
		for _, s := range sigs {
			ctx.Meta.Findings = append(ctx.Meta.Findings, findings[s])
		}
		for i := 0; i < len(jcases) && len(ctx.Meta.Samples) < 2; i += 41 {
			ctx.Meta.Samples = append(ctx.Meta.Samples, map[string]any{"note": jcases[i]["Note"], "race": jcases[i]["Race"]})
		}
		ctx.Meta.Extra = map[string]any{"schedules_not_imposed": harnessErrs, "storage_flavours_compared_with_model": []string{"copy", "strict"}, "storage_flavours_monitored": []string{"copy", "strict", "alias"}}
	}})
}
