package main

// verifharness <suite> -tier quick|thorough -seed N -out DIR
// Runs the suite's generator against the real provider built from /repo and writes, in DIR,
//   cases_<k>.v  : inputs and projected observations as Gallina terms, evaluated by coqc;
//   meta.json    : what was generated (counts, input distribution, samples, Go-side findings).

import (
	"encoding/json"
	"flag"
	"fmt"
	"math/rand"
	"os"
	"path/filepath"
	"sort"
	"strings"
	"time"
)

func nowUnix() int64 { return time.Now().Unix() }

type Finding struct {
	Property  string `json:"property"`
	Signature string `json:"signature"`
	What      string `json:"what"`
	Replay    any    `json:"replay"`
}

type Meta struct {
	Suite     string         `json:"suite"`
	Tier      string         `json:"tier"`
	Seed      int64          `json:"seed"`
	Cases     int            `json:"cases"`
	Ops       int            `json:"ops"`
	Dist      map[string]int `json:"input_distribution"`
	Distinct  int            `json:"distinct_nontrivial"`
	Rule      string         `json:"rule"`
	Samples   []any          `json:"samples"`
	Findings  []Finding      `json:"findings"`
	Files     []string       `json:"files"`
	CaseNotes []string       `json:"case_notes"`
	Extra     map[string]any `json:"extra,omitempty"`
}

type Suite struct {
	Name string
	Run  func(ctx *RunCtx)
}

type RunCtx struct {
	Tier  string
	Seed  int64
	Out   string
	R     *rand.Rand
	Meta  *Meta
	cases []Case
	// free-form case files (suites that do not use syscase)
	rawFiles map[string]string
}

func (c *RunCtx) Quick() bool { return c.Tier != "thorough" }
func (c *RunCtx) N(quick, thorough int) int {
	if c.Quick() {
		return quick
	}
	return thorough
}

func (c *RunCtx) AddCase(k Case) {
	c.cases = append(c.cases, k)
	c.Meta.CaseNotes = append(c.Meta.CaseNotes, k.Note)
	c.Meta.Ops += len(k.Ops)
}

func (c *RunCtx) AddStats(st map[string]int) {
	for k, v := range st {
		c.Meta.Dist[k] += v
	}
}

const caseHeader = `From Verif Require Import Base Scope Types Prog Pop Token Authorize System Config Run Monitors.
Local Open Scope N_scope.
`

// writeSysCases shards the syscase list; each file prints, per case, the first disagreeing
// operation (0 = agreement) and the verdict of the property monitor named by `monitor`.
func (c *RunCtx) writeSysCases(monitor string, strict bool) {
	per := 150
	for k := 0; k*per < len(c.cases); k++ {
		hi := (k + 1) * per
		if hi > len(c.cases) {
			hi = len(c.cases)
		}
		var b strings.Builder
		b.WriteString(caseHeader)
		var names []string
		for i, cs := range c.cases[k*per : hi] {
			fmt.Fprintf(&b, "(*CASE %d*)\nDefinition c_%d : syscase :=\n%s.\n", k*per+i, k*per+i, cs.coq())
			names = append(names, fmt.Sprintf("c_%d", k*per+i))
		}
		b.WriteString("(*END*)\nDefinition cases : list syscase := [" + strings.Join(names, "; ") + "].\n")
		fmt.Fprintf(&b, "Definition corr := Eval vm_compute in map (check_case %s) cases.\nPrint corr.\n", cB(strict))
		if monitor != "" {
			fmt.Fprintf(&b, "Definition mon := Eval vm_compute in map %s cases.\nPrint mon.\n", monitor)
		}
		name := fmt.Sprintf("cases_%03d.v", k)
		if err := os.WriteFile(filepath.Join(c.Out, name), []byte(b.String()), 0o644); err != nil {
			panic(err)
		}
		c.Meta.Files = append(c.Meta.Files, name)
	}
	c.Meta.Cases = len(c.cases)
	// distinct non-trivial: distinct by projected trace; non-trivial = at least one accepted and one refused operation
	seen := map[string]bool{}
	for _, cs := range c.cases {
		okN, errN := 0, 0
		var sb strings.Builder
		for i, o := range cs.Obs {
			sb.WriteString(cs.Ops[i].Kind + ":" + o.Kind + ":" + o.Err + ";")
			if o.Kind == "Err" || (o.Kind == "Nav" && o.NErr != "") || (o.Kind == "Intro" && !o.Active) {
				errN++
			} else if cs.Ops[i].Kind != "Tick" {
				okN++
			}
		}
		if okN > 0 && errN > 0 {
			seen[sb.String()] = true
		}
	}
	c.Meta.Distinct = len(seen)
	for i := 0; i < len(c.cases) && i < 2; i++ {
		cs := c.cases[i]
		var ops []string
		for j, o := range cs.Ops {
			if j >= 12 {
				break
			}
			ops = append(ops, o.coq()+"  ==>  "+cs.Obs[j].coq())
		}
		c.Meta.Samples = append(c.Meta.Samples, map[string]any{"note": cs.Note, "options": cList(cs.Opts, Opt.coq), "first_ops": ops})
	}
}

// casesJSON keeps the concrete cases so that a mismatch can be turned into a replay
func (c *RunCtx) writeCasesJSON() {
	type jc struct {
		Index int
		Note  string
		Spec  WorldSpec
		Ops   []Op
		Obs   []Obs
	}
	var all []jc
	for i, cs := range c.cases {
		all = append(all, jc{i, cs.Note, WorldSpec{Profile: cs.Profile, Opts: cs.Opts, Static: cs.Static, Dyn: cs.Dyn}, cs.Ops, cs.Obs})
	}
	b, _ := json.Marshal(all)
	_ = os.WriteFile(filepath.Join(c.Out, "cases.json"), b, 0o644)
}

var suites = map[string]*Suite{}

// suites whose replay files are not syscase histories register their own replayer
var replayers = map[string]func(path string) int{}

func register(s *Suite) { suites[s.Name] = s }

func main() {
	if len(os.Args) < 2 {
		fmt.Fprintln(os.Stderr, "usage: verifharness <suite> [-tier quick] [-seed 1] [-out dir]")
		os.Exit(2)
	}
	name := os.Args[1]
	fs := flag.NewFlagSet(name, flag.ExitOnError)
	tier := fs.String("tier", "quick", "quick|thorough")
	seed := fs.Int64("seed", 1, "seed")
	out := fs.String("out", "work/"+name, "output directory")
	replay := fs.String("replay", "", "replay file")
	_ = fs.Parse(os.Args[2:])
	if *replay != "" {
		if f, ok := replayers[name]; ok {
			os.Exit(f(*replay))
		}
		os.Exit(runReplay(*replay))
	}
	s, ok := suites[name]
	if !ok {
		var names []string
		for k := range suites {
			names = append(names, k)
		}
		sort.Strings(names)
		fmt.Fprintln(os.Stderr, "unknown suite; have:", strings.Join(names, " "))
		os.Exit(2)
	}
	_ = os.MkdirAll(*out, 0o755)
	ctx := &RunCtx{Tier: *tier, Seed: *seed, Out: *out, R: rand.New(rand.NewSource(*seed)),
		Meta: &Meta{Suite: name, Tier: *tier, Seed: *seed, Dist: map[string]int{}}, rawFiles: map[string]string{}}
	s.Run(ctx)
	b, _ := json.MarshalIndent(ctx.Meta, "", " ")
	if err := os.WriteFile(filepath.Join(*out, "meta.json"), b, 0o644); err != nil {
		panic(err)
	}
	fmt.Printf("suite=%s cases=%d ops=%d files=%d findings=%d\n", name, ctx.Meta.Cases, ctx.Meta.Ops, len(ctx.Meta.Files), len(ctx.Meta.Findings))
}

// runReplay re-executes a replay file (a case in cases.json format) and prints what happens.
func runReplay(path string) int {
	b, err := os.ReadFile(path)
	if err != nil {
		fmt.Fprintln(os.Stderr, err)
		return 2
	}
	var rp struct {
		Spec WorldSpec
		Ops  []Op
	}
	if err := json.Unmarshal(b, &rp); err != nil {
		fmt.Fprintln(os.Stderr, err)
		return 2
	}
	if rp.Spec.Flavour == "" {
		rp.Spec.Flavour = "copy"
	}
	w, err := NewWorld(rp.Spec)
	if err != nil {
		fmt.Fprintln(os.Stderr, err)
		return 2
	}
	for i, o := range rp.Ops {
		w.step = i
		obs := w.Exec(o)
		fmt.Printf("%3d %s\n      => %s   [%d] %s\n", i, o.coq(), obs.coq(), obs.Status, truncate(obs.Raw, 200))
	}
	return 0
}

func truncate(s string, n int) string {
	if len(s) > n {
		return s[:n] + "..."
	}
	return s
}
