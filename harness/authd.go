package main

// RFC 9396 authorization details: concrete JSON for the model's (type, payload id) pairs, the
// compare functions a world installs, and the abstraction of what the provider reports.

import (
	"encoding/base64"
	"encoding/json"
	"errors"
	"fmt"
	"strings"

	"github.com/luikyv/go-oidc/pkg/goidc"
)

func (d Detail) concrete() goidc.AuthorizationDetail {
	return goidc.AuthorizationDetail{"type": d.Type, "identifier": fmt.Sprintf("p%d", d.ID), "actions": []any{"read"}}
}

// what the scripted embedder passes to GrantAuthorizationDetails (nil for "none")
func authdConcrete(l []Detail) []goidc.AuthorizationDetail {
	if len(l) == 0 {
		return nil
	}
	out := make([]goidc.AuthorizationDetail, len(l))
	for i, d := range l {
		out[i] = d.concrete()
	}
	return out
}

// the authorization_details parameter as sent; ok=false: not sent
func authdJSON(l []Detail, empty bool) (string, bool) {
	if len(l) == 0 {
		if empty {
			return "[]", true
		}
		return "", false
	}
	b, err := json.Marshal(authdConcrete(l))
	if err != nil {
		panic(err)
	}
	return string(b), true
}

func authdAbstractOne(m map[string]any) Detail {
	d := Detail{ID: -1}
	d.Type, _ = m["type"].(string)
	if s, ok := m["identifier"].(string); ok {
		var n int
		if _, err := fmt.Sscanf(s, "p%d", &n); err == nil {
			d.ID = n
		}
	}
	if d.ID < 0 {
		d.ID = 999999 // a payload the harness never sent
	}
	return d
}

// a decoded JSON value (array of objects) as a list of details
func authdAbstract(v any) []Detail {
	l, ok := v.([]any)
	if !ok {
		return nil
	}
	var out []Detail
	for _, e := range l {
		m, _ := e.(map[string]any)
		out = append(out, authdAbstractOne(m))
	}
	return out
}

func authdAbstractGo(l []goidc.AuthorizationDetail) []Detail {
	var out []Detail
	for _, d := range l {
		out = append(out, authdAbstractOne(map[string]any(d)))
	}
	return out
}

// the authorization_details claim of a JWT access token (nil for an opaque token)
func authdJwtDetails(tok string) []Detail {
	parts := strings.Split(tok, ".")
	if len(parts) != 3 {
		return nil
	}
	b, err := base64.RawURLEncoding.DecodeString(parts[1])
	if err != nil {
		return nil
	}
	var m map[string]any
	_ = json.Unmarshal(b, &m)
	return authdAbstract(m["authorization_details"])
}

// canonical form of one detail: encoding/json writes map keys sorted
func authdCanon(d goidc.AuthorizationDetail) string {
	b, _ := json.Marshal(d)
	return string(b)
}

// the CompareAuthDetailsFunc of the world (Model/Types.v details_cmp)
func authdCompareFunc(kind string) goidc.CompareAuthDetailsFunc {
	switch kind {
	case "", "CmpSubset":
		// every requested detail equals a granted one
		return func(granted, requested []goidc.AuthorizationDetail) error {
			have := map[string]bool{}
			for _, g := range granted {
				have[authdCanon(g)] = true
			}
			for _, r := range requested {
				if !have[authdCanon(r)] {
					return errors.New("authorization detail outside the grant")
				}
			}
			return nil
		}
	case "CmpAcceptAll":
		return func(granted, requested []goidc.AuthorizationDetail) error { return nil }
	case "CmpTypes":
		return func(granted, requested []goidc.AuthorizationDetail) error {
			have := map[string]bool{}
			for _, g := range granted {
				have[g.Type()] = true
			}
			for _, r := range requested {
				if !have[r.Type()] {
					return errors.New("authorization detail type outside the grant")
				}
			}
			return nil
		}
	case "CmpNone":
		return nil
	}
	panic("unknown compare function " + kind)
}
