package main

// Suite c12: dynamic client registration on the real provider.
// CRUD histories on 2-3 dynamic clients with current / previous / foreign / absent / malformed /
// empty / never-issued registration tokens, token rotation on and off, request documents with
// unknown members, members named like the response's own members, case variants, nulls, wrongly
// typed members, capability fields valid and invalid against randomly drawn server feature sets,
// a scripted HandleDynamicClient hook, and the returned client_id / client_secret used at /token.
// Each history is written as a Gallina term (Model/Dcr.v types) and evaluated by Corr/C12.v.

import (
	"context"
	"crypto/ecdsa"
	"crypto/elliptic"
	"crypto/hmac"
	crand "crypto/rand"
	"crypto/sha256"
	"encoding/base64"
	"encoding/json"
	"errors"
	"fmt"
	"io"
	"math/rand"
	"net/http"
	"net/http/httptest"
	"net/url"
	"os"
	"path/filepath"
	"sort"
	"strings"
	"sync"
	"time"

	"github.com/go-jose/go-jose/v4"
	"github.com/luikyv/go-oidc/pkg/goidc"
	"github.com/luikyv/go-oidc/pkg/provider"
)

// ---------------------------------------------------------------- JSON values and documents
type JV struct {
	T string // null str cred uri bool num arr obj
	S string   `json:",omitempty"`
	H Handle   `json:",omitempty"`
	B bool     `json:",omitempty"`
	N int      `json:",omitempty"`
	L []string `json:",omitempty"`
}

type Member struct {
	K string
	V JV
}

func jNull() JV            { return JV{T: "null"} }
func jStr(s string) JV     { return JV{T: "str", S: s} }
func jCred(h Handle) JV    { return JV{T: "cred", H: h} }
func jURI(h Handle) JV     { return JV{T: "uri", H: h} }
func jBool(b bool) JV      { return JV{T: "bool", B: b} }
func jNum(n int) JV        { return JV{T: "num", N: n} }
func jArr(l ...string) JV  { return JV{T: "arr", L: append([]string{}, l...)} }
func jObj(n int) JV        { return JV{T: "obj", N: n} }

func (v JV) coq() string {
	switch v.T {
	case "null":
		return "JNull"
	case "str":
		return "(JStr " + cS(v.S) + ")"
	case "cred":
		return "(JCred " + cN(v.H) + ")"
	case "uri":
		return "(JRegUri " + cN(v.H) + ")"
	case "bool":
		return "(JBool " + cB(v.B) + ")"
	case "num":
		return fmt.Sprintf("(JNum %d)", v.N)
	case "arr":
		return "(JArr " + cList(v.L, cS) + ")"
	case "obj":
		return fmt.Sprintf("(JObj %d)", v.N)
	}
	panic("jv kind " + v.T)
}

func docCoq(d []Member) string {
	return cList(d, func(m Member) string { return "(" + cS(m.K) + ", " + m.V.coq() + ")" })
}

// ---------------------------------------------------------------- server feature sets
type c12Srv struct {
	Rotation        bool
	Grants          []string
	AuthMethods     []string
	Introspection   bool
	IntroMethods    []string
	Revocation      bool
	RevocMethods    []string
	Scopes          []string
	OpenIDRequired  bool
	SubTypes        []string // first = default
	CibaModes       []string
	CibaUserCode    bool
	CibaJar         bool
	CibaJarAlgs     []string
	IdtSigAlgs      []string
	IdtEnc          bool
	IdtKeyAlgs      []string
	IdtContentAlgs  []string // empty: the default
	UiSigAlgs       []string
	UiEnc           bool
	UiKeyAlgs       []string
	UiContentAlgs   []string
	Jar             bool
	JarAlgs         []string
	JarEnc          bool
	JarKeyAlgs      []string
	JarContentAlgs  []string
	JarByRef        bool
	Jarm            bool
	JarmAlgs        []string
	JarmEnc         bool
	JarmKeyAlgs     []string
	JarmContentAlgs []string
	PkjwtAlgs       []string // empty: the default
	AuthDetails     bool
	AuthDetailTypes []string
	// where the provider is mounted (not part of Model/Dcr.v's feature set: the registration URI is abstract
	// there, JRegUri = the advertised registration_endpoint + "/" + client id; Model/DcrUri.v and suite c12uri
	// have the strings): WithPathPrefix / WithDCREndpoint
	Prefix  string `json:",omitempty"`
	DcrPath string `json:",omitempty"`
}

const gCC, gAC, gImpl, gRefresh, gCiba = "client_credentials", "authorization_code", "implicit", "refresh_token", "urn:openid:params:grant-type:ciba"

func has(l []string, s string) bool {
	for _, x := range l {
		if x == s {
			return true
		}
	}
	return false
}

func (s c12Srv) respTypes() []string {
	var r []string
	if has(s.Grants, gAC) {
		r = append(r, "code")
	}
	if has(s.Grants, gImpl) {
		r = append(r, "token", "id_token", "id_token token")
	}
	if has(s.Grants, gAC) && has(s.Grants, gImpl) {
		r = append(r, "code id_token", "code token", "code id_token token")
	}
	return r
}

func (s c12Srv) scopeIDs() []string {
	if len(s.Scopes) == 0 {
		return []string{"openid"}
	}
	if has(s.Scopes, "openid") {
		return s.Scopes
	}
	return append(append([]string{}, s.Scopes...), "openid")
}

func (s c12Srv) allMethods() []string {
	return append(append(append([]string{}, s.AuthMethods...), s.IntroMethods...), s.RevocMethods...)
}

func orDefault(l []string, d ...string) []string {
	if len(l) == 0 {
		return d
	}
	return l
}

// the oidc.Configuration fields validation.go reads, as the option functions and setDefaults leave them
func (s c12Srv) coq() string {
	pk := s.PkjwtAlgs
	if len(pk) == 0 && has(s.allMethods(), "private_key_jwt") {
		pk = []string{"RS256"}
	}
	var sj []string
	if has(s.allMethods(), "client_secret_jwt") {
		sj = []string{"HS256"}
	}
	sub := orDefault(s.SubTypes, "public")
	idtC, uiC, jarC, jarmC := s.IdtContentAlgs, s.UiContentAlgs, s.JarContentAlgs, s.JarmContentAlgs
	if s.IdtEnc {
		idtC = orDefault(idtC, "A128CBC-HS256")
	}
	if s.UiEnc {
		uiC = orDefault(uiC, "A128CBC-HS256")
	}
	if s.JarEnc {
		jarC = orDefault(jarC, "A128CBC-HS256")
	}
	if s.JarmEnc {
		jarmC = orDefault(jarmC, "A128CBC-HS256")
	}
	l := func(x []string) string { return cList(x, cS) }
	return "(mkDcfg " + strings.Join([]string{
		cB(s.Rotation), l(s.Grants), l(s.respTypes()), l(s.AuthMethods),
		cB(s.Introspection), l(s.IntroMethods), cB(s.Revocation), l(s.RevocMethods),
		l(s.scopeIDs()), cB(s.OpenIDRequired), l(sub), cB(sub[0] == "pairwise"),
		l(s.CibaModes), cB(s.CibaUserCode), cB(s.CibaJar), l(s.CibaJarAlgs),
		l(s.IdtSigAlgs), cB(s.IdtEnc), l(s.IdtKeyAlgs), l(idtC),
		l(s.UiSigAlgs), cB(s.UiEnc), l(s.UiKeyAlgs), l(uiC),
		cB(s.Jar), l(s.JarAlgs), cB(s.JarEnc), l(s.JarKeyAlgs), l(jarC), cB(s.JarByRef),
		cB(s.Jarm), l(s.JarmAlgs), l(s.JarmKeyAlgs), l(jarmC),
		l(pk), l(sj), cB(s.AuthDetails), l(s.AuthDetailTypes)}, " ") + ")"
}

func sigs(l []string) (goidc.SignatureAlgorithm, []goidc.SignatureAlgorithm) {
	var r []goidc.SignatureAlgorithm
	for _, x := range l {
		r = append(r, goidc.SignatureAlgorithm(x))
	}
	return r[0], r[1:]
}
func kencs(l []string) (goidc.KeyEncryptionAlgorithm, []goidc.KeyEncryptionAlgorithm) {
	var r []goidc.KeyEncryptionAlgorithm
	for _, x := range l {
		r = append(r, goidc.KeyEncryptionAlgorithm(x))
	}
	return r[0], r[1:]
}
func cencs(l []string) (goidc.ContentEncryptionAlgorithm, []goidc.ContentEncryptionAlgorithm) {
	var r []goidc.ContentEncryptionAlgorithm
	for _, x := range l {
		r = append(r, goidc.ContentEncryptionAlgorithm(x))
	}
	return r[0], r[1:]
}
func meths(l []string) (goidc.ClientAuthnType, []goidc.ClientAuthnType) {
	var r []goidc.ClientAuthnType
	for _, x := range l {
		r = append(r, goidc.ClientAuthnType(x))
	}
	return r[0], r[1:]
}

// ---------------------------------------------------------------- the world of one history
type Hook struct {
	Kind string // "", reject, set
	K    string `json:",omitempty"`
	V    JV     `json:",omitempty"`
}

func (h Hook) coq() string {
	switch h.Kind {
	case "reject":
		return "HkReject"
	case "set":
		return "(HkSet " + cS(h.K) + " " + h.V.coq() + ")"
	}
	return "HkNone"
}

type RTok struct {
	Kind string // absent malformed tok
	H    Handle `json:",omitempty"`
}

func (p RTok) coq() string {
	switch p.Kind {
	case "absent":
		return "PAbsent"
	case "malformed":
		return "PMalformed"
	}
	return "(PTok " + cN(p.H) + ")"
}

type DOp struct {
	Kind    string // Create Read Update Delete UseSecret
	Cid     Handle `json:",omitempty"`
	Tok     RTok
	Body    []Member
	BadBody bool   `json:",omitempty"`
	Hook    Hook
	Secret  Handle `json:",omitempty"`
	Basic   bool   `json:",omitempty"`
	Ep      string `json:",omitempty"` // UseAt: token introspect revoke
	Sm      string `json:",omitempty"` // UseAt: post basic jwt
	Why     string `json:",omitempty"` // what the generator meant (not part of the model input)
}

var c12EpCoq = map[string]string{"token": "EpToken", "introspect": "EpIntrospect", "revoke": "EpRevoke"}
var c12SmCoq = map[string]string{"post": "SmPost", "basic": "SmBasic", "jwt": "SmJwt"}
var c12EpPath = map[string]string{"token": "/token", "introspect": "/introspect", "revoke": "/revoke"}

// the operation as a Model/DcrUse.v xop
func (o DOp) xcoq() string {
	if o.Kind == "UseAt" {
		return fmt.Sprintf("XUse %s %s %s %s", c12EpCoq[o.Ep], c12SmCoq[o.Sm], cN(o.Cid), cN(o.Secret))
	}
	return "XBase (" + o.coq() + ")"
}

// a client_secret_jwt assertion keyed with `secret` (hand-made, so that any string can be the key)
func c12SecretJWT(cid, secret, jti string) string {
	enc := base64.RawURLEncoding.EncodeToString
	now := time.Now().Unix()
	p, _ := json.Marshal(map[string]any{"iss": cid, "sub": cid, "aud": issuer, "jti": jti, "iat": now, "exp": now + 120})
	si := enc([]byte(`{"alg":"HS256","typ":"JWT"}`)) + "." + enc(p)
	mac := hmac.New(sha256.New, []byte(secret))
	mac.Write([]byte(si))
	return si + "." + enc(mac.Sum(nil))
}

func (o DOp) body() string {
	if o.BadBody {
		return "None"
	}
	return "(Some " + docCoq(o.Body) + ")"
}

func (o DOp) coq() string {
	switch o.Kind {
	case "Create":
		return fmt.Sprintf("Create %s %s", o.body(), o.Hook.coq())
	case "Read":
		return fmt.Sprintf("Read %s %s", cN(o.Cid), o.Tok.coq())
	case "Update":
		return fmt.Sprintf("Update %s %s %s %s", cN(o.Cid), o.Tok.coq(), o.body(), o.Hook.coq())
	case "Delete":
		return fmt.Sprintf("Delete %s %s", cN(o.Cid), o.Tok.coq())
	case "UseSecret":
		return fmt.Sprintf("UseSecret %s %s %s", cN(o.Cid), cN(o.Secret), cB(o.Basic))
	}
	panic("op kind " + o.Kind)
}

type DObs struct {
	Kind    string // Err Doc Deleted Tok
	Status  int
	Code    string   `json:",omitempty"`
	Created bool     `json:",omitempty"`
	Doc     []Member `json:",omitempty"`
	OK      bool     `json:",omitempty"`
}

func (o DObs) coq() string {
	switch o.Kind {
	case "Err":
		return "DErr " + ecode(o.Code)
	case "Doc":
		return fmt.Sprintf("DDoc %s %s", cB(o.Created), docCoq(o.Doc))
	case "Deleted":
		return "DDeleted"
	case "Tok":
		return "DTok " + cB(o.OK)
	}
	panic("obs kind " + o.Kind)
}

func (o DObs) accepted() bool { return o.Kind == "Doc" || o.Kind == "Deleted" || (o.Kind == "Tok" && o.OK) }

var c12KeyOnce sync.Once
var c12Srvkey *ecdsa.PrivateKey
var c12JWKSPub, c12JWKSPriv string

func c12Init() {
	c12KeyOnce.Do(func() {
		c12Srvkey, _ = ecdsa.GenerateKey(elliptic.P256(), crand.Reader)
		k, _ := ecdsa.GenerateKey(elliptic.P256(), crand.Reader)
		pub, _ := json.Marshal(jose.JSONWebKeySet{Keys: []jose.JSONWebKey{{Key: &k.PublicKey, KeyID: "k1", Algorithm: "ES256", Use: "sig"}}})
		priv, _ := json.Marshal(jose.JSONWebKeySet{Keys: []jose.JSONWebKey{{Key: k, KeyID: "k1", Algorithm: "ES256", Use: "sig"}}})
		c12JWKSPub, c12JWKSPriv = string(pub), string(priv)
	})
}

type c12World struct {
	srv     c12Srv
	stores  *Stores
	handler http.Handler
	str2h   map[string]Handle
	h2str   map[Handle]string
	sent    map[string]bool
	step    int
	hook    Hook
	nmal    int
	njti    int
	regEP   string            // registration_endpoint of the discovery document the provider serves
	lastURI map[string]string // client_id -> the registration_client_uri last returned for it, followed verbatim
}

func newC12World(srv c12Srv, flavour string) (*c12World, error) {
	c12Init()
	w := &c12World{srv: srv, str2h: map[string]Handle{}, h2str: map[Handle]string{}, sent: map[string]bool{}, lastURI: map[string]string{}}
	w.stores = NewStores(flavour)
	keys := goidc.JSONWebKeySet{Keys: []goidc.JSONWebKey{{Key: c12Srvkey, KeyID: "srv-es256", Algorithm: "ES256", Use: "sig"}}}
	opts := []provider.ProviderOption{
		provider.WithClientStorage(w.stores.Clients()),
		provider.WithAuthnSessionStorage(w.stores.Authn()),
		provider.WithGrantSessionStorage(w.stores.Grants()),
		provider.WithHTTPClientFunc(func(context.Context) *http.Client { return &http.Client{Transport: rt404{}} }),
		provider.WithDCR(func(r *http.Request, meta *goidc.ClientMetaInfo) error { return w.runHook(meta) }, nil),
	}
	if srv.Rotation {
		opts = append(opts, provider.WithDCRTokenRotation())
	}
	if srv.Prefix != "" {
		opts = append(opts, provider.WithPathPrefix(srv.Prefix))
	}
	if srv.DcrPath != "" {
		opts = append(opts, provider.WithDCREndpoint(srv.DcrPath))
	}
	for _, g := range srv.Grants {
		switch g {
		case gCC:
			opts = append(opts, provider.WithClientCredentialsGrant())
		case gAC:
			opts = append(opts, provider.WithAuthorizationCodeGrant())
		case gImpl:
			opts = append(opts, provider.WithImplicitGrant())
		case gRefresh:
			opts = append(opts, provider.WithRefreshTokenGrant(func(*goidc.Client, goidc.GrantInfo) bool { return true }, 600))
		case gCiba:
			var ms []goidc.CIBATokenDeliveryMode
			for _, m := range srv.CibaModes {
				ms = append(ms, goidc.CIBATokenDeliveryMode(m))
			}
			opts = append(opts, provider.WithCIBAGrant(
				func(context.Context, *goidc.AuthnSession) error { return nil },
				func(context.Context, *goidc.AuthnSession) error { return nil }, ms[0], ms[1:]...))
		}
	}
	if len(srv.AuthMethods) > 0 {
		m, ms := meths(srv.AuthMethods)
		opts = append(opts, provider.WithTokenAuthnMethods(m, ms...))
	}
	if srv.Introspection {
		m, ms := meths(srv.IntroMethods)
		opts = append(opts, provider.WithTokenIntrospection(func(*goidc.Client) bool { return true }, m, ms...))
	}
	if srv.Revocation {
		m, ms := meths(srv.RevocMethods)
		opts = append(opts, provider.WithTokenRevocation(func(*goidc.Client) bool { return true }, m, ms...))
	}
	if len(srv.Scopes) > 0 {
		var ss []goidc.Scope
		for _, s := range srv.Scopes {
			ss = append(ss, goidc.NewScope(s))
		}
		opts = append(opts, provider.WithScopes(ss...))
	}
	if srv.OpenIDRequired {
		opts = append(opts, provider.WithOpenIDScopeRequired())
	}
	if len(srv.SubTypes) > 0 {
		var ts []goidc.SubIdentifierType
		for _, t := range srv.SubTypes {
			ts = append(ts, goidc.SubIdentifierType(t))
		}
		opts = append(opts, provider.WithSubIdentifierTypes(ts[0], ts[1:]...),
			provider.WithGeneratePairwiseSubIDFunc(func(_ context.Context, sub string, c *goidc.Client) string { return "pw:" + c.ID + ":" + sub }))
	}
	if srv.CibaUserCode {
		opts = append(opts, provider.WithCIBAUserCode())
	}
	if srv.CibaJar {
		a, as := sigs(srv.CibaJarAlgs)
		opts = append(opts, provider.WithCIBAJAR(a, as...))
	}
	{
		a, as := sigs(srv.IdtSigAlgs)
		opts = append(opts, provider.WithIDTokenSignatureAlgs(a, as...))
	}
	if srv.IdtEnc {
		a, as := kencs(srv.IdtKeyAlgs)
		opts = append(opts, provider.WithIDTokenEncryption(a, as...))
		if len(srv.IdtContentAlgs) > 0 {
			c, cs := cencs(srv.IdtContentAlgs)
			opts = append(opts, provider.WithIDTokenContentEncryptionAlgs(c, cs...))
		}
	}
	if len(srv.UiSigAlgs) > 0 {
		a, as := sigs(srv.UiSigAlgs)
		opts = append(opts, provider.WithUserInfoSignatureAlgs(a, as...))
	}
	if srv.UiEnc {
		a, as := kencs(srv.UiKeyAlgs)
		opts = append(opts, provider.WithUserInfoEncryption(a, as...))
		if len(srv.UiContentAlgs) > 0 {
			c, cs := cencs(srv.UiContentAlgs)
			opts = append(opts, provider.WithUserInfoContentEncryptionAlgs(c, cs...))
		}
	}
	if srv.Jar {
		a, as := sigs(srv.JarAlgs)
		opts = append(opts, provider.WithJAR(a, as...))
	}
	if srv.JarEnc {
		a, as := kencs(srv.JarKeyAlgs)
		opts = append(opts, provider.WithJAREncryption(a, as...))
		if len(srv.JarContentAlgs) > 0 {
			c, cs := cencs(srv.JarContentAlgs)
			opts = append(opts, provider.WithJARContentEncryptionAlgs(c, cs...))
		}
	}
	if srv.JarByRef {
		opts = append(opts, provider.WithJARByReference(false))
	}
	if srv.Jarm {
		a, as := sigs(srv.JarmAlgs)
		opts = append(opts, provider.WithJARM(a, as...))
	}
	if srv.JarmEnc {
		a, as := kencs(srv.JarmKeyAlgs)
		opts = append(opts, provider.WithJARMEncryption(a, as...))
		if len(srv.JarmContentAlgs) > 0 {
			c, cs := cencs(srv.JarmContentAlgs)
			opts = append(opts, provider.WithJARMContentEncryptionAlgs(c, cs...))
		}
	}
	if len(srv.PkjwtAlgs) > 0 {
		a, as := sigs(srv.PkjwtAlgs)
		opts = append(opts, provider.WithPrivateKeyJWTSignatureAlgs(a, as...))
	}
	if srv.AuthDetails {
		opts = append(opts, provider.WithAuthorizationDetails(func(a, b []goidc.AuthorizationDetail) error { return nil },
			srv.AuthDetailTypes[0], srv.AuthDetailTypes[1:]...))
	}
	p, err := provider.New(goidc.ProfileOpenID, issuer, func(context.Context) (goidc.JSONWebKeySet, error) { return keys, nil }, opts...)
	if err != nil {
		return nil, err
	}
	w.handler = p.Handler()
	// registrations go to the registration_endpoint the provider ADVERTISES
	rec := httptest.NewRecorder()
	w.handler.ServeHTTP(rec, httptest.NewRequest("GET", issuer+srv.Prefix+"/.well-known/openid-configuration", nil))
	var doc map[string]any
	_ = json.Unmarshal(rec.Body.Bytes(), &doc)
	w.regEP, _ = doc["registration_endpoint"].(string)
	if w.regEP == "" {
		w.regEP = issuer + srv.Prefix + orDefault([]string{srv.DcrPath}, "/register")[0]
	}
	return w, nil
}

// the abstract value JRegUri h stands for: advertised registration endpoint + "/" + client id
func (w *c12World) regBase() string { return w.regEP + "/" }

// where a read / update / delete of the client goes: the registration_client_uri the server last
// returned for it, VERBATIM; for a client no response named (unknown, foreign to this history) the
// advertised endpoint + "/" + id
func (w *c12World) target(cid Handle) string {
	id := w.concrete(cid)
	if u, ok := w.lastURI[id]; ok && u != "" {
		return u
	}
	return w.regBase() + id
}

type rt404 struct{}

func (rt404) RoundTrip(*http.Request) (*http.Response, error) {
	return &http.Response{StatusCode: 404, Body: io.NopCloser(strings.NewReader("")), Header: http.Header{}}, nil
}

// the scripted HandleDynamicClientFunc
func (w *c12World) runHook(meta *goidc.ClientMetaInfo) error {
	switch w.hook.Kind {
	case "reject":
		return errors.New("the embedder refuses this registration")
	case "set":
		b, _ := json.Marshal(meta)
		var m map[string]json.RawMessage
		_ = json.Unmarshal(b, &m)
		m[w.hook.K] = json.RawMessage(w.renderVal(w.hook.V))
		b2, _ := json.Marshal(m)
		var nm goidc.ClientMetaInfo
		if err := json.Unmarshal(b2, &nm); err != nil {
			panic("hook: " + err.Error())
		}
		*meta = nm
	}
	return nil
}

func (w *c12World) name(s string, h Handle) { w.str2h[s] = h; w.h2str[h] = s }

func (w *c12World) concrete(h Handle) string {
	if h == 0 {
		return ""
	}
	if s, ok := w.h2str[h]; ok {
		return s
	}
	s := fmt.Sprintf("unknown%d", uint64(h))
	for len(s) < 50 {
		s += "x"
	}
	w.name(s, h)
	return s
}

func (w *c12World) renderVal(v JV) string {
	q := func(s string) string { b, _ := json.Marshal(s); return string(b) }
	switch v.T {
	case "null":
		return "null"
	case "str":
		w.sent[v.S] = true
		return q(v.S)
	case "cred":
		return q(w.concrete(v.H))
	case "uri":
		return q(w.regBase() + w.concrete(v.H))
	case "bool":
		return cB(v.B)
	case "num":
		return fmt.Sprint(v.N)
	case "arr":
		b, _ := json.Marshal(v.L)
		for _, s := range v.L {
			w.sent[s] = true
		}
		return string(b)
	case "obj":
		switch v.N {
		case 1:
			return c12JWKSPub
		case 2:
			return c12JWKSPriv
		}
		return fmt.Sprintf(`{"k":%d}`, v.N)
	}
	panic("render " + v.T)
}

// members in document order, duplicates kept
func (w *c12World) renderDoc(d []Member) string {
	var b strings.Builder
	b.WriteString("{")
	for i, m := range d {
		if i > 0 {
			b.WriteString(",")
		}
		k, _ := json.Marshal(m.K)
		b.Write(k)
		b.WriteString(":")
		b.WriteString(w.renderVal(m.V))
	}
	b.WriteString("}")
	return b.String()
}

var reservedKind = map[string]int{"client_id": KClientId, "client_secret": KSecret, "registration_access_token": KRegToken}

// a string of a response, named the way the model names it
func (w *c12World) absStr(key, s string) JV {
	if h, ok := w.str2h[s]; ok {
		return jCred(h)
	}
	if strings.HasPrefix(s, w.regBase()) {
		if h, ok := w.str2h[strings.TrimPrefix(s, w.regBase())]; ok {
			return jURI(h)
		}
	}
	if kind, ok := reservedKind[key]; ok && !w.sent[s] {
		h := mint(w.step, kind)
		if _, taken := w.h2str[h]; taken {
			h = unknownBase + 500000 + Handle(len(w.str2h))
		}
		w.name(s, h)
		return jCred(h)
	}
	return jStr(s)
}

func (w *c12World) absVal(key string, x any) JV {
	switch t := x.(type) {
	case nil:
		return jNull()
	case string:
		return w.absStr(key, t)
	case bool:
		return jBool(t)
	case json.Number:
		var n int
		if _, err := fmt.Sscanf(string(t), "%d", &n); err == nil && fmt.Sprint(n) == string(t) && n >= 0 {
			return jNum(n)
		}
		return jStr("number:" + string(t))
	case []any:
		l := []string{}
		for _, e := range t {
			if s, ok := e.(string); ok {
				l = append(l, s)
			} else {
				l = append(l, fmt.Sprintf("nonstring:%v", e))
			}
		}
		return jArr(l...)
	case map[string]any:
		if ks, ok := t["keys"].([]any); ok && len(ks) == 1 {
			if k0, ok := ks[0].(map[string]any); ok {
				if _, priv := k0["d"]; priv {
					return jObj(2)
				}
				return jObj(1)
			}
		}
		if n, ok := t["k"].(json.Number); ok && len(t) == 1 {
			var k int
			fmt.Sscanf(string(n), "%d", &k)
			return jObj(k)
		}
		return jObj(999999)
	}
	return jStr(fmt.Sprintf("other:%v", x))
}

func (w *c12World) absDoc(body []byte) ([]Member, bool) {
	dec := json.NewDecoder(strings.NewReader(string(body)))
	dec.UseNumber()
	var m map[string]any
	if err := dec.Decode(&m); err != nil {
		return nil, false
	}
	keys := make([]string, 0, len(m))
	for k := range m {
		keys = append(keys, k)
	}
	sort.Strings(keys)
	// client_id first so that the registration URI can be named after it
	var d []Member
	if v, ok := m["client_id"]; ok {
		d = append(d, Member{"client_id", w.absVal("client_id", v)})
	}
	for _, k := range keys {
		if k != "client_id" {
			d = append(d, Member{k, w.absVal(k, m[k])})
		}
	}
	return d, true
}

func (w *c12World) clientIDs() []string {
	var ids []string
	if w.stores.Flavour == "alias" {
		for id := range w.stores.aliasC.Clients {
			ids = append(ids, id)
		}
	} else {
		w.stores.copyC.each(func(c *goidc.Client) { ids = append(ids, c.ID) })
	}
	sort.Strings(ids)
	return ids
}

func (w *c12World) authHeader(t RTok, r *http.Request) {
	switch t.Kind {
	case "absent":
	case "malformed":
		w.nmal++
		switch w.nmal % 3 {
		case 0:
			r.Header.Set("Authorization", "Basic dXNlcjpwYXNz")
		case 1:
			r.Header.Set("Authorization", "Bearer two parts")
		default:
			r.Header.Set("Authorization", "Bearer")
		}
	default:
		r.Header.Set("Authorization", "Bearer "+w.concrete(t.H))
	}
}

func (w *c12World) exec(o DOp) (obs DObs) {
	w.stores.BeginRequest(nil, -1)
	w.hook = o.Hook
	var req *http.Request
	body := func() io.Reader {
		if o.BadBody {
			return strings.NewReader(`["not", "an object"]`)
		}
		return strings.NewReader(w.renderDoc(o.Body))
	}
	switch o.Kind {
	case "Create":
		req = httptest.NewRequest("POST", w.regEP, body())
		req.Header.Set("Content-Type", "application/json")
	case "Update":
		req = httptest.NewRequest("PUT", w.target(o.Cid), body())
		req.Header.Set("Content-Type", "application/json")
		w.authHeader(o.Tok, req)
	case "Read":
		req = httptest.NewRequest("GET", w.target(o.Cid), nil)
		w.authHeader(o.Tok, req)
	case "Delete":
		req = httptest.NewRequest("DELETE", w.target(o.Cid), nil)
		w.authHeader(o.Tok, req)
	case "UseSecret":
		form := url.Values{"grant_type": {"client_credentials"}}
		if !o.Basic {
			form.Set("client_id", w.concrete(o.Cid))
			form.Set("client_secret", w.concrete(o.Secret))
		}
		req = httptest.NewRequest("POST", w.srv.Prefix+"/token", strings.NewReader(form.Encode()))
		req.Header.Set("Content-Type", "application/x-www-form-urlencoded")
		if o.Basic {
			req.SetBasicAuth(w.concrete(o.Cid), w.concrete(o.Secret))
		}
	case "UseAt":
		form := url.Values{}
		if o.Ep == "token" {
			form.Set("grant_type", "client_credentials")
		} else {
			form.Set("token", "no-such-token")
		}
		switch o.Sm {
		case "post":
			form.Set("client_id", w.concrete(o.Cid))
			form.Set("client_secret", w.concrete(o.Secret))
		case "jwt":
			w.njti++
			form.Set("client_assertion_type", "urn:ietf:params:oauth:client-assertion-type:jwt-bearer")
			form.Set("client_assertion", c12SecretJWT(w.concrete(o.Cid), w.concrete(o.Secret), fmt.Sprintf("jti-%d-%d", w.step, w.njti)))
		}
		req = httptest.NewRequest("POST", w.srv.Prefix+c12EpPath[o.Ep], strings.NewReader(form.Encode()))
		req.Header.Set("Content-Type", "application/x-www-form-urlencoded")
		if o.Sm == "basic" {
			req.SetBasicAuth(w.concrete(o.Cid), w.concrete(o.Secret))
		}
	}
	rec := httptest.NewRecorder()
	func() {
		defer func() {
			if r := recover(); r != nil {
				obs = DObs{Kind: "Err", Status: 599, Code: "panic"}
			}
		}()
		w.handler.ServeHTTP(rec, req)
	}()
	if obs.Kind != "" {
		return obs
	}
	st := rec.Code
	raw := rec.Body.Bytes()
	if o.Kind == "UseSecret" || (o.Kind == "UseAt" && o.Ep == "token") {
		var m map[string]any
		_ = json.Unmarshal(raw, &m)
		_, ok := m["access_token"].(string)
		return DObs{Kind: "Tok", Status: st, OK: st == 200 && ok}
	}
	if o.Kind == "UseAt" {
		return DObs{Kind: "Tok", Status: st, OK: st == 200}
	}
	switch {
	case st == 204:
		return DObs{Kind: "Deleted", Status: st}
	case st == 200 || st == 201:
		d, ok := w.absDoc(raw)
		if !ok {
			return DObs{Kind: "Err", Status: st, Code: "unparsable"}
		}
		{
			var m map[string]any
			_ = json.Unmarshal(raw, &m)
			id, _ := m["client_id"].(string)
			if u, isStr := m["registration_client_uri"].(string); isStr && id != "" {
				w.lastURI[id] = u
			}
		}
		if o.Kind == "Create" {
			// whatever the response says, the client that now exists is the one minted by this operation
			for _, id := range w.clientIDs() {
				if _, ok := w.str2h[id]; !ok {
					w.name(id, mint(w.step, KClientId))
				}
			}
		}
		return DObs{Kind: "Doc", Status: st, Created: st == 201, Doc: d}
	default:
		var m map[string]any
		_ = json.Unmarshal(raw, &m)
		code, _ := m["error"].(string)
		return DObs{Kind: "Err", Status: st, Code: code}
	}
}

// ---------------------------------------------------------------- generators
type c12Client struct {
	ID     Handle
	Tok    Handle
	Old    []Handle
	Secret Handle
	OldSec []Handle
	Method string
	Live   bool
}

type c12Gen struct {
	R    *rand.Rand
	w    *c12World
	srv  c12Srv
	ops  []DOp
	obs  []DObs
	cl   []*c12Client
	unk  int
	dist map[string]int
}

var sigUniverse = []string{"ES256", "PS256", "RS256", "ES384", "EdDSA"}
var kencUniverse = []string{"RSA-OAEP", "RSA-OAEP-256", "ECDH-ES"}
var cencUniverse = []string{"A128CBC-HS256", "A256GCM", "A128GCM"}
var methodUniverse = []string{"client_secret_post", "client_secret_basic", "none", "private_key_jwt", "client_secret_jwt", "tls_client_auth", "self_signed_tls_client_auth"}
var scopeUniverse = []string{"openid", "email", "pay", "profile", "admin"}
var detailUniverse = []string{"payment", "account", "api"}

func subsetOf(r *rand.Rand, u []string, min int) []string {
	var out []string
	for _, x := range u {
		if r.Intn(2) == 0 {
			out = append(out, x)
		}
	}
	for len(out) < min {
		x := pick(r, u)
		if !has(out, x) {
			out = append(out, x)
		}
	}
	return out
}

func randomSrv(r *rand.Rand, rotation bool) c12Srv {
	s := c12Srv{Rotation: rotation}
	s.Grants = []string{}
	if r.Intn(8) != 0 {
		s.Grants = append(s.Grants, gCC)
	}
	for _, g := range []string{gAC, gImpl, gRefresh, gCiba} {
		if r.Intn(2) == 0 {
			s.Grants = append(s.Grants, g)
		}
	}
	if has(s.Grants, gCiba) {
		s.CibaModes = subsetOf(r, []string{"poll", "ping", "push"}, 1)
		s.CibaUserCode = r.Intn(2) == 0
		if r.Intn(2) == 0 {
			s.CibaJar = true
			s.CibaJarAlgs = subsetOf(r, sigUniverse, 1)
		}
	}
	s.AuthMethods = subsetOf(r, methodUniverse, 1)
	if r.Intn(6) != 0 && !has(s.AuthMethods, "client_secret_post") {
		s.AuthMethods = append(s.AuthMethods, "client_secret_post")
	}
	if r.Intn(3) != 0 && !has(s.AuthMethods, "client_secret_basic") {
		s.AuthMethods = append(s.AuthMethods, "client_secret_basic")
	}
	if r.Intn(3) == 0 {
		s.Introspection = true
		s.IntroMethods = subsetOf(r, methodUniverse, 1)
	}
	if r.Intn(3) == 0 {
		s.Revocation = true
		s.RevocMethods = subsetOf(r, methodUniverse, 1)
	}
	if r.Intn(4) != 0 {
		s.Scopes = subsetOf(r, scopeUniverse, 1)
	}
	s.OpenIDRequired = r.Intn(3) == 0
	switch r.Intn(4) {
	case 0:
		s.SubTypes = []string{"public", "pairwise"}
	case 1:
		s.SubTypes = []string{"pairwise"}
	case 2:
		s.SubTypes = []string{"pairwise", "public"}
	}
	s.IdtSigAlgs = subsetOf(r, sigUniverse, 1)
	if r.Intn(3) == 0 {
		s.IdtEnc = true
		s.IdtKeyAlgs = subsetOf(r, kencUniverse, 1)
		if r.Intn(2) == 0 {
			s.IdtContentAlgs = subsetOf(r, cencUniverse, 1)
		}
	}
	if r.Intn(2) == 0 {
		s.UiSigAlgs = subsetOf(r, sigUniverse, 1)
	}
	if r.Intn(3) == 0 {
		s.UiEnc = true
		s.UiKeyAlgs = subsetOf(r, kencUniverse, 1)
		if r.Intn(2) == 0 {
			s.UiContentAlgs = subsetOf(r, cencUniverse, 1)
		}
	}
	if r.Intn(2) == 0 {
		s.Jar = true
		s.JarAlgs = subsetOf(r, sigUniverse, 1)
		s.JarByRef = r.Intn(2) == 0
		if r.Intn(2) == 0 {
			s.JarEnc = true
			s.JarKeyAlgs = subsetOf(r, kencUniverse, 1)
			if r.Intn(2) == 0 {
				s.JarContentAlgs = subsetOf(r, cencUniverse, 1)
			}
		}
	}
	if r.Intn(2) == 0 {
		s.Jarm = true
		s.JarmAlgs = subsetOf(r, sigUniverse, 1)
		if r.Intn(2) == 0 {
			s.JarmEnc = true
			s.JarmKeyAlgs = subsetOf(r, kencUniverse, 1)
			if r.Intn(2) == 0 {
				s.JarmContentAlgs = subsetOf(r, cencUniverse, 1)
			}
		}
	}
	if has(s.allMethods(), "private_key_jwt") && r.Intn(2) == 0 {
		s.PkjwtAlgs = subsetOf(r, []string{"ES256", "PS256", "RS256"}, 1)
	}
	if r.Intn(2) == 0 {
		s.AuthDetails = true
		s.AuthDetailTypes = subsetOf(r, detailUniverse, 1)
	}
	return s
}

func setM(d []Member, k string, v JV) []Member {
	for i := range d {
		if d[i].K == k {
			d[i].V = v
			return d
		}
	}
	return append(d, Member{k, v})
}

func getM(d []Member, k string) (JV, bool) {
	for _, m := range d {
		if m.K == k {
			return m.V, true
		}
	}
	return JV{}, false
}

func inter(a, b []string) []string {
	var r []string
	for _, x := range a {
		if has(b, x) {
			r = append(r, x)
		}
	}
	return r
}

func notIn(u, l []string) []string {
	var r []string
	for _, x := range u {
		if !has(l, x) {
			r = append(r, x)
		}
	}
	return r
}

var redirectsOK = []string{"https://a.example/cb", "https://a.example/cb2?x=1", "https://b.example/cb"}
var redirectsBad = []string{"http://a.example/cb", "https://a.example/cb#frag", "custom://cb", "https:///nohost"}

// a document meant to pass validation on this server (the model decides whether it does)
func (g *c12Gen) validDoc() []Member {
	r, s := g.R, g.srv
	var d []Member
	secretMethods := inter([]string{"client_secret_post", "client_secret_basic"}, s.AuthMethods)
	method := ""
	switch {
	case len(secretMethods) > 0 && r.Intn(6) != 0:
		method = pick(r, secretMethods)
	case r.Intn(5) == 0:
		method = "" // asks for nothing
	default:
		method = pick(r, s.AuthMethods)
	}
	if r.Intn(3) == 0 {
		d = append(d, Member{"client_name", jStr(pick(r, []string{"app one", "app two", "x"}))})
	}
	if method != "" || r.Intn(2) == 0 {
		d = append(d, Member{"token_endpoint_auth_method", jStr(method)})
	}
	switch method {
	case "private_key_jwt", "self_signed_tls_client_auth":
		if r.Intn(2) == 0 {
			d = append(d, Member{"jwks", jObj(1)})
		} else {
			d = append(d, Member{"jwks_uri", jStr("https://a.example/jwks")})
		}
		if method == "private_key_jwt" && r.Intn(2) == 0 {
			algs := orDefault(s.PkjwtAlgs, "RS256")
			d = append(d, Member{"token_endpoint_auth_signing_alg", jStr(pick(r, algs))})
		}
	case "tls_client_auth":
		d = append(d, Member{pick(r, []string{"tls_client_auth_subject_dn", "tls_client_auth_san_dns", "tls_client_auth_san_ip"}), jStr("client.example")})
	case "client_secret_jwt":
		if r.Intn(2) == 0 {
			d = append(d, Member{"token_endpoint_auth_signing_alg", jStr("HS256")})
		}
	}
	var grants []string
	if has(s.Grants, gCC) && method != "none" && r.Intn(5) != 0 {
		grants = append(grants, gCC)
	}
	front := false
	if has(s.Grants, gAC) && r.Intn(2) == 0 {
		grants = append(grants, gAC)
		front = true
		d = append(d, Member{"response_types", jArr("code")})
	}
	if has(s.Grants, gRefresh) && r.Intn(3) == 0 {
		grants = append(grants, gRefresh)
	}
	if has(s.Grants, gImpl) && r.Intn(4) == 0 {
		grants = append(grants, gImpl)
		front = true
		rts := []string{pick(r, []string{"token", "id_token", "id_token token"})}
		if has(grants, gAC) {
			rts = append(rts, "code")
		}
		d = setM(d, "response_types", jArr(rts...))
	}
	if r.Intn(10) != 0 {
		d = append(d, Member{"grant_types", jArr(grants...)})
	}
	pairwiseDefault := len(s.SubTypes) > 0 && s.SubTypes[0] == "pairwise"
	if front {
		if pairwiseDefault || r.Intn(2) == 0 {
			d = append(d, Member{"redirect_uris", jArr(redirectsOK[r.Intn(2)])})
		} else {
			d = append(d, Member{"redirect_uris", jArr(redirectsOK[0], redirectsOK[2])})
		}
	}
	var sc []string
	for _, x := range s.scopeIDs() {
		if r.Intn(2) == 0 || (x == "openid" && s.OpenIDRequired) {
			sc = append(sc, x)
		}
	}
	if len(sc) > 0 || r.Intn(4) == 0 {
		d = append(d, Member{"scope", jStr(strings.Join(sc, " "))})
	}
	if r.Intn(4) == 0 {
		d = append(d, Member{"subject_type", jStr(pick(r, orDefault(s.SubTypes, "public")))})
	}
	if r.Intn(4) == 0 {
		d = append(d, Member{"id_token_signed_response_alg", jStr(pick(r, s.IdtSigAlgs))})
	}
	if len(s.UiSigAlgs) > 0 && r.Intn(5) == 0 {
		d = append(d, Member{"userinfo_signed_response_alg", jStr(pick(r, s.UiSigAlgs))})
	}
	if s.Jar && r.Intn(4) == 0 {
		d = append(d, Member{"request_object_signing_alg", jStr(pick(r, s.JarAlgs))})
	}
	if s.Jarm && r.Intn(4) == 0 {
		d = append(d, Member{"authorization_signed_response_alg", jStr(pick(r, s.JarmAlgs))})
	}
	if s.IdtEnc && r.Intn(4) == 0 {
		d = append(d, Member{"id_token_encrypted_response_alg", jStr(pick(r, s.IdtKeyAlgs))})
		if r.Intn(2) == 0 {
			d = append(d, Member{"id_token_encrypted_response_enc", jStr(pick(r, orDefault(s.IdtContentAlgs, "A128CBC-HS256")))})
		}
	}
	if s.AuthDetails && r.Intn(4) == 0 {
		// one enabled type, or several of them in any order
		l := []string{pick(r, s.AuthDetailTypes)}
		for _, t := range s.AuthDetailTypes {
			if r.Intn(2) == 0 && !has(l, t) {
				if r.Intn(2) == 0 {
					l = append(l, t)
				} else {
					l = append([]string{t}, l...)
				}
			}
		}
		d = append(d, Member{"authorization_data_types", jArr(l...)})
	}
	// methods of its own for the introspection / revocation endpoints (those that need no further members)
	simple := []string{"client_secret_post", "client_secret_basic", "client_secret_jwt", "none"}
	if im := inter(simple, s.IntroMethods); s.Introspection && len(im) > 0 && r.Intn(3) == 0 {
		d = append(d, Member{"introspection_endpoint_auth_method", jStr(pick(r, im))})
	}
	if rm := inter(simple, s.RevocMethods); s.Revocation && len(rm) > 0 && r.Intn(3) == 0 {
		d = append(d, Member{"revocation_endpoint_auth_method", jStr(pick(r, rm))})
	}
	if has(s.Grants, gCiba) && method != "none" && method != "" && r.Intn(4) == 0 {
		mode := pick(r, s.CibaModes)
		gl, _ := getM(d, "grant_types")
		d = setM(d, "grant_types", jArr(append(append([]string{}, gl.L...), gCiba)...))
		d = append(d, Member{"backchannel_token_delivery_mode", jStr(mode)})
		if mode != "poll" {
			d = append(d, Member{"backchannel_client_notification_endpoint", jStr("https://a.example/notify")})
		}
		if s.CibaUserCode && r.Intn(2) == 0 {
			d = append(d, Member{"backchannel_user_code_parameter", jBool(true)})
		}
	}
	for _, kv := range []Member{{"dpop_bound_access_tokens", jBool(r.Intn(2) == 0)}, {"default_max_age", jNum(r.Intn(3) * 300)},
		{"contacts", jArr("ops@a.example")}, {"logo_uri", jStr("https://a.example/logo.png")}, {"require_pushed_authorization_requests", jBool(true)}} {
		if r.Intn(8) == 0 {
			d = append(d, kv)
		}
	}
	return d
}

// one capability (or neighbouring) field pushed outside what the server enables
func (g *c12Gen) deviate(d []Member) ([]Member, string) {
	r, s := g.R, g.srv
	other := func(u, l []string) string {
		o := notIn(u, l)
		if len(o) == 0 || r.Intn(6) == 0 {
			return "bogus"
		}
		return pick(r, o)
	}
	switch pick(r, []int{0, 0, 1, 1, 2, 2, 2, 3, 4, 5, 5, 6, 6, 7, 7, 7, 8, 9, 10, 11, 12, 12, 13, 14, 15, 16, 17, 18, 19, 20, 21, 22, 23, 24, 24, 25, 25, 26}) {
	case 0:
		gl, _ := getM(d, "grant_types")
		return setM(d, "grant_types", jArr(append(append([]string{}, gl.L...), other([]string{gCC, gAC, gImpl, gRefresh, gCiba, "urn:ietf:params:oauth:grant-type:jwt-bearer"}, s.Grants))...)), "grant_types"
	case 1:
		rl, _ := getM(d, "response_types")
		return setM(d, "response_types", jArr(append(append([]string{}, rl.L...), other([]string{"code", "token", "id_token", "code id_token", "code token"}, s.respTypes()))...)), "response_types"
	case 2:
		// a method the server does not offer, with whatever else that method needs
		m := other(methodUniverse, s.AuthMethods)
		d = setM(d, "token_endpoint_auth_method", jStr(m))
		switch m {
		case "private_key_jwt", "self_signed_tls_client_auth":
			d = setM(d, "jwks_uri", jStr("https://a.example/jwks"))
		case "tls_client_auth":
			d = setM(d, "tls_client_auth_san_dns", jStr("client.example"))
		case "none":
			gl, _ := getM(d, "grant_types")
			var keep []string
			for _, x := range gl.L {
				if x != gCC && x != gCiba {
					keep = append(keep, x)
				}
			}
			d = setM(d, "grant_types", jArr(keep...))
		}
		return d, "token_endpoint_auth_method"
	case 3:
		return setM(d, "introspection_endpoint_auth_method", jStr(other(methodUniverse, s.IntroMethods))), "introspection_endpoint_auth_method"
	case 4:
		return setM(d, "revocation_endpoint_auth_method", jStr(other(methodUniverse, s.RevocMethods))), "revocation_endpoint_auth_method"
	case 5:
		sc, _ := getM(d, "scope")
		return setM(d, "scope", jStr(strings.TrimSpace(sc.S+" "+other(scopeUniverse, s.scopeIDs())))), "scope"
	case 6:
		return setM(d, "subject_type", jStr(other([]string{"public", "pairwise"}, orDefault(s.SubTypes, "public")))), "subject_type"
	case 7:
		// CIBA with a delivery mode the server does not offer, an unknown one, or none at all
		gl, _ := getM(d, "grant_types")
		if !has(gl.L, gCiba) {
			d = setM(d, "grant_types", jArr(append(append([]string{}, gl.L...), gCiba)...))
		}
		if m := methodOf(d); m == "none" || m == "" {
			if sm := inter([]string{"client_secret_post", "client_secret_basic"}, s.AuthMethods); len(sm) > 0 {
				d = setM(d, "token_endpoint_auth_method", jStr(sm[0]))
			}
		}
		mode := pick(r, append(notIn([]string{"poll", "ping", "push"}, s.CibaModes), "", "bogus"))
		if r.Intn(4) == 0 {
			mode = pick(r, []string{"poll", "ping", "push"})
		}
		if mode != "" {
			d = setM(d, "backchannel_token_delivery_mode", jStr(mode))
		}
		if mode == "ping" || mode == "push" || r.Intn(4) == 0 {
			d = setM(d, "backchannel_client_notification_endpoint", jStr(pick(r, []string{"https://a.example/notify", "https://a.example/notify", "http://a.example/notify"})))
		}
		if r.Intn(4) == 0 {
			d = setM(d, "backchannel_user_code_parameter", jBool(true))
		}
		return d, "backchannel_token_delivery_mode"
	case 8:
		return setM(d, "id_token_signed_response_alg", jStr(other(sigUniverse, s.IdtSigAlgs))), "id_token_signed_response_alg"
	case 9:
		return setM(d, "userinfo_signed_response_alg", jStr(other(sigUniverse, s.UiSigAlgs))), "userinfo_signed_response_alg"
	case 10:
		return setM(d, "request_object_signing_alg", jStr(other(sigUniverse, s.JarAlgs))), "request_object_signing_alg"
	case 11:
		return setM(d, "authorization_signed_response_alg", jStr(other(sigUniverse, s.JarmAlgs))), "authorization_signed_response_alg"
	case 12:
		p := pick(r, []string{"id_token", "userinfo", "authorization"})
		keys, cont := map[string][]string{"id_token": s.IdtKeyAlgs, "userinfo": s.UiKeyAlgs, "authorization": s.JarmKeyAlgs}[p],
			map[string][]string{"id_token": orDefault(s.IdtContentAlgs, "A128CBC-HS256"), "userinfo": orDefault(s.UiContentAlgs, "A128CBC-HS256"), "authorization": orDefault(s.JarmContentAlgs, "A128CBC-HS256")}[p]
		switch r.Intn(3) {
		case 0: // key algorithm outside the list
			d = setM(d, p+"_encrypted_response_alg", jStr(other(kencUniverse, keys)))
		case 1: // content algorithm outside the list, key algorithm fine when there is one
			if len(keys) > 0 {
				d = setM(d, p+"_encrypted_response_alg", jStr(pick(r, keys)))
			}
			d = setM(d, p+"_encrypted_response_enc", jStr(other(cencUniverse, cont)))
		default: // content algorithm without key algorithm
			d = setM(d, p+"_encrypted_response_enc", jStr(pick(r, cont)))
		}
		return d, p + "_encrypted_response_alg/enc"
	case 13:
		switch r.Intn(3) {
		case 0:
			d = setM(d, "request_object_encryption_alg", jStr(other(kencUniverse, s.JarKeyAlgs)))
		case 1:
			if len(s.JarKeyAlgs) > 0 {
				d = setM(d, "request_object_encryption_alg", jStr(pick(r, s.JarKeyAlgs)))
			}
			d = setM(d, "request_object_encryption_enc", jStr(other(cencUniverse, orDefault(s.JarContentAlgs, "A128CBC-HS256"))))
		default:
			d = setM(d, "request_object_encryption_enc", jStr(pick(r, cencUniverse)))
		}
		return d, "request_object_encryption_alg/enc"
	case 14:
		return setM(d, "backchannel_authentication_request_signing_alg", jStr(other(sigUniverse, s.CibaJarAlgs))), "backchannel_authentication_request_signing_alg"
	case 15:
		// a type that is not enabled: alone, or before / after / between enabled ones
		l := []string{other(detailUniverse, s.AuthDetailTypes)}
		for _, t := range s.AuthDetailTypes {
			if r.Intn(2) == 0 {
				if r.Intn(2) == 0 {
					l = append(l, t)
				} else {
					l = append([]string{t}, l...)
				}
			}
		}
		return setM(d, "authorization_data_types", jArr(l...)), "authorization_data_types"
	case 16:
		return setM(d, "redirect_uris", jArr(redirectsOK[0], pick(r, redirectsBad))), "redirect_uris"
	case 17:
		return setM(d, "jwks", jObj(pick(r, []int{2, 1, 7}))), "jwks"
	case 18:
		return setM(d, "sector_identifier_uri", jStr(pick(r, []string{"https://a.example/sector.json", "http://a.example/s"}))), "sector_identifier_uri"
	case 19:
		d = setM(d, "token_endpoint_auth_method", jStr("tls_client_auth"))
		if r.Intn(2) == 0 {
			d = setM(d, "tls_client_auth_subject_dn", jStr("CN=x"))
			d = setM(d, "tls_client_auth_san_dns", jStr("x.example"))
		}
		return d, "tls_client_auth identifiers"
	case 20:
		m := pick(r, []string{"private_key_jwt", "client_secret_jwt"})
		if sm := inter([]string{"private_key_jwt", "client_secret_jwt"}, s.AuthMethods); len(sm) > 0 {
			m = pick(r, sm)
		}
		d = setM(d, "token_endpoint_auth_method", jStr(m))
		d = setM(d, "token_endpoint_auth_signing_alg", jStr(pick(r, append(sigUniverse, "HS256", "HS512"))))
		if r.Intn(4) != 0 {
			d = setM(d, "jwks_uri", jStr("https://a.example/jwks"))
		}
		return d, "token_endpoint_auth_signing_alg"
	case 21:
		d = setM(d, "request_uris", jArr(pick(r, []string{"https://a.example/req", "http://a.example/req"})))
		return d, "request_uris"
	case 22:
		gl, _ := getM(d, "grant_types")
		d = setM(d, "grant_types", jArr(append(append([]string{}, gl.L...), gCC)...))
		return setM(d, "token_endpoint_auth_method", jStr("none")), "client_credentials with none"
	case 24:
		sc, _ := getM(d, "scope")
		var keep []string
		for _, x := range strings.Fields(sc.S) {
			if x != "openid" {
				keep = append(keep, x)
			}
		}
		return setM(d, "scope", jStr(strings.Join(keep, " "))), "scope without openid"
	case 25:
		// a well-formed CIBA registration that asks for a user code, or authenticates with none
		gl, _ := getM(d, "grant_types")
		if !has(gl.L, gCiba) {
			d = setM(d, "grant_types", jArr(append(append([]string{}, gl.L...), gCiba)...))
		}
		mode := "poll"
		if len(s.CibaModes) > 0 {
			mode = pick(r, s.CibaModes)
		}
		d = setM(d, "backchannel_token_delivery_mode", jStr(mode))
		if mode != "poll" {
			d = setM(d, "backchannel_client_notification_endpoint", jStr("https://a.example/notify"))
		}
		if r.Intn(2) == 0 {
			d = setM(d, "backchannel_user_code_parameter", jBool(true))
			if m := methodOf(d); m == "none" || m == "" {
				if sm := inter([]string{"client_secret_post", "client_secret_basic"}, s.AuthMethods); len(sm) > 0 {
					d = setM(d, "token_endpoint_auth_method", jStr(sm[0]))
				}
			}
			return d, "backchannel_user_code_parameter"
		}
		gl, _ = getM(d, "grant_types")
		var keep []string
		for _, x := range gl.L {
			if x != gCC {
				keep = append(keep, x)
			}
		}
		d = setM(d, "grant_types", jArr(keep...))
		return setM(d, "token_endpoint_auth_method", jStr("none")), "ciba with none"
	case 26:
		d = setM(d, "token_endpoint_auth_method", jStr(pick(r, []string{"self_signed_tls_client_auth", "private_key_jwt"})))
		var keep []Member
		for _, m := range d {
			if m.K != "jwks" && m.K != "jwks_uri" {
				keep = append(keep, m)
			}
		}
		return keep, "key-based method without jwks"
	default:
		return setM(d, "response_types", jArr(pick(r, []string{"code", "token", "id_token"}))), "response_types without grant"
	}
}

func (g *c12Gen) unknownTok() Handle {
	g.unk++
	return unknownBase + Handle(1000+g.unk)
}

// members that do not belong to the metadata: unknown names, names of the response's own members,
// case variants of known names, nulls, duplicates
func (g *c12Gen) addOddMembers(d []Member, n int) []Member {
	r := g.R
	credOf := func() JV {
		var hs []Handle
		for _, c := range g.cl {
			hs = append(hs, c.ID, c.Tok, c.Secret)
			hs = append(hs, c.Old...)
		}
		var nz []Handle
		for _, h := range hs {
			if h != 0 {
				nz = append(nz, h)
			}
		}
		if len(nz) == 0 || r.Intn(3) == 0 {
			return jStr(pick(r, []string{"evil-value", "dc-chosen-by-the-client", "s3cret"}))
		}
		return jCred(nz[r.Intn(len(nz))])
	}
	for i := 0; i < n; i++ {
		var m Member
		switch r.Intn(12) {
		case 0, 1:
			m = Member{"client_id", credOf()}
		case 2, 3:
			m = Member{"client_secret", credOf()}
		case 4, 5:
			m = Member{"registration_access_token", credOf()}
		case 6:
			if len(g.cl) > 0 && r.Intn(2) == 0 {
				m = Member{"registration_client_uri", jURI(g.cl[r.Intn(len(g.cl))].ID)}
			} else {
				m = Member{"registration_client_uri", jStr("https://evil.example/register/x")}
			}
		case 7:
			m = Member{pick(r, []string{"Client_Id", "CLIENT_SECRET", "Registration_Access_Token", "Client_Name", "SCOPE", "Grant_Types"}), jStr(pick(r, []string{"openid", "mixed case"}))}
		case 8:
			m = Member{pick(r, []string{"software_id", "x-vendor", "hashed_secret", "hashed_registration_access_token", "custom_attributes"}),
				[]JV{jStr("v1"), jNum(7), jBool(true), jNull(), jArr("a", "b"), jObj(5), jObj(3)}[r.Intn(7)]}
		case 9:
			m = Member{pick(r, []string{"client_name", "scope", "jwks_uri", "grant_types", "dpop_bound_access_tokens", "default_max_age"}), jNull()}
		case 10:
			// a second occurrence of a member already there
			if len(d) > 0 {
				m = d[r.Intn(len(d))]
				if m.K == "client_name" {
					m.V = jStr("second")
				}
			} else {
				m = Member{"software_id", jStr("v2")}
			}
		default:
			m = Member{"software_version", jStr("1.0")}
		}
		if m.K == "custom_attributes" && m.V.T != "obj" && m.V.T != "null" {
			m.V = jObj(5)
		}
		d = append(d, m)
	}
	return d
}

func (g *c12Gen) wrongType(d []Member) []Member {
	r := g.R
	return append(d, []Member{{"client_name", jNum(3)}, {"grant_types", jStr("client_credentials")}, {"scope", jArr("openid")},
		{"dpop_bound_access_tokens", jStr("true")}, {"default_max_age", jStr("60")}, {"redirect_uris", jObj(5)}, {"custom_attributes", jStr("x")}}[r.Intn(7)])
}

func (g *c12Gen) do(o DOp) DObs {
	g.w.step = len(g.ops)
	x := g.w.exec(o)
	g.ops = append(g.ops, o)
	g.obs = append(g.obs, x)
	g.dist["op:"+o.Kind]++
	if x.accepted() {
		g.dist["accepted:"+o.Kind]++
	} else {
		g.dist["refused:"+o.Kind+":"+x.Code]++
	}
	return x
}

func credIn(d []Member, k string) Handle {
	if v, ok := getM(d, k); ok && v.T == "cred" {
		return v.H
	}
	return 0
}

func methodOf(d []Member) string {
	v, _ := getM(d, "token_endpoint_auth_method")
	return v.S
}

func (g *c12Gen) create(body []Member, bad bool, hk Hook, why string) *c12Client {
	step := len(g.ops)
	x := g.do(DOp{Kind: "Create", Body: body, BadBody: bad, Hook: hk, Why: why})
	if x.Kind != "Doc" {
		return nil
	}
	// the generator addresses the new client by the names the model gives its credentials
	c := &c12Client{ID: mint(step, KClientId), Tok: mint(step, KRegToken), Secret: credIn(x.Doc, "client_secret"), Method: methodOf(x.Doc), Live: true}
	if _, ok := g.w.h2str[c.Tok]; !ok {
		c.Tok = credIn(x.Doc, "registration_access_token")
	}
	g.cl = append(g.cl, c)
	return c
}

func (g *c12Gen) update(c *c12Client, tok RTok, body []Member, bad bool, hk Hook, why string) DObs {
	step := len(g.ops)
	x := g.do(DOp{Kind: "Update", Cid: c.ID, Tok: tok, Body: body, BadBody: bad, Hook: hk, Why: why})
	if x.Kind == "Doc" {
		if _, ok := g.w.h2str[mint(step, KRegToken)]; ok {
			c.Old = append(c.Old, c.Tok)
			c.Tok = mint(step, KRegToken)
		}
		if c.Secret != 0 {
			c.OldSec = append(c.OldSec, c.Secret)
		}
		c.Secret = credIn(x.Doc, "client_secret")
		if c.Secret != 0 && c.Secret != mint(step, KSecret) {
			c.Secret = 0
		}
		c.Method = methodOf(x.Doc)
	}
	return x
}

// the token kinds of the property's quantifier
var tokKinds = []string{"current", "previous", "foreign", "absent", "malformed", "empty", "unknown"}

func (g *c12Gen) tokOf(c *c12Client, kind string) RTok {
	switch kind {
	case "current":
		return RTok{Kind: "tok", H: c.Tok}
	case "previous":
		if len(c.Old) > 0 {
			return RTok{Kind: "tok", H: c.Old[g.R.Intn(len(c.Old))]}
		}
		return RTok{Kind: "tok", H: g.unknownTok()}
	case "foreign":
		for _, o := range g.cl {
			if o != c && o.Tok != 0 {
				return RTok{Kind: "tok", H: o.Tok}
			}
		}
		return RTok{Kind: "tok", H: g.unknownTok()}
	case "absent":
		return RTok{Kind: "absent"}
	case "malformed":
		return RTok{Kind: "malformed"}
	case "empty":
		return RTok{Kind: "tok", H: 0}
	}
	return RTok{Kind: "tok", H: g.unknownTok()}
}

func (g *c12Gen) useSecret(c *c12Client, which string) {
	s := c.Secret
	switch which {
	case "old":
		if len(c.OldSec) == 0 {
			return
		}
		s = c.OldSec[len(c.OldSec)-1]
	case "foreign":
		s = 0
		for _, o := range g.cl {
			if o != c && o.Secret != 0 {
				s = o.Secret
			}
		}
		if s == 0 {
			s = g.unknownTok()
		}
	case "token":
		s = c.Tok
	}
	basic := c.Method == "client_secret_basic"
	if g.R.Intn(8) == 0 {
		basic = !basic
	}
	g.do(DOp{Kind: "UseSecret", Cid: c.ID, Secret: s, Basic: basic, Why: which + " secret"})
	if g.R.Intn(3) == 0 {
		g.do(DOp{Kind: "UseAt", Cid: c.ID, Secret: s, Ep: pick(g.R, c12Eps), Sm: pick(g.R, c12Sms), Why: which + " secret"})
	}
}

var c12Eps = []string{"token", "introspect", "revoke"}
var c12Sms = []string{"post", "basic", "jwt"}

// the secret used at every endpoint by every secret-based method: 3 x 3 requests
func (g *c12Gen) useEverywhere(c *c12Client, secret Handle, why string) {
	for _, ep := range c12Eps {
		for _, sm := range c12Sms {
			g.do(DOp{Kind: "UseAt", Cid: c.ID, Secret: secret, Ep: ep, Sm: sm, Why: why})
		}
	}
}

// the method in force at an endpoint, as clientutil.authnMethod reads it off a registration document
func c12MethodAt(d []Member, ep string) string {
	key := map[string]string{"introspect": "introspection_endpoint_auth_method", "revoke": "revocation_endpoint_auth_method"}[ep]
	if key != "" {
		if v, ok := getM(d, key); ok && v.S != "" {
			return v.S
		}
	}
	return methodOf(d)
}

// a wrong secret offered the way the endpoint expects one
func (g *c12Gen) useWrong(c *c12Client, doc []Member, secret Handle, why string) {
	for _, ep := range c12Eps {
		sm := map[string]string{"client_secret_post": "post", "client_secret_basic": "basic", "client_secret_jwt": "jwt"}[c12MethodAt(doc, ep)]
		if sm == "" {
			sm = pick(g.R, c12Sms)
		}
		g.do(DOp{Kind: "UseAt", Cid: c.ID, Secret: secret, Ep: ep, Sm: sm, Why: why})
	}
}

// ---- family "endpoints": every combination of (token, introspection, revocation) methods the server
// offers, the returned secret used at every endpoint by every secret-based method ----
type c12Combo struct{ T, I, R string }

func c12EndpointSrv(variant int, rotation bool) c12Srv {
	s := c12Srv{Rotation: rotation, Grants: []string{gCC, gAC}, Scopes: []string{"openid", "email"}, IdtSigAlgs: []string{"ES256"}}
	switch variant % 4 {
	case 0:
		s.AuthMethods = []string{"client_secret_post", "client_secret_basic", "client_secret_jwt", "private_key_jwt"}
		s.Introspection, s.IntroMethods = true, []string{"client_secret_post", "client_secret_basic", "client_secret_jwt"}
		s.Revocation, s.RevocMethods = true, []string{"client_secret_post", "client_secret_basic", "client_secret_jwt"}
	case 1:
		s.AuthMethods = []string{"client_secret_post", "client_secret_basic"}
		s.Introspection, s.IntroMethods = true, []string{"client_secret_jwt", "client_secret_post"}
	case 2:
		s.AuthMethods = []string{"client_secret_jwt", "client_secret_post"}
		s.Revocation, s.RevocMethods = true, []string{"client_secret_basic", "client_secret_jwt"}
	default:
		s.AuthMethods = []string{"client_secret_post", "client_secret_basic", "client_secret_jwt", "none"}
		s.Introspection, s.IntroMethods = true, []string{"client_secret_jwt", "none"}
		s.Revocation, s.RevocMethods = true, []string{"client_secret_basic"}
	}
	return s
}

func c12Combos(s c12Srv) []c12Combo {
	im, rm := []string{""}, []string{""}
	if s.Introspection {
		im = append(im, s.IntroMethods...)
	}
	if s.Revocation {
		rm = append(rm, s.RevocMethods...)
	}
	var l []c12Combo
	for _, t := range s.AuthMethods {
		for _, i := range im {
			for _, r := range rm {
				l = append(l, c12Combo{t, i, r})
			}
		}
	}
	return l
}

func (g *c12Gen) comboDoc(c c12Combo, k int) []Member {
	d := []Member{{"token_endpoint_auth_method", jStr(c.T)}}
	if c.T == "none" {
		d = append(d, Member{"grant_types", jArr(gAC)}, Member{"response_types", jArr("code")}, Member{"redirect_uris", jArr(redirectsOK[0])})
	} else {
		d = append(d, Member{"grant_types", jArr(gCC)})
	}
	if c.T == "private_key_jwt" {
		d = append(d, Member{"jwks", jObj(1)})
	}
	if c.I != "" {
		d = append(d, Member{"introspection_endpoint_auth_method", jStr(c.I)})
	}
	if c.R != "" {
		d = append(d, Member{"revocation_endpoint_auth_method", jStr(c.R)})
	}
	// the signing algorithm spelled out, now and then; and, where an endpoint inherits the token
	// endpoint's method, an algorithm of its own that nobody validated
	if k%3 == 0 && c.T == "client_secret_jwt" {
		d = append(d, Member{"token_endpoint_auth_signing_alg", jStr("HS256")})
	}
	if k%5 == 0 && c.I == "client_secret_jwt" {
		d = append(d, Member{"introspection_endpoint_auth_signing_alg", jStr("HS256")})
	}
	if k%7 == 3 && c.I == "" {
		d = append(d, Member{"introspection_endpoint_auth_signing_alg", jStr(pick(g.R, []string{"ES256", "HS256"}))})
	}
	if k%7 == 5 && c.R == "" {
		d = append(d, Member{"revocation_endpoint_auth_signing_alg", jStr(pick(g.R, []string{"PS256", "HS256"}))})
	}
	d = append(d, Member{"scope", jStr("openid")})
	return d
}

func (g *c12Gen) famEndpoints(k int) {
	combos := c12Combos(g.srv)
	// four combinations per history; the histories of one server variant walk through all of them
	base := (k / 4) * 4
	at := func(i int) c12Combo { return combos[(base+i)%len(combos)] }
	docA, docB := g.comboDoc(at(0), k), g.comboDoc(at(1), k+1)
	a := g.create(docA, false, Hook{}, fmt.Sprintf("A %+v", at(0)))
	if a == nil {
		return
	}
	g.useEverywhere(a, a.Secret, "the returned secret")
	b := g.create(docB, false, Hook{}, fmt.Sprintf("B %+v", at(1)))
	if b != nil {
		g.useEverywhere(b, b.Secret, "the returned secret")
		g.useWrong(b, docB, a.Secret, "another client's secret")
		g.useWrong(a, docA, b.Secret, "another client's secret")
	}
	g.useWrong(a, docA, a.Tok, "the registration token as secret")
	docA2 := g.comboDoc(at(2), k+2)
	oldA := a.Secret
	if x := g.update(a, g.tokOf(a, "current"), docA2, false, Hook{}, fmt.Sprintf("A becomes %+v", at(2))); x.Kind == "Doc" {
		g.useEverywhere(a, a.Secret, "the secret returned by the update")
		g.useWrong(a, docA2, oldA, "the secret before the update")
		g.do(DOp{Kind: "Read", Cid: a.ID, Tok: g.tokOf(a, "current"), Why: "read back"})
	}
	if b != nil {
		docB2 := g.comboDoc(at(3), k+3)
		oldB := b.Secret
		if x := g.update(b, g.tokOf(b, "current"), docB2, false, Hook{}, fmt.Sprintf("B becomes %+v", at(3))); x.Kind == "Doc" {
			g.useEverywhere(b, b.Secret, "the secret returned by the update")
			g.useWrong(b, docB2, oldB, "the secret before the update")
		}
		g.useEverywhere(a, a.Secret, "A's secret after B's update")
	}
}

// ---- family "details": authorization detail types, every list over the universe up to length 3 ----
func c12DetailLists() [][]string {
	u := detailUniverse
	l := [][]string{{}}
	for _, a := range u {
		l = append(l, []string{a})
	}
	for _, a := range u {
		for _, b := range u {
			l = append(l, []string{a, b})
		}
	}
	for _, a := range u {
		for _, b := range u {
			for _, c := range u {
				if a != b && b != c && a != c {
					l = append(l, []string{a, b, c})
				}
			}
		}
	}
	return l
}

func c12DetailSrv(variant int, rotation bool) c12Srv {
	s := c12Srv{Rotation: rotation, Grants: []string{gCC, gAC}, Scopes: []string{"openid", "email"}, IdtSigAlgs: []string{"ES256"},
		AuthMethods: []string{"client_secret_post", "none"}, AuthDetails: true}
	switch variant % 4 {
	case 0:
		s.AuthDetailTypes = []string{"payment"}
	case 1:
		s.AuthDetailTypes = []string{"payment", "account"}
	case 2:
		s.AuthDetailTypes = []string{"api", "account"}
	default:
		s.AuthDetails = false // the member is then not looked at
	}
	return s
}

func (g *c12Gen) famDetails(k int) {
	doc := func(l []string, name string) []Member {
		d := []Member{{"client_name", jStr(name)}, {"token_endpoint_auth_method", jStr("none")}, {"grant_types", jArr(gAC)},
			{"response_types", jArr("code")}, {"redirect_uris", jArr(redirectsOK[0])}, {"scope", jStr("openid")}}
		if l != nil {
			d = append(d, Member{"authorization_data_types", jArr(l...)})
		}
		return d
	}
	first := []string{"payment"}
	if g.srv.AuthDetails {
		first = g.srv.AuthDetailTypes[:1]
	}
	a := g.create(doc(first, "A"), false, Hook{}, "A with one enabled type")
	if a == nil {
		return
	}
	lists := c12DetailLists()
	for i, l := range lists {
		why := fmt.Sprintf("authorization_data_types %v against %v", l, g.srv.AuthDetailTypes)
		switch (i + k) % 3 {
		case 0:
			g.create(doc(l, fmt.Sprintf("c%d", i)), false, Hook{}, why)
		case 1:
			if x := g.update(a, g.tokOf(a, "current"), doc(l, fmt.Sprintf("A%d", i)), false, Hook{}, why); x.Kind == "Doc" || i%4 == 1 {
				g.do(DOp{Kind: "Read", Cid: a.ID, Tok: g.tokOf(a, "current"), Why: "read back"})
			}
		default:
			// the list comes from the embedder's hook
			hk := Hook{Kind: "set", K: "authorization_data_types", V: jArr(l...)}
			if i%2 == 0 {
				g.update(a, g.tokOf(a, "current"), doc(nil, fmt.Sprintf("A%d", i)), false, hk, "hook sets "+why)
			} else {
				g.create(doc(first, fmt.Sprintf("h%d", i)), false, hk, "hook sets "+why)
			}
		}
	}
	g.do(DOp{Kind: "Read", Cid: a.ID, Tok: g.tokOf(a, "current"), Why: "read back"})
}


// a registration document that leads to a client holding a secret, when the server allows one
func (g *c12Gen) goodDoc() []Member {
	for i := 0; i < 6; i++ {
		d := g.validDoc()
		m := methodOf(d)
		if m == "client_secret_post" || m == "client_secret_basic" || i == 5 {
			return d
		}
	}
	return nil
}

// ---- history families ----
func (g *c12Gen) famGuard(k int) {
	a := g.create(g.goodDoc(), false, Hook{}, "A")
	b := g.create(g.goodDoc(), false, Hook{}, "B")
	if a == nil || b == nil {
		g.famCaps(k)
		return
	}
	if g.R.Intn(2) == 0 {
		g.update(a, g.tokOf(a, "current"), g.goodDoc(), false, Hook{}, "rotate or keep A's token")
	}
	// a window of the (operation x token kind) catalogue, deletes last
	cat := [][2]string{}
	for _, op := range []string{"Read", "Update", "Delete"} {
		for _, tk := range tokKinds {
			cat = append(cat, [2]string{op, tk})
		}
	}
	var later [][2]string
	for i := 0; i < 5; i++ {
		e := cat[(k*5+i)%len(cat)]
		if e[0] == "Delete" && e[1] == "current" {
			later = append(later, e)
			continue
		}
		g.guardOp(a, e)
	}
	for _, e := range later {
		g.guardOp(a, e)
		g.do(DOp{Kind: "Read", Cid: a.ID, Tok: g.tokOf(a, "current"), Why: "read after delete"})
		g.do(DOp{Kind: "Read", Cid: b.ID, Tok: g.tokOf(b, "current"), Why: "the other client is untouched"})
	}
}

func (g *c12Gen) guardOp(c *c12Client, e [2]string) {
	tok := g.tokOf(c, e[1])
	switch e[0] {
	case "Read":
		g.do(DOp{Kind: "Read", Cid: c.ID, Tok: tok, Why: e[1] + " token"})
	case "Update":
		g.update(c, tok, g.goodDoc(), false, Hook{}, e[1]+" token")
	case "Delete":
		x := g.do(DOp{Kind: "Delete", Cid: c.ID, Tok: tok, Why: e[1] + " token"})
		if x.Kind == "Deleted" {
			c.Live = false
		}
	}
}

func (g *c12Gen) famRotation(k int) {
	a := g.create(g.goodDoc(), false, Hook{}, "A")
	if a == nil {
		g.famCaps(k)
		return
	}
	if k%2 == 0 {
		g.create(g.goodDoc(), false, Hook{}, "B")
	}
	g.useSecret(a, "current")
	g.update(a, g.tokOf(a, "current"), g.goodDoc(), false, Hook{}, "first update")
	g.do(DOp{Kind: "Read", Cid: a.ID, Tok: g.tokOf(a, "previous"), Why: "token before the update"})
	g.do(DOp{Kind: "Read", Cid: a.ID, Tok: g.tokOf(a, "current"), Why: "token after the update"})
	g.useSecret(a, "old")
	g.useSecret(a, "current")
	g.update(a, g.tokOf(a, "previous"), g.goodDoc(), false, Hook{}, "update with the token before the update")
	if k%3 == 0 {
		g.update(a, g.tokOf(a, "current"), g.goodDoc(), false, Hook{}, "second update")
		g.do(DOp{Kind: "Read", Cid: a.ID, Tok: g.tokOf(a, "previous"), Why: "an earlier token"})
	}
	g.do(DOp{Kind: "Delete", Cid: a.ID, Tok: g.tokOf(a, "previous"), Why: "delete with a token before an update"})
	g.do(DOp{Kind: "Read", Cid: a.ID, Tok: g.tokOf(a, "current"), Why: "still there?"})
}

func (g *c12Gen) famMembers(k int) {
	b := g.create(g.goodDoc(), false, Hook{}, "B (its credentials are used as member values)")
	a := g.create(g.addOddMembers(g.goodDoc(), 1+g.R.Intn(3)), false, Hook{}, "A with odd members")
	if a == nil {
		a = g.create(g.goodDoc(), false, Hook{}, "A")
	}
	if a == nil {
		return
	}
	g.do(DOp{Kind: "Read", Cid: a.ID, Tok: g.tokOf(a, "current"), Why: "read back"})
	g.useSecret(a, "current")
	g.update(a, g.tokOf(a, "current"), g.addOddMembers(g.goodDoc(), 1+g.R.Intn(3)), false, Hook{}, "update with odd members")
	g.do(DOp{Kind: "Read", Cid: a.ID, Tok: g.tokOf(a, "current"), Why: "read back"})
	g.useSecret(a, pick(g.R, []string{"current", "old", "foreign", "token"}))
	if b != nil && k%2 == 0 {
		g.do(DOp{Kind: "Read", Cid: b.ID, Tok: g.tokOf(b, "current"), Why: "B unaffected"})
	}
	switch k % 4 {
	case 0:
		g.create(g.wrongType(g.goodDoc()), false, Hook{}, "wrongly typed member")
	case 1:
		g.create(nil, true, Hook{}, "body is not an object")
	case 2:
		g.update(a, g.tokOf(a, "current"), g.wrongType(g.goodDoc()), false, Hook{}, "wrongly typed member")
	case 3:
		g.update(a, g.tokOf(a, "absent"), nil, true, Hook{}, "bad body and no token")
	}
}

func (g *c12Gen) famCaps(k int) {
	var a *c12Client
	for i := 0; i < 6; i++ {
		d := g.validDoc()
		why := "meant valid"
		if i > 0 || k%2 == 0 {
			d, why = g.deviate(d)
			g.dist["deviation:"+why]++
		}
		hk := Hook{}
		if g.R.Intn(8) == 0 {
			hk = g.randomHook()
			why += " + hook " + hk.Kind + " " + hk.K
		}
		if a != nil && g.R.Intn(3) == 0 {
			g.update(a, g.tokOf(a, "current"), d, false, hk, why)
			continue
		}
		if c := g.create(d, false, hk, why); c != nil && a == nil {
			a = c
		}
	}
	if a != nil {
		g.do(DOp{Kind: "Read", Cid: a.ID, Tok: g.tokOf(a, "current"), Why: "read back"})
		if a.Secret != 0 {
			g.useSecret(a, "current")
		}
	}
}

// the embedder's hook edits the metadata between the two validations
func (g *c12Gen) famHook(k int) {
	r, s := g.R, g.srv
	a := g.create(g.goodDoc(), false, Hook{}, "A")
	hooks := []Hook{
		{Kind: "reject"},
		{Kind: "set", K: "client_name", V: jStr("named by the embedder")},
		{Kind: "set", K: "grant_types", V: jArr(pick(r, append(notIn([]string{gCC, gAC, gImpl, gRefresh}, s.Grants), "bogus")))},
		{Kind: "set", K: "token_endpoint_auth_method", V: jStr(pick(r, append(notIn(methodUniverse, s.AuthMethods), "bogus")))},
		{Kind: "set", K: "scope", V: jStr(pick(r, append(notIn(scopeUniverse, s.scopeIDs()), "unknown-scope")))},
		{Kind: "set", K: "subject_type", V: jStr(pick(r, []string{"pairwise", "public", "bogus"}))},
		{Kind: "set", K: "id_token_signed_response_alg", V: jStr(pick(r, sigUniverse))},
		{Kind: "set", K: "scope", V: jStr("openid")},
	}
	for i := 0; i < 4; i++ {
		hk := hooks[(k*4+i)%len(hooks)]
		why := "hook " + hk.Kind + " " + hk.K
		if a != nil && i%2 == 0 {
			g.update(a, g.tokOf(a, "current"), g.goodDoc(), false, hk, why)
		} else if c := g.create(g.goodDoc(), false, hk, why); c != nil && a == nil {
			a = c
		}
	}
	if a != nil {
		g.do(DOp{Kind: "Read", Cid: a.ID, Tok: g.tokOf(a, "current"), Why: "read back"})
	}
}

func (g *c12Gen) randomHook() Hook {
	r := g.R
	switch r.Intn(5) {
	case 0:
		return Hook{Kind: "reject"}
	case 1:
		return Hook{Kind: "set", K: "grant_types", V: jArr(pick(r, []string{gCC, gAC, "bogus"}))}
	case 2:
		return Hook{Kind: "set", K: "token_endpoint_auth_method", V: jStr(pick(r, methodUniverse))}
	case 3:
		return Hook{Kind: "set", K: "scope", V: jStr(pick(r, scopeUniverse))}
	}
	return Hook{Kind: "set", K: "client_name", V: jStr("named by the embedder")}
}

func (g *c12Gen) famRandom(k int) {
	r := g.R
	n := 6 + r.Intn(5)
	for i := 0; i < n; i++ {
		var live []*c12Client
		for _, c := range g.cl {
			live = append(live, c)
		}
		if len(live) == 0 || (len(live) < 3 && r.Intn(4) == 0) {
			d := g.goodDoc()
			if r.Intn(3) == 0 {
				d = g.addOddMembers(d, 1+r.Intn(2))
			}
			if r.Intn(5) == 0 {
				d, _ = g.deviate(d)
			}
			g.create(d, false, Hook{}, "random")
			continue
		}
		c := live[r.Intn(len(live))]
		tk := "current"
		if r.Intn(3) == 0 {
			tk = pick(r, tokKinds)
		}
		switch r.Intn(10) {
		case 0, 1, 2:
			g.do(DOp{Kind: "Read", Cid: c.ID, Tok: g.tokOf(c, tk), Why: tk + " token"})
		case 3, 4, 5:
			d := g.goodDoc()
			if r.Intn(3) == 0 {
				d = g.addOddMembers(d, 1+r.Intn(2))
			}
			if r.Intn(5) == 0 {
				d, _ = g.deviate(d)
			}
			g.update(c, g.tokOf(c, tk), d, false, Hook{}, tk+" token")
		case 6:
			x := g.do(DOp{Kind: "Delete", Cid: c.ID, Tok: g.tokOf(c, tk), Why: tk + " token"})
			if x.Kind == "Deleted" {
				c.Live = false
			}
		case 7:
			g.do(DOp{Kind: "Read", Cid: g.unknownTok(), Tok: g.tokOf(c, "current"), Why: "a client id never issued"})
		default:
			g.useSecret(c, pick(r, []string{"current", "current", "old", "foreign"}))
		}
	}
}

type c12Case struct {
	Note    string
	Flavour string
	Spec    c12Srv
	Ops     []DOp
	Obs     []DObs
	dist    map[string]int
}

func runC12History(seed int64, k int, fam string) c12Case {
	r := rand.New(rand.NewSource(seed))
	flavour := []string{"copy", "alias"}[k%2]
	rotation := (k/2)%2 == 0
	if fam == "rotation" {
		rotation = k%4 != 3
	}
	srv := randomSrv(r, rotation)
	switch fam {
	case "endpoints":
		flavour, rotation = []string{"copy", "alias"}[(k/4)%2], (k/8)%2 == 0
		srv = c12EndpointSrv(k, rotation)
	case "details":
		flavour, rotation = []string{"copy", "alias"}[(k/4)%2], (k/8)%2 == 0
		srv = c12DetailSrv(k, rotation)
	case "lists":
		// k%4: server variant; k/4 in 0..5: block of (endpoint, method) pairs x rotation x storage flavour
		flavour, rotation = []string{"copy", "alias"}[((k/4)/3)%2], (k/4)%2 == 0
		srv = c12ListsSrv(k, rotation)
	case "collide":
		flavour, rotation = []string{"copy", "alias"}[(k/8)%2], (k/4+k)%2 == 0
		srv = c12EndpointSrv(k, rotation)
	}
	// where the provider is mounted: a dimension of EVERY family, by history index (the same for every
	// seed), crossed with storage flavour and rotation: default / path prefix / renamed registration
	// endpoint / both.  Registrations go to the advertised registration_endpoint and every read, update
	// and delete follows the registration_client_uri last returned for the client verbatim.
	layout := (k / 4) % 4
	switch fam {
	case "endpoints":
		layout = (k / 16) % 4
	case "details":
		layout = (k + k/4) % 4
	case "lists", "collide":
		layout = (k/4 + k/2) % 4
	}
	srv.Prefix = []string{"", "/auth", "", "/tenants/acme"}[layout]
	srv.DcrPath = []string{"", "", "/clients", "/connect/register"}[layout]
	w, err := newC12World(srv, flavour)
	if err != nil {
		panic(fmt.Sprintf("provider.New refused a generated feature set: %v (%+v)", err, srv))
	}
	g := &c12Gen{R: r, w: w, srv: srv, dist: map[string]int{}}
	switch fam {
	case "guard":
		g.famGuard(k)
	case "rotation":
		g.famRotation(k)
	case "members":
		g.famMembers(k)
	case "caps":
		g.famCaps(k)
	case "hook":
		g.famHook(k)
	case "endpoints":
		g.famEndpoints(k)
	case "details":
		g.famDetails(k)
	case "lists":
		g.famLists(k)
	case "collide":
		g.famCollide(k)
	default:
		g.famRandom(k)
	}
	g.dist["family:"+fam]++
	g.dist[fmt.Sprintf("rotation=%v", rotation)]++
	g.dist["storage:"+flavour]++
	g.dist[fmt.Sprintf("mounted: prefix=%q registration endpoint=%q", srv.Prefix, srv.DcrPath)]++
	return c12Case{Note: fmt.Sprintf("%s#%d/%s/rotation=%v/prefix=%s/dcr=%s", fam, k, flavour, rotation, srv.Prefix, srv.DcrPath), Flavour: flavour, Spec: srv, Ops: g.ops, Obs: g.obs, dist: g.dist}
}

func (c c12Case) coq() string { return c.render(false) }

// the case with Model/DcrUse.v operations
func (c c12Case) xcoq() string { return c.render(true) }

func (c c12Case) render(x bool) string {
	var b strings.Builder
	if x {
		b.WriteString("mkXCase " + c.Spec.coq() + "\n  [")
	} else {
		b.WriteString("mkDCase " + c.Spec.coq() + "\n  [")
	}
	for i, o := range c.Ops {
		if i > 0 {
			b.WriteString(";\n   ")
		}
		if x {
			b.WriteString(o.xcoq())
		} else {
			b.WriteString(o.coq())
		}
	}
	b.WriteString("]\n  [")
	for i, o := range c.Obs {
		if i > 0 {
			b.WriteString(";\n   ")
		}
		b.WriteString(o.coq())
	}
	b.WriteString("]")
	return b.String()
}

const c12Header = `From Verif Require Import Base Types Dcr DcrUse.
From Verif.Corr Require Import C12 C12Use.
Local Open Scope N_scope.
`

func init() {
	register(&Suite{Name: "c12", Run: func(ctx *RunCtx) {
		type job struct {
			seed int64
			k    int
			fam  string
		}
		var jobs []job
		add := func(fam string, n int) {
			for i := 0; i < n; i++ {
				jobs = append(jobs, job{ctx.R.Int63(), i, fam})
			}
		}
		add("guard", ctx.N(26, 400))
		add("rotation", ctx.N(16, 300))
		add("members", ctx.N(24, 400))
		add("caps", ctx.N(56, 800))
		add("hook", ctx.N(12, 200))
		add("random", ctx.N(24, 500))
		add("endpoints", ctx.N(64, 256))
		add("details", ctx.N(16, 64))
		add("lists", ctx.N(24, 96))
		add("collide", ctx.N(32, 128))
		cases := make([]c12Case, len(jobs))
		var wg sync.WaitGroup
		sem := make(chan struct{}, 12)
		for i, j := range jobs {
			wg.Add(1)
			sem <- struct{}{}
			go func(i int, j job) {
				defer wg.Done()
				defer func() { <-sem }()
				cases[i] = runC12History(j.seed, j.k, j.fam)
			}(i, j)
		}
		wg.Wait()

		per := 24
		seen := map[string]bool{}
		var jcases []map[string]any
		for k := 0; k*per < len(cases); k++ {
			hi := (k + 1) * per
			if hi > len(cases) {
				hi = len(cases)
			}
			var b strings.Builder
			b.WriteString(c12Header)
			var names []string
			for i, cs := range cases[k*per : hi] {
				fmt.Fprintf(&b, "(*CASE %d %s*)\nDefinition c_%d : xcase :=\n%s.\n", k*per+i, cs.Note, k*per+i, cs.xcoq())
				names = append(names, fmt.Sprintf("c_%d", k*per+i))
			}
			b.WriteString("Definition cases : list xcase := [" + strings.Join(names, "; ") + "].\n")
			b.WriteString("Definition corr := Eval vm_compute in map check_xcase cases.\nPrint corr.\n")
			b.WriteString("Definition mon := Eval vm_compute in map mon_xcase cases.\nPrint mon.\n")
			name := fmt.Sprintf("cases_%03d.v", k)
			if err := os.WriteFile(filepath.Join(ctx.Out, name), []byte(b.String()), 0o644); err != nil {
				panic(err)
			}
			ctx.Meta.Files = append(ctx.Meta.Files, name)
		}
		for i, cs := range cases {
			ctx.Meta.Ops += len(cs.Ops)
			for k, v := range cs.dist {
				ctx.Meta.Dist[k] += v
			}
			okN, errN := 0, 0
			var sb strings.Builder
			for j, o := range cs.Obs {
				sb.WriteString(cs.Ops[j].xcoq() + "=>" + o.Kind + o.Code + ";")
				if o.accepted() {
					okN++
				} else {
					errN++
				}
			}
			if okN > 0 && errN > 0 {
				seen[sb.String()] = true
			}
			jcases = append(jcases, map[string]any{"Index": i, "Note": cs.Note, "Spec": map[string]any{"storage": cs.Flavour, "server": cs.Spec}, "Ops": cs.Ops, "Obs": cs.Obs})
			if i%40 == 0 && len(ctx.Meta.Samples) < 4 {
				var ops []string
				for j, o := range cs.Ops {
					if j < 8 {
						ops = append(ops, o.xcoq()+"  ==>  "+truncate(cs.Obs[j].coq(), 300))
					}
				}
				ctx.Meta.Samples = append(ctx.Meta.Samples, map[string]any{"note": cs.Note, "server": cs.Spec.coq(), "first_ops": ops})
			}
		}
		jb, _ := json.Marshal(jcases)
		_ = os.WriteFile(filepath.Join(ctx.Out, "cases.json"), jb, 0o644)
		ctx.Meta.Cases = len(cases)
		ctx.Meta.Distinct = len(seen)
		ctx.Meta.Rule = "CRUD histories on dynamic clients of the real provider, in six families (token guard catalogue: operation x token kind; rotation on/off; odd request members; capability fields against random server feature sets; scripted embedder hook between the two validations; random mixes; every (token, introspection, revocation) method combination; authorization detail types; 'lists': servers whose three method lists differ pairwise x every method of their union named per endpoint, on create and update; 'collide': the read-modify-write client - updates whose bodies carry the response's own members with the real current credentials, then with other values, each followed by a read, per authentication method, with and without rotation), both storage flavours; distinct by (operations, outcome) trace; non-trivial = at least one accepted and one refused operation"
	}})
}
