package main

// C20, the CONFIGURATION of a provider as shared memory (run inside the -race binary by c20Work; the driver and the
// naming of race reports are in suite_c20.go).
//
// provider.New builds ONE *oidc.Configuration; every request works on an oidc.Context VALUE that embeds that pointer,
// so each list (PrivateKeyJWTSigAlgs, Scopes, ACRs ...) and each optional function (HTTPClientFunc ...) of the
// configuration is memory shared by all requests.  Requests must only READ it (Model/AccessCfg.v,
// Props/C20.v config_never_written).  Two ways of writing it look local in the source:
//
//   - append(ctx.SomeList, x...) writes the backing array of the shared slice whenever that slice has spare capacity
//     (len < cap) - which depends on how pkg/provider/option.go built it and on how many values the embedder gave;
//   - ctx.SomeField = v in a method with a VALUE receiver assigns through the embedded *Configuration.
//
// Two phases make such writes meet the race detector:
//
//  WIDE CONFIGURATION.  One provider whose EVERY list-taking option of pkg/provider/option.go is given three or more
//  values (two where the library knows only two), so that whatever spare capacity the option helpers can leave is
//  there, with private_key_jwt (four algorithms) AND client_secret_jwt enabled, DCR, PAR, JAR (by value), JARM, DPoP,
//  CIBA (poll, ping, push), introspection, revocation, refresh, three policies.  It is driven (a) by bursts: 8
//  goroutines released at once, each sending three requests that carry a client assertion (private_key_jwt and
//  client_secret_jwt clients alternately: client_credentials, /par, /introspect, /revoke, /bc-authorize) or read the
//  lists (discovery) - every goroutine of a burst is fresh, so nothing orders their requests; and (b) by two levels
//  of the mixed flows of suite_c20work.go plus flows of its own (discovery + jwks, DCR create/read/delete with
//  metadata that names algorithms of every list, authorization with a request object and a JARM response, DPoP-bound
//  client_credentials).  Families and outcomes carry the suffix @wide.
//
//  BARE COLD START.  As the cold-start phase of suite_c20cold.go (fresh providers, 2..8 concurrent FIRST requests,
//  held / free / staggered), but the providers are created with NO optional function at all - in particular without
//  WithHTTPClientFunc, so that Context.HTTPClient falls back to http.DefaultClient - and what the library fetches is
//  served by REAL loopback listeners (net/http/httptest on 127.0.0.1): the jwks_uri of the static private_key_jwt
//  clients and the CIBA notification endpoint over http, the sector_identifier_uri of a dynamic registration over
//  https (DCR insists on https; the listener's certificate is added to the roots of http.DefaultTransport).  The
//  first uses of the HTTP client by concurrent first requests are: jwks_uri fetches (token, /par, /introspect), a
//  CIBA ping notification, a sector_identifier_uri fetch.  Families and outcomes carry the suffix @bare; the
//  goroutines run under c20ColdBareRequest (a main.c20Cold* frame, as in the other cold phase).

import (
	"context"
	"crypto/tls"
	"crypto/x509"
	"encoding/base64"
	"encoding/json"
	"fmt"
	mrand "math/rand"
	"net/http"
	"net/http/httptest"
	"net/url"
	"reflect"
	"sort"
	"strings"
	"sync"
	"sync/atomic"
	"time"
	"unsafe"

	"github.com/go-jose/go-jose/v4"
	"github.com/go-jose/go-jose/v4/jwt"
	"github.com/luikyv/go-oidc/internal/oidc"
	"github.com/luikyv/go-oidc/pkg/goidc"
	"github.com/luikyv/go-oidc/pkg/provider"
)

// c20SignHS: a client_secret_jwt assertion (HS256 keyed with the client's secret)
func c20SignHS(secret string, claims map[string]any) string {
	sg, err := jose.NewSigner(jose.SigningKey{Algorithm: jose.HS256, Key: []byte(secret)}, (&jose.SignerOptions{}).WithType("JWT"))
	if err != nil {
		return "sign-error"
	}
	s, err := jwt.Signed(sg).Claims(claims).Serialize()
	if err != nil {
		return "sign-error"
	}
	return s
}

// ------------------------------------------------------------------ the wide-configuration world

const c20WideScopes = "openid email offline_access profile address"

func newC20WideWorld() (*c20W, error) {
	w := &c20W{name: "W", rot: true, pool: map[string][]string{}, suffix: "@wide", profile: "openid", flows: c20WideFlows}
	w.ckey = genKey()
	pub := jose.JSONWebKey{Key: &w.ckey.PublicKey, KeyID: "ck1", Algorithm: "ES256", Use: "sig"}
	w.jwks, _ = json.Marshal(jose.JSONWebKeySet{Keys: []jose.JSONWebKey{pub}})
	srv := goidc.JSONWebKeySet{Keys: []goidc.JSONWebKey{{Key: genKey(), KeyID: "srv-es256", Algorithm: "ES256", Use: "sig"}}}
	grants := []goidc.GrantType{goidc.GrantAuthorizationCode, goidc.GrantRefreshToken, goidc.GrantClientCredentials, goidc.GrantCIBA}
	mk := func(id string, method goidc.ClientAuthnType, mode goidc.CIBATokenDeliveryMode, nURIs int, jwksURI bool) *goidc.Client {
		c := &goidc.Client{ID: id}
		c.TokenAuthnMethod = method
		c.GrantTypes = grants
		c.ResponseTypes = []goidc.ResponseType{goidc.ResponseTypeCode}
		c.RedirectURIs = c20URIs(nURIs)
		c.ScopeIDs = c20WideScopes
		c.CIBATokenDeliveryMode = mode
		if mode != goidc.CIBATokenDeliveryModePoll {
			c.CIBANotificationEndpoint = "https://" + id + ".example/notify"
		}
		switch method {
		case goidc.ClientAuthnSecretPost:
			c.HashedSecret = bcryptOf(c13Secret)
		case goidc.ClientAuthnSecretJWT:
			c.Secret = c13Secret // client_secret_jwt needs the secret itself (an HMAC key; >= 32 bytes for HS256)
		case goidc.ClientAuthnPrivateKeyJWT:
			// (no token_endpoint_auth_signing_alg: the provider's whole list is what go-jose is handed)
			if jwksURI {
				c.PublicJWKSURI = "https://" + id + ".example/jwks.json"
			} else {
				c.PublicJWKS = w.jwks
			}
		}
		return c
	}
	statics := []*goidc.Client{
		mk("wp1", goidc.ClientAuthnPrivateKeyJWT, goidc.CIBATokenDeliveryModePoll, 2, false),
		mk("wp2", goidc.ClientAuthnPrivateKeyJWT, goidc.CIBATokenDeliveryModePing, 1, true),
		mk("wp3", goidc.ClientAuthnPrivateKeyJWT, goidc.CIBATokenDeliveryModePush, 3, false),
		mk("ws1", goidc.ClientAuthnSecretJWT, goidc.CIBATokenDeliveryModePoll, 1, false),
		mk("ws2", goidc.ClientAuthnSecretJWT, goidc.CIBATokenDeliveryModePoll, 2, false),
		mk("wq1", goidc.ClientAuthnSecretPost, goidc.CIBATokenDeliveryModePoll, 1, false),
		mk("wn1", goidc.ClientAuthnNone, goidc.CIBATokenDeliveryModePoll, 2, false),
	}
	never := func(name string) goidc.AuthnPolicy {
		return goidc.NewPolicy(name, func(*http.Request, *goidc.Client, *goidc.AuthnSession) bool { return false },
			func(http.ResponseWriter, *http.Request, *goidc.AuthnSession) (goidc.AuthnStatus, error) {
				return goidc.StatusFailure, nil
			})
	}
	yes := func(*goidc.Client) bool { return true }
	opts := []provider.ProviderOption{
		// no With*Storage option: the provider's DEFAULT in-memory managers (internal/storage).
		// EVERY option of pkg/provider/option.go that takes a list, with three values or more where there are as many:
		provider.WithScopes(goidc.ScopeOpenID, goidc.NewScope("email"), goidc.ScopeOfflineAccess, goidc.NewScope("profile"), goidc.NewScope("address")),
		provider.WithClaims("email", "name", "given_name", "family_name"),
		provider.WithClaimTypes(goidc.ClaimTypeNormal, goidc.ClaimTypeAggregated, goidc.ClaimTypeDistributed),
		provider.WithUserInfoSignatureAlgs(goidc.ES256, goidc.PS256, goidc.RS256),
		provider.WithUserInfoEncryption(goidc.RSA_OAEP_256, goidc.RSA_OAEP, goidc.RSA1_5),
		provider.WithUserInfoContentEncryptionAlgs(goidc.A128CBC_HS256, goidc.A128GCM, goidc.A256GCM),
		provider.WithIDTokenSignatureAlgs(goidc.ES256, goidc.PS256, goidc.RS256),
		provider.WithIDTokenEncryption(goidc.RSA_OAEP_256, goidc.RSA_OAEP, goidc.RSA1_5),
		provider.WithIDTokenContentEncryptionAlgs(goidc.A128CBC_HS256, goidc.A128GCM, goidc.A256GCM),
		provider.WithCIBAGrant(
			func(_ context.Context, s *goidc.AuthnSession) error {
				s.SetUserID("user1")
				s.GrantScopes(s.Scopes)
				return nil
			},
			func(_ context.Context, s *goidc.AuthnSession) error { return nil },
			goidc.CIBATokenDeliveryModePoll, goidc.CIBATokenDeliveryModePing, goidc.CIBATokenDeliveryModePush),
		provider.WithCIBAJAR(goidc.ES256, goidc.PS256, goidc.RS256),
		provider.WithJAR(goidc.ES256, goidc.PS256, goidc.RS256),
		provider.WithJAREncryption(goidc.RSA_OAEP_256, goidc.RSA_OAEP, goidc.RSA1_5),
		provider.WithJARContentEncryptionAlgs(goidc.A128CBC_HS256, goidc.A128GCM, goidc.A256GCM),
		provider.WithJARM(goidc.ES256, goidc.PS256, goidc.RS256),
		provider.WithJARMEncryption(goidc.RSA_OAEP_256, goidc.RSA_OAEP, goidc.RSA1_5),
		provider.WithJARMContentEncryptionAlgs(goidc.A128CBC_HS256, goidc.A128GCM, goidc.A256GCM),
		// private_key_jwt with FOUR algorithms, and client_secret_jwt enabled by listing the method (its algorithm list
		// then defaults to HS256; WithSecretJWTSignatureAlgs itself refuses every algorithm)
		// ... handed over as the embedder's own slice WITH SPARE CAPACITY and with the first argument already in it:
		// appendIfNotIn keeps that very slice in the configuration, so any request-time append on it writes shared
		// memory (defect D25, fixed by 1e8540a: ClientAuthnSigAlgs appended the client_secret_jwt algorithms to it)
		provider.WithPrivateKeyJWTSignatureAlgs(goidc.ES256, c20SpareCapAlgs()...),
		provider.WithTokenAuthnMethods(goidc.ClientAuthnSecretPost, goidc.ClientAuthnPrivateKeyJWT, goidc.ClientAuthnSecretJWT, goidc.ClientAuthnNone, goidc.ClientAuthnSecretBasic),
		provider.WithTokenIntrospection(yes, goidc.ClientAuthnSecretPost, goidc.ClientAuthnPrivateKeyJWT, goidc.ClientAuthnSecretJWT, goidc.ClientAuthnNone),
		provider.WithTokenRevocation(yes, goidc.ClientAuthnSecretPost, goidc.ClientAuthnPrivateKeyJWT, goidc.ClientAuthnSecretJWT, goidc.ClientAuthnNone),
		provider.WithAuthorizationDetails(func(_, _ []goidc.AuthorizationDetail) error { return nil }, "payment", "account", "consent"),
		provider.WithDPoP(goidc.ES256, goidc.PS256, goidc.RS256),
		provider.WithPKCE(goidc.CodeChallengeMethodSHA256, goidc.CodeChallengeMethodPlain),
		provider.WithACRs(goidc.ACRNoAssuranceLevel, goidc.ACRMaceIncommonIAPSilver, goidc.ACRMaceIncommonIAPBronze),
		provider.WithDisplayValues(goidc.DisplayValuePage, goidc.DisplayValuePopUp, goidc.DisplayValueTouch, goidc.DisplayValueWAP),
		provider.WithResourceIndicators("https://rs1.example", "https://rs2.example", "https://rs3.example"),
		provider.WithSubIdentifierTypes(goidc.SubIdentifierPublic, goidc.SubIdentifierPairwise),
		// lists the provider appends to itself (grant types, response types, response modes, policies, static clients)
		provider.WithAuthorizationCodeGrant(), provider.WithClientCredentialsGrant(), provider.WithImplicitGrant(),
		provider.WithRefreshTokenGrant(func(*goidc.Client, goidc.GrantInfo) bool { return true }, 600),
		provider.WithRefreshTokenRotation(),
		provider.WithJWTBearerGrant(func(*http.Request, string) (goidc.JWTBearerGrantInfo, error) {
			return goidc.JWTBearerGrantInfo{}, goidc.NewError(goidc.ErrorCodeInvalidGrant, "not used")
		}),
		provider.WithPAR(60), provider.WithUnregisteredRedirectURIsForPAR(),
		provider.WithClaimsParameter(), provider.WithIssuerResponseParameter(),
		provider.WithDCR(nil, nil),
		provider.WithHTTPClientFunc(func(context.Context) *http.Client { return &http.Client{Transport: c20rt{w}} }),
		provider.WithTokenOptions(func(gi goidc.GrantInfo, c *goidc.Client) goidc.TokenOptions {
			return goidc.NewOpaqueTokenOptions(goidc.DefaultOpaqueTokenLength, 300)
		}),
		provider.WithPolicy(never("never-1")), provider.WithPolicy(never("never-2")), provider.WithPolicy(c20Policy()),
	}
	for _, c := range statics {
		opts = append(opts, provider.WithStaticClient(c))
	}
	p, err := provider.New(goidc.ProfileOpenID, issuer, func(context.Context) (goidc.JSONWebKeySet, error) { return srv, nil }, opts...)
	if err != nil {
		return nil, err
	}
	c20Decorate(&p)
	w.p = p
	w.h = p.Handler()
	for _, c := range statics {
		k := c20client{id: c.ID, static: true, uris: c.RedirectURIs, mode: string(c.CIBATokenDeliveryMode)}
		switch c.TokenAuthnMethod {
		case goidc.ClientAuthnSecretPost:
			k.auth, k.secret = "post", c13Secret
		case goidc.ClientAuthnSecretJWT:
			k.auth, k.secret = "sjwt", c13Secret
		case goidc.ClientAuthnPrivateKeyJWT:
			k.auth = "pkjwt"
		default:
			k.auth, k.mode = "none", ""
		}
		w.shared = append(w.shared, k)
	}
	return w, nil
}

// c20ConfigLists: every slice-typed member of the provider's *oidc.Configuration (read by reflection: a list added
// to the library shows up by itself) with its length and capacity
func c20ConfigLists(p *provider.Provider) map[string][2]int {
	f := reflect.ValueOf(p).Elem().FieldByName("config")
	cfg := *(**oidc.Configuration)(unsafe.Pointer(f.UnsafeAddr()))
	v := reflect.ValueOf(cfg).Elem()
	out := map[string][2]int{}
	for i := 0; i < v.NumField(); i++ {
		if fv := v.Field(i); fv.Kind() == reflect.Slice {
			out[v.Type().Field(i).Name] = [2]int{fv.Len(), fv.Cap()}
		}
	}
	return out
}

func c20WideConfigStats(w *c20W, dist map[string]int) {
	lists := c20ConfigLists(&w.p)
	var names []string
	for n := range lists {
		names = append(names, n)
	}
	sort.Strings(names)
	for _, n := range names {
		lc := lists[n]
		dist["wide/config-lists"]++
		if lc[0] >= 3 {
			dist["wide/config-lists-with-3+-values"]++
		}
		if lc[1] > lc[0] {
			dist["wide/config-lists-with-spare-capacity"]++
		}
		dist[fmt.Sprintf("wide/config-list/%s:len=%d:cap=%d", n, lc[0], lc[1])] = 1
	}
	dist["wide/private_key_jwt-algorithms"] = lists["PrivateKeyJWTSigAlgs"][0]
	dist["wide/client_secret_jwt-algorithms"] = lists["ClientSecretJWTSigAlgs"][0]
}

// ---- flows of the wide world (besides those of suite_c20work.go)

// discovery and the key set: handlers that read nearly every list of the configuration
func (g *c20G) flowWideDiscovery() {
	rec := g.call("discovery", "GET", "/.well-known/openid-configuration", "", "", nil)
	var m map[string]any
	_ = json.Unmarshal(rec.Body.Bytes(), &m)
	if l, _ := m["token_endpoint_auth_signing_alg_values_supported"].([]any); rec.Code == 200 && len(l) >= 4 {
		g.count("discovery:200")
	} else {
		g.count(fmt.Sprintf("discovery:unexpected-%d", rec.Code))
	}
	rec = g.call("jwks", "GET", "/jwks", "", "", nil)
	g.count(fmt.Sprintf("jwks:%d", rec.Code))
}

// dynamic registration with metadata that names a value of (nearly) every list: the validators of internal/dcr look
// each up in the configuration; then read, then (mostly) delete.  No update: the registered client is used by nobody.
func (g *c20G) flowWideDCR() {
	algs := []string{"ES256", "PS256", "RS256"}
	auth := pick(g.r, []string{"private_key_jwt", "client_secret_jwt", "client_secret_post", "none"})
	m := map[string]any{"redirect_uris": c20URIs(1 + g.r.Intn(4)), "response_types": []string{"code"}, "scope": c20WideScopes,
		"token_endpoint_auth_method": auth, "subject_type": "public",
		"id_token_signed_response_alg": pick(g.r, algs), "userinfo_signed_response_alg": pick(g.r, algs),
		"request_object_signing_alg": pick(g.r, algs), "authorization_signed_response_alg": pick(g.r, algs),
		"authorization_details_types": []string{"payment", "consent"}}
	grants := []string{"authorization_code", "refresh_token"}
	switch auth {
	case "private_key_jwt":
		m["token_endpoint_auth_signing_alg"] = pick(g.r, []string{"ES256", "PS256", "RS256", "ES384"})
		m["jwks"] = json.RawMessage(g.w.jwks)
	case "client_secret_jwt":
		m["token_endpoint_auth_signing_alg"] = "HS256"
	}
	if auth != "none" {
		grants = append(grants, "client_credentials", "urn:openid:params:grant-type:ciba")
		m["backchannel_token_delivery_mode"] = "poll"
		m["introspection_endpoint_auth_method"], m["revocation_endpoint_auth_method"] = auth, auth
	}
	m["grant_types"] = grants
	b, _ := json.Marshal(m)
	rec := g.call("dcr-create", "POST", "/register", string(b), "application/json", nil)
	var r map[string]any
	_ = json.Unmarshal(rec.Body.Bytes(), &r)
	id, tok := str(r, "client_id"), str(r, "registration_access_token")
	if id == "" {
		g.count("dcr-create:" + str(r, "error"))
		return
	}
	g.count("dcr-create:ok")
	h := map[string]string{"Authorization": "Bearer " + tok}
	rec = g.call("dcr-read", "GET", "/register/"+id, "", "", h)
	g.count(fmt.Sprintf("dcr-read:%d", rec.Code))
	if g.r.Intn(4) != 0 && !g.late() {
		rec = g.call("dcr-delete", "DELETE", "/register/"+id, "", "", h)
		g.count(fmt.Sprintf("dcr-delete:%d", rec.Code))
	}
}

// authorization with a signed request object (JAR by value: the algorithm is looked up in JARSigAlgs) and, half of the
// time, a JARM response (response_mode=jwt: ResponseModes, JARMSigAlgs), then the code
func (g *c20G) flowWideJAR() {
	c, ok := g.pickClient(func(c c20client) bool { return c.id == "wp1" || c.id == "wp3" })
	if !ok {
		return
	}
	redirect := c.uris[g.r.Intn(len(c.uris))]
	claims := map[string]any{"iss": c.id, "aud": issuer, "client_id": c.id, "response_type": "code", "scope": c20Scopes, "redirect_uri": redirect,
		"state": "n1", "nonce": "n", "code_challenge": thumb(c20Verifier), "code_challenge_method": "S256",
		"exp": time.Now().Unix() + 60, "iat": time.Now().Unix(), "nbf": time.Now().Unix() - 1, "jti": fmt.Sprint(g.r.Int63())}
	q := url.Values{"client_id": {c.id}, "response_type": {"code"}, "scope": {c20Scopes}}
	jarm := g.r.Intn(2) == 0
	if jarm {
		claims["response_mode"] = "jwt"
	}
	q.Set("request", c13Sign(g.w.ckey, "ck1", "oauth-authz-req+jwt", claims, nil))
	rec := g.call("authorize-jar", "GET", "/authorize?"+q.Encode(), "", "", nil)
	loc := rec.Header().Get("Location")
	code := locParam(loc, "code")
	if resp := locParam(loc, "response"); resp != "" {
		if parts := strings.Split(resp, "."); len(parts) == 3 {
			b, _ := base64.RawURLEncoding.DecodeString(parts[1])
			var m map[string]any
			_ = json.Unmarshal(b, &m)
			code = str(m, "code")
			if code != "" {
				g.count("authorize-jar:jarm-response")
			}
		}
	}
	if code == "" {
		if e := locParam(loc, "error"); e != "" {
			g.count("authorize-jar:redirected-" + e)
		} else {
			g.count(fmt.Sprintf("authorize-jar:refused-%d", rec.Code))
		}
		return
	}
	g.count("authorize-jar:code")
	g.redeem("code", c, code, redirect)
}

// client_credentials bound with a DPoP proof (DPoPSigAlgs)
func (g *c20G) flowWideDPoP() {
	c, ok := g.pickClient(func(c c20client) bool { return c.auth == "pkjwt" || c.auth == "sjwt" })
	if !ok {
		return
	}
	proof := c13Sign(g.w.ckey, "", "dpop+jwt", map[string]any{"htm": "POST", "htu": issuer + "/token", "iat": time.Now().Unix(), "jti": fmt.Sprint(g.r.Int63())},
		map[string]any{"jwk": jose.JSONWebKey{Key: &g.w.ckey.PublicKey}})
	v := g.authn(c, url.Values{"grant_type": {"client_credentials"}, "scope": {"email"}})
	rec := g.call("client_credentials-dpop", "POST", "/token", v.Encode(), "application/x-www-form-urlencoded", map[string]string{"DPoP": proof})
	var m map[string]any
	_ = json.Unmarshal(rec.Body.Bytes(), &m)
	if m == nil {
		m = map[string]any{}
	}
	if str(m, "token_type") == "DPoP" {
		g.count("client_credentials-dpop:ok")
	} else {
		g.outcome("client_credentials-dpop", m)
	}
}

var c20WideFlows = []c20Flow{
	{"authorize", 18, (*c20G).flowAuthorize},
	{"shared-artifacts", 5, (*c20G).flowShared},
	{"refresh", 8, (*c20G).flowRefresh},
	{"introspect", 10, (*c20G).flowIntrospect},
	{"userinfo", 8, (*c20G).flowUserinfo},
	{"revoke", 6, (*c20G).flowRevoke},
	{"ciba", 10, (*c20G).flowCIBA},
	{"client_credentials", 10, (*c20G).flowClientCredentials},
	{"discovery", 8, (*c20G).flowWideDiscovery},
	{"dcr", 5, (*c20G).flowWideDCR},
	{"jar-jarm", 8, (*c20G).flowWideJAR},
	{"dpop", 6, (*c20G).flowWideDPoP},
}

// c20WideRequest: one request of a burst against the wide-configuration provider.
// (Race reports whose stack goes through this function belong to the bursts of the wide phase.)
//
//go:noinline
func c20WideRequest(g *c20G, c c20client, kind int) {
	switch kind {
	case 0:
		m := g.form("burst-token", "/token", g.authn(c, url.Values{"grant_type": {"client_credentials"}, "scope": {"email"}}))
		g.outcome("burst-token", m)
	case 1:
		q := url.Values{"response_type": {"code"}, "scope": {c20Scopes}, "redirect_uri": {c.uris[0]}, "state": {"n1"}, "nonce": {"n"},
			"code_challenge": {thumb(c20Verifier)}, "code_challenge_method": {"S256"}}
		m := g.form("burst-par", "/par", g.authn(c, q))
		g.outcome("burst-par", m)
	case 2:
		m := g.form("burst-introspect", "/introspect", g.authn(c, url.Values{"token": {"no-such-token"}}))
		if _, ok := m["active"]; ok {
			g.count("burst-introspect:ok")
		} else {
			g.outcome("burst-introspect", m)
		}
	case 3:
		rec := g.call("burst-revoke", "POST", "/revoke", g.authn(c, url.Values{"token": {"no-such-token"}}).Encode(), "application/x-www-form-urlencoded", nil)
		g.count(fmt.Sprintf("burst-revoke:%d", rec.Code))
	case 4:
		v := url.Values{"scope": {"openid email"}, "login_hint": {"user1"}}
		if c.mode != "poll" {
			v.Set("client_notification_token", "cnt-0123456789")
		}
		m := g.form("burst-bc-authorize", "/bc-authorize", g.authn(c, v))
		g.outcome("burst-bc-authorize", m)
	default:
		g.flowWideDiscovery()
	}
}

// overlapping assertion-carrying requests of different goroutines among reqs (all of one world / one burst):
// how many requests with an assertion ran while another goroutine's request with an assertion was in flight, and how
// many of those met an assertion of the OTHER kind (private_key_jwt against client_secret_jwt)
func c20AssertionOverlap(reqs []*c20req) (together, mixed int) {
	var l []*c20req
	for _, r := range reqs {
		if r.asrt != 0 {
			l = append(l, r)
		}
	}
	sort.Slice(l, func(i, j int) bool { return l[i].t0 < l[j].t0 })
	tg, mx := map[*c20req]bool{}, map[*c20req]bool{}
	var active []*c20req
	for _, r := range l {
		k := 0
		for _, a := range active {
			if a.t1 >= r.t0 {
				active[k] = a
				k++
			}
		}
		active = active[:k]
		for _, a := range active {
			if a.g != r.g {
				tg[a], tg[r] = true, true
				if a.asrt != r.asrt {
					mx[a], mx[r] = true, true
				}
			}
		}
		active = append(active, r)
	}
	return len(tg), len(mx)
}

// c20WideBurst: `rounds` bursts of 8 fresh goroutines released at once, three requests each
func c20WideBurst(w *c20W, seed int64, rounds int, base time.Time) (logs []*c20glog, stats map[string]int) {
	stats = map[string]int{}
	r := mrand.New(mrand.NewSource(seed*6151 + 29))
	var asserting []c20client
	for _, c := range w.shared {
		if c.auth == "pkjwt" || c.auth == "sjwt" {
			asserting = append(asserting, c)
		}
	}
	for round := 0; round < rounds; round++ {
		const n = 8
		start := make(chan struct{})
		var wg sync.WaitGroup
		gs := make([]*c20G, n)
		off := r.Intn(len(asserting))
		for i := range gs {
			gs[i] = &c20G{w: w, r: mrand.New(mrand.NewSource(seed*100019 + int64(round*16+i))), log: &c20glog{g: 700000 + int(seed%1000)*4096 + round*16 + i, cnt: map[string]int{}}, base: base}
			kinds := []int{r.Intn(5), r.Intn(6), r.Intn(5)}
			wg.Add(1)
			go func(g *c20G, i int, kinds []int) {
				defer wg.Done()
				<-start
				for j, k := range kinds {
					// private_key_jwt and client_secret_jwt clients alternately, goroutine by goroutine
					c := asserting[(off+i+j*3)%len(asserting)]
					if k == 4 && c.mode == "" {
						k = 0
					}
					c20WideRequest(g, c, k)
				}
			}(gs[i], i, kinds)
		}
		close(start)
		wg.Wait()
		var reqs []*c20req
		for _, g := range gs {
			logs = append(logs, g.log)
			reqs = append(reqs, g.log.reqs...)
		}
		stats["wide/burst-rounds"]++
		tg, mx := c20AssertionOverlap(reqs)
		if tg >= 2 {
			stats["wide/burst-rounds-with-assertion-requests-in-flight-together"]++
		}
		if mx >= 2 {
			stats["wide/burst-rounds-with-private_key_jwt-and-client_secret_jwt-in-flight-together"]++
		}
	}
	return logs, stats
}

// what the wide provider must have served concurrently, and answered
var c20WideFamilies = []string{"burst-token", "burst-par", "burst-introspect", "burst-revoke", "burst-bc-authorize",
	"authorize", "callback", "par", "code", "refresh-rotation", "introspect", "userinfo", "revoke", "client_credentials", "client_credentials-dpop",
	"bc-authorize-poll", "ciba-poll", "discovery", "jwks", "dcr-create", "dcr-read", "authorize-jar"}
var c20WideOutcomes = []string{"burst-token:ok", "burst-par:ok", "burst-introspect:ok", "burst-revoke:200", "burst-bc-authorize:ok",
	"par:ok", "code:ok", "refresh-rotation:ok", "introspect:active", "userinfo:200", "revoke:200", "client_credentials:ok", "client_credentials-dpop:ok",
	"bc-authorize-poll:ok", "ciba-poll:ok", "discovery:200", "jwks:200", "dcr-create:ok", "dcr-read:200", "authorize-jar:code", "authorize-jar:jarm-response"}

// ------------------------------------------------------------------ bare cold start: no WithHTTPClientFunc, real loopback listeners

type c20BareRound struct {
	jwks    []byte // what the jwks_uri of this round's clients answers
	hold    bool
	want    int32
	arrived atomic.Int32
	all     chan struct{}
	fetches atomic.Int32 // jwks_uri fetches
	uses    atomic.Int32 // every request the library's HTTP client made (jwks_uri, notification, sector_identifier_uri)
}

type c20BareNet struct {
	plain, secure *httptest.Server
	cur           atomic.Pointer[c20BareRound] // the round in progress (published to the listeners' goroutines by the atomic store)
}

func (n *c20BareNet) ServeHTTP(rw http.ResponseWriter, r *http.Request) {
	rd := n.cur.Load()
	if rd != nil {
		rd.uses.Add(1)
	}
	switch {
	case strings.HasSuffix(r.URL.Path, "/jwks.json"):
		if rd != nil {
			rd.fetches.Add(1)
			if rd.hold {
				if rd.arrived.Add(1) == rd.want {
					close(rd.all)
				}
				select {
				case <-rd.all:
				case <-time.After(250 * time.Millisecond):
				}
			}
		}
		rw.Header().Set("Content-Type", "application/json")
		if rd != nil {
			_, _ = rw.Write(rd.jwks)
		}
	case strings.HasSuffix(r.URL.Path, "/sector.json"):
		rw.Header().Set("Content-Type", "application/json")
		b, _ := json.Marshal(c20URIs(8))
		_, _ = rw.Write(b)
	default: // the CIBA notification endpoint
		rw.WriteHeader(http.StatusNoContent)
	}
}

// newC20BareNet starts the two loopback listeners; http.DefaultTransport (what http.DefaultClient uses) is told to
// trust the certificate of the https one - before the library makes its first request
func newC20BareNet() *c20BareNet {
	n := &c20BareNet{}
	n.plain = httptest.NewServer(n)
	n.secure = httptest.NewTLSServer(n)
	pool := x509.NewCertPool()
	pool.AddCert(n.secure.Certificate())
	if tr, ok := http.DefaultTransport.(*http.Transport); ok {
		tr.TLSClientConfig = &tls.Config{RootCAs: pool}
	}
	return n
}

// one pair of listeners per process (the rounds are sequential; the listeners live as long as the workload)
var c20BareNetOnce *c20BareNet

// a fresh provider with NO optional function (no WithHTTPClientFunc, WithTokenOptions, WithCheckJTIFunc,
// WithHandleGrantFunc, WithNotifyErrorFunc, WithRenderErrorFunc; WithDCR(nil, nil)): every getter of oidc.Context
// that has a fallback takes it.  Static clients; DCR only to register (the registered clients never come back).
func (k *c20ColdKit) bareProvider(n *c20BareNet) (*c20W, error) {
	w := &c20W{name: "B", rot: false, pool: map[string][]string{}, suffix: "@bare", profile: "openid", ckey: k.w.ckey, jwks: k.w.jwks}
	mk := func(id string, method goidc.ClientAuthnType, jwksURI bool, mode goidc.CIBATokenDeliveryMode) *goidc.Client {
		c := &goidc.Client{ID: id}
		c.TokenAuthnMethod = method
		c.GrantTypes = []goidc.GrantType{goidc.GrantAuthorizationCode, goidc.GrantClientCredentials, goidc.GrantCIBA}
		c.ResponseTypes = []goidc.ResponseType{goidc.ResponseTypeCode}
		c.RedirectURIs = c20URIs(1)
		c.ScopeIDs = c20Scopes
		c.CIBATokenDeliveryMode = mode
		if mode != goidc.CIBATokenDeliveryModePoll {
			c.CIBANotificationEndpoint = n.plain.URL + "/" + id + "/notify"
		}
		switch {
		case method == goidc.ClientAuthnSecretPost:
			c.HashedSecret = k.hashed
		case jwksURI:
			c.TokenAuthnSigAlg = goidc.ES256
			c.PublicJWKSURI = n.plain.URL + "/" + id + "/jwks.json"
		default:
			c.TokenAuthnSigAlg = goidc.ES256
			c.PublicJWKS = k.w.jwks
		}
		return c
	}
	statics := []*goidc.Client{mk("bj1", goidc.ClientAuthnPrivateKeyJWT, true, goidc.CIBATokenDeliveryModePoll), mk("bj2", goidc.ClientAuthnPrivateKeyJWT, true, goidc.CIBATokenDeliveryModePoll),
		mk("bn1", goidc.ClientAuthnPrivateKeyJWT, false, goidc.CIBATokenDeliveryModePing), mk("bp1", goidc.ClientAuthnSecretPost, false, goidc.CIBATokenDeliveryModePoll)}
	opts := []provider.ProviderOption{
		provider.WithScopes(goidc.ScopeOpenID, goidc.NewScope("email"), goidc.ScopeOfflineAccess),
		provider.WithIDTokenSignatureAlgs(goidc.ES256),
		provider.WithAuthorizationCodeGrant(), provider.WithClientCredentialsGrant(),
		provider.WithCIBAGrant(
			func(_ context.Context, s *goidc.AuthnSession) error {
				s.SetUserID("user1")
				s.GrantScopes(s.Scopes)
				return nil
			},
			func(_ context.Context, s *goidc.AuthnSession) error { return nil },
			goidc.CIBATokenDeliveryModePoll, goidc.CIBATokenDeliveryModePing),
		provider.WithPAR(60), provider.WithPKCE(goidc.CodeChallengeMethodSHA256),
		provider.WithPrivateKeyJWTSignatureAlgs(goidc.ES256),
		provider.WithTokenAuthnMethods(goidc.ClientAuthnSecretPost, goidc.ClientAuthnPrivateKeyJWT, goidc.ClientAuthnNone),
		provider.WithTokenIntrospection(func(*goidc.Client) bool { return true }, goidc.ClientAuthnSecretPost, goidc.ClientAuthnPrivateKeyJWT),
		provider.WithDCR(nil, nil),
		provider.WithPolicy(c20Policy()),
	}
	for _, c := range statics {
		opts = append(opts, provider.WithStaticClient(c))
	}
	p, err := provider.New(goidc.ProfileOpenID, issuer, func(context.Context) (goidc.JSONWebKeySet, error) { return k.srv, nil }, opts...)
	if err != nil {
		return nil, err
	}
	c20Decorate(&p)
	w.p = p
	w.h = p.Handler()
	for _, c := range statics {
		cc := c20client{id: c.ID, static: true, uris: c.RedirectURIs, auth: "pkjwt", mode: string(c.CIBATokenDeliveryMode)}
		if c.TokenAuthnMethod == goidc.ClientAuthnSecretPost {
			cc.auth, cc.secret = "post", c13Secret
		}
		w.shared = append(w.shared, cc)
	}
	return w, nil
}

// c20ColdBareRequest: ONE first request against a bare provider that has served nothing yet (kinds 0..2 as
// c20ColdRequest: token, /par, /introspect of a jwks_uri client; 3: /bc-authorize of the ping client, then the
// notification; 4: a dynamic registration with a sector_identifier_uri).
//
//go:noinline
func c20ColdBareRequest(g *c20G, c c20client, kind int, delay time.Duration, sectorURI string) {
	switch kind {
	case 3:
		if delay > 0 {
			time.Sleep(delay)
		}
		m := g.form("cold-start-bc-authorize", "/bc-authorize", g.authn(c, url.Values{"scope": {"openid email"}, "login_hint": {"user1"}, "client_notification_token": {"cnt-0123456789"}}))
		g.outcome("cold-start-bc-authorize", m)
		if id := str(m, "auth_req_id"); id != "" {
			_ = g.api("cold-start-ciba-ping", func(ctx context.Context) error { return g.w.p.NotifyCIBASuccess(ctx, id) })
		}
	case 4:
		if delay > 0 {
			time.Sleep(delay)
		}
		b, _ := json.Marshal(map[string]any{"redirect_uris": c20URIs(2), "response_types": []string{"code"}, "scope": c20Scopes,
			"grant_types": []string{"authorization_code"}, "token_endpoint_auth_method": "none", "sector_identifier_uri": sectorURI})
		rec := g.call("cold-start-dcr-sector", "POST", "/register", string(b), "application/json", nil)
		var m map[string]any
		_ = json.Unmarshal(rec.Body.Bytes(), &m)
		if str(m, "client_id") != "" {
			g.count("cold-start-dcr-sector:ok")
		} else {
			g.count("cold-start-dcr-sector:" + str(m, "error"))
		}
	default:
		c20ColdRequest(g, c, kind, delay)
	}
}

// c20ColdBareStart runs `rounds` fresh bare providers; returns the logs of its goroutines
func c20ColdBareStart(seed int64, rounds int, base time.Time) (logs []*c20glog, stats map[string]int) {
	kit := newC20ColdKit()
	if c20BareNetOnce == nil {
		c20BareNetOnce = newC20BareNet()
	}
	net := c20BareNetOnce
	stats = map[string]int{}
	r := mrand.New(mrand.NewSource(seed*7927 + 31))
	for round := 0; round < rounds; round++ {
		n := 2 + r.Intn(7) // 2..8 concurrent first requests
		mode := round % 3  // 0 held at the jwks endpoint, 1 free, 2 staggered
		rd := &c20BareRound{jwks: kit.w.jwks, hold: mode == 0, all: make(chan struct{})}
		w, err := kit.bareProvider(net)
		if err != nil {
			panic(err)
		}
		type ask struct {
			c     c20client
			kind  int
			delay time.Duration
		}
		asks := make([]ask, n)
		uriAsks := int32(0)
		for i := range asks {
			a := ask{c: w.shared[r.Intn(2)], kind: r.Intn(3)} // a jwks_uri client: token, /par, /introspect
			switch k := r.Intn(10); {
			case i < 2: // the first two always need the HTTP client at once, through jwks_uri
			case k >= 9:
				a = ask{c: w.shared[3], kind: 4} // dynamic registration with sector_identifier_uri
			case k >= 7:
				a = ask{c: w.shared[2], kind: 3} // CIBA ping: bc-authorize, then the notification
			}
			if mode == 2 && i >= (n+1)/2 {
				a.delay = time.Duration(1+r.Intn(4)) * time.Millisecond
			}
			if a.kind <= 2 {
				uriAsks++
			}
			asks[i] = a
		}
		rd.want = uriAsks
		net.cur.Store(rd)
		var wg sync.WaitGroup
		gs := make([]*c20G, n)
		for i := range gs {
			gs[i] = &c20G{w: w, r: mrand.New(mrand.NewSource(seed*100043 + int64(round*16+i))), log: &c20glog{g: 800000 + int(seed%1000)*4096 + round*16 + i, cnt: map[string]int{}}, base: base}
			wg.Add(1)
			go func(g *c20G, a ask) {
				defer wg.Done()
				c20ColdBareRequest(g, a.c, a.kind, a.delay, net.secure.URL+"/sector.json")
			}(gs[i], asks[i])
		}
		wg.Wait()
		net.cur.Store(nil)
		for _, g := range gs {
			logs = append(logs, g.log)
		}
		stats["cold-bare/rounds"]++
		stats[fmt.Sprintf("cold-bare/mode=%s", []string{"held-at-jwks_uri", "free", "staggered"}[mode])]++
		stats[fmt.Sprintf("cold-bare/concurrent-first-requests=%d", n)]++
		if rd.uses.Load() >= 2 {
			stats["cold-bare/rounds-with-2+-first-uses-of-the-default-http-client"]++
		}
		if mode == 0 && uriAsks >= 2 && rd.arrived.Load() == uriAsks {
			stats["cold-bare/rounds-with-all-first-fetches-in-flight-together"]++
		}
	}
	return logs, stats
}

var c20BareFamilies = []string{"cold-start-token", "cold-start-par", "cold-start-introspect", "cold-start-bc-authorize", "cold-start-ciba-ping", "cold-start-dcr-sector"}

// ------------------------------------------------------------------ coverage of the two phases (part of c20Gaps)

func c20CfgGaps(dist map[string]int) (gaps []string) {
	for _, f := range c20WideFamilies {
		if dist["handler-concurrent/"+f+"@wide"] == 0 {
			gaps = append(gaps, "handler:"+f+"@wide")
		}
	}
	for _, o := range c20WideOutcomes {
		i := strings.Index(o, ":")
		if dist["outcome/"+o[:i]+"@wide"+o[i:]] == 0 {
			gaps = append(gaps, "outcome:"+o[:i]+"@wide"+o[i:])
		}
	}
	// the configuration the phase is about: three or more private_key_jwt algorithms, client_secret_jwt enabled
	if dist["wide/private_key_jwt-algorithms"] < 3 || dist["wide/client_secret_jwt-algorithms"] < 1 || dist["wide/config-lists-with-3+-values"] < 20 {
		gaps = append(gaps, "wide-config:lists-of-3+-values")
	}
	for _, k := range []string{"wide/burst-rounds-with-assertion-requests-in-flight-together", "wide/burst-rounds-with-private_key_jwt-and-client_secret_jwt-in-flight-together"} {
		if dist[k] < 3 {
			gaps = append(gaps, "wide-config:"+strings.TrimPrefix(k, "wide/"))
		}
	}
	if dist["wide/assertion-requests-in-flight-together"] < 20 {
		gaps = append(gaps, "wide-config:assertion-requests-in-flight-together")
	}
	for _, f := range c20BareFamilies {
		if dist["handler-concurrent/"+f+"@bare"] == 0 {
			gaps = append(gaps, "handler:"+f+"@bare")
		}
		o := f + "@bare:ok"
		if dist["outcome/"+o] == 0 {
			gaps = append(gaps, "outcome:"+o)
		}
	}
	for _, k := range []string{"cold-bare/rounds-with-2+-first-uses-of-the-default-http-client", "cold-bare/rounds-with-all-first-fetches-in-flight-together"} {
		if dist[k] < 3 {
			gaps = append(gaps, "cold-bare:"+strings.TrimPrefix(k, "cold-bare/"))
		}
	}
	return gaps
}

// c20SpareCapAlgs: four algorithms in a slice whose capacity exceeds its length
func c20SpareCapAlgs() []goidc.SignatureAlgorithm {
	algs := make([]goidc.SignatureAlgorithm, 0, 16)
	return append(algs, goidc.ES256, goidc.PS256, goidc.RS256, goidc.ES384)
}
