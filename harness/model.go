package main

// Go mirrors of the Coq model's input and observation types, each with a printer that writes
// the corresponding Gallina term.

import (
	"fmt"
	"strings"
)

type Handle uint64

const unknownBase Handle = 1 << 40

// kinds, as in Types.v
const (
	KAtOpaque = 1
	KAtJwt    = 2
	KRefresh  = 3
	KCode     = 4
	KCallback = 5
	KParUri   = 6
	KAuthReq  = 7
	KGrantId  = 8
	KSessId   = 9
	KClientId = 10
	KSecret   = 11
	KRegToken = 12
	KJti      = 13
)

func mint(n int, k int) Handle { return Handle((n+1)*32 + k) }

func cN(h Handle) string { return fmt.Sprintf("%d", uint64(h)) }
func cZ(z int) string {
	if z < 0 {
		return fmt.Sprintf("(%d)%%Z", z)
	}
	return fmt.Sprintf("%d%%Z", z)
}
func cB(b bool) string {
	if b {
		return "true"
	}
	return "false"
}
func cS(s string) string {
	for _, r := range s {
		if r < 32 || r > 126 {
			panic("non-printable string for Coq: " + fmt.Sprintf("%q", s))
		}
	}
	return "\"" + strings.ReplaceAll(s, "\"", "\"\"") + "\""
}
func cList[T any](l []T, f func(T) string) string {
	parts := make([]string, len(l))
	for i, x := range l {
		parts[i] = f(x)
	}
	return "[" + strings.Join(parts, "; ") + "]"
}

// ---- scopes ----
type Scope struct {
	ID     string
	Prefix string // "" : exact scope
	Dyn    bool
}

func (s Scope) coq() string {
	if s.Dyn {
		return fmt.Sprintf("ScPrefix %s %s", cS(s.ID), cS(s.Prefix))
	}
	return "ScExact " + cS(s.ID)
}

// ---- PKCE terms ----
type PK struct {
	Kind  int // 0 empty, 1 raw, 2 hash
	N     int
	LenOK bool
	Inner *PK
}

func (p PK) coq() string {
	switch p.Kind {
	case 1:
		return fmt.Sprintf("(PkRaw %d %s)", p.N, cB(p.LenOK))
	case 2:
		return "(PkHash " + p.Inner.coq() + ")"
	}
	return "PkEmpty"
}

// ---- clients ----
type ClientSpec struct {
	ID        int
	Public    bool
	Grants    []string
	RespTypes []string
	Redirects []string
	Scopes    string
	CibaMode  string // "", poll, ping, push
	ParReq    bool
	JarReq    bool
	JWT       bool
	Pairwise  bool // the EFFECTIVE subject type (ctx.shouldGeneratePairwiseSub), which is what the model's c_pairwise is
	// how the registration says it (not part of the model case): subject_type absent - the provider's
	// default subject type decides - or "public" spelled out; otherwise "pairwise" is spelled out iff Pairwise
	SubTypeAbsent bool `json:",omitempty"`
	SubTypePublic bool `json:",omitempty"`
	DpopReq   bool
	TLSReq    bool
	JarmAlg   bool
	UserCode  bool
	// not in the model (suite c18, Go side only): the client authenticates with private_key_jwt
	// (Authn) and publishes its keys at jwks_uri (JwksURI) instead of inline
	Authn   string `json:",omitempty"`
	JwksURI bool   `json:",omitempty"`
	// authorization_data_types (RFC 9396): registered iff DetailTypesSet (then possibly empty); otherwise nil = any type
	DetailTypesSet bool     `json:",omitempty"`
	DetailTypes    []string `json:",omitempty"`
}

var grantCoq = map[string]string{
	"client_credentials": "GClientCredentials", "authorization_code": "GAuthorizationCode",
	"refresh_token": "GRefreshToken", "implicit": "GImplicit",
	"urn:ietf:params:oauth:grant-type:jwt-bearer": "GJwtBearer", "urn:openid:params:grant-type:ciba": "GCiba",
}

func notifEP(id int) Handle { return unknownBase + 9000 + Handle(id) }

func (c ClientSpec) coq() string {
	mode := map[string]string{"": "CibaNone", "poll": "CibaPoll", "ping": "CibaPing", "push": "CibaPush"}[c.CibaMode]
	ep := Handle(0)
	if c.CibaMode == "ping" || c.CibaMode == "push" {
		ep = notifEP(c.ID)
	}
	dt := "None"
	if c.DetailTypesSet {
		dt = "(Some " + cList(c.DetailTypes, cS) + ")"
	}
	return fmt.Sprintf("(mkClient %d %s %s %s %s %s %s %s %s %s %s %s %s %s %s %s %s)",
		c.ID, cB(c.Public), cList(c.Grants, func(g string) string { return grantCoq[g] }),
		cList(c.RespTypes, cS), cList(c.Redirects, cS), cS(c.Scopes), mode, cB(c.ParReq), cB(c.JarReq),
		cB(c.JWT), cB(c.Pairwise), cB(c.DpopReq), cB(c.TLSReq), cB(c.JarmAlg), cN(ep), cB(c.UserCode), dt)
}

// ---- options ----
type Opt struct {
	Name    string
	Z       int
	S       string
	L       []string
	Scopes  []Scope
	Cmp     string `json:",omitempty"` // WithAuthorizationDetails: which CompareAuthDetailsFunc the world installs (Types.v details_cmp)
}

func (o Opt) coq() string {
	switch o.Name {
	case "WithRefreshTokenGrant":
		if o.S != "" { // which ShouldIssueRefreshTokenFunc the world installs (world.go issuePolicy)
			return fmt.Sprintf("WithRefreshTokenGrantPol %s %s", o.S, cZ(o.Z))
		}
		return fmt.Sprintf("%s %s", o.Name, cZ(o.Z))
	case "WithCIBALifetime", "WithPAR", "WithPARRequired",
		"WithAuthenticationSessionTimeout", "WithTokenLifetime":
		return fmt.Sprintf("%s %s", o.Name, cZ(o.Z))
	case "WithScopes":
		return "WithScopes " + cList(o.Scopes, Scope.coq)
	case "WithPKCE", "WithPKCERequired":
		return fmt.Sprintf("%s %s %s", o.Name, cS(o.S), cList(o.L, cS))
	case "WithPathPrefix":
		return "WithPathPrefix " + cS(o.S)
	case "WithResourceIndicators", "WithResourceIndicatorsRequired":
		// S: the mandatory first resource, L: the others
		return fmt.Sprintf("%s %s %s", o.Name, cS(o.S), cList(o.L, cS))
	case "WithAuthorizationDetails":
		// Cmp: the compare function, S: the mandatory first type, L: the others
		return fmt.Sprintf("WithAuthorizationDetails %s %s %s", authdCmpName(o.Cmp), cS(o.S), cList(o.L, cS))
	}
	return o.Name
}

// ---- request parts ----
type Cred struct {
	ID int
	OK bool
	// not in the model (suite c18): the credential is the key the client published BEFORE its last
	// key rotation (a withdrawn key); only meaningful for clients with ClientSpec.Authn set
	Old bool `json:",omitempty"`
}

func (c Cred) coq() string { return fmt.Sprintf("(mkCred %d %s)", c.ID, cB(c.OK)) }

type Params struct {
	RequestURI Handle
	Redirect   string
	RespMode   string
	RespType   string
	Scopes     string
	State      string
	Nonce      string
	Challenge  PK
	Method     string
	DpopJkt    Handle
	LoginHint  string
	NotifToken Handle
	UserCode   string
	Resources  []string `json:",omitempty"` // `resource` parameters (RFC 8707)
	// `authorization_details` (RFC 9396): sent iff non-empty or AuthDetailsEmpty (then as `[]`)
	AuthDetails      []Detail `json:",omitempty"`
	AuthDetailsEmpty bool     `json:",omitempty"`
}

func (p Params) coq() string {
	return fmt.Sprintf("(mkParams %s %s %s %s %s %s %s %s %s %s %s %s %s %s %s)", cN(p.RequestURI), cS(p.Redirect), cS(p.RespMode),
		cS(p.RespType), cS(p.Scopes), cS(p.State), cS(p.Nonce), p.Challenge.coq(), cS(p.Method), cN(p.DpopJkt),
		cS(p.LoginHint), cN(p.NotifToken), cS(p.UserCode), cList(p.Resources, cS), optDetailsCoq(p.AuthDetails, p.AuthDetailsEmpty))
}

// DPoP proof as the model sees it
type Proof struct {
	Parses  bool
	TypOK   bool
	Jwk     int // 0 absent, 1 private, 2 public
	JwkKey  Handle
	Signer  Handle
	HasIat  bool
	IatAge  int
	Jti     bool
	HtmOK   bool
	Htu     string // constructor name
	Ath     Handle
}

func (p Proof) coq() string {
	jwk := "JwkAbsent"
	if p.Jwk == 1 {
		jwk = "(JwkPrivate " + cN(p.JwkKey) + ")"
	} else if p.Jwk == 2 {
		jwk = "(JwkPublic " + cN(p.JwkKey) + ")"
	}
	iat := "None"
	if p.HasIat {
		iat = "(Some " + cZ(p.IatAge) + ")"
	}
	return fmt.Sprintf("(mkProof %s %s %s %s %s %s %s %s %s)", cB(p.Parses), cB(p.TypOK), jwk, cN(p.Signer), iat,
		cB(p.Jti), cB(p.HtmOK), p.Htu, cN(p.Ath))
}

type Bind struct {
	Dpop *Proof
	Cert Handle
	// Twice: the DPoP header is sent two times (RFC 9449: not more than one); dpop.JWT then reports
	// "no usable header", which is what the model's b_dpop = None stands for
	Twice bool `json:",omitempty"`
}

func (b Bind) coq() string {
	d := "None"
	if b.Dpop != nil && !b.Twice {
		d = "(Some " + b.Dpop.coq() + ")"
	}
	return fmt.Sprintf("(mkBind %s %s)", d, cN(b.Cert))
}

type PTok struct {
	Kind  string // PEmpty, PExact, PJti, PForged
	H     Handle
	Forge string
}

func (p PTok) coq() string {
	switch p.Kind {
	case "PExact", "PJti":
		return fmt.Sprintf("(%s %s)", p.Kind, cN(p.H))
	case "PForged":
		return fmt.Sprintf("(PForged %s %s)", cN(p.H), p.Forge)
	}
	return "PEmpty"
}

type Pol struct {
	Kind    string // PolSuccess, PolInProgress, PolFail, PolFailWith
	Sub     string
	Granted string
	Err     string
	Resources []string `json:",omitempty"` // what the policy passes to GrantResources
	Details   []Detail `json:",omitempty"` // what the policy passes to GrantAuthorizationDetails
}

func (p Pol) coq() string {
	switch p.Kind {
	case "PolSuccess":
		return fmt.Sprintf("(PolSuccess %s %s %s %s)", cS(p.Sub), cS(p.Granted), cList(p.Resources, cS), cList(p.Details, Detail.coq))
	case "PolFailWith":
		return "(PolFailWith " + p.Err + ")"
	}
	return p.Kind
}

// ---- operations ----
type Op struct {
	Kind string // Authorize, Callback, Par, Token, Introspect, Revoke, UserInfo, TokenInfo, TokenInfoReq, BcAuthorize, NotifyOk, NotifyFail, Tick
	// common
	Cred   Cred
	Bind   Bind
	Params Params
	// authorize / callback
	Client      int
	PolicyAvail bool
	Pol         Pol
	Cb          Handle
	Post        bool // POST instead of GET (not modelled: must not matter)
	// token
	Grant    string
	Scope    string
	Code     Handle
	Redirect string
	Refresh  Handle
	Verifier PK
	AuthReq  Handle
	HG       string // HgOk, HgDeny, HgFail
	BA       string // BaApprove ...
	Resources []string `json:",omitempty"` // `resource` parameters of a token request
	// jwt-bearer: the `assertion` parameter as sent.  "" = absent (AsNone); "ok:<sub>" = the scripted
	// HandleJWTBearerGrantAssertionFunc answers subject <sub> (AsOk); anything else = it refuses (AsBad)
	Assertion string `json:",omitempty"`
	// `authorization_details` of a token request: sent iff non-empty or AuthDetailsEmpty (then as `[]`)
	AuthDetails      []Detail `json:",omitempty"`
	AuthDetailsEmpty bool     `json:",omitempty"`
	// query
	Tok       PTok
	Allowed   bool
	HasHeader bool
	Hint      string // token_type_hint sent with introspect / revoke (not modelled: must not matter)
	// ciba
	InitOK  bool
	Sub     string
	Granted string
	GrantedRes []string `json:",omitempty"` // resources the InitBackAuthFunc grants
	GrantedDetails []Detail `json:",omitempty"` // authorization details the InitBackAuthFunc grants
	// tick
	D int
}

func (o Op) coq() string {
	switch o.Kind {
	case "Authorize":
		return fmt.Sprintf("OpAuthorize (mkAReq %d %s %s %s)", o.Client, o.Params.coq(), cB(o.PolicyAvail), o.Pol.coq())
	case "Callback":
		return fmt.Sprintf("OpCallback (mkCbReq %s %s)", cN(o.Cb), o.Pol.coq())
	case "Par":
		return fmt.Sprintf("OpPar (mkPReq %s %s %s)", o.Cred.coq(), o.Params.coq(), o.Bind.coq())
	case "Token":
		return fmt.Sprintf("OpToken %s (mkTReq %s %s %s %s %s %s %s %s %s %s %s %s %s)", grantCoq[o.Grant], o.Cred.coq(), o.Bind.coq(),
			cS(o.Scope), cN(o.Code), cS(o.Redirect), cN(o.Refresh), o.Verifier.coq(), cN(o.AuthReq), o.HG, o.BA, cList(o.Resources, cS),
			assertionCoq(o.Assertion), optDetailsCoq(o.AuthDetails, o.AuthDetailsEmpty))
	case "Introspect":
		return fmt.Sprintf("OpIntrospect (mkQReq %s %s %s)", o.Cred.coq(), o.Tok.coq(), cB(o.Allowed))
	case "Revoke":
		return fmt.Sprintf("OpRevoke (mkQReq %s %s %s)", o.Cred.coq(), o.Tok.coq(), cB(o.Allowed))
	case "UserInfo":
		return fmt.Sprintf("OpUserInfo (mkUReq %s %s %s)", o.Tok.coq(), cB(o.HasHeader), o.Bind.coq())
	case "TokenInfo":
		return "OpTokenInfo " + o.Tok.coq()
	case "TokenInfoReq":
		return fmt.Sprintf("OpTokenInfoReq (mkUReq %s %s %s)", o.Tok.coq(), cB(o.HasHeader), o.Bind.coq())
	case "BcAuthorize":
		return fmt.Sprintf("OpBcAuthorize (mkBReq %s %s %s %s %s %s %s %s)", o.Cred.coq(), o.Params.coq(), o.Bind.coq(), cB(o.InitOK), cS(o.Sub), cS(o.Granted), cList(o.GrantedRes, cS), cList(o.GrantedDetails, Detail.coq))
	case "NotifyOk":
		return fmt.Sprintf("OpNotifyOk %s %s", cN(o.AuthReq), o.HG)
	case "NotifyFail":
		return "OpNotifyFail " + cN(o.AuthReq)
	case "Tick":
		return "OpTick " + cZ(o.D)
	}
	panic("op kind " + o.Kind)
}

// the model's view of an `assertion` parameter (Token.v assertion)
func assertionCoq(a string) string {
	switch {
	case a == "":
		return "AsNone"
	case strings.HasPrefix(a, "ok:"):
		return "(AsOk " + cS(strings.TrimPrefix(a, "ok:")) + ")"
	}
	return "AsBad"
}

// ---- observations ----
type Notif struct {
	EP, Bearer, AuthReq, At, Rt Handle
	Err                        bool
	// authorization_details of a pushed token response, already as a Gallina list ("" = []); a string keeps Notif comparable
	DetailsCoq string `json:",omitempty"`
}

func (n Notif) coq() string {
	return fmt.Sprintf("(mkNotif %s %s %s %s %s %s %s)", cN(n.EP), cN(n.Bearer), cN(n.AuthReq), cN(n.At), cN(n.Rt), cB(n.Err), n.detailsCoq())
}

type Obs struct {
	Kind string // Err, Tokens, Par, Ciba, Intro, Ok, UserInfo, Nav, Page, Panic, Notified
	Err  string // ecode constructor
	// tokens
	At, Rt  Handle
	Idt     bool
	Scope   string
	Dpop    bool
	Res     []string `json:",omitempty"` // tokens: the `resources` member of the response
	Aud     []string `json:",omitempty"` // tokens: aud claim of a JWT access token; intro: aud
	Details    []Detail `json:",omitempty"` // tokens: the authorization_details member of the response; intro: authorization_details
	JwtDetails []Detail `json:",omitempty"` // tokens: the authorization_details claim of a JWT access token
	// par / ciba / page
	H        Handle
	Interval bool
	// intro
	Active, Refresh bool
	Client          int
	Sub             string
	Exp             int
	Jkt, X5t        Handle
	// nav
	Mode, Target string
	NCode, NAt   Handle
	NIdt         bool
	NState       string
	NErr         string // "" none
	NDpop        bool
	// notified
	OK     bool
	Notifs []Notif
	// raw, for reports
	Status int
	Raw    string
}

func (o Obs) coq() string {
	switch o.Kind {
	case "Err":
		return "Out (OErr " + o.Err + ")"
	case "Tokens":
		return fmt.Sprintf("Out (OTokens (mkTResp %s %s %s %s %s %s %s %s %s %s %s))", cN(o.At), cN(o.Rt), cB(o.Idt), cS(o.Scope), cB(o.Dpop), cN(o.Jkt), cN(o.X5t), cList(o.Res, cS), cList(o.Aud, cS),
			cList(o.Details, Detail.coq), cList(o.JwtDetails, Detail.coq))
	case "Par":
		return "Out (OPar " + cN(o.H) + ")"
	case "Ciba":
		return fmt.Sprintf("Out (OCiba %s %s)", cN(o.H), cB(o.Interval))
	case "Intro":
		if !o.Active {
			return "Out (OIntro inactive)"
		}
		return fmt.Sprintf("Out (OIntro (mkIntro true %s %s %d %s %s %s %s 0 %s %s))", cB(o.Refresh), cS(o.Scope), o.Client, cS(o.Sub), cZ(o.Exp), cN(o.Jkt), cN(o.X5t), cList(o.Aud, cS), cList(o.Details, Detail.coq))
	case "Ok":
		return "Out OOk"
	case "UserInfo":
		return "Out (OUserInfo " + cS(o.Sub) + ")"
	case "Nav":
		e := "None"
		if o.NErr != "" {
			e = "(Some " + o.NErr + ")"
		}
		return fmt.Sprintf("Out (ONav %s %s (mkNav %s %s %s %s %s %s))", cS(o.Mode), cS(o.Target), cN(o.NCode), cN(o.NAt), cB(o.NIdt), cS(o.NState), e, cB(o.NDpop))
	case "Page":
		return "Out (OPage " + cN(o.H) + ")"
	case "Panic":
		return "Out OPanic"
	case "Notified":
		return fmt.Sprintf("Notified %s %s", cB(o.OK), cList(o.Notifs, Notif.coq))
	}
	panic("obs kind " + o.Kind)
}

var ecodeCoq = map[string]string{
	"access_denied": "EAccessDenied", "invalid_client": "EInvalidClient", "invalid_grant": "EInvalidGrant",
	"invalid_request": "EInvalidRequest", "unauthorized_client": "EUnauthorizedClient", "invalid_scope": "EInvalidScope",
	"invalid_authorization_details": "EInvalidAuthDetails", "unsupported_grant_type": "EUnsupportedGrantType",
	"invalid_request_object": "EInvalidRequestObject", "invalid_token": "EInvalidToken", "internal_error": "EInternalError",
	"invalid_target": "EInvalidTarget", "authorization_pending": "EAuthPending", "slow_down": "ESlowDown",
	"expired_token": "EExpiredToken", "invalid_client_metadata": "EInvalidClientMetadata",
	"request_uri_not_supported": "ERequestURINotSupported", "invalid_redirect_uri": "EInvalidRedirectURI",
	"login_required": "ELoginRequired",
}

func ecode(s string) string {
	if c, ok := ecodeCoq[s]; ok {
		return c
	}
	return "EOther"
}

// ---- a whole case ----
type Case struct {
	Profile string
	Opts    []Opt
	Static  []ClientSpec
	Dyn     []ClientSpec
	Ops     []Op
	Obs     []Obs
	Note    string
}

func (c Case) coq() string {
	prof := map[string]string{"openid": "POpenID", "fapi1": "PFapi1", "fapi2": "PFapi2"}[c.Profile]
	var b strings.Builder
	fmt.Fprintf(&b, "(mkCase %s\n  %s\n  %s\n  %s\n  [", prof, cList(c.Opts, Opt.coq), cList(c.Static, ClientSpec.coq), cList(c.Dyn, ClientSpec.coq))
	for i, o := range c.Ops {
		if i > 0 {
			b.WriteString(";\n   ")
		}
		b.WriteString(o.coq())
	}
	b.WriteString("]\n  [")
	for i, o := range c.Obs {
		if i > 0 {
			b.WriteString(";\n   ")
		}
		b.WriteString(o.coq())
	}
	b.WriteString("])")
	return b.String()
}

// ---- RFC 9396 authorization details ----
// An authorization detail as the model sees it (Types.v adetail): its type and an opaque payload id.
// Concretely the JSON object {"type": Type, "identifier": "p<ID>", "actions": ["read"]}.
type Detail struct {
	Type string
	ID   int
}

func (d Detail) coq() string { return fmt.Sprintf("(mkDetail %s %d)", cS(d.Type), d.ID) }

// an opt_details term: None = parameter absent, Some [] = `[]` sent
func optDetailsCoq(l []Detail, empty bool) string {
	if len(l) == 0 && !empty {
		return "None"
	}
	return "(Some " + cList(l, Detail.coq) + ")"
}

func authdCmpName(k string) string {
	switch k {
	case "", "CmpSubset":
		return "CmpSubset"
	case "CmpNone", "CmpAcceptAll", "CmpTypes":
		return k
	}
	panic("unknown compare function " + k)
}

func (n Notif) detailsCoq() string {
	if n.DetailsCoq == "" {
		return "[]"
	}
	return n.DetailsCoq
}
