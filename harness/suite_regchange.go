package main

// Registration changes in the middle of a flow (suites c02reg, c04reg).  The properties speak about "a
// redirect URI ... registered for the requesting client" and "a grant type ... served only to a client
// registered for it": registered NOW, not when an earlier request of the flow was served.  A history runs
// in two phases; between them the embedder changes client registrations - a static client list replaced
// (the provider re-created, stores kept) or a stored client rewritten through the client manager, as
// dynamic registration management does - and artifacts of phase 1 (request_uris, codes, refresh tokens,
// callback ids) are used in phase 2.  The model runs the two phases under the two worlds (Corr/Phased.v).

import (
	"context"
	"fmt"
	"os"
	"path/filepath"
	"strings"
)

// Reconfigure replaces the client registrations of the world: static clients (the provider is re-created,
// the three stores stay) and stored clients (saved through the client manager).
func (w *World) Reconfigure(static, dyn []ClientSpec) {
	w.Spec.Static, w.Spec.Dyn = static, dyn
	for _, cs := range static {
		w.clients[cs.ID] = cs.build()
	}
	for _, cs := range dyn {
		c := cs.build()
		w.clients[cs.ID] = c
		if err := w.Stores.C.Save(observerCtx(), c); err != nil {
			panic(err)
		}
	}
	p, err := w.newProvider()
	if err != nil {
		panic(err)
	}
	w.prov = p
}

type phasedCase struct {
	C1, C2 Case
}

func writePhasedCases(ctx *RunCtx, cases []phasedCase, monitor string) {
	var b strings.Builder
	b.WriteString(caseHeader)
	b.WriteString("From Verif.Corr Require Import Phased.\n")
	var pairs []string
	for i, pc := range cases {
		fmt.Fprintf(&b, "(*CASE %d*)\nDefinition a_%d : syscase :=\n%s.\nDefinition b_%d : syscase :=\n%s.\n", i, i, pc.C1.coq(), i, pc.C2.coq())
		pairs = append(pairs, fmt.Sprintf("(a_%d, b_%d)", i, i))
	}
	b.WriteString("(*END*)\nDefinition cases : list (syscase * syscase) := [" + strings.Join(pairs, "; ") + "].\n")
	b.WriteString("Definition corr := Eval vm_compute in map (fun p => check_case2 true (fst p) (snd p)) cases.\nPrint corr.\n")
	fmt.Fprintf(&b, "Definition mon := Eval vm_compute in map (fun p => mon2 %s (fst p) (snd p)) cases.\nPrint mon.\n", monitor)
	if err := os.WriteFile(filepath.Join(ctx.Out, "cases_000.v"), []byte(b.String()), 0o644); err != nil {
		panic(err)
	}
	ctx.Meta.Files = append(ctx.Meta.Files, "cases_000.v")
	ctx.Meta.Cases = len(cases)
	ctx.Meta.Distinct = len(cases)
	// cases.json: the whole history, with the phase-2 registrations in the note
	for _, pc := range cases {
		whole := pc.C1
		whole.Ops = append(append([]Op{}, pc.C1.Ops...), pc.C2.Ops...)
		whole.Obs = append(append([]Obs{}, pc.C1.Obs...), pc.C2.Obs...)
		whole.Note = fmt.Sprintf("%s; after operation %d the registrations become static=%s stored=%s", pc.C1.Note, len(pc.C1.Ops),
			cList(pc.C2.Static, ClientSpec.coq), cList(pc.C2.Dyn, ClientSpec.coq))
		ctx.AddCase(whole)
	}
	ctx.writeCasesJSON()
}

var _ = context.Background

func cloneClients(cs []ClientSpec) []ClientSpec {
	out := make([]ClientSpec, len(cs))
	for i, c := range cs {
		c.Redirects = append([]string{}, c.Redirects...)
		c.Grants = append([]string{}, c.Grants...)
		c.RespTypes = append([]string{}, c.RespTypes...)
		out[i] = c
	}
	return out
}

// runPhased: phase 1 on a world with the given clients (static or stored), a change of registrations, phase 2.
func runPhased(ctx *RunCtx, note string, fl string, stored bool, opts []Opt, clients []ClientSpec, change func([]ClientSpec) []ClientSpec,
	phase1 func(g *SysGen) any, phase2 func(g *SysGen, carry any)) phasedCase {
	spec := WorldSpec{Profile: "openid", Flavour: fl, Opts: opts}
	if stored {
		spec.Dyn = clients
	} else {
		spec.Static = clients
	}
	g, err := NewSysGen(ctx.R, spec)
	if err != nil {
		panic(err)
	}
	carry := phase1(g)
	n1 := len(g.Ops)
	c1 := g.Case(note)
	c1.Ops, c1.Obs = append([]Op{}, g.Ops...), append([]Obs{}, g.Obs...)
	changed := change(cloneClients(clients))
	if stored {
		g.W.Reconfigure(nil, changed)
	} else {
		g.W.Reconfigure(changed, nil)
	}
	phase2(g, carry)
	c2 := g.Case(note + " (phase 2)")
	c2.Ops, c2.Obs = append([]Op{}, g.Ops[n1:]...), append([]Obs{}, g.Obs[n1:]...)
	ctx.AddStats(g.stats)
	return phasedCase{c1, c2}
}

func init() {
	// C02: the redirect URI a navigation targets is registered for the client WHEN the navigation is sent
	register(&Suite{Name: "c02reg", Run: func(ctx *RunCtx) {
		var cases []phasedCase
		for _, fl := range []string{"copy", "alias"} {
			for _, stored := range []bool{true, false} {
				for _, unreg := range []bool{false, true} {
					opts := []Opt{{Name: "WithScopes", Scopes: serverScopes}, {Name: "WithAuthorizationCodeGrant"}, {Name: "WithPAR", Z: 300},
						{Name: "WithTokenLifetime", Z: 300}}
					if unreg {
						opts = append(opts, Opt{Name: "WithUnregisteredRedirectURIsForPAR"})
					}
					clients := baseClients(ctx.R)
					cred := Cred{ID: 1, OK: true}
					p := Params{Redirect: "https://c1.example/cb", RespType: "code", Scopes: "openid email", State: "st-1"}
					pol := Pol{Kind: "PolSuccess", Sub: "alice", Granted: "openid email"}
					note := fmt.Sprintf("c02reg: redirect URI retired between push and redemption/stored=%v/unregistered-par=%v/%s", stored, unreg, fl)
					if unreg {
						// the permission for unregistered URIs covers the URI pushed in THIS transaction: the history stays a
						// control (the pushed URI stays usable), checked by correspondence; the monitor judges phase 2 alone
						// and would not know the push, so the retired URI is only pushed where unregistered URIs are refused
						continue
					}
					cases = append(cases, runPhased(ctx, note, fl, stored, opts, clients,
						func(cs []ClientSpec) []ClientSpec { cs[0].Redirects = []string{"https://c1.example/cb2?x=1"}; return cs },
						func(g *SysGen) any {
							pu := g.do(Op{Kind: "Par", Cred: cred, Params: p})
							page := g.do(Op{Kind: "Authorize", Client: 1, Params: p, PolicyAvail: true, Pol: Pol{Kind: "PolInProgress"}})
							nav := g.do(Op{Kind: "Authorize", Client: 1, Params: p, PolicyAvail: true, Pol: pol})
							return []Obs{pu, page, nav}
						},
						func(g *SysGen, carry any) {
							c := carry.([]Obs)
							// the pushed request, a plain request and a redirected error naming the retired URI; the URI that stayed
							g.do(Op{Kind: "Authorize", Client: 1, Params: Params{RequestURI: c[0].H, RespType: "code", Scopes: "openid email"}, PolicyAvail: true, Pol: pol})
							g.do(Op{Kind: "Authorize", Client: 1, Params: p, PolicyAvail: true, Pol: pol})
							bad := p
							bad.Scopes = "openid admin"
							g.do(Op{Kind: "Authorize", Client: 1, Params: bad, PolicyAvail: true, Pol: pol})
							ok := p
							ok.Redirect = "https://c1.example/cb2?x=1"
							g.do(Op{Kind: "Authorize", Client: 1, Params: ok, PolicyAvail: true, Pol: pol})
							pu2 := g.do(Op{Kind: "Par", Cred: cred, Params: p})
							if pu2.Kind == "Par" {
								g.do(Op{Kind: "Authorize", Client: 1, Params: Params{RequestURI: pu2.H, RespType: "code", Scopes: "openid email"}, PolicyAvail: true, Pol: pol})
							}
							// the code handed out before the change is still bound to its own request
							if c[2].Kind == "Nav" && c[2].NCode != 0 {
								g.do(Op{Kind: "Token", Grant: "authorization_code", Cred: cred, Code: c[2].NCode, Redirect: p.Redirect, HG: "HgOk", BA: "BaApprove"})
							}
						}))
				}
			}
		}
		ctx.Meta.Rule = "two-phase histories: a registered redirect URI is pushed / used, then removed from the client's registration (stored client rewritten, or static list replaced with the stores kept), then the pushed request, plain requests and a redirected error name it again; correspondence under the two worlds (Corr/Phased.v), mon_C02 per phase"
		writePhasedCases(ctx, cases, "mon_C02")
	}})
	// C04: a grant type / response type is served only to a client registered for it - at the time of the request
	register(&Suite{Name: "c04reg", Run: func(ctx *RunCtx) {
		var cases []phasedCase
		for _, fl := range []string{"copy", "alias"} {
			for _, stored := range []bool{true, false} {
				for _, drop := range []string{"refresh_token", "authorization_code", "client_credentials", "scope"} {
					opts := []Opt{{Name: "WithScopes", Scopes: serverScopes}, {Name: "WithAuthorizationCodeGrant"}, {Name: "WithClientCredentialsGrant"},
						{Name: "WithRefreshTokenGrant", Z: 600}, {Name: "WithTokenIntrospection"}, {Name: "WithTokenLifetime", Z: 300}}
					clients := baseClients(ctx.R)
					cred := Cred{ID: 1, OK: true}
					p := Params{Redirect: "https://c1.example/cb", RespType: "code", Scopes: "openid email", State: "st-1"}
					pol := Pol{Kind: "PolSuccess", Sub: "alice", Granted: "openid email"}
					drop := drop
					note := fmt.Sprintf("c04reg: %s dropped from the registration between issuance and use/stored=%v/%s", drop, stored, fl)
					cases = append(cases, runPhased(ctx, note, fl, stored, opts, clients,
						func(cs []ClientSpec) []ClientSpec {
							if drop == "scope" {
								cs[0].Scopes = "openid profile"
								return cs
							}
							var gs []string
							for _, x := range cs[0].Grants {
								if x != drop {
									gs = append(gs, x)
								}
							}
							cs[0].Grants = gs
							return cs
						},
						func(g *SysGen) any {
							nav := g.do(Op{Kind: "Authorize", Client: 1, Params: p, PolicyAvail: true, Pol: pol})
							tok := g.do(Op{Kind: "Token", Grant: "authorization_code", Cred: cred, Code: nav.NCode, Redirect: p.Redirect, HG: "HgOk", BA: "BaApprove"})
							g.do(Op{Kind: "Token", Grant: "refresh_token", Cred: cred, Refresh: tok.Rt, Scope: "openid", HG: "HgOk", BA: "BaApprove"})
							nav2 := g.do(Op{Kind: "Authorize", Client: 1, Params: p, PolicyAvail: true, Pol: pol})
							return []Obs{tok, nav2}
						},
						func(g *SysGen, carry any) {
							c := carry.([]Obs)
							rt := c[0].Rt
							if o := g.Obs[2]; o.Kind == "Tokens" && o.Rt != 0 {
								rt = o.Rt
							}
							g.do(Op{Kind: "Token", Grant: "refresh_token", Cred: cred, Refresh: rt, HG: "HgOk", BA: "BaApprove"})
							g.do(Op{Kind: "Token", Grant: "refresh_token", Cred: cred, Refresh: rt, Scope: "openid email", HG: "HgOk", BA: "BaApprove"})
							if c[1].Kind == "Nav" && c[1].NCode != 0 {
								g.do(Op{Kind: "Token", Grant: "authorization_code", Cred: cred, Code: c[1].NCode, Redirect: p.Redirect, HG: "HgOk", BA: "BaApprove"})
							}
							g.do(Op{Kind: "Token", Grant: "client_credentials", Cred: cred, Scope: "email", HG: "HgOk", BA: "BaApprove"})
							g.do(Op{Kind: "Authorize", Client: 1, Params: p, PolicyAvail: true, Pol: pol})
						}))
				}
			}
		}
		ctx.Meta.Rule = "two-phase histories: tokens, a refresh token and a code are obtained, then refresh_token / authorization_code / client_credentials / a scope is dropped from the client's registration (stored client rewritten, or static list replaced), then the refresh token, the code and every grant are used again; correspondence under the two worlds (Corr/Phased.v), mon_C04x per phase"
		writePhasedCases(ctx, cases, "mon_C04x")
	}})
}
