package main

// A strict reading of the auto-submitted form_post document (internal/authorize/const.go
// formPostResponseTemplate).  The property C02 is about where the user agent is sent: a browser
// reads the document as markup, so a response parameter that closes the value attribute and adds
// elements (a second form, a script that re-targets forms[0]) navigates somewhere the action
// attribute does not show.  The document is therefore tokenised the way a browser would see it -
// tags, attributes with quoted or bare values, text - and everything outside the template's own
// skeleton is reported: the observation's navigation target becomes a description of the extra
// markup, which no client has registered.

import (
	"html"
	"strings"
)

type htmlElem struct {
	Tag   string
	Attrs [][2]string
	Close bool
}

func isSpaceByte(c byte) bool { return c == ' ' || c == '\t' || c == '\n' || c == '\r' || c == '\f' }

// tokenise returns the start/end tags of the document and the non-blank text between them.
func htmlTokenise(doc string) (elems []htmlElem, text []string) {
	i := 0
	for i < len(doc) {
		j := strings.IndexByte(doc[i:], '<')
		if j < 0 {
			if t := strings.TrimSpace(doc[i:]); t != "" {
				text = append(text, t)
			}
			break
		}
		if t := strings.TrimSpace(doc[i : i+j]); t != "" {
			text = append(text, t)
		}
		i += j + 1
		if strings.HasPrefix(doc[i:], "!--") {
			k := strings.Index(doc[i:], "-->")
			elems = append(elems, htmlElem{Tag: "!--"})
			if k < 0 {
				break
			}
			i += k + 3
			continue
		}
		e := htmlElem{}
		if i < len(doc) && doc[i] == '/' {
			e.Close = true
			i++
		}
		s := i
		for i < len(doc) && !isSpaceByte(doc[i]) && doc[i] != '>' && doc[i] != '/' {
			i++
		}
		e.Tag = strings.ToLower(doc[s:i])
		// attributes
		for i < len(doc) {
			for i < len(doc) && (isSpaceByte(doc[i]) || doc[i] == '/') {
				i++
			}
			if i >= len(doc) || doc[i] == '>' {
				i++
				break
			}
			s = i
			for i < len(doc) && !isSpaceByte(doc[i]) && doc[i] != '=' && doc[i] != '>' && doc[i] != '/' {
				i++
			}
			name := strings.ToLower(doc[s:i])
			for i < len(doc) && isSpaceByte(doc[i]) {
				i++
			}
			val := ""
			if i < len(doc) && doc[i] == '=' {
				i++
				for i < len(doc) && isSpaceByte(doc[i]) {
					i++
				}
				if i < len(doc) && (doc[i] == '"' || doc[i] == '\'') {
					q := doc[i]
					i++
					s = i
					for i < len(doc) && doc[i] != q {
						i++
					}
					val = doc[s:i]
					i++
				} else {
					s = i
					for i < len(doc) && !isSpaceByte(doc[i]) && doc[i] != '>' {
						i++
					}
					val = doc[s:i]
				}
			}
			e.Attrs = append(e.Attrs, [2]string{name, html.UnescapeString(val)})
		}
		elems = append(elems, e)
	}
	return
}

// formPostDocument reads the document: the action of its single form, the hidden inputs, and a
// description of anything that is not part of the template's skeleton ("" when there is none).
func formPostDocument(doc string) (action string, vals map[string][]string, extra string) {
	elems, text := htmlTokenise(doc)
	vals = map[string][]string{}
	forms := 0
	var odd []string
	if len(text) > 0 {
		odd = append(odd, "text:"+text[0])
	}
	allowed := map[string]map[string]bool{
		"html":  {},
		"body":  {"onload": true},
		"form":  {"id": true, "method": true, "action": true},
		"input": {"type": true, "name": true, "value": true},
	}
	for _, e := range elems {
		at, ok := allowed[e.Tag]
		if !ok {
			odd = append(odd, "element:"+e.Tag)
			continue
		}
		if e.Close {
			continue
		}
		get := func(n string) string {
			for _, a := range e.Attrs {
				if a[0] == n {
					return a[1]
				}
			}
			return ""
		}
		for _, a := range e.Attrs {
			if !at[a[0]] {
				odd = append(odd, "attribute:"+e.Tag+"."+a[0])
			}
		}
		switch e.Tag {
		case "body":
			if v := get("onload"); v != "javascript:document.forms[0].submit()" {
				odd = append(odd, "onload:"+v)
			}
		case "form":
			forms++
			if forms == 1 {
				action = get("action")
			} else {
				odd = append(odd, "second-form:"+get("action"))
			}
			if m := strings.ToLower(get("method")); m != "post" {
				odd = append(odd, "method:"+m)
			}
		case "input":
			if get("type") != "hidden" {
				odd = append(odd, "input-type:"+get("type"))
			}
			vals[get("name")] = append(vals[get("name")], get("value"))
		}
	}
	if forms == 0 {
		odd = append(odd, "no-form")
	}
	return action, vals, strings.Join(odd, " ")
}
