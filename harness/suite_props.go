package main

import "fmt"

// Per-property history suites: the same online generator, aimed (by weights, deviation rate and
// wanted features) at the guards each property is about.  The case files evaluate the
// correspondence and the property's monitor (Corr/Monitors.v) on the implementation's trace.

func histSuite(name, monitor, rule string, quick, thorough, nops int, want map[string]bool, weights map[string]int, dev int, scenarios ...func(*RunCtx)) {
	register(&Suite{Name: name, Run: func(ctx *RunCtx) {
		for _, sc := range scenarios {
			sc(ctx)
		}
		runSysHistories(ctx, ctx.N(quick, thorough), nops, want, weights, dev, []string{"copy", "alias"}, name)
		ctx.Meta.Rule = rule + "; distinct by projected trace; non-trivial = at least one accepted and one refused operation"
		ctx.writeSysCases(monitor, true)
		ctx.writeCasesJSON()
	}})
}

// K0 (known finding, C05): revoking an access token whose lifetime has already elapsed answers 200
// and leaves the grant in place, so the refresh token of the same grant keeps working.
func scenarioRevokeExpired(ctx *RunCtx) {
	for _, fl := range []string{"copy", "alias"} {
		spec := WorldSpec{Profile: "openid", Flavour: fl, Static: baseClients(ctx.R), Opts: []Opt{
			{Name: "WithScopes", Scopes: serverScopes}, {Name: "WithAuthorizationCodeGrant"},
			{Name: "WithRefreshTokenGrant", Z: 1000}, {Name: "WithTokenRevocation"}, {Name: "WithTokenIntrospection"},
			{Name: "WithTokenLifetime", Z: 40}}}
		g, err := NewSysGen(ctx.R, spec)
		if err != nil {
			panic(err)
		}
		p := Params{Redirect: "https://c2.example/cb", RespType: "code", Scopes: "openid email", State: "st-1"}
		nav := g.do(Op{Kind: "Authorize", Client: 2, Params: p, PolicyAvail: true, Pol: Pol{Kind: "PolSuccess", Sub: "alice", Granted: "openid email"}})
		tok := g.do(Op{Kind: "Token", Grant: "authorization_code", Cred: Cred{ID: 2, OK: true}, Code: nav.NCode, Redirect: p.Redirect, HG: "HgOk", BA: "BaApprove"})
		if tok.Kind != "Tokens" || tok.Rt == 0 {
			continue
		}
		g.doTick(45)
		rv := g.do(Op{Kind: "Revoke", Cred: Cred{ID: 2, OK: true}, Tok: PTok{Kind: "PExact", H: tok.At}, Allowed: true})
		rf := g.do(Op{Kind: "Token", Grant: "refresh_token", Cred: Cred{ID: 2, OK: true}, Refresh: tok.Rt, HG: "HgOk", BA: "BaApprove"})
		ctx.AddCase(g.Case("scenario:revoke-expired-access-token/" + fl))
		if rv.Kind == "Ok" && rf.Kind == "Tokens" {
			ctx.Meta.Findings = append(ctx.Meta.Findings, Finding{Property: "C05", Signature: "revoke:expired-access-token:refresh-survives",
				What:   "POST /revoke of an access token whose lifetime had elapsed answered 200 and the refresh token of the same grant still produced tokens (" + fl + " storage)",
				Replay: map[string]any{"Spec": spec, "Ops": g.Ops, "Obs": g.Obs}})
		}
	}
}

// The acceptors of C05 (introspection, userinfo, TokenInfo, TokenInfoFromRequest) crossed with every
// way an access token stops being live - its own lifetime elapsed while the grant (refresh token) is
// still alive, revocation of the access or of the refresh token, a refresh that superseded it (with
// and without rotation), the grant's absolute expiry, a replay of the code it came from - for both
// token formats and both storage flavours.  Deterministic, so that every (state, acceptor) pair is
// exercised on every run; the random histories of the suite add the interleavings.
func scenarioAcceptorMatrix(ctx *RunCtx) {
	states := []string{"live", "lifetime-elapsed", "revoked", "refresh-token-revoked", "superseded", "superseded-rotation", "grant-expired", "code-replayed",
		"refreshed-then-code-replayed", "refreshed-rotation-then-code-replayed"}
	for _, fl := range []string{"copy", "alias"} {
		for _, client := range []int{1, 2} { // c1: opaque tokens, c2: JWT
			for _, st := range states {
				opts := []Opt{{Name: "WithScopes", Scopes: serverScopes}, {Name: "WithAuthorizationCodeGrant"},
					{Name: "WithRefreshTokenGrant", Z: 1000}, {Name: "WithTokenRevocation"}, {Name: "WithTokenIntrospection"},
					{Name: "WithTokenLifetime", Z: 40}}
				if st == "superseded-rotation" || st == "refreshed-rotation-then-code-replayed" {
					opts = append(opts, Opt{Name: "WithRefreshTokenRotation"})
				}
				spec := WorldSpec{Profile: "openid", Flavour: fl, Static: baseClients(ctx.R), Opts: opts}
				g, err := NewSysGen(ctx.R, spec)
				if err != nil {
					panic(err)
				}
				redirect := fmt.Sprintf("https://c%d.example/cb", client)
				p := Params{Redirect: redirect, RespType: "code", Scopes: "openid email", State: "st-1"}
				cred := Cred{ID: client, OK: true}
				nav := g.do(Op{Kind: "Authorize", Client: client, Params: p, PolicyAvail: true, Pol: Pol{Kind: "PolSuccess", Sub: "alice", Granted: "openid email"}})
				tok := g.do(Op{Kind: "Token", Grant: "authorization_code", Cred: cred, Code: nav.NCode, Redirect: redirect, HG: "HgOk", BA: "BaApprove"})
				if tok.Kind != "Tokens" || tok.Rt == 0 {
					panic(fmt.Sprintf("c05 acceptor matrix: the code flow did not yield tokens: %+v", tok))
				}
				present := func(h Handle) {
					ex := PTok{Kind: "PExact", H: h}
					g.do(Op{Kind: "Introspect", Cred: cred, Tok: ex, Allowed: true})
					g.do(Op{Kind: "UserInfo", Tok: ex, HasHeader: true})
					g.do(Op{Kind: "TokenInfo", Tok: ex})
					g.do(Op{Kind: "TokenInfoReq", Tok: ex, HasHeader: true})
					if client == 2 {
						g.do(Op{Kind: "UserInfo", Tok: PTok{Kind: "PJti", H: h}, HasHeader: true})
						g.do(Op{Kind: "Introspect", Cred: cred, Tok: PTok{Kind: "PJti", H: h}, Allowed: true})
					}
				}
				newAt, newRt := Handle(0), Handle(0)
				switch st {
				case "lifetime-elapsed":
					g.doTick(45)
				case "revoked":
					g.do(Op{Kind: "Revoke", Cred: cred, Tok: PTok{Kind: "PExact", H: tok.At}, Allowed: true})
				case "refresh-token-revoked":
					g.do(Op{Kind: "Revoke", Cred: cred, Tok: PTok{Kind: "PExact", H: tok.Rt}, Allowed: true})
				case "superseded", "superseded-rotation":
					g.doTick(12)
					if o := g.do(Op{Kind: "Token", Grant: "refresh_token", Cred: cred, Refresh: tok.Rt, HG: "HgOk", BA: "BaApprove"}); o.Kind == "Tokens" {
						newAt = o.At
					}
				case "grant-expired":
					g.doTick(1005)
				case "code-replayed":
					g.do(Op{Kind: "Token", Grant: "authorization_code", Cred: cred, Code: nav.NCode, Redirect: redirect, HG: "HgOk", BA: "BaApprove"})
				case "refreshed-then-code-replayed", "refreshed-rotation-then-code-replayed":
					// the grant was rewritten by refreshes before the code is presented again: the replay
					// must still find it and kill the CURRENT tokens
					g.doTick(12)
					for i := 0; i < 2; i++ {
						rt := tok.Rt
						if newRt != 0 {
							rt = newRt
						}
						if o := g.do(Op{Kind: "Token", Grant: "refresh_token", Cred: cred, Refresh: rt, HG: "HgOk", BA: "BaApprove"}); o.Kind == "Tokens" {
							newAt = o.At
							if o.Rt != 0 {
								newRt = o.Rt
							}
						}
					}
					g.do(Op{Kind: "Token", Grant: "authorization_code", Cred: cred, Code: nav.NCode, Redirect: redirect, HG: "HgOk", BA: "BaApprove"})
				}
				present(tok.At)
				if newAt != 0 {
					present(newAt)
				}
				// the refresh token where an access token belongs, and what the grant still yields
				g.do(Op{Kind: "UserInfo", Tok: PTok{Kind: "PExact", H: tok.Rt}, HasHeader: true})
				g.do(Op{Kind: "Token", Grant: "refresh_token", Cred: cred, Refresh: tok.Rt, HG: "HgOk", BA: "BaApprove"})
				if newRt != 0 {
					g.do(Op{Kind: "Token", Grant: "refresh_token", Cred: cred, Refresh: newRt, HG: "HgOk", BA: "BaApprove"})
				}
				ctx.AddCase(g.Case(fmt.Sprintf("scenario:acceptors/%s/c%d/%s", st, client, fl)))
				ctx.AddStats(g.stats)
			}
		}
	}
}

// C17: the session timeout is a deadline fixed when the interaction starts.  A policy of several steps
// is resumed inside the timeout, then again past the deadline counted from the start (but less than one
// timeout after the intermediate step): the second resumption must be refused.  A control flow whose
// steps all fall inside the deadline must finish.
func scenarioSessionDeadline(ctx *RunCtx) {
	for _, fl := range []string{"copy", "alias"} {
		for _, par := range []bool{false, true} {
			for _, timeout := range []int{100, 400} {
				for _, late := range []bool{true, false} {
					opts := []Opt{{Name: "WithScopes", Scopes: serverScopes}, {Name: "WithAuthorizationCodeGrant"},
						{Name: "WithAuthenticationSessionTimeout", Z: timeout}}
					if par {
						// a pushed request that lives LONGER than the session timeout: the deadline of the
						// interaction is the session timeout counted from /authorize all the same
						opts = append(opts, Opt{Name: "WithPAR", Z: 3 * timeout})
					}
					g, err := NewSysGen(ctx.R, WorldSpec{Profile: "openid", Flavour: fl, Static: baseClients(ctx.R), Opts: opts})
					if err != nil {
						panic(err)
					}
					p := Params{Redirect: "https://c1.example/cb", RespType: "code", Scopes: "openid email", State: "st-1"}
					var page Obs
					if par {
						pu := g.do(Op{Kind: "Par", Cred: Cred{ID: 1, OK: true}, Params: p})
						page = g.do(Op{Kind: "Authorize", Client: 1, Params: Params{RequestURI: pu.H, RespType: p.RespType, Scopes: p.Scopes}, PolicyAvail: true, Pol: Pol{Kind: "PolInProgress"}})
					} else {
						page = g.do(Op{Kind: "Authorize", Client: 1, Params: p, PolicyAvail: true, Pol: Pol{Kind: "PolInProgress"}})
					}
					if page.Kind != "Page" {
						panic(fmt.Sprintf("c17 deadline scenario: no interactive page: %+v", page))
					}
					step := timeout * 6 / 10
					if !late {
						step = timeout * 3 / 10
					}
					g.doTick(step)
					g.do(Op{Kind: "Callback", Cb: page.H, Pol: Pol{Kind: "PolInProgress"}})
					g.doTick(step)
					g.do(Op{Kind: "Callback", Cb: page.H, Pol: Pol{Kind: "PolInProgress"}})
					g.doTick(7)
					fin := g.do(Op{Kind: "Callback", Cb: page.H, Pol: Pol{Kind: "PolSuccess", Sub: "alice", Granted: "openid email"}})
					g.do(Op{Kind: "Token", Grant: "authorization_code", Cred: Cred{ID: 1, OK: true}, Code: fin.NCode, Redirect: p.Redirect, HG: "HgOk", BA: "BaApprove"})
					g.do(Op{Kind: "Callback", Cb: page.H, Pol: Pol{Kind: "PolSuccess", Sub: "mallory", Granted: "openid"}})
					ctx.AddCase(g.Case(fmt.Sprintf("scenario:session-deadline/par=%v/timeout=%d/late=%v/%s", par, timeout, late, fl)))
					ctx.AddStats(g.stats)
				}
			}
		}
	}
}

// C10, rotation: "every refresh token works at most once and the response carries its replacement"
// whatever the embedder's ShouldIssueRefreshTokenFunc answers for the REFRESHED grant info (grant type
// refresh_token, possibly narrowed scopes).  Code and CIBA grants, each policy, refreshes that keep and
// that drop offline_access, then a replay of every used refresh token.
func scenarioRotationPolicy(ctx *RunCtx) {
	for _, fl := range []string{"copy", "alias"} {
		for _, pol := range []string{"IssueAlways", "IssueIfOffline", "IssueCodeOnly"} {
			for _, rotation := range []bool{true, false} {
				opts := []Opt{{Name: "WithScopes", Scopes: serverScopes}, {Name: "WithAuthorizationCodeGrant"},
					{Name: "WithRefreshTokenGrant", Z: 600, S: pol}, {Name: "WithTokenIntrospection"}, {Name: "WithTokenLifetime", Z: 80}}
				if rotation {
					opts = append(opts, Opt{Name: "WithRefreshTokenRotation"})
				}
				g, err := NewSysGen(ctx.R, WorldSpec{Profile: "openid", Flavour: fl, Static: baseClients(ctx.R), Opts: opts})
				if err != nil {
					panic(err)
				}
				cred := Cred{ID: 1, OK: true}
				p := Params{Redirect: "https://c1.example/cb", RespType: "code", Scopes: "openid email offline_access", State: "st-1"}
				nav := g.do(Op{Kind: "Authorize", Client: 1, Params: p, PolicyAvail: true, Pol: Pol{Kind: "PolSuccess", Sub: "alice", Granted: "openid email offline_access"}})
				tok := g.do(Op{Kind: "Token", Grant: "authorization_code", Cred: cred, Code: nav.NCode, Redirect: p.Redirect, HG: "HgOk", BA: "BaApprove"})
				if tok.Kind != "Tokens" || tok.Rt == 0 {
					panic(fmt.Sprintf("c10 rotation scenario: no refresh token from the code flow: %+v", tok))
				}
				used := []Handle{}
				rt := tok.Rt
				for _, sc := range []string{"openid email", "", "openid offline_access", "openid"} {
					o := g.do(Op{Kind: "Token", Grant: "refresh_token", Cred: cred, Refresh: rt, Scope: sc, HG: "HgOk", BA: "BaApprove"})
					used = append(used, rt)
					if o.Kind == "Tokens" && o.Rt != 0 {
						rt = o.Rt
					}
					g.doTick(7)
				}
				for _, u := range used {
					g.do(Op{Kind: "Token", Grant: "refresh_token", Cred: cred, Refresh: u, HG: "HgOk", BA: "BaApprove"})
					g.do(Op{Kind: "Introspect", Cred: cred, Tok: PTok{Kind: "PExact", H: u}, Allowed: true})
				}
				ctx.AddCase(g.Case(fmt.Sprintf("scenario:rotation-policy/%s/rotation=%v/%s", pol, rotation, fl)))
				ctx.AddStats(g.stats)
			}
		}
	}
}

// C04 / C10: the owner grants a STRICT SUBSET of the scopes and of the resources that were requested
// (code flow through the policy, CIBA through InitBackAuthFunc, poll and ping modes).  The first token
// and every token of the following refresh chain - refreshes naming nothing, the denied scope, the denied
// resource, a legal narrowing, then nothing again - must stay inside what was granted.
func scenarioGrantedSubset(ctx *RunCtx) {
	resA, resB := "https://api.example/a", "https://api.example/b"
	for _, fl := range []string{"copy", "alias"} {
		for _, flow := range []string{"code", "ciba-poll", "ciba-ping"} {
			for _, rotation := range []bool{false, true} {
				opts := []Opt{{Name: "WithScopes", Scopes: serverScopes}, {Name: "WithAuthorizationCodeGrant"}, {Name: "WithCIBAGrant"},
					{Name: "WithRefreshTokenGrant", Z: 600}, {Name: "WithTokenIntrospection"}, {Name: "WithTokenLifetime", Z: 80},
					{Name: "WithResourceIndicators", S: resA, L: []string{resB}}}
				if rotation {
					opts = append(opts, Opt{Name: "WithRefreshTokenRotation"})
				}
				g, err := NewSysGen(ctx.R, WorldSpec{Profile: "openid", Flavour: fl, Static: append(baseClients(ctx.R), cibaClients()...), Opts: opts})
				if err != nil {
					panic(err)
				}
				var tok Obs
				var cred Cred
				switch flow {
				case "code":
					cred = Cred{ID: 1, OK: true}
					p := Params{Redirect: "https://c1.example/cb", RespType: "code", Scopes: "openid email profile", State: "st-1", Resources: []string{resA, resB}}
					nav := g.do(Op{Kind: "Authorize", Client: 1, Params: p, PolicyAvail: true,
						Pol: Pol{Kind: "PolSuccess", Sub: "alice", Granted: "openid email", Resources: []string{resA}}})
					tok = g.do(Op{Kind: "Token", Grant: "authorization_code", Cred: cred, Code: nav.NCode, Redirect: p.Redirect, HG: "HgOk", BA: "BaApprove"})
				default:
					id := map[string]int{"ciba-poll": 5, "ciba-ping": 6}[flow]
					cred = Cred{ID: id, OK: true}
					p := Params{Scopes: "openid email", LoginHint: "alice", Resources: []string{resA, resB}}
					if flow == "ciba-ping" {
						p.NotifToken = unknownBase + 5000
					}
					bc := g.do(Op{Kind: "BcAuthorize", Cred: cred, Params: p, InitOK: true, Sub: "alice", Granted: "openid", GrantedRes: []string{resA}})
					tok = g.do(Op{Kind: "Token", Grant: "urn:openid:params:grant-type:ciba", Cred: cred, AuthReq: bc.H, HG: "HgOk", BA: "BaApprove"})
				}
				if tok.Kind != "Tokens" || tok.Rt == 0 {
					panic(fmt.Sprintf("granted-subset scenario (%s): no tokens: %+v", flow, tok))
				}
				rt := tok.Rt
				for _, rq := range []struct {
					scope string
					res   []string
				}{{"", nil}, {"openid email profile", nil}, {"openid email", nil}, {"", []string{resB}}, {"", []string{resA, resB}}, {"openid", []string{resA}}, {"", nil}} {
					o := g.do(Op{Kind: "Token", Grant: "refresh_token", Cred: cred, Refresh: rt, Scope: rq.scope, Resources: rq.res, HG: "HgOk", BA: "BaApprove"})
					if o.Kind == "Tokens" {
						if o.Rt != 0 {
							rt = o.Rt
						}
						g.do(Op{Kind: "Introspect", Cred: cred, Tok: PTok{Kind: "PExact", H: o.At}, Allowed: true})
					}
				}
				ctx.AddCase(g.Case(fmt.Sprintf("scenario:granted-subset/%s/rotation=%v/%s", flow, rotation, fl)))
				ctx.AddStats(g.stats)
			}
		}
	}
}

// C16: "a denial ends it".  For every delivery mode: the request is denied (failure notification through the
// provider API; for poll/ping also the embedder's validation answering deny / fail at a poll), then every
// way of obtaining tokens for the same auth_req_id is tried: success notification, poll by the initiating
// client with an approving validation, poll by another client, a second denial.
func scenarioCibaDenialEnds(ctx *RunCtx) {
	for _, fl := range []string{"copy", "alias"} {
		for _, id := range []int{5, 6, 7} { // poll, ping, push
			for _, first := range []string{"NotifyFail", "PollDeny", "PollFail", "NotifyOk"} {
				if id == 7 && (first == "PollDeny" || first == "PollFail") {
					continue
				}
				opts := []Opt{{Name: "WithScopes", Scopes: serverScopes}, {Name: "WithCIBAGrant"}, {Name: "WithRefreshTokenGrant", Z: 600},
					{Name: "WithTokenIntrospection"}, {Name: "WithTokenLifetime", Z: 80}}
				g, err := NewSysGen(ctx.R, WorldSpec{Profile: "openid", Flavour: fl, Static: append(baseClients(ctx.R), cibaClients()...), Opts: opts})
				if err != nil {
					panic(err)
				}
				cred := Cred{ID: id, OK: true}
				p := Params{Scopes: "openid email", LoginHint: "alice"}
				if id != 5 {
					p.NotifToken = unknownBase + 5000
				}
				bc := g.do(Op{Kind: "BcAuthorize", Cred: cred, Params: p, InitOK: true, Sub: "alice", Granted: "openid email"})
				if bc.Kind != "Ciba" {
					panic(fmt.Sprintf("c16 denial scenario: no auth_req_id: %+v", bc))
				}
				poll := func(c Cred, ba string) {
					g.do(Op{Kind: "Token", Grant: "urn:openid:params:grant-type:ciba", Cred: c, AuthReq: bc.H, HG: "HgOk", BA: ba})
				}
				switch first {
				case "NotifyFail":
					g.do(Op{Kind: "NotifyFail", AuthReq: bc.H, HG: "HgOk"})
				case "PollDeny":
					poll(cred, "BaDeny")
				case "PollFail":
					poll(cred, "BaFail")
				case "NotifyOk":
					g.do(Op{Kind: "NotifyOk", AuthReq: bc.H, HG: "HgOk"})
				}
				g.do(Op{Kind: "NotifyOk", AuthReq: bc.H, HG: "HgOk"})
				poll(cred, "BaApprove")
				poll(Cred{ID: 5 + (id-4)%3, OK: true}, "BaApprove")
				g.do(Op{Kind: "NotifyFail", AuthReq: bc.H, HG: "HgOk"})
				g.do(Op{Kind: "NotifyOk", AuthReq: bc.H, HG: "HgOk"})
				poll(cred, "BaApprove")
				ctx.AddCase(g.Case(fmt.Sprintf("scenario:ciba-denial-ends/c%d/%s/%s", id, first, fl)))
				ctx.AddStats(g.stats)
			}
		}
	}
}

func scenarioPkceMatrix(ctx *RunCtx) {
	for ci, cfg := range pkceConfigs() {
		for _, par := range []bool{false, true} {
			fl := []string{"copy", "alias"}[(ci+map[bool]int{false: 0, true: 1}[par])%2]
			opts := append([]Opt{{Name: "WithScopes", Scopes: serverScopes}, {Name: "WithAuthorizationCodeGrant"},
				{Name: "WithRefreshTokenGrant", Z: 1000}, {Name: "WithTokenLifetime", Z: 300}}, cfg.Opts...)
			if par {
				opts = append(opts, Opt{Name: "WithPAR", Z: 60})
			}
			g, err := NewSysGen(ctx.R, WorldSpec{Profile: "openid", Flavour: fl, Static: baseClients(ctx.R), Opts: opts})
			if err != nil {
				panic(err)
			}
			pol := Pol{Kind: "PolSuccess", Sub: "alice", Granted: "openid email"}
			v := PK{Kind: 1, N: 1, LenOK: true}
			for _, client := range []int{1, 3} { // confidential, public
				redirect := fmt.Sprintf("https://c%d.example/cb", client)
				scopes := map[int]string{1: "openid email", 3: "openid profile"}[client]
				pol.Granted = scopes
				for _, f := range pkceForms(v) {
					for _, vf := range pkceVerifiers(v, f.Challenge) {
						p := Params{Redirect: redirect, RespType: "code", Scopes: scopes, State: "st-1", Challenge: f.Challenge, Method: f.Method}
						var nav Obs
						if par {
							pu := g.do(Op{Kind: "Par", Cred: Cred{ID: client, OK: true}, Params: p})
							if pu.Kind != "Par" {
								continue
							}
							nav = g.do(Op{Kind: "Authorize", Client: client, Params: Params{RequestURI: pu.H, RespType: "code", Scopes: scopes}, PolicyAvail: true, Pol: pol})
						} else {
							nav = g.do(Op{Kind: "Authorize", Client: client, Params: p, PolicyAvail: true, Pol: pol})
						}
						if nav.Kind != "Nav" || nav.NCode == 0 {
							break // refused at the authorization endpoint (method not enabled, challenge required): nothing to redeem
						}
						g.do(Op{Kind: "Token", Grant: "authorization_code", Cred: Cred{ID: client, OK: true}, Code: nav.NCode, Redirect: redirect, Verifier: vf, HG: "HgOk", BA: "BaApprove"})
					}
				}
			}
			ctx.AddCase(g.Case(fmt.Sprintf("scenario:pkce-matrix/%s/par=%v/%s", cfg.Name, par, fl)))
			ctx.AddStats(g.stats)
		}
	}
}

// C04 / grant types and response types: clients whose grant_types and response_types are aligned
// (c1, c2) and not aligned (misalignedClients: hybrid response types without implicit, implicit without
// its response types, code response type without authorization_code) x every response type, on servers
// with both grants, with the code grant only and with the implicit grant only; every code obtained is
// redeemed, every client tries client_credentials and the refresh of what it got.
func scenarioGrantTypeMatrix(ctx *RunCtx) {
	allResp := []string{"code", "token", "id_token", "id_token token", "code id_token", "code token", "code id_token token", "bogus"}
	servers := [][]Opt{
		{{Name: "WithAuthorizationCodeGrant"}, {Name: "WithImplicitGrant"}, {Name: "WithRefreshTokenGrant", Z: 1000}, {Name: "WithClientCredentialsGrant"}},
		{{Name: "WithAuthorizationCodeGrant"}, {Name: "WithRefreshTokenGrant", Z: 1000}},
		{{Name: "WithImplicitGrant"}, {Name: "WithClientCredentialsGrant"}},
	}
	for si, srv := range servers {
		for _, par := range []bool{false, true} {
			fl := []string{"copy", "alias"}[(si+map[bool]int{false: 0, true: 1}[par])%2]
			opts := append([]Opt{{Name: "WithScopes", Scopes: serverScopes}, {Name: "WithTokenIntrospection"}, {Name: "WithTokenLifetime", Z: 300}}, srv...)
			if par {
				opts = append(opts, Opt{Name: "WithPAR", Z: 60})
			}
			clients := append(baseClients(ctx.R), misalignedClients()...)
			g, err := NewSysGen(ctx.R, WorldSpec{Profile: "openid", Flavour: fl, Static: clients, Opts: opts})
			if err != nil {
				panic(err)
			}
			for _, c := range clients {
				if c.Public && c.ID == 3 || len(c.Redirects) == 0 {
					continue
				}
				cred := Cred{ID: c.ID, OK: !c.Public}
				if c.Public {
					cred.OK = true
				}
				redirect := c.Redirects[0]
				pol := Pol{Kind: "PolSuccess", Sub: "alice", Granted: "openid"}
				for _, rt := range allResp {
					p := Params{Redirect: redirect, RespType: rt, Scopes: "openid", State: "st-1", Nonce: "n-1"}
					var nav Obs
					if par {
						pu := g.do(Op{Kind: "Par", Cred: cred, Params: p})
						if pu.Kind != "Par" {
							continue
						}
						nav = g.do(Op{Kind: "Authorize", Client: c.ID, Params: Params{RequestURI: pu.H, RespType: rt, Scopes: "openid"}, PolicyAvail: true, Pol: pol})
					} else {
						nav = g.do(Op{Kind: "Authorize", Client: c.ID, Params: p, PolicyAvail: true, Pol: pol})
					}
					if nav.Kind == "Nav" && nav.NAt != 0 {
						g.do(Op{Kind: "Introspect", Cred: Cred{ID: 1, OK: true}, Tok: PTok{Kind: "PExact", H: nav.NAt}, Allowed: true})
					}
					if nav.Kind == "Nav" && nav.NCode != 0 {
						tok := g.do(Op{Kind: "Token", Grant: "authorization_code", Cred: cred, Code: nav.NCode, Redirect: redirect, HG: "HgOk", BA: "BaApprove"})
						if tok.Kind == "Tokens" && tok.Rt != 0 && rt == "code" {
							g.do(Op{Kind: "Token", Grant: "refresh_token", Cred: cred, Refresh: tok.Rt, HG: "HgOk", BA: "BaApprove"})
						}
					}
				}
				g.do(Op{Kind: "Token", Grant: "client_credentials", Cred: cred, Scope: "email", HG: "HgOk", BA: "BaApprove"})
			}
			ctx.AddCase(g.Case(fmt.Sprintf("scenario:grant-type-matrix/server=%d/par=%v/%s", si, par, fl)))
			ctx.AddStats(g.stats)
		}
	}
}

// C04 / C01 / C05 / C10, the jwt-bearer grant (RFC 7523): every client kind (registered for the grant with JWT
// tokens and refresh_token, registered and pairwise without refresh_token, public and registered, confidential
// and public NOT registered, an unknown client id, NO client identification at all) x client authentication
// required for the grant or not x credential right / wrong x assertion accepted / refused by the embedder /
// absent x scopes inside the registration, outside it (substring, superstring, a server scope the client did not
// register, the bare id of a prefix scope, a scope nobody knows) and none; then, for every token issued,
// introspection, userinfo, a refresh by the owner and by another client and introspection of what the refresh
// gave.  A second server has another scope list (the anonymous client is made of THIS server's scopes) and
// resource indicators (the requested resources must be among the configured ones).
func scenarioJwtBearerMatrix(ctx *RunCtx) {
	type who struct {
		id   int
		note string
	}
	whos := []who{{2, "registered-jwt-refresh"}, {4, "registered-pairwise"}, {14, "registered-public"}, {1, "not-registered"},
		{3, "not-registered-public"}, {9, "unknown-client"}, {0, "no-identification"}}
	otherScopes := []Scope{{ID: "openid"}, {ID: "profile"}, {ID: "extra"}, {ID: "pay", Prefix: "pay:", Dyn: true}}
	resA, resB := "https://api.example/a", "https://api.example/b"
	n := 0
	for _, required := range []bool{false, true} {
		for si, scopes := range [][]Scope{serverScopes, otherScopes} {
			for _, wh := range whos {
				fl := []string{"copy", "alias"}[n%2]
				n++
				opts := []Opt{{Name: "WithScopes", Scopes: scopes}, {Name: "WithClientCredentialsGrant"}, {Name: "WithJWTBearerGrant"},
					{Name: "WithRefreshTokenGrant", Z: 600}, {Name: "WithTokenIntrospection"}, {Name: "WithTokenRevocation"}, {Name: "WithTokenLifetime", Z: 300}}
				if required {
					opts = append(opts, Opt{Name: "WithJWTBearerGrantClientAuthnRequired"})
				}
				if si == 1 {
					opts = append(opts, Opt{Name: "WithResourceIndicators", S: resA, L: []string{resB}})
				}
				g, err := NewSysGen(ctx.R, WorldSpec{Profile: "openid", Flavour: fl, Static: baseClients(ctx.R), Opts: opts})
				if err != nil {
					panic(err)
				}
				creds := []Cred{{ID: wh.id, OK: true}, {ID: wh.id, OK: false}}
				if wh.id == 0 {
					creds = creds[:1]
				}
				scopeReqs := []string{"openid", "openid email", "openid profile", "pay:1 openid", "emai", "openid_x openid", "openid admin", "pay", "extra", "no-such-scope", "openid offline_access", ""}
				other := Cred{ID: 1, OK: true}
				follow := func(tok Obs, owner Cred) {
					ex := PTok{Kind: "PExact", H: tok.At}
					g.do(Op{Kind: "Introspect", Cred: other, Tok: ex, Allowed: true})
					g.do(Op{Kind: "UserInfo", Tok: ex, HasHeader: true})
					if tok.Rt == 0 {
						return
					}
					g.do(Op{Kind: "Introspect", Cred: other, Tok: PTok{Kind: "PExact", H: tok.Rt}, Allowed: true})
					g.do(Op{Kind: "Token", Grant: "refresh_token", Cred: other, Refresh: tok.Rt, HG: "HgOk", BA: "BaApprove"})
					g.do(Op{Kind: "Token", Grant: "refresh_token", Cred: owner, Refresh: tok.Rt, Scope: "openid admin", HG: "HgOk", BA: "BaApprove"})
					if o := g.do(Op{Kind: "Token", Grant: "refresh_token", Cred: owner, Refresh: tok.Rt, HG: "HgOk", BA: "BaApprove"}); o.Kind == "Tokens" {
						g.do(Op{Kind: "Introspect", Cred: other, Tok: PTok{Kind: "PExact", H: o.At}, Allowed: true})
						g.do(Op{Kind: "UserInfo", Tok: PTok{Kind: "PExact", H: o.At}, HasHeader: true})
					}
				}
				for _, cr := range creds {
					for _, as := range []string{"ok:alice", "refused-by-the-embedder", ""} {
						for _, sc := range scopeReqs {
							if as != "ok:alice" && sc != "openid" && sc != "emai" {
								continue // the assertion guards sit before (absent) and after (refused) the scope guard: one inside, one outside
							}
							op := Op{Kind: "Token", Grant: jwtBearerGrant, Cred: cr, Scope: sc, Assertion: as, HG: "HgOk", BA: "BaApprove"}
							if tok := g.do(op); tok.Kind == "Tokens" {
								g.learnTokens(tok, cr.ID, sc, nil)
								follow(tok, cr)
							}
						}
					}
					if si == 1 {
						// resource indicators: inside, outside and beside the configured list
						for _, res := range [][]string{{resA}, {resA, resB}, {"https://evil.example/rs"}, {resA, "https://api.example/a/"}} {
							op := Op{Kind: "Token", Grant: jwtBearerGrant, Cred: cr, Scope: "openid", Assertion: "ok:bob", Resources: res, HG: "HgOk", BA: "BaApprove"}
							if tok := g.do(op); tok.Kind == "Tokens" {
								follow(tok, cr)
							}
						}
					}
					// the embedder's HandleGrantFunc refuses
					g.do(Op{Kind: "Token", Grant: jwtBearerGrant, Cred: cr, Scope: "openid", Assertion: "ok:alice", HG: "HgDeny", BA: "BaApprove"})
				}
				// the owner revokes what it got last; a client_credentials token for comparison
				if len(g.ats) > 0 {
					g.do(Op{Kind: "Revoke", Cred: Cred{ID: wh.id, OK: true}, Tok: PTok{Kind: "PExact", H: g.ats[len(g.ats)-1].H}, Allowed: true})
					g.do(Op{Kind: "Introspect", Cred: other, Tok: PTok{Kind: "PExact", H: g.ats[len(g.ats)-1].H}, Allowed: true})
				}
				ctx.AddCase(g.Case(fmt.Sprintf("scenario:jwt-bearer-matrix/%s/authn-required=%v/server=%d/%s", wh.note, required, si, fl)))
				ctx.AddStats(g.stats)
			}
		}
	}
	// a server without the grant: unsupported_grant_type for everybody
	g, err := NewSysGen(ctx.R, WorldSpec{Profile: "openid", Flavour: "copy", Static: baseClients(ctx.R), Opts: []Opt{
		{Name: "WithScopes", Scopes: serverScopes}, {Name: "WithClientCredentialsGrant"}, {Name: "WithTokenIntrospection"}}})
	if err != nil {
		panic(err)
	}
	for _, cr := range []Cred{{ID: 2, OK: true}, {ID: 2, OK: false}, {}} {
		g.do(Op{Kind: "Token", Grant: jwtBearerGrant, Cred: cr, Scope: "openid", Assertion: "ok:alice", HG: "HgOk", BA: "BaApprove"})
	}
	ctx.AddCase(g.Case("scenario:jwt-bearer-matrix/grant-not-enabled/copy"))
	ctx.AddStats(g.stats)
}

func pkceConfigs() []pkceCfg {
	return []pkceCfg{
		{"pkce-off", nil},
		{"S256-only", []Opt{{Name: "WithPKCE", S: "S256"}}},
		{"plain-only", []Opt{{Name: "WithPKCE", S: "plain"}}},
		{"S256-default+plain", []Opt{{Name: "WithPKCE", S: "S256", L: []string{"plain"}}}},
		{"plain-default+S256", []Opt{{Name: "WithPKCE", S: "plain", L: []string{"S256"}}}},
		{"required-S256-only", []Opt{{Name: "WithPKCERequired", S: "S256"}}},
		{"required-plain-default+S256", []Opt{{Name: "WithPKCERequired", S: "plain", L: []string{"S256"}}}},
	}
}

// the forms a client whose verifier is v can put its challenge in
func pkceForms(v PK) []pkceForm {
	return []pkceForm{
		{"S256-named", PK{Kind: 2, Inner: &v}, "S256"},
		{"plain-named", v, "plain"},
		{"method-omitted/thumbprint", PK{Kind: 2, Inner: &v}, ""},
		{"method-omitted/verbatim", v, ""},
		{"no-challenge", PK{}, ""},
	}
}

// verifiers for a challenge ch made from v
func pkceVerifiers(v, ch PK) []PK {
	return []PK{v, ch, {Kind: 1, N: v.N + 5, LenOK: true}, {Kind: 1, N: v.N + 6, LenOK: false}, {}}
}

type pkceCfg struct {
	Name string
	Opts []Opt
}

type pkceForm struct {
	Name      string
	Challenge PK
	Method    string
}

func init() {
	register(&Suite{Name: "c05", Run: func(ctx *RunCtx) {
		scenarioRevokeExpired(ctx)
		scenarioAcceptorMatrix(ctx)
		runSysHistories(ctx, ctx.N(140, 5000), 36, map[string]bool{"refresh": true, "implicit": true, "jwtbearer": true},
			map[string]int{"authorize": 12, "callback": 4, "par": 1, "code": 14, "refresh": 10, "cc": 5, "jwtbearer": 5, "query": 40, "tick": 8, "bc": 2, "poll": 3, "notify": 1}, 40, []string{"copy", "alias"}, "c05")
		ctx.Meta.Rule = "issuance (opaque and JWT, all grant types), refresh, revocation by owning or other client, code replay, ticks, then presentation of exact, jti-only and forged terms (truncated, extended, re-signed, alg none, edited, other issuer, non-canonical signature) at /introspect, /userinfo, TokenInfo and TokenInfoFromRequest; distinct by projected trace; non-trivial = at least one accepted and one refused operation"
		ctx.writeSysCases("mon_C05", true)
		ctx.writeCasesJSON()
	}})
	histSuite("c02", "mon_C02", "authorization requests (GET and POST; plain and pushed) over redirect_uri variants (exact, prefix/suffix/case/port/scheme/userinfo/percent-encoding variations, pushed-unregistered URIs replayed in plain requests, outer/inner disagreement, absent) crossed with error-producing parameters, response modes and policy outcomes; sequences with pushed unregistered redirect URIs followed by ordinary requests",
		140, 5000, 34, map[string]bool{"par": true, "implicit": true},
		map[string]int{"authorize": 34, "callback": 16, "par": 16, "code": 6, "refresh": 1, "cc": 1, "query": 3, "tick": 5, "bc": 1, "poll": 1, "notify": 1}, 45, scenarioRedirectMatrix, scenarioPushedUnregisteredRedirect)
	histSuite("c03", "mon_C03x", "scenario matrix: every PKCE configuration (off, each method alone, both with either default, required) x challenge forms (method named S256 / plain, method left out with the challenge made for S256 / for plain, none) x verifiers (pre-image, the challenge string itself, wrong, too short, absent), direct and through a pushed request; then interleaved authorizations for several clients/users, redemptions by the right or another client with right/wrong/absent redirect_uri and code_verifier (both methods, method named or left to the server's default), ticks across the 60 s code lifetime, replays, then uses of the resulting tokens",
		120, 4000, 34, map[string]bool{"pkce": true, "refresh": true},
		map[string]int{"authorize": 20, "callback": 8, "par": 3, "code": 26, "refresh": 8, "cc": 1, "query": 18, "tick": 8, "bc": 1, "poll": 1, "notify": 1}, 35, scenarioPkceMatrix, scenarioRedirectMatrix, scenarioEmptyCode)
	register(&Suite{Name: "c10near", Run: func(ctx *RunCtx) {
		// refreshes inside the last access-token lifetime before the absolute expiry of the grant, then
		// just past it: the expiry must not have moved, the token must be refused and the grant removed
		for i := 0; i < ctx.N(12, 200); i++ {
			fl := []string{"copy", "alias"}[i%2]
			life, tl := pick(ctx.R, []int{200, 400}), pick(ctx.R, []int{40, 80})
			opts := []Opt{{Name: "WithScopes", Scopes: serverScopes}, {Name: "WithAuthorizationCodeGrant"},
				{Name: "WithRefreshTokenGrant", Z: life}, {Name: "WithTokenIntrospection"}, {Name: "WithTokenLifetime", Z: tl}}
			if i%4 >= 2 {
				opts = append(opts, Opt{Name: "WithRefreshTokenRotation"})
			}
			g, err := NewSysGen(ctx.R, WorldSpec{Profile: "openid", Flavour: fl, Static: baseClients(ctx.R), Opts: opts})
			if err != nil {
				panic(err)
			}
			p := Params{Redirect: "https://c2.example/cb", RespType: "code", Scopes: "openid email", State: "st-1"}
			nav := g.do(Op{Kind: "Authorize", Client: 2, Params: p, PolicyAvail: true, Pol: Pol{Kind: "PolSuccess", Sub: "alice", Granted: "openid email"}})
			tok := g.do(Op{Kind: "Token", Grant: "authorization_code", Cred: Cred{ID: 2, OK: true}, Code: nav.NCode, Redirect: p.Redirect, HG: "HgOk", BA: "BaApprove"})
			rt := tok.Rt
			intro := func() {
				g.do(Op{Kind: "Introspect", Cred: Cred{ID: 2, OK: true}, Tok: PTok{Kind: "PExact", H: rt}, Allowed: true})
			}
			refresh := func() {
				o := g.do(Op{Kind: "Token", Grant: "refresh_token", Cred: Cred{ID: 2, OK: true}, Refresh: rt, HG: "HgOk", BA: "BaApprove"})
				if o.Kind == "Tokens" && o.Rt != 0 {
					rt = o.Rt
				}
			}
			intro()
			g.doTick(life - tl + 5 + ctx.R.Intn(tl-15)) // inside the last token lifetime
			refresh()
			intro()
			if ctx.R.Intn(2) == 0 {
				g.doTick(4)
				refresh()
				intro()
			}
			g.doTick(tl/2 + 12) // past the absolute expiry, still inside the new access token's lifetime
			refresh()
			intro()
			refresh()
			ctx.AddCase(g.Case(fmt.Sprintf("scenario:refresh-near-expiry#%d/%s", i, fl)))
			ctx.AddStats(g.stats)
		}
		ctx.Meta.Rule = "scenario: refresh inside the last access-token lifetime before the grant's absolute expiry, then past it; distinct by projected trace"
		ctx.writeSysCases("mon_C10x", true)
		ctx.writeCasesJSON()
	}})
	histSuite("c10", "mon_C10xd", "refresh chains of 1-30 refreshes with requested sub/supersets, by the owning or another client, ticks up to and beyond the grant lifetime, rotation on and off, grants from authorization_code, CIBA and jwt-bearer; introspection of refresh tokens",
		100, 4000, 40, map[string]bool{"refresh": true, "ciba": true, "jwtbearer": true, "authd": true},
		map[string]int{"authorize": 10, "callback": 4, "par": 1, "code": 12, "refresh": 34, "cc": 1, "jwtbearer": 5, "query": 16, "tick": 9, "bc": 5, "poll": 7, "notify": 1}, 30, scenarioRotationPolicy, scenarioGrantedSubset, scenarioExpiredGrantRemoved, scenarioReturnToFullGrant, scenarioAuthDetailsMatrix, scenarioCibaNarrowedAtApproval)
	histSuite("c16", "mon_C16", "CIBA histories over poll/ping/push clients with user code, scripted embedder decisions (pending, slow down, approve, deny, error), polls by the initiating or another client, ticks across the request lifetime, success/failure notifications through the provider API",
		120, 4000, 34, map[string]bool{"ciba": true, "refresh": true},
		map[string]int{"authorize": 2, "callback": 1, "par": 1, "code": 2, "refresh": 5, "cc": 1, "query": 10, "tick": 9, "bc": 24, "poll": 30, "notify": 14}, 30, scenarioCibaDenialEnds, scenarioCibaLifetime, scenarioCibaNarrowedAtApproval)
	histSuite("c17", "mon_C17", "interleavings of several users' and clients' interactive flows with multi-step policies (succeed, fail, abandoned), ticks across the session timeout, stale/foreign/unknown callback ids, flows started from pushed requests",
		120, 4000, 36, map[string]bool{"par": true},
		map[string]int{"authorize": 26, "callback": 30, "par": 10, "code": 8, "refresh": 2, "cc": 1, "query": 8, "tick": 9, "bc": 1, "poll": 1, "notify": 1}, 30, scenarioSessionDeadline, scenarioBlankCallback, scenarioPushedFlowInProgress)
	histSuite("c04flow", "mon_C04xd", "scenario matrices: the jwt-bearer grant (every client kind incl. no client identification at all x client authentication required or not x credential right / wrong x assertion accepted / refused / absent x scopes inside / outside the registration, resources, then introspection, userinfo and refresh of every token issued); clients with aligned and NOT aligned grant_types / response_types (hybrid response types without implicit, implicit without its response types, code response type without authorization_code) x every response type x servers with both grants / code only / implicit only, direct and pushed, every code redeemed; then histories over all grant types (the same clients included) with requested scope sub/supersets, refresh chains, introspection and userinfo of every token",
		80, 3000, 36, map[string]bool{"refresh": true, "implicit": true, "misaligned": true, "jwtbearer": true, "authd": true},
		map[string]int{"authorize": 14, "callback": 6, "par": 3, "code": 16, "refresh": 18, "cc": 8, "jwtbearer": 9, "query": 20, "tick": 3, "bc": 4, "poll": 6, "notify": 2}, 30, scenarioGrantTypeMatrix, scenarioGrantedSubset, scenarioJwtBearerMatrix, scenarioAuthDetailsMatrix, scenarioCibaNarrowedAtApproval)
}
