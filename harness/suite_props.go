package main

// Per-property history suites: the same online generator, aimed (by weights, deviation rate and
// wanted features) at the guards each property is about.  The case files evaluate the
// correspondence and the property's monitor (Corr/Monitors.v) on the implementation's trace.

func histSuite(name, monitor, rule string, quick, thorough, nops int, want map[string]bool, weights map[string]int, dev int) {
	register(&Suite{Name: name, Run: func(ctx *RunCtx) {
		runSysHistories(ctx, ctx.N(quick, thorough), nops, want, weights, dev, []string{"copy", "alias"}, name)
		ctx.Meta.Rule = rule + "; distinct by projected trace; non-trivial = at least one accepted and one refused operation"
		ctx.writeSysCases(monitor, true)
		ctx.writeCasesJSON()
	}})
}

func init() {
	histSuite("c04flow", "mon_C04", "histories over all grant types with requested scope sub/supersets, refresh chains, introspection and userinfo of every token",
		80, 3000, 36, map[string]bool{"refresh": true, "implicit": true},
		map[string]int{"authorize": 14, "callback": 6, "par": 3, "code": 16, "refresh": 18, "cc": 8, "query": 20, "tick": 3, "bc": 4, "poll": 6, "notify": 2}, 30)
}
