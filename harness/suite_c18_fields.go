package main

// Suite c18, fifth part - one directed history per life-time field the handlers write on a loaded
// session or grant (DESIGN Appendix B), in which a LATER request's answer depends on the written value:
// a write that is made after the Save (or never saved) then shows as a difference between the aliasing
// and the copying storage.
//   initAuthnSession      CallbackID, PolicyID, ExpiresAtTimestamp      -> callback after a step, callback after the session timeout
//   authorizeAuthnSession AuthCode, ExpiresAtTimestamp, CallbackID = "" -> redemption, redemption after the code lifetime, callback after completion
//   updateRefreshTokenGrantSession TokenID, LastTokenExpiresAtTimestamp, RefreshToken
//                                                                       -> introspection of the previous and of the new access token after
//                                                                          the previous one's lifetime, refresh after the grant's lifetime
// (thumbprints: c18PopCorpus; active scopes / grant info: corpus:refresh-refused and the read-only corpus;
//  client metadata and secrets written by dcr.update: c18AuthnCorpus)
// The clock only moves by Tick, far from every boundary.  Model's op type only: cases for the model too.

import (
	"fmt"
	"math/rand"
)

func c18FieldsCorpus(r *rand.Rand) []c18History {
	var out []c18History
	pol := Pol{Kind: "PolSuccess", Sub: "alice", Granted: "openid email"}
	step := Pol{Kind: "PolInProgress"}
	for _, dynamic := range []bool{false, true} {
		for _, rotation := range []bool{false, true} {
			opts := []Opt{{Name: "WithScopes", Scopes: serverScopes}, {Name: "WithAuthorizationCodeGrant"}, {Name: "WithRefreshTokenGrant", Z: 1000},
				{Name: "WithTokenIntrospection"}, {Name: "WithTokenLifetime", Z: 300}, {Name: "WithAuthenticationSessionTimeout", Z: 500}}
			if rotation {
				opts = append(opts, Opt{Name: "WithRefreshTokenRotation"})
			}
			spec := WorldSpec{Profile: "openid", Opts: opts}
			if dynamic {
				spec.Dyn = baseClients(r)
			} else {
				spec.Static = baseClients(r)
			}
			for _, client := range []int{1, 2} { // opaque and JWT access tokens
				atKind := KAtOpaque
				if client == 2 {
					atKind = KAtJwt
				}
				cred := Cred{ID: client, OK: true}
				redirect := fmt.Sprintf("https://c%d.example/cb", client)
				p := Params{Redirect: redirect, RespType: "code", Scopes: "openid email", State: "st"}
				sp := spec
				sp.Flavour = "alias"
				gw, err := NewWorld(sp)
				if err != nil {
					panic(err)
				}
				var ops []Op
				add := func(o Op) (int, Obs) {
					gw.step = len(ops)
					ops = append(ops, o)
					return len(ops) - 1, c18ExecOp(gw, o)
				}
				tick := func(d int) { add(Op{Kind: "Tick", D: d}) }
				intro := func(h Handle) {
					add(Op{Kind: "Introspect", Cred: cred, Tok: PTok{Kind: "PExact", H: h}, Allowed: true})
				}
				a, _ := add(Op{Kind: "Authorize", Client: client, Params: p, PolicyAvail: true, Pol: step})
				tick(100)
				add(Op{Kind: "Callback", Cb: mint(a, KCallback), Pol: step})
				tick(100)
				c, _ := add(Op{Kind: "Callback", Cb: mint(a, KCallback), Pol: pol})
				add(Op{Kind: "Callback", Cb: mint(a, KCallback), Pol: pol}) // the flow is over
				tick(30)
				t, obs := add(Op{Kind: "Token", Grant: "authorization_code", Cred: cred, Code: mint(c, KCode), Redirect: redirect, HG: "HgOk", BA: "BaApprove"})
				rt, at1 := obs.Rt, mint(t, atKind)
				tick(200)
				t2, obs := add(Op{Kind: "Token", Grant: "refresh_token", Cred: cred, Refresh: rt, HG: "HgOk", BA: "BaApprove"})
				if obs.Kind == "Tokens" && obs.Rt != 0 {
					rt = obs.Rt
				}
				at2 := mint(t2, atKind)
				intro(at1)
				intro(at2)
				tick(200) // the first access token is over, the second is not
				intro(at1)
				intro(at2)
				intro(rt)
				add(Op{Kind: "UserInfo", Tok: PTok{Kind: "PExact", H: at2}, HasHeader: true})
				add(Op{Kind: "TokenInfo", Tok: PTok{Kind: "PExact", H: at2}})
				tick(200) // now both are
				intro(at2)
				t3, obs := add(Op{Kind: "Token", Grant: "refresh_token", Cred: cred, Refresh: rt, HG: "HgOk", BA: "BaApprove"})
				if obs.Kind == "Tokens" && obs.Rt != 0 {
					rt = obs.Rt
				}
				intro(mint(t3, atKind))
				tick(700) // the grant is 1100 s old: over
				intro(rt)
				add(Op{Kind: "Token", Grant: "refresh_token", Cred: cred, Refresh: rt, HG: "HgOk", BA: "BaApprove"})
				intro(rt)
				// a session that times out at the login page, a code that is redeemed too late
				a2, _ := add(Op{Kind: "Authorize", Client: client, Params: p, PolicyAvail: true, Pol: step})
				tick(300)
				add(Op{Kind: "Callback", Cb: mint(a2, KCallback), Pol: step})
				tick(300)
				add(Op{Kind: "Callback", Cb: mint(a2, KCallback), Pol: pol})
				a3, _ := add(Op{Kind: "Authorize", Client: client, Params: p, PolicyAvail: true, Pol: pol})
				tick(200)
				add(Op{Kind: "Token", Grant: "authorization_code", Cred: cred, Code: mint(a3, KCode), Redirect: redirect, HG: "HgOk", BA: "BaApprove"})
				a4, _ := add(Op{Kind: "Authorize", Client: client, Params: p, PolicyAvail: true, Pol: pol})
				tick(20)
				add(Op{Kind: "Token", Grant: "authorization_code", Cred: cred, Code: mint(a4, KCode), Redirect: redirect, HG: "HgOk", BA: "BaApprove"})
				out = append(out, c18History{Note: fmt.Sprintf("corpus:fields:lifetimes/%s/rotation=%v/client=%d",
					map[bool]string{false: "static-clients", true: "stored-clients"}[dynamic], rotation, client), Spec: spec, Ops: ops})
			}
		}
	}
	return out
}

// Generator dimension for the confirmation of a grant: the random cross-endpoint walks of suite c06
// (gen_c06.go cross: PAR -> authorize -> token -> userinfo / TokenInfoFromRequest -> refresh with the
// same, another or no key / certificate -> introspection -> userinfo) over its fifteen binding modes,
// for public and confidential clients, replayed under the four executions.
func c18GeneratePop(r *rand.Rand, k int) c18History {
	m := c06Modes[k%len(c06Modes)]
	gen := c18Execs[(k/len(c06Modes))%len(c18Execs)]
	// (without the jwt-bearer grant of c06's worlds: a world with that grant resets the package-level anonymous
	// client when it is created - jwtb_anon.go - and the four executions of many histories run in parallel)
	spec := c06Spec(r, m, "", gen.Flavour, "openid")
	var opts []Opt
	for _, o := range spec.Opts {
		if o.Name != "WithJWTBearerGrant" && o.Name != "WithJWTBearerGrantClientAuthnRequired" {
			opts = append(opts, o)
		}
	}
	spec.Opts = opts
	for i := range spec.Static {
		var gs []string
		for _, g := range spec.Static[i].Grants {
			if g != jwtBearerGrant {
				gs = append(gs, g)
			}
		}
		spec.Static[i].Grants = gs
	}
	g, err := NewSysGen(r, spec)
	if err != nil {
		panic(err)
	}
	g.DevRate = 0
	h := &c06Hist{g: g, m: m, mtls: specHas(spec, "WithMTLS")}
	note := h.cross(r, func(string) {})
	// a second flow in the same world, and a look at everything afterwards
	note += " | " + h.cross(r, func(string) {})
	spec = h.g.W.Spec
	spec.Flavour, spec.FreshPer = "", false
	return c18History{Note: fmt.Sprintf("pop#%d/mode=%s/generated-under:%s %s", k, m.Name, gen.Flavour, note), Spec: spec, Ops: h.g.Ops, Extra: h.g.W.extraTargets}
}
