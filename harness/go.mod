module github.com/luikyv/go-oidc/verifharness

go 1.22.0

require (
	github.com/go-jose/go-jose/v4 v4.0.4
	github.com/google/uuid v1.6.0
	github.com/luikyv/go-oidc v0.0.0
	golang.org/x/crypto v0.29.0
)

require github.com/google/go-cmp v0.6.0 // indirect

replace github.com/luikyv/go-oidc => /repo
