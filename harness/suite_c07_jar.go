package main

// C07: Go mirrors of coq/Model/Jar.v (request object records, JAR configuration), their Gallina
// printers, the rendering of a request-object record to concrete bytes (signed with the client's
// keys through go-jose, optionally wrapped in a JWE for the server's encryption key), and the
// execution of the three JAR-aware operations against the real provider.

import (
	"crypto/ecdsa"
	"crypto/elliptic"
	"crypto/rand"
	"crypto/rsa"
	"encoding/base64"
	"encoding/json"
	"fmt"
	"io"
	"net/http"
	"net/http/httptest"
	"net/url"
	"strings"
	"time"

	"github.com/go-jose/go-jose/v4"
	"github.com/luikyv/go-oidc/pkg/goidc"
	"github.com/luikyv/go-oidc/pkg/provider"
)

// ---- keys ----
type jkey struct {
	H    Handle
	Kid  Handle
	Alg  string // AES256 | AES384
	Priv *ecdsa.PrivateKey
}

var jkeyTab map[Handle]*jkey
var srvEncKey, foreignEncKey *rsa.PrivateKey

const (
	keyForeign256 Handle = 599
	keyForeign384 Handle = 598
	kidUnknown    Handle = 699
)

func clientKey(client, idx int) Handle { return Handle(500 + 10*client + idx) } // idx 1: P-256, 2: P-384
func kidOf(key Handle) Handle        { return key + 100 }
func kidString(k Handle) string      { return fmt.Sprintf("kid-%d", uint64(k)) }

func initJarKeys() {
	if jkeyTab != nil {
		return
	}
	jkeyTab = map[Handle]*jkey{}
	mk := func(h Handle, alg string) {
		curve := elliptic.P256()
		if alg == "AES384" {
			curve = elliptic.P384()
		}
		k, err := ecdsa.GenerateKey(curve, rand.Reader)
		if err != nil {
			panic(err)
		}
		jkeyTab[h] = &jkey{H: h, Kid: kidOf(h), Alg: alg, Priv: k}
	}
	for _, c := range []int{1, 2, 5} {
		mk(clientKey(c, 1), "AES256")
		mk(clientKey(c, 2), "AES384")
	}
	mk(keyForeign256, "AES256")
	mk(keyForeign384, "AES384")
	var err error
	if srvEncKey, err = rsa.GenerateKey(rand.Reader, 2048); err != nil {
		panic(err)
	}
	if foreignEncKey, err = rsa.GenerateKey(rand.Reader, 2048); err != nil {
		panic(err)
	}
}

var algJose = map[string]jose.SignatureAlgorithm{"AES256": jose.ES256, "AES384": jose.ES384, "ARS256": jose.RS256, "APS256": jose.PS256, "ANone": "none"}

// ---- mirrors of Jar.v ----
type JWK struct {
	Kid Handle
	Alg string
	Key Handle
}

func (j JWK) coq() string { return fmt.Sprintf("(mkJwk %s %s %s)", cN(j.Kid), j.Alg, cN(j.Key)) }

type JCfg struct {
	Algs     []string
	Enc      bool
	CibaAlgs []string
	Leeway   int
}

func (c JCfg) coq() string {
	id := func(s string) string { return s }
	return fmt.Sprintf("(mkJCfg %s %s %s %s)", cList(c.Algs, id), cB(c.Enc), cList(c.CibaAlgs, id), cZ(c.Leeway))
}

type JClient struct {
	ID      int
	Keys    []JWK
	JarAlg  string
	CibaAlg string
}

func jOptAlg(s string) string {
	if s == "" {
		return "None"
	}
	return "(Some " + s + ")"
}
func (c JClient) coq() string {
	return fmt.Sprintf("(%d, mkJClient %s %s %s)", c.ID, cList(c.Keys, JWK.coq), jOptAlg(c.JarAlg), jOptAlg(c.CibaAlg))
}

type RO struct {
	Enc       string // EncNone | EncOk | EncBad
	Sig       string // SigEmpty | SigBy | SigInvalid
	SigKey    Handle
	Alg       string
	Kid       Handle
	Iss       int
	Aud       []string // members of "aud", constructors of Jar.v's `audience` (AudIssuer, AudToken, ...); empty = absent
	AudForm   string   `json:",omitempty"` // rendering only: "" absent when empty, else a JSON array | string: the first member as a plain string | array: always an array
	EncHow    string `json:",omitempty"` // rendering only, for EncBad: "" another key | keyalg | contentalg | nokid (server key otherwise)
	Exp       *int
	Nbf       *int
	Iat       *int
	Jti       bool
	ClientID  int
	NestedReq bool
	NestedURI bool
	Params    Params
}

func jOptZ(p *int) string {
	if p == nil {
		return "None"
	}
	return "(Some " + cZ(*p) + ")"
}

func (o RO) coq() string {
	sig := o.Sig
	if o.Sig == "SigBy" {
		sig = "(SigBy " + cN(o.SigKey) + ")"
	}
	return fmt.Sprintf("(mkRO %s %s %s %s %d %s %s %s %s %s %d %s %s %s)", o.Enc, sig, o.Alg, cN(o.Kid), o.Iss, cList(o.Aud, func(a string) string { return a }),
		jOptZ(o.Exp), jOptZ(o.Nbf), jOptZ(o.Iat), cB(o.Jti), o.ClientID, cB(o.NestedReq), cB(o.NestedURI), o.Params.coq())
}
// does the object name the URL of the request that delivers it among its audiences?
func (o *RO) namesRequestURL() bool {
	if o == nil {
		return false
	}
	for _, a := range o.Aud {
		if a == "AudRequestURL" || a == "AudMtlsRequestURL" {
			return true
		}
	}
	return false
}

func optRO(o *RO) string {
	if o == nil {
		return "None"
	}
	return "(Some " + o.coq() + ")"
}

// a JAR-aware operation
type JOp struct {
	Kind     string // JAuthorize | JPar | JBc | Base
	Base     Op     // Authorize / Par / BcAuthorize fields, or the whole base operation
	Jar      string // "" | value | ref   (JAuthorize); "" | value (JPar, JBc)
	Obj      *RO
	RefHTTPS bool
	Note     string
	Cell     string `json:",omitempty"` // the cell of the deviation matrix this operation covers (meta.json)
}

func (o JOp) coq() string {
	switch o.Kind {
	case "JAuthorize":
		jin := "JNone"
		switch o.Jar {
		case "value":
			jin = "(JValue " + o.Obj.coq() + ")"
		case "ref":
			jin = fmt.Sprintf("(JRef %s %s)", cB(o.RefHTTPS), optRO(o.Obj))
		}
		b := o.Base
		return fmt.Sprintf("JAuthorize (mkJAReq (mkAReq %d %s %s %s) %s)", b.Client, b.Params.coq(), cB(b.PolicyAvail), b.Pol.coq(), jin)
	case "JPar":
		b := o.Base
		return fmt.Sprintf("JPar (mkPReq %s %s %s) %s", b.Cred.coq(), b.Params.coq(), b.Bind.coq(), optRO(o.Obj))
	case "JBc":
		b := o.Base
		return fmt.Sprintf("JBc (mkBReq %s %s %s %s %s %s %s %s) %s", b.Cred.coq(), b.Params.coq(), b.Bind.coq(), cB(b.InitOK), cS(b.Sub), cS(b.Granted), cList(b.GrantedRes, cS), cList(b.GrantedDetails, Detail.coq), optRO(o.Obj))
	}
	return "JBase (" + o.Base.coq() + ")"
}

// observation: the projected response plus the parameters in effect for the session the response refers to
type JObs struct {
	Obs    Obs
	HasEff bool
	EffCl  int
	Eff    Params
}

func (o JObs) coq() string {
	eff := "None"
	if o.HasEff {
		eff = fmt.Sprintf("(Some (%d, %s))", o.EffCl, o.Eff.coq())
	}
	return fmt.Sprintf("JObs (%s) %s", o.Obs.coq(), eff)
}

type JCase struct {
	Profile string
	Opts    []Opt
	JCfg    JCfg
	Static  []ClientSpec
	JCl     []JClient
	Ops     []JOp
	Obs     []JObs
	Note    string
}

func (c JCase) coq() string {
	prof := map[string]string{"openid": "POpenID", "fapi1": "PFapi1", "fapi2": "PFapi2"}[c.Profile]
	var b strings.Builder
	fmt.Fprintf(&b, "(mkJCase %s\n  %s\n  %s\n  %s\n  %s\n  [", prof, cList(c.Opts, Opt.coq), c.JCfg.coq(), cList(c.Static, ClientSpec.coq), cList(c.JCl, JClient.coq))
	for i, o := range c.Ops {
		if i > 0 {
			b.WriteString(";\n   ")
		}
		b.WriteString(o.coq())
	}
	b.WriteString("]\n  [")
	for i, o := range c.Obs {
		if i > 0 {
			b.WriteString(";\n   ")
		}
		b.WriteString(o.coq())
	}
	b.WriteString("])")
	return b.String()
}

// ---- the world ----
type JWorld struct {
	W    *World
	JCfg JCfg
	JCl  []JClient
	refs map[string]string // request_uri -> body served by the client's host
	nref int
	reqURI string // RequestURI of the request that delivers the object being rendered
}

func NewJWorld(spec WorldSpec, jc JCfg, jcl []JClient) (*JWorld, error) {
	initJarKeys()
	jw := &JWorld{JCfg: jc, JCl: jcl, refs: map[string]string{}}
	sigs := func(l []string) (goidc.SignatureAlgorithm, []goidc.SignatureAlgorithm) {
		var out []goidc.SignatureAlgorithm
		for _, a := range l {
			out = append(out, goidc.SignatureAlgorithm(algJose[a]))
		}
		return out[0], out[1:]
	}
	extraProviderOpts = func(w *World) []provider.ProviderOption {
		var opts []provider.ProviderOption
		has := func(n string) bool {
			for _, o := range spec.Opts {
				if o.Name == n {
					return true
				}
			}
			return false
		}
		// the generic world enables JAR with ES256 only: the algorithm lists are set again here
		if len(jc.Algs) > 0 && (has("WithJAR") || has("WithJARRequired")) {
			a, rest := sigs(jc.Algs)
			opts = append(opts, provider.WithJAR(a, rest...))
		}
		if len(jc.CibaAlgs) > 0 && (has("WithCIBAJAR") || has("WithCIBAJARRequired")) {
			a, rest := sigs(jc.CibaAlgs)
			opts = append(opts, provider.WithCIBAJAR(a, rest...))
		}
		if jc.Enc {
			opts = append(opts, provider.WithJAREncryption(goidc.RSA_OAEP_256))
		}
		if jc.Leeway != 0 {
			opts = append(opts, provider.WithJWTLeewayTime(jc.Leeway))
		}
		return opts
	}
	defer func() { extraProviderOpts = nil }()
	w, err := NewWorld(spec)
	if err != nil {
		return nil, err
	}
	jw.W = w
	w.srvKeys.Keys = append(w.srvKeys.Keys, goidc.JSONWebKey{Key: srvEncKey, KeyID: "srv-enc", Algorithm: string(goidc.RSA_OAEP_256), Use: "enc"})
	for _, c := range jcl {
		gc := w.clients[c.ID]
		if gc == nil {
			continue
		}
		var set jose.JSONWebKeySet
		for _, k := range c.Keys {
			jk := jkeyTab[k.Key]
			set.Keys = append(set.Keys, jose.JSONWebKey{Key: &jk.Priv.PublicKey, KeyID: kidString(k.Kid), Algorithm: string(algJose[k.Alg]), Use: "sig"})
		}
		if len(set.Keys) > 0 {
			raw, _ := json.Marshal(set)
			gc.PublicJWKS = raw
		}
		if c.JarAlg != "" {
			gc.JARSigAlg = goidc.SignatureAlgorithm(algJose[c.JarAlg])
		}
		if c.CibaAlg != "" {
			gc.CIBAJARSigAlg = goidc.SignatureAlgorithm(algJose[c.CibaAlg])
		}
	}
	return jw, nil
}

// ---- rendering a request object ----
func (jw *JWorld) claims(o *RO) map[string]any {
	w := jw.W
	now := time.Now().Unix()
	m := map[string]any{}
	switch {
	case o.Iss == 0:
	case o.Iss > 9:
		m["iss"] = "https://not-a-client.example"
	default:
		m["iss"] = clientName(o.Iss)
	}
	var auds []string
	for _, a := range o.Aud {
		auds = append(auds, jw.audString(a, o))
	}
	switch {
	case o.AudForm == "string" && len(auds) > 0:
		m["aud"] = auds[0]
	case o.AudForm == "array" && len(auds) == 0:
		m["aud"] = []string{}
	case len(auds) > 0:
		m["aud"] = auds
	}
	if o.Exp != nil {
		m["exp"] = now + int64(*o.Exp)
	}
	if o.Nbf != nil {
		m["nbf"] = now + int64(*o.Nbf)
	}
	if o.Iat != nil {
		m["iat"] = now + int64(*o.Iat)
	}
	if o.Jti {
		m["jti"] = fmt.Sprintf("jti-%d-%d", w.step, time.Now().UnixNano())
	}
	if o.ClientID != 0 {
		m["client_id"] = clientName(o.ClientID)
	}
	if o.NestedReq {
		m["request"] = "eyJhbGciOiJFUzI1NiJ9.e30.c2ln"
	}
	if o.NestedURI {
		m["request_uri"] = "https://c1.example/nested.jwt"
	}
	v := url.Values{}
	o.Params.values(w, v)
	for k := range v {
		if k == "request_uri" {
			continue
		}
		m[k] = v.Get(k)
	}
	return m
}

// the concrete value of an abstract audience member (Jar.v `audience`); jw.reqURI is the RequestURI of the
// request that delivers the object (an object by value that names the request URL is sent by POST, whose
// RequestURI is the bare path)
const c07MTLSHost = "https://mtls.as.example" // what world.go passes to provider.WithMTLS

func (jw *JWorld) audString(a string, o *RO) string {
	pfx := jw.W.prefix()
	switch a {
	case "AudIssuer":
		return issuer
	case "AudIssuerSlash":
		return issuer + "/"
	case "AudIssuerCase":
		return strings.Replace(issuer, "as.example", "AS.example", 1)
	case "AudToken":
		return issuer + pfx + "/token"
	case "AudAuthorize":
		return issuer + pfx + "/authorize"
	case "AudPar":
		return issuer + pfx + "/par"
	case "AudBc":
		return issuer + pfx + "/bc-authorize"
	case "AudRequestURL":
		return issuer + jw.reqURI
	case "AudMtlsIssuer":
		return c07MTLSHost
	case "AudMtlsToken":
		return c07MTLSHost + pfx + "/token"
	case "AudMtlsRequestURL":
		return c07MTLSHost + jw.reqURI
	case "AudClient":
		if o.ClientID != 0 {
			return clientName(o.ClientID)
		}
		return clientName(1)
	case "AudForeign":
		return "https://other.example"
	}
	panic("audience " + a)
}

func jB64(b []byte) string { return base64.RawURLEncoding.EncodeToString(b) }

func (jw *JWorld) render(o *RO) string {
	claims := jw.claims(o)
	payload, _ := json.Marshal(claims)
	hdr := map[string]any{"alg": string(algJose[o.Alg]), "typ": "JWT"}
	if o.Kid != 0 {
		hdr["kid"] = kidString(o.Kid)
	}
	var compact string
	switch o.Sig {
	case "SigEmpty":
		h, _ := json.Marshal(hdr)
		compact = jB64(h) + "." + jB64(payload) + "."
	case "SigBy", "SigInvalid":
		key := jkeyTab[o.SigKey]
		if key == nil {
			key = jkeyTab[clientKey(1, 1)]
		}
		if o.Alg == "ANone" {
			// a "none" header over bytes in the signature segment
			h, _ := json.Marshal(hdr)
			compact = jB64(h) + "." + jB64(payload) + "." + jB64([]byte("not-a-signature"))
			break
		}
		so := (&jose.SignerOptions{}).WithType("JWT")
		if o.Kid != 0 {
			so = so.WithHeader("kid", kidString(o.Kid))
		}
		sg, err := jose.NewSigner(jose.SigningKey{Algorithm: algJose[o.Alg], Key: key.Priv}, so)
		if err != nil {
			panic(fmt.Sprintf("signer %s with key %d: %v", o.Alg, o.SigKey, err))
		}
		signed := payload
		if o.Sig == "SigInvalid" {
			// the signature was made over other claims; the payload shown is the edited one
			orig := map[string]any{}
			for k, v := range claims {
				orig[k] = v
			}
			orig["state"] = "state-before-the-edit"
			orig["scope"] = "openid"
			signed, _ = json.Marshal(orig)
		}
		jws, err := sg.Sign(signed)
		if err != nil {
			panic(err)
		}
		s, _ := jws.CompactSerialize()
		if o.Sig == "SigInvalid" {
			parts := strings.Split(s, ".")
			s = parts[0] + "." + jB64(payload) + "." + parts[2]
		}
		compact = s
	default:
		panic("sig " + o.Sig)
	}
	switch o.Enc {
	case "EncOk", "EncBad":
		pub := &srvEncKey.PublicKey
		keyAlg, contentAlg, kid := jose.RSA_OAEP_256, jose.A128CBC_HS256, "srv-enc"
		if o.Enc == "EncBad" {
			// a JWE the server must not open: made for another key, or for the right key with an
			// algorithm that is not enabled, or without the kid that names the key
			switch o.EncHow {
			case "keyalg":
				keyAlg = jose.RSA_OAEP
			case "contentalg":
				contentAlg = jose.A256GCM
			case "nokid":
				kid = ""
			default:
				pub = &foreignEncKey.PublicKey
			}
		}
		enc, err := jose.NewEncrypter(contentAlg, jose.Recipient{Algorithm: keyAlg, Key: pub, KeyID: kid},
			(&jose.EncrypterOptions{}).WithType("jwt").WithContentType("jwt"))
		if err != nil {
			panic(err)
		}
		e, err := enc.Encrypt([]byte(compact))
		if err != nil {
			panic(err)
		}
		s, _ := e.CompactSerialize()
		return s
	}
	return compact
}

// ---- execution ----
func (jw *JWorld) Exec(step int, o JOp) JObs {
	w := jw.W
	w.step = step
	w.Stores.BeginRequest(nil, -1)
	w.notifs = nil
	w.curCert = nil
	pfx := w.prefix()
	var obs Obs
	switch o.Kind {
	case "Base":
		obs = w.ExecWith(o.Base)
	case "JAuthorize":
		b := o.Base
		w.polAvail, w.pol = b.PolicyAvail, b.Pol
		v := url.Values{}
		if b.Client != 0 {
			v.Set("client_id", clientName(b.Client))
		}
		b.Params.values(w, v)
		switch o.Jar {
		case "value":
			jw.reqURI = pfx + "/authorize"
			v.Set("request", jw.render(o.Obj))
		case "ref":
			jw.nref++
			scheme := "https"
			if !o.RefHTTPS {
				scheme = "http"
			}
			u := fmt.Sprintf("%s://c%d.example/ro/%d.jwt", scheme, b.Client, jw.nref)
			v.Set("request_uri", u)
			jw.reqURI = pfx + "/authorize?" + v.Encode() // exactly what ctx.Request.RequestURI will be
			if o.Obj != nil {
				jw.refs[u] = jw.render(o.Obj)
			}
		}
		extraRoundTrip = func(_ *World, r *http.Request) *http.Response {
			if body, ok := jw.refs[r.URL.String()]; ok {
				return &http.Response{StatusCode: 200, Body: io.NopCloser(strings.NewReader(body)), Header: http.Header{}}
			}
			return nil
		}
		var rec *httptest.ResponseRecorder
		var pan any
		if o.Jar == "value" && o.Obj.namesRequestURL() {
			// an object by value cannot name the URL of a GET request that contains it: sent by POST, whose
			// RequestURI is the bare path the object names (the method is not modelled: it must not matter)
			rec, pan = w.serve("POST", pfx+"/authorize", v, nil)
		} else {
			rec, pan = w.serve("GET", pfx+"/authorize?"+v.Encode(), nil, nil)
		}
		extraRoundTrip = nil
		obs = w.absAuthorize(rec, pan)
	case "JPar":
		b := o.Base
		v := url.Values{}
		w.applyCred(b.Cred, v)
		b.Params.values(w, v)
		if o.Jar == "value" {
			jw.reqURI = pfx + "/par"
			v.Set("request", jw.render(o.Obj))
		}
		hdr := http.Header{}
		w.applyBind(b.Bind, hdr, "POST", pfx+"/par")
		rec, pan := w.serve("POST", pfx+"/par", v, hdr)
		obs = w.absJSON(rec, pan, "par")
	case "JBc":
		b := o.Base
		v := url.Values{}
		w.applyCred(b.Cred, v)
		b.Params.values(w, v)
		if o.Jar == "value" {
			jw.reqURI = pfx + "/bc-authorize"
			v.Set("request", jw.render(o.Obj))
		}
		w.initOK, w.initSub, w.initGr = b.InitOK, b.Sub, b.Granted
		hdr := http.Header{}
		w.applyBind(b.Bind, hdr, "POST", pfx+"/bc-authorize")
		rec, pan := w.serve("POST", pfx+"/bc-authorize", v, hdr)
		obs = w.absJSON(rec, pan, "ciba")
	default:
		panic("jop kind " + o.Kind)
	}
	if obs.Kind == "Nav" && obs.Target == "/" {
		// an error "redirected" to an empty redirect_uri: net/http resolves the bare "?..." / "#..." against
		// the request path; the base target is the empty string
		obs.Target = ""
	}
	return jw.peek(obs)
}

// peek: the parameters in effect for the session the response refers to (by callback id, code,
// request_uri or auth_req_id), read from the harness-owned storage
func (jw *JWorld) peek(obs Obs) JObs {
	w := jw.W
	out := JObs{Obs: obs}
	var h Handle
	var field string
	switch obs.Kind {
	case "Page":
		h, field = obs.H, "cb"
	case "Nav":
		h, field = obs.NCode, "code"
	case "Par":
		h, field = obs.H, "par"
	case "Ciba":
		h, field = obs.H, "ciba"
	}
	if h == 0 {
		return out
	}
	s := w.h2str[h]
	for _, as := range w.Stores.AuthnSessions() {
		var got string
		switch field {
		case "cb":
			got = as.CallbackID
		case "code":
			got = as.AuthCode
		case "par":
			got = as.PushedAuthReqID
		case "ciba":
			got = as.CIBAAuthID
		}
		if got != s || s == "" {
			continue
		}
		out.HasEff = true
		out.EffCl = clientNum(as.ClientID)
		p := as.AuthorizationParameters
		out.Eff = Params{Redirect: p.RedirectURI, RespMode: string(p.ResponseMode), RespType: string(p.ResponseType), Scopes: p.Scopes,
			State: p.State, Nonce: p.Nonce, Method: string(p.CodeChallengeMethod), LoginHint: p.LoginHint, UserCode: p.UserCode}
		break
	}
	return out
}
