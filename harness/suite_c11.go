package main

// C11: every `required` switch (and its enabled-only variant with a client that requires the
// mechanism itself) alone and in pairs, under each profile, against a fixed list of bypass probes:
// mechanism omitted, the non-required variant, outer request only, a broken proof.  The same
// operations are evaluated by the model (Required.run_g); the monitor (Corr/C11.v mon_C11) flags an
// artifact obtained by a request that lacks a mechanism the configuration requires.

import (
	"fmt"
)

type c11Switch struct {
	Name string
	Opts []Opt
}

func c11Switches() []c11Switch {
	pk := []string{"plain"}
	return []c11Switch{
		{"par-required", []Opt{{Name: "WithPARRequired", Z: 60}}},
		{"par+client", []Opt{{Name: "WithPAR", Z: 60}}},
		{"jar-required", []Opt{{Name: "WithJARRequired"}}},
		{"jar+client", []Opt{{Name: "WithJAR"}}},
		{"ciba-jar-required", []Opt{{Name: "WithCIBAJARRequired"}}},
		{"pkce-required", []Opt{{Name: "WithPKCERequired", S: "S256", L: pk}}},
		{"pkce+public", []Opt{{Name: "WithPKCE", S: "S256", L: pk}}},
		// one enabled method only: the other one is a disabled method, also when the request leaves the method out
		{"pkce-required/S256-only", []Opt{{Name: "WithPKCERequired", S: "S256"}}},
		{"pkce+public/S256-only", []Opt{{Name: "WithPKCE", S: "S256"}}},
		{"pkce-required/plain-default", []Opt{{Name: "WithPKCERequired", S: "plain", L: []string{"S256"}}}},
		{"dpop-required", []Opt{{Name: "WithDPoPRequired"}}},
		{"dpop+client", []Opt{{Name: "WithDPoP"}}},
		{"tls-required", []Opt{{Name: "WithTLSCertTokenBindingRequired"}}},
		{"tls+client", []Opt{{Name: "WithTLSCertTokenBinding"}}},
		{"binding-required/dpop", []Opt{{Name: "WithTokenBindingRequired"}, {Name: "WithDPoP"}}},
		{"binding-required/tls", []Opt{{Name: "WithTokenBindingRequired"}, {Name: "WithTLSCertTokenBinding"}}},
		{"openid-required", []Opt{{Name: "WithOpenIDScopeRequired"}}},
		{"resource-required", []Opt{{Name: "WithResourceIndicatorsRequired", S: "https://rs.example"}}},
		{"jwt-bearer-authn-required", []Opt{{Name: "WithJWTBearerGrantClientAuthnRequired"}}},
		{"jarm", []Opt{{Name: "WithJARM"}}},
		{"prefix+dpop-required", []Opt{{Name: "WithPathPrefix", S: "/auth"}, {Name: "WithDPoPRequired"}}},
	}
}

func c11Base() []Opt {
	return []Opt{{Name: "WithScopes", Scopes: serverScopes}, {Name: "WithAuthorizationCodeGrant"}, {Name: "WithImplicitGrant"},
		{Name: "WithClientCredentialsGrant"}, {Name: "WithRefreshTokenGrant", Z: 600}, {Name: "WithCIBAGrant"}, {Name: "WithMTLS"}}
}

func c11Clients(opts []Opt) []ClientSpec {
	allResp := []string{"code", "token", "id_token", "id_token token", "code id_token", "code token", "code id_token token"}
	ciba := "urn:openid:params:grant-type:ciba"
	cs := []ClientSpec{
		{ID: 1, Grants: []string{"authorization_code", "refresh_token", "client_credentials", "implicit"}, RespTypes: allResp,
			Redirects: []string{"https://c1.example/cb"}, Scopes: "openid email"},
		{ID: 2, Grants: []string{"authorization_code", "refresh_token", "client_credentials", "implicit"}, RespTypes: []string{"code", "code id_token"},
			Redirects: []string{"https://c2.example/cb"}, Scopes: "openid email", ParReq: true, JarReq: true, DpopReq: true, TLSReq: true},
		{ID: 3, Public: true, Grants: []string{"authorization_code", "refresh_token", "implicit"}, RespTypes: allResp,
			Redirects: []string{"https://c3.example/cb"}, Scopes: "openid email"},
		{ID: 5, Grants: []string{ciba, "refresh_token"}, Scopes: "openid email", CibaMode: "poll"},
		{ID: 7, Grants: []string{ciba}, Scopes: "openid email", CibaMode: "push", JWT: true},
	}
	return trimClients(opts, cs)
}

func c11Probes(w *World) *probeRun {
	p := &probeRun{W: w}
	opts := w.Spec.Opts
	profile := w.Spec.Profile
	goodRT := "code"
	if profile == "fapi1" {
		goodRT = "code id_token"
	}
	good := func(client int, rt string) Params {
		ps := Params{Redirect: fmt.Sprintf("https://c%d.example/cb", client), RespType: rt, Scopes: "openid email", State: "st-1", Nonce: "n-1"}
		if d := pkceDefault(opts); d != "" {
			ps.Challenge, ps.Method = challengeFor(d)
		}
		return ps
	}
	verifier := PK{}
	if pkceDefault(opts) != "" {
		verifier = verifierPK()
	}
	pol := Pol{Kind: "PolSuccess", Sub: "alice", Granted: "openid email"}
	none := Bind{}
	dp := func() Bind { return Bind{Dpop: cfgValidProof(w, 0)} }
	cert := Bind{Cert: w.certs[0].H}
	both := func() Bind { return Bind{Dpop: cfgValidProof(w, 0), Cert: w.certs[0].H} }
	badProof := func() Bind { pr := cfgValidProof(w, 0); pr.HtmOK = false; return Bind{Dpop: pr} }

	authorize := func(client int, ps Params) Obs {
		return p.do(Op{Kind: "Authorize", Client: client, Params: ps, PolicyAvail: true, Pol: pol})
	}
	redeemV := func(client int, a Obs, b Bind, v PK) Obs {
		if a.Kind != "Nav" || a.NCode == 0 {
			return Obs{}
		}
		return p.do(Op{Kind: "Token", Grant: "authorization_code", Cred: Cred{ID: client, OK: true}, Code: a.NCode,
			Redirect: fmt.Sprintf("https://c%d.example/cb", client), Verifier: v, Bind: b})
	}
	redeem := func(client int, a Obs, b Bind) Obs { return redeemV(client, a, b, verifier) }
	var refreshTok Handle
	for _, x := range []int{1, 2, 3} {
		t := redeem(x, authorize(x, good(x, goodRT)), none)
		if x == 1 && t.Kind == "Tokens" {
			refreshTok = t.Rt
		}
		if x == 3 && t.Kind == "Tokens" && t.Rt != 0 {
			p.do(Op{Kind: "Token", Grant: "refresh_token", Cred: Cred{ID: 3, OK: true}, Refresh: t.Rt})
		}
		if pkceDefault(opts) != "" {
			ps := good(x, goodRT)
			ps.Challenge, ps.Method = PK{}, ""
			authorize(x, ps)
		}
		ps := good(x, goodRT)
		ps.Scopes = "email"
		authorize(x, ps)
		// the mechanism omitted entirely: no scope parameter at all
		ps = good(x, goodRT)
		ps.Scopes = ""
		redeem(x, authorize(x, ps), none)
	}
	// PKCE downgrades: the method left out (the server's default applies) or named, the challenge made for
	// S256 or verbatim, redeemed with the pre-image, with the challenge string itself, with a wrong
	// verifier, with none
	if pkceDefault(opts) != "" {
		v := verifierPK()
		forms := []struct {
			ch PK
			m  string
		}{{PK{Kind: 2, Inner: &v}, ""}, {v, ""}, {PK{Kind: 2, Inner: &v}, "S256"}, {v, "plain"}}
		for _, x := range []int{1, 3} {
			for _, f := range forms {
				for _, vf := range []PK{v, f.ch, {Kind: 1, N: 9, LenOK: true}, {}} {
					ps := good(x, goodRT)
					ps.Challenge, ps.Method = f.ch, f.m
					a := authorize(x, ps)
					if a.Kind != "Nav" || a.NCode == 0 {
						break
					}
					redeemV(x, a, none, vf)
				}
			}
		}
	}
	// client 1: downgrade attempts on response type, mode, nonce, implicit binding
	authorize(1, good(1, "token"))
	{
		ps := good(1, "token")
		ps.DpopJkt = w.keys[0].H
		authorize(1, ps)
	}
	authorize(1, good(1, "code"))
	{
		ps := good(1, "code")
		ps.RespMode = "jwt"
		authorize(1, ps)
	}
	authorize(1, good(1, "code token"))
	authorize(1, good(1, "code id_token"))
	{
		ps := good(1, goodRT)
		ps.Nonce = ""
		authorize(1, ps)
	}
	// pushed requests: plain, and with a DPoP key bound at PAR
	for _, x := range []int{1, 2} {
		pr := p.do(Op{Kind: "Par", Cred: Cred{ID: x, OK: true}, Params: good(x, goodRT)})
		if pr.Kind == "Par" {
			a := authorize(x, Params{RequestURI: pr.H, RespType: goodRT, Scopes: "openid email"})
			redeem(x, a, none)
		}
		pr2 := p.do(Op{Kind: "Par", Cred: Cred{ID: x, OK: true}, Params: good(x, goodRT), Bind: dp()})
		if pr2.Kind == "Par" {
			a := authorize(x, Params{RequestURI: pr2.H, RespType: goodRT, Scopes: "openid email"})
			redeem(x, a, both())
		}
	}
	// pushed requests that leave a mechanism out of BOTH the pushed and the outer parameters (scope,
	// code_challenge), or carry it in the outer parameters only; a pushed challenge without method
	// redeemed with the challenge string itself
	for _, x := range []int{1, 3} {
		type variant struct {
			name  string
			inner func(*Params)
			outer Params
		}
		vs := []variant{
			{"scope nowhere", func(ps *Params) { ps.Scopes = "" }, Params{RespType: goodRT}},
			{"scope outside only", func(ps *Params) { ps.Scopes = "" }, Params{RespType: goodRT, Scopes: "openid email"}},
			{"openid outside only", func(ps *Params) { ps.Scopes = "email" }, Params{RespType: goodRT, Scopes: "openid email"}},
			{"challenge nowhere", func(ps *Params) { ps.Challenge, ps.Method = PK{}, "" }, Params{RespType: goodRT, Scopes: "openid email"}},
		}
		for _, vr := range vs {
			ps := good(x, goodRT)
			vr.inner(&ps)
			pr := p.do(Op{Kind: "Par", Cred: Cred{ID: x, OK: true}, Params: ps})
			if pr.Kind == "Par" {
				o := vr.outer
				o.RequestURI = pr.H
				redeem(x, authorize(x, o), none)
			}
		}
		if pkceDefault(opts) != "" {
			v := verifierPK()
			for _, ch := range []PK{v, {Kind: 2, Inner: &v}} {
				for _, vf := range []PK{ch, v} {
					ps := good(x, goodRT)
					ps.Challenge, ps.Method = ch, ""
					pr := p.do(Op{Kind: "Par", Cred: Cred{ID: x, OK: true}, Params: ps})
					if pr.Kind == "Par" {
						redeemV(x, authorize(x, Params{RequestURI: pr.H, RespType: goodRT, Scopes: "openid email"}), none, vf)
					}
				}
			}
		}
	}
	// client credentials under every binding variant
	for _, x := range []int{1, 2} {
		for _, b := range []Bind{none, dp(), cert, both(), badProof()} {
			p.do(Op{Kind: "Token", Grant: "client_credentials", Cred: Cred{ID: x, OK: true}, Bind: b})
		}
	}
	// code redemption under the binding variants
	for _, b := range []Bind{dp(), cert, both()} {
		t := redeem(1, authorize(1, good(1, goodRT)), b)
		if refreshTok == 0 && t.Kind == "Tokens" {
			refreshTok = t.Rt
		}
	}
	if refreshTok != 0 {
		p.do(Op{Kind: "Token", Grant: "refresh_token", Cred: Cred{ID: 1, OK: true}, Refresh: refreshTok})
		p.do(Op{Kind: "Token", Grant: "refresh_token", Cred: Cred{ID: 1, OK: true}, Refresh: refreshTok, Bind: dp()})
	}
	// CIBA: poll client, push client
	bc := func(client int, scopes string, b Bind, tok Handle) Obs {
		return p.do(Op{Kind: "BcAuthorize", Cred: Cred{ID: client, OK: true}, Params: Params{Scopes: scopes, LoginHint: "alice", NotifToken: tok},
			Bind: b, InitOK: true, Sub: "alice", Granted: scopes})
	}
	bc(5, "email", none, 0)
	bc(5, "", none, 0) // no scope parameter at all
	for _, b := range []Bind{none, dp(), cert} {
		o := bc(5, "openid email", none, 0)
		if o.Kind == "Ciba" {
			p.do(Op{Kind: "Token", Grant: "urn:openid:params:grant-type:ciba", Cred: Cred{ID: 5, OK: true}, AuthReq: o.H, Bind: b})
		}
	}
	for i, b := range []Bind{none, dp(), cert} {
		o := bc(7, "openid email", b, unknownBase+5000+Handle(i))
		if o.Kind == "Ciba" {
			p.do(Op{Kind: "NotifyOk", AuthReq: o.H})
		}
	}
	// sessions whose request_uri is already consumed are stored (an interaction in progress started from a
	// pushed request; a finished one holding its code): a plain request - no request_uri at all - must not pick
	// one of them up where PAR is required
	for _, x := range []int{1, 2} {
		pr := p.do(Op{Kind: "Par", Cred: Cred{ID: x, OK: true}, Params: good(x, goodRT)})
		if pr.Kind == "Par" {
			p.do(Op{Kind: "Authorize", Client: x, Params: Params{RequestURI: pr.H, RespType: goodRT, Scopes: "openid email"}, PolicyAvail: true, Pol: Pol{Kind: "PolInProgress"}})
			authorize(x, good(x, goodRT))
			authorize(x, Params{RespType: goodRT, Scopes: "openid email"})
			authorize(x, Params{})
		}
	}
	// the implicit flow with the response type ONLY inside the pushed request (no openid scope, so nothing
	// forces the outer parameters to repeat it) and no DPoP key announced: under DPoP / binding required the
	// authorization endpoint must not hand out an unbound token
	for _, x := range []int{1, 3} {
		for _, rt := range []string{"token", "code token"} {
			ps := good(x, rt)
			ps.Scopes, ps.Nonce = "email", ""
			pr := p.do(Op{Kind: "Par", Cred: Cred{ID: x, OK: true}, Params: ps})
			if pr.Kind == "Par" {
				authorize(x, Params{RequestURI: pr.H})
			}
			ps.DpopJkt = w.keys[0].H
			pr = p.do(Op{Kind: "Par", Cred: Cred{ID: x, OK: true}, Params: ps})
			if pr.Kind == "Par" {
				authorize(x, Params{RequestURI: pr.H})
			}
		}
	}
	return p
}

func init() {
	register(&Suite{Name: "c11", Run: func(ctx *RunCtx) {
		sw := c11Switches()
		type cfg struct {
			profile string
			opts    []Opt
			note    string
		}
		var cfgs []cfg
		mk := func(profile string, idx ...int) cfg {
			opts := c11Base()
			note := ""
			for _, i := range idx {
				opts = append(opts, sw[i].Opts...)
				note += sw[i].Name + " "
			}
			return cfg{profile, opts, note}
		}
		for _, prof := range []string{"openid", "fapi1", "fapi2"} {
			cfgs = append(cfgs, mk(prof))
			for i := range sw {
				cfgs = append(cfgs, mk(prof, i))
			}
		}
		var pairs [][2]int
		for i := range sw {
			for j := i + 1; j < len(sw); j++ {
				pairs = append(pairs, [2]int{i, j})
			}
		}
		ctx.R.Shuffle(len(pairs), func(i, j int) { pairs[i], pairs[j] = pairs[j], pairs[i] })
		nOpen, nFapi := ctx.N(70, len(pairs)), ctx.N(20, len(pairs))
		for k, pr := range pairs {
			if k < nOpen {
				cfgs = append(cfgs, mk("openid", pr[0], pr[1]))
			}
			if k < nFapi {
				cfgs = append(cfgs, mk("fapi1", pr[1], pr[0]))
				cfgs = append(cfgs, mk("fapi2", pr[0], pr[1]))
			}
		}
		if !ctx.Quick() {
			// triples
			for k := 0; k < 600; k++ {
				a, b, c := ctx.R.Intn(len(sw)), ctx.R.Intn(len(sw)), ctx.R.Intn(len(sw))
				cfgs = append(cfgs, mk(pick(ctx.R, []string{"openid", "fapi1", "fapi2"}), a, b, c))
			}
		}
		for _, c := range cfgs {
			spec := WorldSpec{Profile: c.profile, Opts: c.opts, Static: c11Clients(c.opts), Flavour: "copy"}
			w, err := NewWorld(spec)
			if err != nil {
				ctx.Meta.Dist["config-refused-by-provider.New"]++
				continue
			}
			pr := c11Probes(w)
			for i, o := range pr.Obs {
				k := "refused"
				if obtained(o) || (o.Kind == "Notified" && len(o.Notifs) > 0 && o.Notifs[0].At != 0) {
					k = "obtained"
				}
				ctx.Meta.Dist[pr.Ops[i].Kind+" "+k]++
			}
			ctx.AddCase(pr.syscase(c.profile + " " + c.note))
		}
		ctx.Meta.Rule = "every required switch (and the enabled-only variant with a client that requires the mechanism) alone under the three profiles, random pairs (quick: 70 openid + 20 per FAPI profile; thorough: all pairs and 600 triples), x ~60 bypass probes; distinct by projected trace; non-trivial = at least one artifact obtained and one refusal"
		ctx.writeSysCasesWith(c11HeaderEff, "check_case_g", "mon_C11e", true)
		ctx.writeCasesJSON()
	}})
}

const c11HeaderEff = `From Verif Require Import Base Scope Types Prog Pop Token Authorize System Config Required Run Monitors.
From Verif.Corr Require Import C11 C11Eff.
Local Open Scope N_scope.
`
