package main

// C06 suites.
//   c06dev  : the proof / certificate deviation catalogue x entry points x configuration modes;
//   c06flow : cross-endpoint histories PAR -> authorize -> token -> userinfo -> refresh.
// Each case file evaluates check_case (model = implementation?) and mon_C06 (Corr/C06.v) on the
// implementation's observations.

import (
	"fmt"
	"os"
	"path/filepath"
	"strings"
)

const c06Header = `From Verif Require Import Base Scope Types Prog Pop Token Authorize System Config Run Monitors.
Require Import Verif.Corr.C06.
Local Open Scope N_scope.
`

// the syscase printer of main.go (150 cases per file) with this property's header (its monitor lives
// in Corr/C06.v)
func (c *RunCtx) writeC06Cases(monitor string) {
	tmp := c.Meta.Files
	c.writeSysCases(monitor, true)
	// rewrite the files just written with the extended header
	for _, name := range c.Meta.Files[len(tmp):] {
		p := filepath.Join(c.Out, name)
		b, err := os.ReadFile(p)
		if err != nil {
			panic(err)
		}
		s := strings.Replace(string(b), caseHeader, c06Header, 1)
		if err := os.WriteFile(p, []byte(s), 0o644); err != nil {
			panic(err)
		}
	}
}

// how many operations of a history met the antecedent of each theorem (evidence: an implication no
// generated history exercises would be visible)
func c06Antecedents(ctx *RunCtx, h *c06Hist) {
	for i, o := range h.g.Ops {
		x := h.g.Obs[i]
		switch {
		case o.Kind == "Token" && x.Kind == "Tokens":
			ctx.Meta.Dist["antecedent:token_issued/"+o.Grant]++
			if x.Dpop {
				ctx.Meta.Dist["antecedent:token_issued_dpop_bound"]++
			}
			if h.m.Dpop == 2 || h.m.TLS == 2 || h.m.BindReq || h.m.CDpop && h.m.Dpop > 0 || h.m.CTLS && h.m.TLS > 0 {
				ctx.Meta.Dist["antecedent:token_issued_under_a_requirement"]++
			}
		case (o.Kind == "UserInfo" && x.Kind == "UserInfo") || (o.Kind == "TokenInfoReq" && x.Kind == "Intro" && x.Active):
			ctx.Meta.Dist["antecedent:token_use_accepted"]++
		case o.Kind == "Introspect" && x.Kind == "Intro" && x.Active:
			if x.Jkt != 0 {
				ctx.Meta.Dist["antecedent:cnf_jkt_reported"]++
			}
			if x.X5t != 0 {
				ctx.Meta.Dist["antecedent:cnf_x5t_reported"]++
			}
		case o.Kind == "Par" && x.Kind == "Par" && (o.Bind.Dpop != nil || o.Bind.Cert != 0 || o.Params.DpopJkt != 0):
			ctx.Meta.Dist["antecedent:binding_announced_at_par"]++
		case o.Kind == "Authorize" && x.Kind == "Nav" && x.NCode != 0 && o.Params.DpopJkt != 0:
			ctx.Meta.Dist["antecedent:dpop_jkt_announced_at_authorize"]++
		}
	}
}

func chunks[T any](l []T, n int) [][]T {
	var out [][]T
	for i := 0; i < len(l); i += n {
		j := i + n
		if j > len(l) {
			j = len(l)
		}
		out = append(out, l[i:j])
	}
	return out
}

func devNames(ds []c06Dev) string {
	var s []string
	for _, d := range ds {
		s = append(s, d.Name)
	}
	return strings.Join(s, ",")
}

type c06Entry struct {
	Name string
	Run  func(h *c06Hist, devs []c06Dev, k int)
}

func c06Entries() []c06Entry {
	return []c06Entry{
		{"token/client_credentials", func(h *c06Hist, d []c06Dev, k int) { h.entryCC(d, []int{1, 2}[k%2]) }},
		{"token/jwt-bearer", func(h *c06Hist, d []c06Dev, k int) { h.entryJwtBearer(d, []int{1, 0}[k%2]) }},
		{"token/authorization_code", func(h *c06Hist, d []c06Dev, k int) { h.entryCode(d, []int{3, 1}[k%2], k%annCount) }},
		{"token/refresh_token(public)", func(h *c06Hist, d []c06Dev, k int) { h.entryRefresh(d, 3) }},
		{"token/refresh_token(confidential)", func(h *c06Hist, d []c06Dev, k int) { h.entryRefresh(d, []int{1, 2}[k%2]) }},
		{"token/ciba", func(h *c06Hist, d []c06Dev, k int) { h.entryCiba(d) }},
		{"par", func(h *c06Hist, d []c06Dev, k int) { h.entryPar(d, []int{1, 3}[k%2], k%3 == 0) }},
		{"userinfo/GET", func(h *c06Hist, d []c06Dev, k int) { h.entryUse(d, []int{3, 1}[k%2], "UserInfo", false, []int{annNone, annParProofCert, annAuthorizeJkt}[k%3]) }},
		{"userinfo/POST", func(h *c06Hist, d []c06Dev, k int) { h.entryUse(d, []int{1, 3}[k%2], "UserInfo", true, annNone) }},
		{"TokenInfoFromRequest", func(h *c06Hist, d []c06Dev, k int) { h.entryUse(d, []int{3, 1, 2}[k%3], "TokenInfoReq", false, annNone) }},
		{"bc-authorize(push)", func(h *c06Hist, d []c06Dev, k int) { h.entryBcPush(d) }},
		{"authorize(implicit)+userinfo", func(h *c06Hist, d []c06Dev, k int) { h.entryImplicit(d, []int{3, 1}[k%2], []int{annAuthorizeJkt, annParProof, annNone, annParJkt}[k%4]) }},
	}
}

func init() {
	register(&Suite{Name: "c06dev", Run: func(ctx *RunCtx) {
		cat := c06Catalogue()
		entries := c06Entries()
		per := ctx.N(9, 5)
		reps := ctx.N(1, 6)
		k := int(ctx.Seed)
		for rep := 0; rep < reps; rep++ {
			for mi, m := range c06Modes {
				for ei, e := range entries {
					for ci, ch := range chunks(cat, per) {
						k++
						prefix := ""
						if (mi+ei+ci+k)%4 == 0 {
							prefix = "/auth"
						}
						fl := []string{"copy", "alias"}[k%2]
						h := newC06Hist(ctx.R, m, prefix, fl)
						e.Run(h, ch, k)
						if len(h.g.Ops) == 0 {
							continue
						}
						ctx.AddCase(h.g.Case(fmt.Sprintf("c06dev mode=%s entry=%s prefix=%q deviations=%s /%s", m.Name, e.Name, prefix, devNames(ch), fl)))
						ctx.AddStats(h.g.stats)
						c06Antecedents(ctx, h)
						ctx.Meta.Dist["mode:"+m.Name]++
						ctx.Meta.Dist["entry:"+e.Name]++
					}
				}
			}
		}
		ctx.Meta.Rule = "every deviation of the catalogue (typ, alg, embedded jwk absent/private/other, signature, htm, 11 htu variants, iat stale/future/absent/old, jti, ath absent/other, two DPoP headers, no proof, certificate absent/other) presented at every entry point (token for 4 grants, PAR, userinfo GET/POST, TokenInfoFromRequest, bc-authorize push, implicit tokens) in every configuration mode (DPoP / certificate binding / both: optional, server-required, client-required, some-binding-required, off); distinct by projected trace; non-trivial = at least one accepted and one refused operation"
		ctx.writeC06Cases("mon_C06")
		ctx.writeCasesJSON()
	}})
	register(&Suite{Name: "c06flow", Run: func(ctx *RunCtx) {
		// part 1: the announcement matrix (gen_c06.go), every row in the mode where only the announcement
		// asks for a proof / certificate and in one more mode (quick: rotating with the seed; thorough: all),
		// the pushed rows also under a FAPI profile, where outer parameters must be ignored
		rows := c06AnnMatrix()
		seed := int(ctx.Seed)
		if seed < 0 {
			seed = -seed
		}
		nh := 0
		for ri, a := range rows {
			type pick struct {
				m       c06Mode
				profile string
			}
			var sel []pick
			if ctx.Quick() {
				sel = append(sel, pick{c06OptionalMode(a), "openid"}, pick{c06Modes[(ri*7+seed)%len(c06Modes)], "openid"})
				if a.Par && (ri+seed)%2 == 0 {
					sel = append(sel, pick{c06OptionalMode(a), "fapi2"})
				}
			} else {
				for _, m := range c06Modes {
					sel = append(sel, pick{m, "openid"})
					if a.Par {
						sel = append(sel, pick{m, "fapi2"})
					}
				}
			}
			for si, s := range sel {
				nh++
				prefix := ""
				if (ri+si+seed)%5 == 0 {
					prefix = "/auth"
				}
				fl := []string{"copy", "alias"}[nh%2]
				client := []int{3, 1, 2}[(ri+si+seed)%3]
				h := newC06HistP(ctx.R, s.m, prefix, fl, s.profile)
				h.matrixRow(ctx.R, a, client, func(row string) { ctx.Meta.Dist["matrix:"+row]++ })
				ctx.AddCase(h.g.Case(fmt.Sprintf("c06flow/matrix#%d row=%s mode=%s profile=%s client=%d prefix=%q /%s", nh, a, s.m.Name, s.profile, client, prefix, fl)))
				ctx.AddStats(h.g.stats)
				c06Antecedents(ctx, h)
				ctx.Meta.Dist["mode:"+s.m.Name]++
				ctx.Meta.Dist["profile:"+s.profile]++
			}
		}
		// the CIBA rows: accompaniment of /bc-authorize x push / poll, under DPoP, certificate binding and both
		for ci, at := range []c06Acc{{0, 0}, {c06K1, 0}, {0, c06C1}, {c06K1, c06C1}} {
			for pi, push := range []bool{true, false} {
				ms := []c06Mode{c06OptionalMode(c06Ann{ParProof: at.Key, ParCert: at.Cert}), c06Modes[(ci*7+pi*3+seed)%len(c06Modes)]}
				if !ctx.Quick() {
					ms = c06Modes
				}
				for _, m := range ms {
					nh++
					fl := []string{"copy", "alias"}[nh%2]
					h := newC06HistP(ctx.R, m, "", fl, "openid")
					h.cibaRow(ctx.R, push, at, func(row string) { ctx.Meta.Dist["matrix:"+row]++ })
					ctx.AddCase(h.g.Case(fmt.Sprintf("c06flow/matrix#%d ciba push=%v bc-authorize[%s] mode=%s /%s", nh, push, at, m.Name, fl)))
					ctx.AddStats(h.g.stats)
					c06Antecedents(ctx, h)
					ctx.Meta.Dist["mode:"+m.Name]++
				}
			}
		}
		ctx.Meta.Dist["matrix-histories"] = nh
		// part 2: random walks over the same space, continued through userinfo and refresh
		n := ctx.N(90, 4000)
		for i := 0; i < n; i++ {
			m := c06Modes[ctx.R.Intn(len(c06Modes))]
			prefix := ""
			if ctx.R.Intn(4) == 0 {
				prefix = "/auth"
			}
			fl := []string{"copy", "alias"}[i%2]
			profile := "openid"
			if ctx.R.Intn(6) == 0 {
				profile = "fapi2"
			}
			h := newC06HistP(ctx.R, m, prefix, fl, profile)
			note := h.cross(ctx.R, func(shape string) { ctx.Meta.Dist["random-announcement:"+shape]++ })
			ctx.AddCase(h.g.Case(fmt.Sprintf("c06flow#%d mode=%s profile=%s prefix=%q %s /%s", i, m.Name, profile, prefix, note, fl)))
			ctx.AddStats(h.g.stats)
			c06Antecedents(ctx, h)
			ctx.Meta.Dist["mode:"+m.Name]++
			ctx.Meta.Dist["profile:"+profile]++
		}
		ctx.Meta.Rule = "(1) announcement matrix: every combination of the channels a binding is announced through - /authorize with dpop_jkt in {none, K1, K2}; /par with a DPoP header in {none, K1} x dpop_jkt in {none, K1, K2} x certificate in {none, C1} followed by /authorize?request_uri with an outer dpop_jkt in {none, K1, K2} (agreeing, disagreeing, absent) - each run in the mode where only the announcement demands a proof and in a second mode, pushed rows also under FAPI (outer parameters ignored), GET and POST; per row the code is redeemed with a proof for K1 / K2 / an unannounced key / none and with certificate C1 / C2 / none, and a token issued by the authorization endpoint (implicit, hybrid) is presented at userinfo with each key; the covered (row, accompaniment, outcome) cells are listed under matrix: in input_distribution. (2) random cross-endpoint histories PAR -> authorize -> token -> userinfo / TokenInfoFromRequest -> refresh -> userinfo for public and confidential clients over the same announcement space, each later step with the right, another or no key / certificate; distinct by projected trace; non-trivial = at least one accepted and one refused operation"
		ctx.writeSysCasesWith(c06Header, "check_case", "mon_C06", true)
		ctx.writeCasesJSON()
	}})
}
