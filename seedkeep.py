#!/usr/bin/env python3
"""seedkeep.py <Pid> <i> <name> "<needs>" "<what>" : files a confirmed seeded change under seeded/<name>/
(patch.diff, the demonstration, meta.json) from /tmp/seedkeep/<Pid>/ and the log of seedtest.sh."""
import sys, os, shutil, json, re
pid, i, name, needs, what = sys.argv[1:6]
src = '%s/%s' % (os.environ.get('SEEDKEEP_SRC', '/tmp/seedkeep'), pid)
dst = os.path.join(os.path.dirname(os.path.abspath(__file__)), 'seeded', name)
os.makedirs(dst, exist_ok=True)
shutil.copyfile('%s/change%s.diff' % (src, i), dst + '/patch.diff')
shutil.copyfile('%s/demo%s_test.go' % (src, i), dst + '/demo_test.go')
log = open('%s/%s-%s.log' % (os.environ.get('SEEDKEEP_LOG', '/tmp/seedres'), pid, i)).read()
viol = re.findall(r'^VIOLATION.*$', log, re.M)
summ = re.findall(r'^property=.*$', log, re.M)
detail = [l.strip() for l in re.findall(r'^  .*$', log, re.M)][-3:]
meta = {
 'property': pid, 'what': what, 'needs_to_manifest': needs,
 'demonstration': 'demo_test.go: copy into pkg/provider/ (package provider_test), run `go test -vet=off -count=1 -run TestDemo%s ./pkg/provider/`; fails with patch.diff applied, passes without' % i,
 'confirmed_by': 'seedtest.sh %s <seed-out-dir>/%s %s: scratch worktree of /repo HEAD; demo passes without the patch; demo fails with it; `go build ./... && go test -vet=off -count=1 ./...` passes with it; then `VERIF_REPO=<worktree> ./check %s quick`' % (pid, pid, i, pid),
 'existing_suite_with_patch': 'passes' if not re.search(r'^(FAIL|---)', log.split('existing suite WITH the change')[1].split('== checks')[0], re.M) else 'FAILS',
 'checks_run': re.findall(r'^property=(C\d+)', log, re.M), 'check_summary': summ, 'check_detail': detail,
 'detected': bool(viol), 'violation_lines': viol,
 'detected_how': ('monitor on the implementation trace: concrete failing history' if viol and 'no-failing-input-found' not in viol[-1] else ('correspondence (model and code disagree), no failing input found' if viol else 'NOT DETECTED')),
}
try:
    prev = json.load(open(dst + '/meta.json'))
    hist = prev.get('earlier_runs', [])
    if prev.get('detected_how') != meta['detected_how'] or prev.get('violation_lines') != meta['violation_lines']:
        hist = hist + [{'detected_how': prev.get('detected_how'), 'violation_lines': prev.get('violation_lines'), 'checks_run': prev.get('checks_run')}]
    if hist:
        meta['earlier_runs'] = hist
except FileNotFoundError:
    pass
json.dump(meta, open(dst + '/meta.json', 'w'), indent=1)
print(name, meta['detected_how'], meta['existing_suite_with_patch'])
