#!/bin/bash
# mutrevert.sh <commit> <check ids...> : runs the checks against a scratch worktree of /repo with <commit> reverted
C=$1; shift
WT=/tmp/wt/revert-$C
git -C /repo worktree remove --force $WT 2>/dev/null; rm -rf $WT
git -C /repo worktree add -q --detach $WT HEAD || exit 2
(cd $WT && git revert --no-commit $C >/dev/null 2>&1 || { echo "revert of $C does not apply cleanly"; })
cd /verif
for c in "$@"; do VERIF_REPO=$WT timeout 1200 ./check $c quick 2>&1 | grep -v "^KNOWN-FINDING" | tail -4; done
git -C /repo worktree remove --force $WT; rm -rf /verif/work/harness_*
