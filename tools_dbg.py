#!/usr/bin/env python3
"""dbg: show model vs implementation for one case: tools_dbg.py <workdir> <case index> [alias]"""
import sys, re, subprocess, json, os
wd, idx = sys.argv[1], int(sys.argv[2])
fn = 'model_trace_alias' if len(sys.argv) > 3 else 'model_trace'
src = None
for f in sorted(os.listdir(wd)):
    if f.startswith('cases_') and f.endswith('.v'):
        t = open(os.path.join(wd, f)).read()
        m = re.search(r'\(\*CASE %d\*\)\n(.*?)(?=\(\*CASE|\(\*END)' % idx, t, re.S)
        if m:
            src = t[:t.index('(*CASE')] + m.group(1)
            break
assert src, "case not found"
src += "\nDefinition mt := Eval vm_compute in %s c_%d.\nPrint mt.\nDefinition ob := Eval vm_compute in sc_obs c_%d.\nPrint ob.\nDefinition k := Eval vm_compute in check_case true c_%d. Print k.\n" % (fn, idx, idx, idx)
open('/tmp/dbg_case.v', 'w').write(src)
out = subprocess.run(['coqc', '-Q', '/verif/coq', 'Verif', '/tmp/dbg_case.v'], capture_output=True, text=True, cwd='/tmp')
txt = out.stdout + out.stderr
def items(name):
    m = re.search(name + r' =\s*\n?(.*?)\n\s*: list obs', txt, re.S)
    body = re.sub(r'\s+', ' ', m.group(1)).strip()
    assert body[0] == '[' and body[-1] == ']'
    body = body[1:-1]
    out, depth, cur = [], 0, ''
    instr = False
    for ch in body:
        if ch == '"': instr = not instr
        if not instr:
            if ch in '([{': depth += 1
            if ch in ')]}': depth -= 1
            if ch == ';' and depth == 0:
                out.append(cur.strip()); cur = ''; continue
        cur += ch
    if cur.strip(): out.append(cur.strip())
    return out
try:
    mt, ob = items('mt'), items('ob')
except Exception as e:
    print(txt[-3000:]); raise
k = int(re.search(r'k = (\d+)', txt).group(1))
cases = json.load(open(os.path.join(wd, 'cases.json')))
c = cases[idx]
print("note:", c['Note'], "first mismatch at op", k)
lo = max(0, k - 6)
ops_src = re.findall(r'\n\s+\[?(Op\w+ .*?)(?=;\n|\]\n)', m.group(1), re.S) if False else None
for i in range(lo, min(len(mt), k + 1)):
    print("--- op %d: %s" % (i + 1, json.dumps({kk: vv for kk, vv in c['Ops'][i].items() if vv not in (0, "", False, None) and not (isinstance(vv, dict) and not any(vv.values()))})))
    print("    model:", mt[i])
    print("    impl :", ob[i], "   [%s] %s" % (c['Obs'][i].get('Status'), c['Obs'][i].get('Raw', '')[:300]))
print("options:", [o['Name'] + (str(o.get('Z')) if o.get('Z') else '') for o in c['Spec']['Opts']])
