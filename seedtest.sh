#!/bin/bash
# seedtest.sh <Pid> <seed-out-dir> <i> [check-pids...]
# Confirms a seeded change: applies <dir>/change<i>.diff to a scratch worktree of /repo HEAD, runs the
# repository's test suite (must pass), the demonstration (must fail with the change, pass without), then
# runs the named checks (default: <Pid>) against the scratch worktree.  Leaves nothing behind.
set -u
export GOFLAGS=-mod=mod GOPROXY=off GOSUMDB=off GOTOOLCHAIN=local
PID=$1; DIR=$2; I=$3; shift 3; CHECKS=${*:-$PID}
WT=/tmp/wt/seedtest-$PID-$I
git -C /repo worktree remove --force $WT 2>/dev/null; rm -rf $WT
git -C /repo worktree add -q --detach $WT HEAD || exit 2
cd $WT
PKG=$(grep -o 'pkg/[a-z]*\|internal/[a-z]*' $DIR/README.md | head -1)
[ -n "${SEED_PKG:-}" ] && PKG=$SEED_PKG
echo "== demo package dir: $PKG"
cp $DIR/demo${I}_test.go $PKG/zz_demo${I}_test.go
echo "== demo WITHOUT the change (must pass)"
CGO_ENABLED=${SEED_CGO:-0} go test ${SEED_FLAGS:-} -vet=off -count=1 -run "${SEED_RUN:-Demo}" ./$PKG/ 2>&1 | tail -3
git apply $DIR/change$I.diff || { echo "PATCH DOES NOT APPLY"; }
echo "== demo WITH the change (must fail)"
CGO_ENABLED=${SEED_CGO:-0} go test ${SEED_FLAGS:-} -vet=off -count=1 -run "${SEED_RUN:-Demo}" ./$PKG/ 2>&1 | tail -5
rm -f $PKG/zz_demo${I}_test.go
echo "== existing suite WITH the change (must pass)"
go build ./... && go test -vet=off -count=1 ./... 2>&1 | grep -v "no test files" | grep -v "^ok" | head -5
echo "== checks against the changed tree"
cd /verif
for c in $CHECKS; do VERIF_REPO=$WT timeout 1200 ./check $c quick 2>&1 | grep -v "^KNOWN-FINDING" | tail -4; done
git -C /repo worktree remove --force $WT; rm -rf /verif/work/harness_*
