package verifprobe

import (
	"context"
	"encoding/json"
	"io"
	"net/http"
	"net/url"
	"strings"
	"testing"

	"github.com/luikyv/go-oidc/internal/storage"
	"github.com/luikyv/go-oidc/pkg/goidc"
	"github.com/luikyv/go-oidc/pkg/provider"
)

type capRT struct{ got *[]string }

func (c capRT) RoundTrip(r *http.Request) (*http.Response, error) {
	b, _ := io.ReadAll(r.Body)
	*c.got = append(*c.got, r.URL.String()+" "+r.Header.Get("Authorization")+" "+string(b))
	return &http.Response{StatusCode: 204, Body: io.NopCloser(strings.NewReader("")), Header: http.Header{}}, nil
}

// candidate (C16): push-mode tokens delivered after the auth request expired
func TestCIBAPushAfterExpiry(t *testing.T) {
	var got []string
	c := mkClient("c1", "s1", "https://good.example/cb")
	c.GrantTypes = append(c.GrantTypes, goidc.GrantCIBA)
	c.CIBATokenDeliveryMode = goidc.CIBATokenDeliveryModePush
	c.CIBANotificationEndpoint = "https://client.example/notify"
	as := storage.NewAuthnSessionManager()
	op, err := provider.New(goidc.ProfileOpenID, "https://as.example", serverJWKS(t),
		provider.WithIDTokenSignatureAlgs(goidc.ES256),
		provider.WithScopes(goidc.NewScope("scope1")),
		provider.WithAuthnSessionStorage(as),
		provider.WithCIBAGrant(func(_ context.Context, s *goidc.AuthnSession) error { s.SetUserID("alice"); s.GrantScopes(s.Scopes); return nil },
			func(context.Context, *goidc.AuthnSession) error { return nil },
			goidc.CIBATokenDeliveryModePush),
		provider.WithHTTPClientFunc(func(context.Context) *http.Client { return &http.Client{Transport: capRT{&got}} }),
		provider.WithTokenAuthnMethods(goidc.ClientAuthnSecretPost),
		provider.WithStaticClient(c))
	if err != nil {
		t.Fatal(err)
	}
	h := op.Handler()
	rec, _ := do(h, "POST", "/bc-authorize", url.Values{"client_id": {"c1"}, "client_secret": {"s1"}, "scope": {"openid scope1"}, "login_hint": {"alice"}, "client_notification_token": {"cnt-1"}}, nil)
	var r struct{ AuthReqID string `json:"auth_req_id"` }
	json.Unmarshal(rec.Body.Bytes(), &r)
	for _, s := range as.Sessions { // clock advance: age the stored session beyond its lifetime
		s.ExpiresAtTimestamp -= 3600
	}
	err = op.NotifyCIBASuccess(context.Background(), r.AuthReqID)
	t.Log("NotifyCIBASuccess on expired request:", err, "delivered:", got)
}

// candidate (C05): /revoke of an expired access token answers 200 and leaves the refresh token working
func TestRevokeExpiredAccessToken(t *testing.T) {
	c := mkClient("c1", "s1", "https://good.example/cb")
	gs := storage.NewGrantSessionManager()
	op, err := provider.New(goidc.ProfileOpenID, "https://as.example", serverJWKS(t),
		provider.WithIDTokenSignatureAlgs(goidc.ES256),
		provider.WithAuthorizationCodeGrant(), provider.WithScopes(goidc.NewScope("scope1")),
		provider.WithGrantSessionStorage(gs),
		provider.WithRefreshTokenGrant(func(*goidc.Client, goidc.GrantInfo) bool { return true }, 6000),
		provider.WithTokenAuthnMethods(goidc.ClientAuthnSecretPost),
		provider.WithTokenRevocation(func(*goidc.Client) bool { return true }, goidc.ClientAuthnSecretPost),
		provider.WithStaticClient(c), provider.WithPolicy(okPolicy()))
	if err != nil {
		t.Fatal(err)
	}
	h := op.Handler()
	rec, _ := do(h, "GET", "/authorize?client_id=c1&redirect_uri="+url.QueryEscape("https://good.example/cb")+"&response_type=code&scope=scope1", nil, nil)
	loc, _ := url.Parse(rec.Header().Get("Location"))
	rec, _ = do(h, "POST", "/token", url.Values{"client_id": {"c1"}, "client_secret": {"s1"}, "grant_type": {"authorization_code"}, "code": {loc.Query().Get("code")}, "redirect_uri": {"https://good.example/cb"}}, nil)
	var tr map[string]any
	json.Unmarshal(rec.Body.Bytes(), &tr)
	at, rt := tr["access_token"].(string), tr["refresh_token"].(string)
	for _, g := range gs.Sessions { // advance 400 s: access token (300 s) expired, grant (6000 s) alive
		g.LastTokenExpiresAtTimestamp -= 400
		g.ExpiresAtTimestamp -= 400
	}
	rec, _ = do(h, "POST", "/revoke", url.Values{"client_id": {"c1"}, "client_secret": {"s1"}, "token": {at}}, nil)
	t.Log("revoke expired access token:", rec.Code)
	rec, _ = do(h, "POST", "/token", url.Values{"client_id": {"c1"}, "client_secret": {"s1"}, "grant_type": {"refresh_token"}, "refresh_token": {rt}}, nil)
	t.Log("refresh after that 'successful' revocation:", rec.Code)
}
