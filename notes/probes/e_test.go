package verifprobe

import (
	"crypto/ecdsa"
	"crypto/elliptic"
	"crypto/rand"
	"net/url"
	"sync"
	"testing"
	"time"

	"github.com/go-jose/go-jose/v4"
	"github.com/go-jose/go-jose/v4/jwt"
	"github.com/luikyv/go-oidc/pkg/goidc"
	"github.com/luikyv/go-oidc/pkg/provider"
)

func dpopProof(t *testing.T, k *ecdsa.PrivateKey, htm, htu string) string {
	pub := jose.JSONWebKey{Key: &k.PublicKey}
	signer, err := jose.NewSigner(jose.SigningKey{Algorithm: jose.ES256, Key: k}, (&jose.SignerOptions{EmbedJWK: false}).WithType("dpop+jwt").WithHeader("jwk", pub))
	if err != nil {
		t.Fatal(err)
	}
	s, err := jwt.Signed(signer).Claims(map[string]any{"htm": htm, "htu": htu, "iat": time.Now().Unix(), "jti": time.Now().String()}).Serialize()
	if err != nil {
		t.Fatal(err)
	}
	return s
}

func TestDPoPPrefix(t *testing.T) {
	for _, prefix := range []string{"", "/auth"} {
		c := mkClient("c1", "s1", "https://good.example/cb")
		opts := []provider.ProviderOption{
			provider.WithIDTokenSignatureAlgs(goidc.ES256),
			provider.WithClientCredentialsGrant(), provider.WithScopes(goidc.NewScope("scope1")),
			provider.WithDPoP(goidc.ES256),
			provider.WithTokenAuthnMethods(goidc.ClientAuthnSecretPost),
			provider.WithStaticClient(c)}
		if prefix != "" {
			opts = append(opts, provider.WithPathPrefix(prefix))
		}
		op, err := provider.New(goidc.ProfileOpenID, "https://as.example", serverJWKS(t), opts...)
		if err != nil {
			t.Fatal(err)
		}
		h := op.Handler()
		k, _ := ecdsa.GenerateKey(elliptic.P256(), rand.Reader)
		proof := dpopProof(t, k, "POST", "https://as.example"+prefix+"/token")
		rec, _ := do(h, "POST", prefix+"/token", url.Values{"client_id": {"c1"}, "client_secret": {"s1"}, "grant_type": {"client_credentials"}, "scope": {"scope1"}}, map[string]string{"DPoP": proof})
		t.Log("prefix", prefix, "->", rec.Code, rec.Body.String())
	}
}

func TestRaceSmoke(t *testing.T) {
	c := mkClient("c1", "s1", "https://good.example/cb")
	op, _ := provider.New(goidc.ProfileOpenID, "https://as.example", serverJWKS(t),
		provider.WithIDTokenSignatureAlgs(goidc.ES256),
		provider.WithAuthorizationCodeGrant(), provider.WithScopes(goidc.NewScope("scope1")),
		provider.WithPAR(60), provider.WithUnregisteredRedirectURIsForPAR(),
		provider.WithTokenAuthnMethods(goidc.ClientAuthnSecretPost),
		provider.WithStaticClient(c), provider.WithPolicy(okPolicy()))
	h := op.Handler()
	var wg sync.WaitGroup
	for i := 0; i < 4; i++ {
		wg.Add(1)
		go func() {
			defer wg.Done()
			do(h, "POST", "/par", url.Values{"client_id": {"c1"}, "client_secret": {"s1"}, "redirect_uri": {"https://evil.example/cb"}, "response_type": {"code"}, "scope": {"scope1"}}, nil)
		}()
	}
	wg.Wait()
}
