package verifprobe

import (
	"bytes"
	"context"
	"encoding/json"
	"errors"
	"net/http"
	"net/http/httptest"
	"net/url"
	"sync"
	"testing"

	"github.com/luikyv/go-oidc/pkg/goidc"
	"github.com/luikyv/go-oidc/pkg/provider"
)

// JSON-copy stores: what a database-backed embedder would do.
type jstore[T any] struct {
	mu sync.Mutex
	m  map[string][]byte
}

func (s *jstore[T]) put(id string, v *T) error {
	b, err := json.Marshal(v)
	if err != nil {
		return err
	}
	s.mu.Lock()
	defer s.mu.Unlock()
	s.m[id] = b
	return nil
}
func (s *jstore[T]) find(pred func(*T) bool) (*T, error) {
	s.mu.Lock()
	defer s.mu.Unlock()
	for _, b := range s.m {
		var v T
		if err := json.Unmarshal(b, &v); err != nil {
			return nil, err
		}
		if pred(&v) {
			return &v, nil
		}
	}
	return nil, errors.New("not found")
}
func (s *jstore[T]) del(id string) { s.mu.Lock(); delete(s.m, id); s.mu.Unlock() }

type jClients struct{ jstore[goidc.Client] }

func (s *jClients) Save(_ context.Context, c *goidc.Client) error { return s.put(c.ID, c) }
func (s *jClients) Client(_ context.Context, id string) (*goidc.Client, error) {
	return s.find(func(c *goidc.Client) bool { return c.ID == id })
}
func (s *jClients) Delete(_ context.Context, id string) error { s.del(id); return nil }

type jAuthn struct{ jstore[goidc.AuthnSession] }

func (s *jAuthn) Save(_ context.Context, v *goidc.AuthnSession) error { return s.put(v.ID, v) }
func (s *jAuthn) SessionByCallbackID(_ context.Context, id string) (*goidc.AuthnSession, error) {
	return s.find(func(v *goidc.AuthnSession) bool { return v.CallbackID == id })
}
func (s *jAuthn) SessionByAuthCode(_ context.Context, id string) (*goidc.AuthnSession, error) {
	return s.find(func(v *goidc.AuthnSession) bool { return v.AuthCode == id })
}
func (s *jAuthn) SessionByPushedAuthReqID(_ context.Context, id string) (*goidc.AuthnSession, error) {
	return s.find(func(v *goidc.AuthnSession) bool { return v.PushedAuthReqID == id })
}
func (s *jAuthn) SessionByCIBAAuthID(_ context.Context, id string) (*goidc.AuthnSession, error) {
	return s.find(func(v *goidc.AuthnSession) bool { return v.CIBAAuthID == id })
}
func (s *jAuthn) Delete(_ context.Context, id string) error { s.del(id); return nil }

type jGrant struct{ jstore[goidc.GrantSession] }

func (s *jGrant) Save(_ context.Context, v *goidc.GrantSession) error { return s.put(v.ID, v) }
func (s *jGrant) SessionByTokenID(_ context.Context, id string) (*goidc.GrantSession, error) {
	return s.find(func(v *goidc.GrantSession) bool { return v.TokenID == id })
}
func (s *jGrant) SessionByRefreshToken(_ context.Context, id string) (*goidc.GrantSession, error) {
	return s.find(func(v *goidc.GrantSession) bool { return v.RefreshToken == id })
}
func (s *jGrant) Delete(_ context.Context, id string) error { s.del(id); return nil }
func (s *jGrant) DeleteByAuthorizationCode(_ context.Context, code string) error {
	g, err := s.find(func(v *goidc.GrantSession) bool { return v.AuthorizationCode == code })
	if err != nil {
		return nil
	}
	s.del(g.ID)
	return nil
}

func twoStepPolicy() goidc.AuthnPolicy {
	return goidc.NewPolicy("p2", func(*http.Request, *goidc.Client, *goidc.AuthnSession) bool { return true },
		func(w http.ResponseWriter, r *http.Request, s *goidc.AuthnSession) (goidc.AuthnStatus, error) {
			if s.StoredParameter("step") == nil {
				s.StoreParameter("step", 1)
				s.SetUserID("alice")
				w.WriteHeader(200)
				w.Write([]byte("login page cb=" + s.CallbackID))
				return goidc.StatusInProgress, nil
			}
			s.GrantScopes(s.Scopes)
			s.SetIDTokenClaimAMR(goidc.AMRPassword)
			s.SetUserInfoClaim("email", "a@example")
			return goidc.StatusSuccess, nil
		})
}

func TestFlowsUnderJSONCopyStore(t *testing.T) {
	for _, flavour := range []string{"default", "json-copy"} {
		c := mkClient("c1", "s1", "https://good.example/cb")
		c.GrantTypes = append(c.GrantTypes, goidc.GrantCIBA)
		c.CIBATokenDeliveryMode = goidc.CIBATokenDeliveryModePoll
		opts := []provider.ProviderOption{
			provider.WithIDTokenSignatureAlgs(goidc.ES256),
			provider.WithAuthorizationCodeGrant(), provider.WithScopes(goidc.NewScope("scope1")),
			provider.WithRefreshTokenGrant(func(*goidc.Client, goidc.GrantInfo) bool { return true }, 600), provider.WithRefreshTokenRotation(),
			provider.WithPAR(60), provider.WithDCR(nil, nil), provider.WithClientCredentialsGrant(),
			provider.WithCIBAGrant(func(_ context.Context, s *goidc.AuthnSession) error { s.SetUserID("bob"); s.GrantScopes(s.Scopes); s.StoreParameter("ready", false); return nil },
				func(_ context.Context, s *goidc.AuthnSession) error {
					if s.StoredParameter("ready") != true {
						return goidc.NewError(goidc.ErrorCodeAuthPending, "pending")
					}
					return nil
				}, goidc.CIBATokenDeliveryModePoll),
			provider.WithTokenAuthnMethods(goidc.ClientAuthnSecretPost),
			provider.WithTokenIntrospection(func(*goidc.Client) bool { return true }, goidc.ClientAuthnSecretPost),
			provider.WithStaticClient(c), provider.WithPolicy(twoStepPolicy())}
		if flavour == "json-copy" {
			opts = append(opts,
				provider.WithClientStorage(&jClients{jstore[goidc.Client]{m: map[string][]byte{}}}),
				provider.WithAuthnSessionStorage(&jAuthn{jstore[goidc.AuthnSession]{m: map[string][]byte{}}}),
				provider.WithGrantSessionStorage(&jGrant{jstore[goidc.GrantSession]{m: map[string][]byte{}}}))
		}
		op, err := provider.New(goidc.ProfileOpenID, "https://as.example", serverJWKS(t), opts...)
		if err != nil {
			t.Fatal(err)
		}
		h := op.Handler()
		var out []any
		// PAR -> authorize (in progress) -> callback -> token -> userinfo -> refresh x2 -> introspect
		rec, _ := do(h, "POST", "/par", url.Values{"client_id": {"c1"}, "client_secret": {"s1"}, "redirect_uri": {"https://good.example/cb"}, "response_type": {"code"}, "scope": {"openid scope1"}, "nonce": {"n1"}}, nil)
		var pr struct{ RequestURI string `json:"request_uri"` }
		json.Unmarshal(rec.Body.Bytes(), &pr)
		rec, _ = do(h, "GET", "/authorize?client_id=c1&response_type=code&scope=openid&request_uri="+url.QueryEscape(pr.RequestURI), nil, nil)
		body := rec.Body.String()
		out = append(out, rec.Code)
		cb := ""
		if i := bytes.Index([]byte(body), []byte("cb=")); i >= 0 {
			cb = body[i+3:]
		}
		rec, _ = do(h, "GET", "/authorize?client_id=c1&response_type=code&scope=openid&request_uri="+url.QueryEscape(pr.RequestURI), nil, nil)
		out = append(out, "reuse-request-uri", rec.Code)
		rec, _ = do(h, "GET", "/authorize/"+cb, nil, nil)
		loc, _ := url.Parse(rec.Header().Get("Location"))
		out = append(out, rec.Code, loc.Query().Get("code") != "")
		rec, _ = do(h, "POST", "/token", url.Values{"client_id": {"c1"}, "client_secret": {"s1"}, "grant_type": {"authorization_code"}, "code": {loc.Query().Get("code")}, "redirect_uri": {"https://good.example/cb"}}, nil)
		var tr map[string]any
		json.Unmarshal(rec.Body.Bytes(), &tr)
		out = append(out, rec.Code, tr["id_token"] != nil, tr["refresh_token"] != nil)
		at, _ := tr["access_token"].(string)
		rt, _ := tr["refresh_token"].(string)
		rec, _ = do(h, "GET", "/userinfo", nil, map[string]string{"Authorization": "Bearer " + at})
		out = append(out, rec.Code, rec.Body.String())
		for i := 0; i < 2; i++ {
			rec, _ = do(h, "POST", "/token", url.Values{"client_id": {"c1"}, "client_secret": {"s1"}, "grant_type": {"refresh_token"}, "refresh_token": {rt}, "scope": {"openid"}}, nil)
			json.Unmarshal(rec.Body.Bytes(), &tr)
			out = append(out, rec.Code)
			rt, _ = tr["refresh_token"].(string)
			at, _ = tr["access_token"].(string)
		}
		rec, _ = do(h, "POST", "/introspect", url.Values{"client_id": {"c1"}, "client_secret": {"s1"}, "token": {at}}, nil)
		var ii map[string]any
		json.Unmarshal(rec.Body.Bytes(), &ii)
		delete(ii, "exp")
		out = append(out, ii)
		// CIBA poll
		rec, _ = do(h, "POST", "/bc-authorize", url.Values{"client_id": {"c1"}, "client_secret": {"s1"}, "scope": {"openid"}, "login_hint": {"bob"}}, nil)
		var br struct{ AuthReqID string `json:"auth_req_id"` }
		json.Unmarshal(rec.Body.Bytes(), &br)
		rec, _ = do(h, "POST", "/token", url.Values{"client_id": {"c1"}, "client_secret": {"s1"}, "grant_type": {string(goidc.GrantCIBA)}, "auth_req_id": {br.AuthReqID}}, nil)
		out = append(out, "poll1", rec.Code)
		s, _ := op.AuthnSessionByCIBAAuthID(context.Background(), br.AuthReqID)
		s.StoreParameter("ready", true)
		op.SaveAuthnSession(context.Background(), s)
		rec, _ = do(h, "POST", "/token", url.Values{"client_id": {"c1"}, "client_secret": {"s1"}, "grant_type": {string(goidc.GrantCIBA)}, "auth_req_id": {br.AuthReqID}}, nil)
		out = append(out, "poll2", rec.Code)
		rec, _ = do(h, "POST", "/token", url.Values{"client_id": {"c1"}, "client_secret": {"s1"}, "grant_type": {string(goidc.GrantCIBA)}, "auth_req_id": {br.AuthReqID}}, nil)
		out = append(out, "poll3", rec.Code)
		// DCR
		req := httptest.NewRequest("POST", "/register", bytes.NewBufferString(`{"redirect_uris":["https://good.example/cb"],"grant_types":["client_credentials"],"response_types":[],"token_endpoint_auth_method":"client_secret_post","scope":"scope1","x_custom":{"a":1}}`))
		rr := httptest.NewRecorder()
		h.ServeHTTP(rr, req)
		var reg map[string]any
		json.Unmarshal(rr.Body.Bytes(), &reg)
		out = append(out, "dcr", rr.Code)
		cid, _ := reg["client_id"].(string)
		sec, _ := reg["client_secret"].(string)
		rat, _ := reg["registration_access_token"].(string)
		rec, _ = do(h, "POST", "/token", url.Values{"client_id": {cid}, "client_secret": {sec}, "grant_type": {"client_credentials"}, "scope": {"scope1"}}, nil)
		out = append(out, "dcr-client-token", rec.Code)
		rec, _ = do(h, "GET", "/register/"+cid, nil, map[string]string{"Authorization": "Bearer " + rat})
		var rb map[string]any
		json.Unmarshal(rec.Body.Bytes(), &rb)
		out = append(out, "dcr-get", rec.Code, rb["x_custom"])
		b, _ := json.Marshal(out)
		t.Log(flavour, string(b))
	}
}
