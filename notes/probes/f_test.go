package verifprobe

import (
	"context"
	"net/url"
	"sync"
	"testing"

	"github.com/luikyv/go-oidc/internal/storage"
	"github.com/luikyv/go-oidc/pkg/goidc"
	"github.com/luikyv/go-oidc/pkg/provider"
)

type barrierAuthn struct {
	*storage.AuthnSessionManager
	wg   *sync.WaitGroup
	armed bool
}

func (b *barrierAuthn) SessionByAuthCode(ctx context.Context, code string) (*goidc.AuthnSession, error) {
	s, err := b.AuthnSessionManager.SessionByAuthCode(ctx, code)
	if b.armed {
		b.wg.Done()
		b.wg.Wait() // both lookups happen before any delete
	}
	return s, err
}

// C15: two concurrent redemptions of one code, schedule lookup,lookup,delete,delete.
func TestCodeRace(t *testing.T) {
	c := mkClient("c1", "s1", "https://good.example/cb")
	wg := &sync.WaitGroup{}
	st := &barrierAuthn{AuthnSessionManager: storage.NewAuthnSessionManager(), wg: wg}
	op, err := provider.New(goidc.ProfileOpenID, "https://as.example", serverJWKS(t),
		provider.WithIDTokenSignatureAlgs(goidc.ES256),
		provider.WithAuthorizationCodeGrant(), provider.WithScopes(goidc.NewScope("scope1")),
		provider.WithAuthnSessionStorage(st),
		provider.WithTokenAuthnMethods(goidc.ClientAuthnSecretPost),
		provider.WithStaticClient(c), provider.WithPolicy(okPolicy()))
	if err != nil {
		t.Fatal(err)
	}
	h := op.Handler()
	rec, _ := do(h, "GET", "/authorize?client_id=c1&redirect_uri="+url.QueryEscape("https://good.example/cb")+"&response_type=code&scope=scope1", nil, nil)
	loc, _ := url.Parse(rec.Header().Get("Location"))
	code := loc.Query().Get("code")
	wg.Add(2)
	st.armed = true
	var done sync.WaitGroup
	codes := make([]int, 2)
	for i := 0; i < 2; i++ {
		done.Add(1)
		go func(i int) {
			defer done.Done()
			r, _ := do(h, "POST", "/token", url.Values{"client_id": {"c1"}, "client_secret": {"s1"}, "grant_type": {"authorization_code"}, "code": {code}, "redirect_uri": {"https://good.example/cb"}}, nil)
			codes[i] = r.Code
		}(i)
	}
	done.Wait()
	t.Log("two concurrent redemptions of one code ->", codes)
}
