package verifprobe

import (
	"context"
	"crypto/ecdsa"
	"crypto/elliptic"
	"crypto/rand"
	"crypto/x509"
	"crypto/x509/pkix"
	"encoding/json"
	"math/big"
	"net"
	"net/http"
	"net/url"
	"testing"
	"time"

	"github.com/luikyv/go-oidc/pkg/goidc"
	"github.com/luikyv/go-oidc/pkg/provider"
)

type rt struct{ log *[]string }

func (r rt) RoundTrip(req *http.Request) (*http.Response, error) {
	*r.log = append(*r.log, req.URL.String())
	return nil, context.DeadlineExceeded
}

// candidate: tls_client_auth_san_ip never matched
func TestSANIP(t *testing.T) {
	k, _ := ecdsa.GenerateKey(elliptic.P256(), rand.Reader)
	tmpl := &x509.Certificate{SerialNumber: big.NewInt(1), Subject: pkix.Name{CommonName: "c1"}, IPAddresses: []net.IP{net.ParseIP("10.0.0.1")}, NotBefore: time.Now(), NotAfter: time.Now().Add(time.Hour)}
	der, _ := x509.CreateCertificate(rand.Reader, tmpl, tmpl, &k.PublicKey, k)
	cert, _ := x509.ParseCertificate(der)
	c := mkClient("c1", "s1", "https://good.example/cb")
	c.TokenAuthnMethod = goidc.ClientAuthnTLS
	c.TLSSubAlternativeNameIp = "10.0.0.1"
	op, err := provider.New(goidc.ProfileOpenID, "https://as.example", serverJWKS(t),
		provider.WithIDTokenSignatureAlgs(goidc.ES256),
		provider.WithClientCredentialsGrant(), provider.WithScopes(goidc.NewScope("scope1")),
		provider.WithMTLS("https://mtls.as.example", func(*http.Request) (*x509.Certificate, error) { return cert, nil }),
		provider.WithTokenAuthnMethods(goidc.ClientAuthnTLS),
		provider.WithStaticClient(c))
	if err != nil {
		t.Fatal(err)
	}
	rec, _ := do(op.Handler(), "POST", "/token", url.Values{"client_id": {"c1"}, "grant_type": {"client_credentials"}, "scope": {"scope1"}}, nil)
	t.Log("tls_client_auth with san_ip registered and matching cert:", rec.Code, rec.Body.String())
}

// candidate: request_uri fetched before it is validated (non-https, unregistered)
func TestRequestURIFetchedFirst(t *testing.T) {
	var log []string
	c := mkClient("c1", "s1", "https://good.example/cb")
	op, err := provider.New(goidc.ProfileOpenID, "https://as.example", serverJWKS(t),
		provider.WithIDTokenSignatureAlgs(goidc.ES256),
		provider.WithAuthorizationCodeGrant(), provider.WithScopes(goidc.NewScope("scope1")),
		provider.WithJAR(goidc.ES256), provider.WithJARByReference(true),
		provider.WithHTTPClientFunc(func(context.Context) *http.Client { return &http.Client{Transport: rt{&log}} }),
		provider.WithTokenAuthnMethods(goidc.ClientAuthnSecretPost),
		provider.WithStaticClient(c), provider.WithPolicy(okPolicy()))
	if err != nil {
		t.Fatal(err)
	}
	rec, _ := do(op.Handler(), "GET", "/authorize?client_id=c1&request_uri="+url.QueryEscape("http://169.254.169.254/latest/meta-data"), nil, nil)
	t.Log("authorize:", rec.Code, rec.Body.String(), "outbound:", log)
}

// candidate: PAR session merged in place before "no policy available"
func TestPARNoPolicyMerge(t *testing.T) {
	c := mkClient("c1", "s1", "https://good.example/cb")
	allow := false
	pol := goidc.NewPolicy("p", func(*http.Request, *goidc.Client, *goidc.AuthnSession) bool { return allow },
		func(w http.ResponseWriter, r *http.Request, s *goidc.AuthnSession) (goidc.AuthnStatus, error) {
			s.SetUserID("alice")
			s.GrantScopes(s.Scopes)
			return goidc.StatusSuccess, nil
		})
	op, err := provider.New(goidc.ProfileOpenID, "https://as.example", serverJWKS(t),
		provider.WithIDTokenSignatureAlgs(goidc.ES256),
		provider.WithAuthorizationCodeGrant(), provider.WithScopes(goidc.NewScope("scope1")),
		provider.WithPAR(60),
		provider.WithTokenAuthnMethods(goidc.ClientAuthnSecretPost),
		provider.WithStaticClient(c), provider.WithPolicy(pol))
	if err != nil {
		t.Fatal(err)
	}
	h := op.Handler()
	rec, _ := do(h, "POST", "/par", url.Values{"client_id": {"c1"}, "client_secret": {"s1"}, "redirect_uri": {"https://good.example/cb"}, "response_type": {"code"}, "scope": {"scope1"}}, nil)
	var pr struct{ RequestURI string `json:"request_uri"` }
	json.Unmarshal(rec.Body.Bytes(), &pr)
	ru := pr.RequestURI
	t.Log(ru)
	rec, _ = do(h, "GET", "/authorize?client_id=c1&request_uri="+url.QueryEscape(ru)+"&state=FIRST", nil, nil)
	t.Log("first use (no policy):", rec.Code, rec.Header().Get("Location"), rec.Body.String())
	allow = true
	rec, _ = do(h, "GET", "/authorize?client_id=c1&request_uri="+url.QueryEscape(ru)+"&state=SECOND", nil, nil)
	t.Log("second use:", rec.Code, rec.Header().Get("Location"), rec.Body.String())
}
