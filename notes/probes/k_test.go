package verifprobe

import (
	"encoding/json"
	"net/url"
	"testing"

	"github.com/luikyv/go-oidc/pkg/goidc"
	"github.com/luikyv/go-oidc/pkg/provider"
)

// candidate (C05): base64 malleability of the last signature character of a JWT access token
func TestJWTLastCharMalleability(t *testing.T) {
	c := mkClient("c1", "s1", "https://good.example/cb")
	op, err := provider.New(goidc.ProfileOpenID, "https://as.example", serverJWKS(t),
		provider.WithIDTokenSignatureAlgs(goidc.ES256),
		provider.WithClientCredentialsGrant(), provider.WithScopes(goidc.NewScope("scope1")),
		provider.WithTokenOptions(func(goidc.GrantInfo, *goidc.Client) goidc.TokenOptions { return goidc.NewJWTTokenOptions(goidc.ES256, 60) }),
		provider.WithTokenAuthnMethods(goidc.ClientAuthnSecretPost),
		provider.WithTokenIntrospection(func(*goidc.Client) bool { return true }, goidc.ClientAuthnSecretPost),
		provider.WithStaticClient(c))
	if err != nil {
		t.Fatal(err)
	}
	h := op.Handler()
	rec, _ := do(h, "POST", "/token", url.Values{"client_id": {"c1"}, "client_secret": {"s1"}, "grant_type": {"client_credentials"}, "scope": {"scope1"}}, nil)
	var tr map[string]any
	json.Unmarshal(rec.Body.Bytes(), &tr)
	at := tr["access_token"].(string)
	const alphabet = "ABCDEFGHIJKLMNOPQRSTUVWXYZabcdefghijklmnopqrstuvwxyz0123456789-_"
	accepted := 0
	for i := 0; i < len(alphabet); i++ {
		forged := at[:len(at)-1] + string(alphabet[i])
		if forged == at {
			continue
		}
		rec, _ = do(h, "POST", "/introspect", url.Values{"client_id": {"c1"}, "client_secret": {"s1"}, "token": {forged}}, nil)
		var ii map[string]any
		json.Unmarshal(rec.Body.Bytes(), &ii)
		if ii["active"] == true {
			accepted++
		}
	}
	t.Log("strings differing from the issued JWT only in the last character that introspect as active:", accepted)
}
