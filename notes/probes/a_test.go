package verifprobe

import (
	"testing"

	"github.com/luikyv/go-oidc/internal/strutil"
	"github.com/luikyv/go-oidc/internal/clientutil"
	"github.com/luikyv/go-oidc/pkg/goidc"
)

func TestInternalImport(t *testing.T) {
	t.Log(strutil.SplitWithSpaces("a  b"))
	c := &goidc.Client{ClientMetaInfo: goidc.ClientMetaInfo{ScopeIDs: "openid_admin emailx"}}
	t.Log("substring scope:", clientutil.AreScopesAllowed(c, []goidc.Scope{goidc.ScopeOpenID, goidc.ScopeEmail}, "openid email"))
}
