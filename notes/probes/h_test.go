package verifprobe

import (
	"encoding/json"
	"net/http"
	"crypto/ecdsa"
	"crypto/elliptic"
	"crypto/rand"
	"net/url"
	"testing"

	"github.com/luikyv/go-oidc/pkg/goidc"
	"github.com/luikyv/go-oidc/pkg/provider"
)

// candidate (C06): dpop_jkt announced at a plain /authorize is not enforced at /token
func TestDPoPJKTPlainAuthorize(t *testing.T) {
	c := mkClient("c1", "s1", "https://good.example/cb")
	op, err := provider.New(goidc.ProfileOpenID, "https://as.example", serverJWKS(t),
		provider.WithIDTokenSignatureAlgs(goidc.ES256),
		provider.WithAuthorizationCodeGrant(), provider.WithScopes(goidc.NewScope("scope1")),
		provider.WithDPoP(goidc.ES256), provider.WithPAR(60),
		provider.WithTokenAuthnMethods(goidc.ClientAuthnSecretPost),
		provider.WithStaticClient(c), provider.WithPolicy(okPolicy()))
	if err != nil {
		t.Fatal(err)
	}
	h := op.Handler()
	for _, viaPAR := range []bool{false, true} {
		var rec = recOf(h, viaPAR, t)
		loc, _ := url.Parse(rec)
		code := loc.Query().Get("code")
		// redeem without any DPoP proof
		r, _ := do(h, "POST", "/token", url.Values{"client_id": {"c1"}, "client_secret": {"s1"}, "grant_type": {"authorization_code"}, "code": {code}, "redirect_uri": {"https://good.example/cb"}}, nil)
		t.Log("viaPAR", viaPAR, "redeem without proof:", r.Code, r.Body.String())
		rec = recOf(h, viaPAR, t)
		loc, _ = url.Parse(rec)
		code = loc.Query().Get("code")
		k, _ := ecdsa.GenerateKey(elliptic.P256(), rand.Reader)
		r, _ = do(h, "POST", "/token", url.Values{"client_id": {"c1"}, "client_secret": {"s1"}, "grant_type": {"authorization_code"}, "code": {code}, "redirect_uri": {"https://good.example/cb"}}, map[string]string{"DPoP": dpopProof(t, k, "POST", "https://as.example/token")})
		t.Log("viaPAR", viaPAR, "redeem with proof of ANOTHER key:", r.Code, r.Body.String())
	}
}

func recOf(h http.Handler, viaPAR bool, t *testing.T) string {
	if viaPAR {
		rec, _ := do(h, "POST", "/par", url.Values{"client_id": {"c1"}, "client_secret": {"s1"}, "redirect_uri": {"https://good.example/cb"}, "response_type": {"code"}, "scope": {"scope1"}, "dpop_jkt": {"announced-thumbprint"}}, nil)
		var pr struct{ RequestURI string `json:"request_uri"` }
		json.Unmarshal(rec.Body.Bytes(), &pr)
		rec, _ = do(h, "GET", "/authorize?client_id=c1&request_uri="+url.QueryEscape(pr.RequestURI), nil, nil)
		return rec.Header().Get("Location")
	}
	rec, _ := do(h, "GET", "/authorize?client_id=c1&redirect_uri="+url.QueryEscape("https://good.example/cb")+"&response_type=code&scope=scope1&dpop_jkt=announced-thumbprint", nil, nil)
	return rec.Header().Get("Location")
}

// candidate (C11): implicit flow under WithDPoPRequired / WithTokenBindingRequired yields an unbound token
func TestImplicitUnderRequiredBinding(t *testing.T) {
	for _, name := range []string{"dpop-required", "binding-required"} {
		c := mkClient("c1", "s1", "https://good.example/cb")
		opts := []provider.ProviderOption{
			provider.WithIDTokenSignatureAlgs(goidc.ES256),
			provider.WithImplicitGrant(), provider.WithScopes(goidc.NewScope("scope1")),
			provider.WithTokenAuthnMethods(goidc.ClientAuthnSecretPost),
			provider.WithTokenIntrospection(func(*goidc.Client) bool { return true }, goidc.ClientAuthnSecretPost),
			provider.WithStaticClient(c), provider.WithPolicy(okPolicy())}
		if name == "dpop-required" {
			opts = append(opts, provider.WithDPoPRequired(goidc.ES256))
		} else {
			opts = append(opts, provider.WithDPoP(goidc.ES256), provider.WithTokenBindingRequired())
		}
		op, err := provider.New(goidc.ProfileOpenID, "https://as.example", serverJWKS(t), opts...)
		if err != nil {
			t.Fatal(err)
		}
		h := op.Handler()
		rec, _ := do(h, "GET", "/authorize?client_id=c1&redirect_uri="+url.QueryEscape("https://good.example/cb")+"&response_type=token&scope=scope1", nil, nil)
		t.Log(name, "implicit:", rec.Code, rec.Header().Get("Location"))
		loc, _ := url.Parse(rec.Header().Get("Location"))
		frag, _ := url.ParseQuery(loc.Fragment)
		r, _ := do(h, "POST", "/introspect", url.Values{"client_id": {"c1"}, "client_secret": {"s1"}, "token": {frag.Get("access_token")}}, nil)
		t.Log(name, "introspect:", r.Body.String())
	}
}
