package verifprobe

import (
	"bytes"
	"context"
	"crypto/ecdsa"
	"crypto/elliptic"
	"crypto/rand"
	"encoding/json"
	"errors"
	"net/http"
	"net/http/httptest"
	"net/url"
	"testing"
	"time"

	"github.com/go-jose/go-jose/v4"
	"github.com/go-jose/go-jose/v4/jwt"
	"github.com/luikyv/go-oidc/pkg/goidc"
	"github.com/luikyv/go-oidc/pkg/provider"
)

type memGrant struct {
	m          map[string]*goidc.GrantSession
	failDelete bool
}

func (s *memGrant) Save(_ context.Context, g *goidc.GrantSession) error { s.m[g.ID] = g; return nil }
func (s *memGrant) SessionByTokenID(_ context.Context, id string) (*goidc.GrantSession, error) {
	for _, g := range s.m {
		if g.TokenID == id {
			return g, nil
		}
	}
	return nil, errors.New("nf")
}
func (s *memGrant) SessionByRefreshToken(_ context.Context, id string) (*goidc.GrantSession, error) {
	for _, g := range s.m {
		if g.RefreshToken == id {
			return g, nil
		}
	}
	return nil, errors.New("nf")
}
func (s *memGrant) Delete(_ context.Context, id string) error {
	if s.failDelete {
		return errors.New("boom")
	}
	delete(s.m, id)
	return nil
}
func (s *memGrant) DeleteByAuthorizationCode(_ context.Context, code string) error { return nil }

// C14: revoke acknowledges although delete failed.
func TestRevokeDropsError(t *testing.T) {
	c := mkClient("c1", "s1", "https://good.example/cb")
	gs := &memGrant{m: map[string]*goidc.GrantSession{}}
	op, err := provider.New(goidc.ProfileOpenID, "https://as.example", serverJWKS(t),
		provider.WithIDTokenSignatureAlgs(goidc.ES256),
		provider.WithClientCredentialsGrant(), provider.WithScopes(goidc.NewScope("scope1")),
		provider.WithGrantSessionStorage(gs),
		provider.WithTokenAuthnMethods(goidc.ClientAuthnSecretPost),
		provider.WithTokenIntrospection(func(*goidc.Client) bool { return true }, goidc.ClientAuthnSecretPost),
		provider.WithTokenRevocation(func(*goidc.Client) bool { return true }, goidc.ClientAuthnSecretPost),
		provider.WithStaticClient(c))
	if err != nil {
		t.Fatal(err)
	}
	h := op.Handler()
	rec, _ := do(h, "POST", "/token", url.Values{"client_id": {"c1"}, "client_secret": {"s1"}, "grant_type": {"client_credentials"}, "scope": {"scope1"}}, nil)
	var tr map[string]any
	json.Unmarshal(rec.Body.Bytes(), &tr)
	at := tr["access_token"].(string)
	gs.failDelete = true
	rec, _ = do(h, "POST", "/revoke", url.Values{"client_id": {"c1"}, "client_secret": {"s1"}, "token": {at}}, nil)
	t.Log("revoke with failing delete:", rec.Code, rec.Body.String())
	gs.failDelete = false
	rec, _ = do(h, "POST", "/introspect", url.Values{"client_id": {"c1"}, "client_secret": {"s1"}, "token": {at}}, nil)
	t.Log("introspect after 'revoked':", rec.Code, rec.Body.String())
}

func assertion(t *testing.T, k *ecdsa.PrivateKey, kid, cid, aud string) string {
	signer, err := jose.NewSigner(jose.SigningKey{Algorithm: jose.ES256, Key: jose.JSONWebKey{Key: k, KeyID: kid}}, (&jose.SignerOptions{}).WithType("JWT"))
	if err != nil {
		t.Fatal(err)
	}
	now := time.Now()
	s, err := jwt.Signed(signer).Claims(jwt.Claims{Issuer: cid, Subject: cid, Audience: jwt.Audience{aud}, ID: "jti-" + now.String(), Expiry: jwt.NewNumericDate(now.Add(60 * time.Second)), IssuedAt: jwt.NewNumericDate(now)}).Serialize()
	if err != nil {
		t.Fatal(err)
	}
	return s
}

// C01: introspection method override without alg -> valid assertion refused.
func TestIntrospectionOverrideAlg(t *testing.T) {
	k, _ := ecdsa.GenerateKey(elliptic.P256(), rand.Reader)
	pub := goidc.JSONWebKey{Key: &k.PublicKey, KeyID: "ck", Algorithm: "ES256", Use: "sig"}
	jwks, _ := json.Marshal(goidc.JSONWebKeySet{Keys: []goidc.JSONWebKey{pub}})
	c := mkClient("c1", "s1", "https://good.example/cb")
	c.TokenIntrospectionAuthnMethod = goidc.ClientAuthnPrivateKeyJWT
	c.PublicJWKS = jwks
	c2 := mkClient("c2", "s2", "https://good.example/cb")
	c2.TokenAuthnMethod = goidc.ClientAuthnPrivateKeyJWT
	c2.PublicJWKS = jwks
	op, err := provider.New(goidc.ProfileOpenID, "https://as.example", serverJWKS(t),
		provider.WithIDTokenSignatureAlgs(goidc.ES256),
		provider.WithClientCredentialsGrant(), provider.WithScopes(goidc.NewScope("scope1")),
		provider.WithTokenAuthnMethods(goidc.ClientAuthnSecretPost, goidc.ClientAuthnPrivateKeyJWT),
		provider.WithPrivateKeyJWTSignatureAlgs(goidc.ES256),
		provider.WithTokenIntrospection(func(*goidc.Client) bool { return true }, goidc.ClientAuthnSecretPost, goidc.ClientAuthnPrivateKeyJWT),
		provider.WithStaticClient(c), provider.WithStaticClient(c2))
	if err != nil {
		t.Fatal(err)
	}
	h := op.Handler()
	a := assertion(t, k, "ck", "c1", "https://as.example")
	rec, _ := do(h, "POST", "/introspect", url.Values{"client_assertion_type": {string(goidc.AssertionTypeJWTBearer)}, "client_assertion": {a}, "token": {"abc"}}, nil)
	t.Log("introspect w/ per-endpoint private_key_jwt override, no alg pinned:", rec.Code, rec.Body.String())
	a2 := assertion(t, k, "ck", "c2", "https://as.example")
	rec, _ = do(h, "POST", "/introspect", url.Values{"client_assertion_type": {string(goidc.AssertionTypeJWTBearer)}, "client_assertion": {a2}, "token": {"abc"}}, nil)
	t.Log("introspect c2 (token method private_key_jwt, no override):", rec.Code, rec.Body.String())
}

// C13: userinfo after the client is deleted -> 500?
func TestUserinfoDeletedClient(t *testing.T) {
	op, err := provider.New(goidc.ProfileOpenID, "https://as.example", serverJWKS(t),
		provider.WithIDTokenSignatureAlgs(goidc.ES256),
		provider.WithAuthorizationCodeGrant(),
		provider.WithScopes(goidc.NewScope("scope1")),
		provider.WithDCR(nil, nil),
		provider.WithTokenAuthnMethods(goidc.ClientAuthnSecretPost), provider.WithPolicy(okPolicy()))
	if err != nil {
		t.Fatal(err)
	}
	h := op.Handler()
	body := `{"redirect_uris":["https://good.example/cb"],"grant_types":["authorization_code"],"response_types":["code"],"token_endpoint_auth_method":"client_secret_post","scope":"openid scope1"}`
	req := httptest.NewRequest("POST", "/register", bytes.NewBufferString(body))
	rec := httptest.NewRecorder()
	h.ServeHTTP(rec, req)
	var reg map[string]any
	json.Unmarshal(rec.Body.Bytes(), &reg)
	cid, sec, rat := reg["client_id"].(string), reg["client_secret"].(string), reg["registration_access_token"].(string)
	rec, _ = do(h, "GET", "/authorize?client_id="+cid+"&redirect_uri="+url.QueryEscape("https://good.example/cb")+"&response_type=code&scope=openid", nil, nil)
	loc, _ := url.Parse(rec.Header().Get("Location"))
	rec, _ = do(h, "POST", "/token", url.Values{"client_id": {cid}, "client_secret": {sec}, "grant_type": {"authorization_code"}, "code": {loc.Query().Get("code")}, "redirect_uri": {"https://good.example/cb"}}, nil)
	var tr map[string]any
	json.Unmarshal(rec.Body.Bytes(), &tr)
	at := tr["access_token"].(string)
	rec, _ = do(h, "DELETE", "/register/"+cid, nil, map[string]string{"Authorization": "Bearer " + rat})
	t.Log("delete:", rec.Code)
	rec, _ = do(h, "GET", "/userinfo", nil, map[string]string{"Authorization": "Bearer " + at})
	t.Log("userinfo after client delete:", rec.Code, rec.Body.String())
}

// C13/C18: refused refresh mutates stored grant (aliasing store).
func TestRefusedRefreshMutates(t *testing.T) {
	c := mkClient("c1", "s1", "https://good.example/cb")
	op, err := provider.New(goidc.ProfileOpenID, "https://as.example", serverJWKS(t),
		provider.WithIDTokenSignatureAlgs(goidc.ES256),
		provider.WithAuthorizationCodeGrant(), provider.WithScopes(goidc.NewScope("scope1")),
		provider.WithRefreshTokenGrant(func(*goidc.Client, goidc.GrantInfo) bool { return true }, 600),
		provider.WithHandleGrantFunc(func(r *http.Request, gi *goidc.GrantInfo) error {
			if gi.GrantType == goidc.GrantRefreshToken && gi.ActiveScopes == "scope1" {
				return goidc.NewError(goidc.ErrorCodeAccessDenied, "policy says no")
			}
			return nil
		}),
		provider.WithTokenAuthnMethods(goidc.ClientAuthnSecretPost),
		provider.WithTokenIntrospection(func(*goidc.Client) bool { return true }, goidc.ClientAuthnSecretPost),
		provider.WithStaticClient(c), provider.WithPolicy(okPolicy()))
	if err != nil {
		t.Fatal(err)
	}
	h := op.Handler()
	rec, _ := do(h, "GET", "/authorize?client_id=c1&redirect_uri="+url.QueryEscape("https://good.example/cb")+"&response_type=code&scope=openid+scope1", nil, nil)
	loc, _ := url.Parse(rec.Header().Get("Location"))
	rec, _ = do(h, "POST", "/token", url.Values{"client_id": {"c1"}, "client_secret": {"s1"}, "grant_type": {"authorization_code"}, "code": {loc.Query().Get("code")}, "redirect_uri": {"https://good.example/cb"}}, nil)
	var tr map[string]any
	json.Unmarshal(rec.Body.Bytes(), &tr)
	at, rt := tr["access_token"].(string), tr["refresh_token"].(string)
	rec, _ = do(h, "POST", "/introspect", url.Values{"client_id": {"c1"}, "client_secret": {"s1"}, "token": {at}}, nil)
	t.Log("introspect before:", rec.Body.String())
	rec, _ = do(h, "POST", "/token", url.Values{"client_id": {"c1"}, "client_secret": {"s1"}, "grant_type": {"refresh_token"}, "refresh_token": {rt}, "scope": {"scope1"}}, nil)
	t.Log("refused refresh:", rec.Code, rec.Body.String())
	rec, _ = do(h, "POST", "/introspect", url.Values{"client_id": {"c1"}, "client_secret": {"s1"}, "token": {at}}, nil)
	t.Log("introspect after refused refresh:", rec.Body.String())
}
