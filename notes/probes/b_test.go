package verifprobe

import (
	"context"
	"crypto/ecdsa"
	"crypto/elliptic"
	"crypto/rand"
	"encoding/json"
	"fmt"
	"io"
	"net/http"
	"net/http/httptest"
	"net/url"
	"strings"
	"testing"

	"github.com/luikyv/go-oidc/pkg/goidc"
	"github.com/luikyv/go-oidc/pkg/provider"
	"golang.org/x/crypto/bcrypt"
)

func serverJWKS(t *testing.T) goidc.JWKSFunc {
	k, _ := ecdsa.GenerateKey(elliptic.P256(), rand.Reader)
	jwk := goidc.JSONWebKey{Key: k, KeyID: "srv", Algorithm: "ES256", Use: "sig"}
	return func(context.Context) (goidc.JSONWebKeySet, error) {
		return goidc.JSONWebKeySet{Keys: []goidc.JSONWebKey{jwk}}, nil
	}
}

func mkClient(id, secret string, redirect string) *goidc.Client {
	h, _ := bcrypt.GenerateFromPassword([]byte(secret), 4)
	return &goidc.Client{ID: id, HashedSecret: string(h), ClientMetaInfo: goidc.ClientMetaInfo{
		TokenAuthnMethod: goidc.ClientAuthnSecretPost,
		RedirectURIs:     []string{redirect},
		ScopeIDs:         "openid scope1",
		GrantTypes:       []goidc.GrantType{goidc.GrantAuthorizationCode, goidc.GrantRefreshToken, goidc.GrantClientCredentials, goidc.GrantImplicit},
		ResponseTypes:    []goidc.ResponseType{goidc.ResponseTypeCode, goidc.ResponseTypeToken},
	}}
}

func okPolicy() goidc.AuthnPolicy {
	return goidc.NewPolicy("p", func(*http.Request, *goidc.Client, *goidc.AuthnSession) bool { return true },
		func(w http.ResponseWriter, r *http.Request, s *goidc.AuthnSession) (goidc.AuthnStatus, error) {
			s.SetUserID("alice")
			s.GrantScopes(s.Scopes)
			return goidc.StatusSuccess, nil
		})
}

func do(h http.Handler, method, target string, form url.Values, hdr map[string]string) (rec *httptest.ResponseRecorder, panicked any) {
	var body io.Reader
	if form != nil {
		body = strings.NewReader(form.Encode())
	}
	req := httptest.NewRequest(method, target, body)
	if form != nil {
		req.Header.Set("Content-Type", "application/x-www-form-urlencoded")
	}
	for k, v := range hdr {
		req.Header.Set(k, v)
	}
	rec = httptest.NewRecorder()
	defer func() { panicked = recover() }()
	h.ServeHTTP(rec, req)
	return rec, nil
}

// C02: PAR with unregistered redirect uri leaks into the client registration.
func TestPARRedirectLeak(t *testing.T) {
	c := mkClient("c1", "s1", "https://good.example/cb")
	op, err := provider.New(goidc.ProfileOpenID, "https://as.example", serverJWKS(t),
		provider.WithIDTokenSignatureAlgs(goidc.ES256),
		provider.WithAuthorizationCodeGrant(), provider.WithScopes(goidc.NewScope("scope1")),
		provider.WithPAR(60), provider.WithUnregisteredRedirectURIsForPAR(),
		provider.WithTokenAuthnMethods(goidc.ClientAuthnSecretPost),
		provider.WithStaticClient(c), provider.WithPolicy(okPolicy()))
	if err != nil {
		t.Fatal(err)
	}
	h := op.Handler()
	rec, _ := do(h, "POST", "/par", url.Values{"client_id": {"c1"}, "client_secret": {"s1"}, "redirect_uri": {"https://evil.example/cb"}, "response_type": {"code"}, "scope": {"scope1"}}, nil)
	t.Log("par:", rec.Code, rec.Body.String())
	rec, _ = do(h, "GET", "/authorize?client_id=c1&redirect_uri="+url.QueryEscape("https://evil.example/cb")+"&response_type=code&scope=scope1", nil, nil)
	t.Log("plain authorize after PAR:", rec.Code, rec.Header().Get("Location"), rec.Body.String())
	t.Log("client redirect uris now:", c.RedirectURIs)
}

// C13: unparsable pushed redirect uri -> panic in urlWithQueryParams
func TestPARBadRedirectPanic(t *testing.T) {
	c := mkClient("c1", "s1", "https://good.example/cb")
	op, _ := provider.New(goidc.ProfileOpenID, "https://as.example", serverJWKS(t),
		provider.WithIDTokenSignatureAlgs(goidc.ES256),
		provider.WithAuthorizationCodeGrant(), provider.WithScopes(goidc.NewScope("scope1")),
		provider.WithPAR(60), provider.WithUnregisteredRedirectURIsForPAR(),
		provider.WithTokenAuthnMethods(goidc.ClientAuthnSecretPost),
		provider.WithStaticClient(c), provider.WithPolicy(okPolicy()))
	h := op.Handler()
	rec, _ := do(h, "POST", "/par", url.Values{"client_id": {"c1"}, "client_secret": {"s1"}, "redirect_uri": {"%"}, "response_type": {"code"}, "scope": {"scope1"}}, nil)
	t.Log("par:", rec.Code, rec.Body.String())
	var pr struct{ RequestURI string `json:"request_uri"` }
	json.Unmarshal(rec.Body.Bytes(), &pr)
	rec, p := do(h, "GET", "/authorize?client_id=c1&request_uri="+url.QueryEscape(pr.RequestURI), nil, nil)
	t.Log("authorize:", rec.Code, rec.Header().Get("Location"), "panic:", p)
}

func TestMuxEmptyCallback(t *testing.T) {
	c := mkClient("c1", "s1", "https://good.example/cb")
	op, _ := provider.New(goidc.ProfileOpenID, "https://as.example", serverJWKS(t),
		provider.WithIDTokenSignatureAlgs(goidc.ES256),
		provider.WithAuthorizationCodeGrant(), provider.WithScopes(goidc.NewScope("scope1")),
		provider.WithPAR(60),
		provider.WithTokenAuthnMethods(goidc.ClientAuthnSecretPost),
		provider.WithStaticClient(c), provider.WithPolicy(okPolicy()))
	h := op.Handler()
	rec, _ := do(h, "POST", "/par", url.Values{"client_id": {"c1"}, "client_secret": {"s1"}, "redirect_uri": {"https://good.example/cb"}, "response_type": {"code"}, "scope": {"scope1"}}, nil)
	t.Log("par:", rec.Code, rec.Body.String())
	for _, p := range []string{"/authorize/", "/authorize//", "/authorize/%20", "/authorize/x"} {
		rec, pn := do(h, "GET", p, nil, nil)
		t.Log(p, "->", rec.Code, rec.Header().Get("Location"), strings.TrimSpace(rec.Body.String()), pn)
	}
	_ = fmt.Sprint
}
