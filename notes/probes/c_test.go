package verifprobe

import (
	"bytes"
	"context"
	"encoding/base64"
	"encoding/json"
	"errors"
	"net/http"
	"net/http/httptest"
	"net/url"
	"strings"
	"testing"

	"github.com/luikyv/go-oidc/pkg/goidc"
	"github.com/luikyv/go-oidc/pkg/provider"
)

func jwtOpts(gi goidc.GrantInfo, c *goidc.Client) goidc.TokenOptions {
	return goidc.NewJWTTokenOptions(goidc.ES256, 60)
}

// C05: jti of a JWT access token accepted at userinfo.
func TestUserinfoJTI(t *testing.T) {
	c := mkClient("c1", "s1", "https://good.example/cb")
	op, err := provider.New(goidc.ProfileOpenID, "https://as.example", serverJWKS(t),
		provider.WithIDTokenSignatureAlgs(goidc.ES256),
		provider.WithAuthorizationCodeGrant(), provider.WithScopes(goidc.NewScope("scope1")),
		provider.WithTokenOptions(jwtOpts),
		provider.WithTokenAuthnMethods(goidc.ClientAuthnSecretPost),
		provider.WithTokenIntrospection(func(*goidc.Client) bool { return true }, goidc.ClientAuthnSecretPost),
		provider.WithStaticClient(c), provider.WithPolicy(okPolicy()))
	if err != nil {
		t.Fatal(err)
	}
	h := op.Handler()
	rec, _ := do(h, "GET", "/authorize?client_id=c1&redirect_uri="+url.QueryEscape("https://good.example/cb")+"&response_type=code&scope=openid+scope1", nil, nil)
	loc, _ := url.Parse(rec.Header().Get("Location"))
	code := loc.Query().Get("code")
	rec, _ = do(h, "POST", "/token", url.Values{"client_id": {"c1"}, "client_secret": {"s1"}, "grant_type": {"authorization_code"}, "code": {code}, "redirect_uri": {"https://good.example/cb"}}, nil)
	var tr map[string]any
	json.Unmarshal(rec.Body.Bytes(), &tr)
	at := tr["access_token"].(string)
	payload, _ := base64.RawURLEncoding.DecodeString(strings.Split(at, ".")[1])
	var cl map[string]any
	json.Unmarshal(payload, &cl)
	jti := cl["jti"].(string)
	rec, _ = do(h, "GET", "/userinfo", nil, map[string]string{"Authorization": "Bearer " + jti})
	t.Log("userinfo with jti:", rec.Code, rec.Body.String())
	rec, _ = do(h, "POST", "/introspect", url.Values{"client_id": {"c1"}, "client_secret": {"s1"}, "token": {jti}}, nil)
	t.Log("introspect with jti:", rec.Code, rec.Body.String())
	ti, err := op.TokenInfo(context.Background(), jti)
	t.Log("TokenInfo(jti):", ti.IsActive, err)
}

// C11: WithCIBAJARRequired does not enable CIBA JAR.
func TestCIBAJARRequiredBypass(t *testing.T) {
	c := mkClient("c1", "s1", "https://good.example/cb")
	c.GrantTypes = append(c.GrantTypes, goidc.GrantCIBA)
	c.CIBATokenDeliveryMode = goidc.CIBATokenDeliveryModePoll
	op, err := provider.New(goidc.ProfileOpenID, "https://as.example", serverJWKS(t),
		provider.WithIDTokenSignatureAlgs(goidc.ES256),
		provider.WithScopes(goidc.NewScope("scope1")),
		provider.WithCIBAGrant(func(context.Context, *goidc.AuthnSession) error { return nil },
			func(context.Context, *goidc.AuthnSession) error { return goidc.NewError(goidc.ErrorCodeAuthPending, "pending") },
			goidc.CIBATokenDeliveryModePoll),
		provider.WithCIBAJARRequired(goidc.ES256),
		provider.WithTokenAuthnMethods(goidc.ClientAuthnSecretPost),
		provider.WithStaticClient(c))
	if err != nil {
		t.Fatal(err)
	}
	h := op.Handler()
	rec, _ := do(h, "POST", "/bc-authorize", url.Values{"client_id": {"c1"}, "client_secret": {"s1"}, "scope": {"openid"}, "login_hint": {"alice"}}, nil)
	t.Log("bc-authorize without request object under WithCIBAJARRequired:", rec.Code, rec.Body.String())
}

// C12: DCR reserved member collision.
func TestDCRCollision(t *testing.T) {
	op, err := provider.New(goidc.ProfileOpenID, "https://as.example", serverJWKS(t),
		provider.WithIDTokenSignatureAlgs(goidc.ES256),
		provider.WithAuthorizationCodeGrant(), provider.WithClientCredentialsGrant(),
		provider.WithScopes(goidc.NewScope("scope1")),
		provider.WithDCR(nil, nil),
		provider.WithTokenAuthnMethods(goidc.ClientAuthnSecretPost))
	if err != nil {
		t.Fatal(err)
	}
	h := op.Handler()
	body := `{"client_id":"attacker-chosen","client_secret":"fake","registration_access_token":"fake-rat","registration_client_uri":"https://evil/","hashed_secret":"x","redirect_uris":["https://good.example/cb"],"grant_types":["client_credentials"],"response_types":[],"token_endpoint_auth_method":"client_secret_post","scope":"scope1"}`
	req := httptest.NewRequest("POST", "/register", bytes.NewBufferString(body))
	rec := httptest.NewRecorder()
	h.ServeHTTP(rec, req)
	t.Log("register:", rec.Code, rec.Body.String())
}

type failingGrantStore struct {
	goidc.GrantSessionManager
	failDelete bool
}

func (f *failingGrantStore) Delete(ctx context.Context, id string) error {
	if f.failDelete {
		return errors.New("boom")
	}
	return f.GrantSessionManager.Delete(ctx, id)
}

// C09: jwt-bearer + pairwise -> JWT access token with raw sub.
func TestJWTBearerPairwise(t *testing.T) {
	c := mkClient("c1", "s1", "https://good.example/cb")
	c.GrantTypes = append(c.GrantTypes, goidc.GrantJWTBearer)
	c.SubIdentifierType = goidc.SubIdentifierPairwise
	op, err := provider.New(goidc.ProfileOpenID, "https://as.example", serverJWKS(t),
		provider.WithIDTokenSignatureAlgs(goidc.ES256),
		provider.WithScopes(goidc.NewScope("scope1")),
		provider.WithTokenOptions(jwtOpts),
		provider.WithSubIdentifierTypes(goidc.SubIdentifierPublic, goidc.SubIdentifierPairwise),
		provider.WithGeneratePairwiseSubIDFunc(func(ctx context.Context, sub string, c *goidc.Client) string { return "pw-" + sub + "-" + c.ID }),
		provider.WithJWTBearerGrant(func(r *http.Request, a string) (goidc.JWTBearerGrantInfo, error) {
			return goidc.JWTBearerGrantInfo{Subject: "alice-raw-subject"}, nil
		}),
		provider.WithTokenAuthnMethods(goidc.ClientAuthnSecretPost),
		provider.WithStaticClient(c))
	if err != nil {
		t.Fatal(err)
	}
	h := op.Handler()
	rec, _ := do(h, "POST", "/token", url.Values{"client_id": {"c1"}, "client_secret": {"s1"}, "grant_type": {string(goidc.GrantJWTBearer)}, "assertion": {"x.y.z"}, "scope": {"openid"}}, nil)
	t.Log("jwt-bearer:", rec.Code)
	var tr map[string]any
	json.Unmarshal(rec.Body.Bytes(), &tr)
	at, _ := tr["access_token"].(string)
	if strings.Count(at, ".") == 2 {
		payload, _ := base64.RawURLEncoding.DecodeString(strings.Split(at, ".")[1])
		t.Log("access token is JWT, payload:", string(payload))
	} else {
		t.Log("access token opaque:", at)
	}
	if idt, ok := tr["id_token"].(string); ok {
		payload, _ := base64.RawURLEncoding.DecodeString(strings.Split(idt, ".")[1])
		t.Log("id token payload:", string(payload))
	}
}
