(* Feasibility prototype: free-monad handlers, sequential interpreter, history theorem. *)
From Coq Require Import List Arith Bool Lia.
Import ListNotations.

Record sess := { s_id : nat; s_code : nat; s_client : nat; s_exp : nat }.
Record grant := { g_id : nat; g_code : nat; g_client : nat }.
Record store := { ss : list sess; gs : list grant; now : nat }.

Inductive call := AByCode (c:nat) | ADel (id:nat) | ASave (s:sess) | GSave (g:grant) | GDelByCode (c:nat).
Inductive reply := RSess (s:sess) | RNone | ROk.
Inductive resp := Tokens (gid:nat) | Code (c:nat) | Err.
Inductive prog := Ret (r:resp) | Do (c:call) (k: reply -> prog).

Definition find_code c (l:list sess) := find (fun s => Nat.eqb (s_code s) c) l.
Definition exec (c:call) (st:store) : store * reply :=
  match c with
  | AByCode x => (st, match find_code x (ss st) with Some s => RSess s | None => RNone end)
  | ADel i => ({| ss := filter (fun s => negb (Nat.eqb (s_id s) i)) (ss st); gs := gs st; now := now st |}, ROk)
  | ASave s => ({| ss := s :: filter (fun s' => negb (Nat.eqb (s_id s') (s_id s))) (ss st); gs := gs st; now := now st |}, ROk)
  | GSave g => ({| ss := ss st; gs := g :: gs st; now := now st |}, ROk)
  | GDelByCode x => ({| ss := ss st; gs := filter (fun g => negb (Nat.eqb (g_code g) x)) (gs st); now := now st |}, ROk)
  end.

Fixpoint run_seq (p:prog) (st:store) : store * resp :=
  match p with Ret r => (st, r) | Do c k => let '(st', rp) := exec c st in run_seq (k rp) st' end.

Inductive op := Authorize (client:nat) | Redeem (client code:nat) | Tick (d:nat).

(* n = index of the op in the history: mints ids *)
Definition handler (n:nat) (t:nat) (o:op) : prog :=
  match o with
  | Authorize cl => Do (ASave {| s_id := n; s_code := n; s_client := cl; s_exp := t + 60 |}) (fun _ => Ret (Code n))
  | Redeem cl c =>
      Do (AByCode c) (fun rp => match rp with
        | RSess s => Do (ADel (s_id s)) (fun _ =>
             if negb (Nat.eqb (s_client s) cl) then Ret Err
             else if Nat.leb (s_exp s) t then Ret Err
             else Do (GSave {| g_id := n; g_code := c; g_client := cl |}) (fun _ => Ret (Tokens n)))
        | _ => Do (GDelByCode c) (fun _ => Ret Err) end)
  | Tick _ => Ret Err
  end.

Definition step (st:store) (n:nat) (o:op) : store * resp :=
  match o with
  | Tick d => ({| ss := ss st; gs := gs st; now := now st + d |}, Err)
  | _ => run_seq (handler n (now st) o) st
  end.

Fixpoint run_from (st:store) (n:nat) (ops:list op) : store * list (op*resp) :=
  match ops with [] => (st, []) | o::r => let '(st', x) := step st n o in
     let '(st'', tr) := run_from st' (S n) r in (st'', (o,x)::tr) end.

Definition init := {| ss := []; gs := []; now := 0 |}.

(* property: number of successful redemptions of code c in the trace <= 1 *)
Definition succ_of (c:nat) (e:op*resp) : bool :=
  match e with (Redeem _ c', Tokens _) => Nat.eqb c c' | _ => false end.
Definition P (tr:list (op*resp)) : Prop := forall c, length (filter (succ_of c) tr) <= 1.

(* invariant: session ids/codes < n, at most one session per code (codes = ids here) *)
Definition Inv (n:nat) (st:store) : Prop :=
  (forall s, In s (ss st) -> s_code s < n) /\ NoDup (map s_code (ss st)).

Lemma find_code_in c l s : find_code c l = Some s -> In s l /\ s_code s = c.
Proof. unfold find_code; intros H; apply find_some in H as [H1 H2]; apply Nat.eqb_eq in H2; auto. Qed.

(* After a step, a code that was successfully redeemed is no longer indexed. *)
Definition live (c:nat) (st:store) := exists s, In s (ss st) /\ s_code s = c.

Lemma nodup_filter {A} (f:A->nat) (p:A->bool) l : NoDup (map f l) -> NoDup (map f (filter p l)).
Proof. induction l as [|a l IH]; simpl; intros H; [constructor|]. inversion H as [|? ? Hn Hd]; subst.
  destruct (p a); simpl; auto. constructor; auto. intros Hin; apply Hn. apply in_map_iff in Hin as [x [Hx Hi]].
  apply filter_In in Hi as [Hi _]. apply in_map_iff; eauto. Qed.

(* stronger invariant incl. id = code coupling for this mini model *)
Definition Inv2 (n:nat) (st:store) : Prop := Inv n st /\ (forall s, In s (ss st) -> s_id s = s_code s).

Lemma step_inv st n o : Inv2 n st -> Inv2 (S n) (fst (step st n o)).
Proof.
  intros [[Hlt Hnd] Hid]. destruct o as [cl|cl c|d]; simpl.
  - (* authorize *) repeat split; simpl.
    + intros s [<-|Hs]; simpl; [lia|]. apply filter_In in Hs as [Hs _]. specialize (Hlt _ Hs); lia.
    + constructor. * intros Hin. apply in_map_iff in Hin as [x [Hx Hi]]. apply filter_In in Hi as [Hi _]. specialize (Hlt _ Hi); lia.
      * apply nodup_filter; auto.
    + intros s [<-|Hs]; simpl; auto. apply filter_In in Hs as [Hs _]; auto.
  - (* redeem *) destruct (find_code c (ss st)) as [s|] eqn:Hf; simpl.
    + assert (Hstep: forall r, Inv2 (S n) {| ss := filter (fun s0 => negb (s_id s0 =? s_id s)) (ss st); gs := r; now := now st |}).
      { intros r. repeat split; simpl.
        - intros s0 Hs; apply filter_In in Hs as [Hs _]; specialize (Hlt _ Hs); lia.
        - apply nodup_filter; auto.
        - intros s0 Hs; apply filter_In in Hs as [Hs _]; auto. }
      destruct (negb (s_client s =? cl)); simpl; [apply Hstep|].
      destruct (s_exp s <=? now st); simpl; [apply Hstep|]. apply Hstep.
    + repeat split; simpl; auto. intros s Hs; specialize (Hlt _ Hs); lia.
  - repeat split; simpl; auto. intros s Hs; specialize (Hlt _ Hs); lia.
Qed.

(* key: a successful redeem of c removes every session indexed by c, and codes are never re-minted (fresh = n > all) *)
Lemma step_success_kills st n cl c g : Inv2 n st -> snd (step st n (Redeem cl c)) = Tokens g -> ~ live c (fst (step st n (Redeem cl c))).
Proof.
  intros [[Hlt Hnd] Hid]; simpl. destruct (find_code c (ss st)) as [s|] eqn:Hf; simpl; [|discriminate].
  apply find_code_in in Hf as [Hin Hc].
  destruct (negb (s_client s =? cl)); simpl; [discriminate|]. destruct (s_exp s <=? now st); simpl; [discriminate|].
  intros _ [s' [Hs' Hc']]. apply filter_In in Hs' as [Hs' Hne]. apply negb_true_iff, Nat.eqb_neq in Hne.
  apply Hne. rewrite (Hid _ Hs'), (Hid _ Hin). congruence.
Qed.

Lemma step_not_live_preserved st n o c : Inv2 n st -> c < n -> ~ live c st -> ~ live c (fst (step st n o)).
Proof.
  intros [[Hlt Hnd] Hid] Hcn Hnl [s [Hs Hc]]. apply Hnl. destruct o as [cl|cl c'|d]; simpl in Hs.
  - destruct Hs as [<-|Hs]; simpl in *; [lia|]. apply filter_In in Hs as [Hs _]. exists s; auto.
  - destruct (find_code c' (ss st)) as [s0|] eqn:Hf; simpl in Hs.
    + assert (In s (filter (fun s1 => negb (s_id s1 =? s_id s0)) (ss st))) as Hs2.
      { destruct (negb (s_client s0 =? cl)); simpl in Hs; auto. destruct (s_exp s0 <=? now st); simpl in Hs; auto. }
      apply filter_In in Hs2 as [Hs2 _]. exists s; auto.
    + exists s; auto.
  - exists s; auto.
Qed.

Lemma success_needs_live st n cl c g : snd (step st n (Redeem cl c)) = Tokens g -> live c st.
Proof. simpl. destruct (find_code c (ss st)) as [s|] eqn:Hf; simpl; [|discriminate]. intros _. apply find_code_in in Hf as [H1 H2]. exists s; auto. Qed.

(* trace lemma: from a state where c is dead (and c < n), no success for c ever *)
Lemma dead_no_success : forall ops st n c, Inv2 n st -> c < n -> ~ live c st ->
  filter (succ_of c) (snd (run_from st n ops)) = [].
Proof.
  induction ops as [|o ops IH]; intros st n c HI Hc Hd; simpl; auto.
  destruct (step st n o) as [st' x] eqn:Hs. destruct (run_from st' (S n) ops) as [st'' tr] eqn:Hr. simpl.
  assert (HI': Inv2 (S n) st') by (replace st' with (fst (step st n o)) by (rewrite Hs; auto); apply step_inv; auto).
  assert (Hd': ~ live c st') by (replace st' with (fst (step st n o)) by (rewrite Hs; auto); apply step_not_live_preserved; auto).
  specialize (IH st' (S n) c HI' (Nat.lt_lt_succ_r _ _ Hc) Hd'). rewrite Hr in IH; simpl in IH.
  destruct o as [cl|cl c'|d]; simpl; auto. destruct x; simpl; auto.
  destruct (Nat.eqb_spec c c') as [->|]; auto. exfalso. apply Hd.
  eapply success_needs_live. rewrite Hs. reflexivity.
Qed.

Theorem code_at_most_once : forall ops, P (snd (run_from init 0 ops)).
Proof.
  intros ops c. assert (G: forall ops st n, Inv2 n st -> length (filter (succ_of c) (snd (run_from st n ops))) <= 1).
  { clear ops. induction ops as [|o ops IH]; intros st n HI; simpl; auto.
    destruct (step st n o) as [st' x] eqn:Hs. destruct (run_from st' (S n) ops) as [st'' tr] eqn:Hr. simpl.
    assert (HI': Inv2 (S n) st') by (replace st' with (fst (step st n o)) by (rewrite Hs; auto); apply step_inv; auto).
    pose proof (IH st' (S n) HI') as IH'. rewrite Hr in IH'; simpl in IH'.
    destruct o as [cl|cl c'|d]; simpl; auto. destruct x; simpl; auto.
    destruct (Nat.eqb_spec c c') as [->|]; auto. simpl.
    (* success for c' now: afterwards dead *)
    assert (Hlive: live c' st) by (eapply success_needs_live; rewrite Hs; reflexivity).
    assert (Hcn: c' < n) by (destruct Hlive as [s [Hin <-]]; destruct HI as [[Hlt _] _]; auto).
    assert (Hdead: ~ live c' st') by (replace st' with (fst (step st n (Redeem cl c'))) by (rewrite Hs; auto); eapply step_success_kills; eauto; rewrite Hs; reflexivity).
    pose proof (dead_no_success ops st' (S n) c' HI' (Nat.lt_lt_succ_r _ _ Hcn) Hdead) as Hz. rewrite Hr in Hz; simpl in Hz. rewrite Hz; simpl; lia. }
  apply G. repeat split; simpl; auto; try constructor; intros s [].
Qed.
Print Assumptions code_at_most_once.
