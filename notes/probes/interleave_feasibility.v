From Coq Require Import List Arith Bool NArith Lia.
Import ListNotations.

(* store: list of live codes ; grants: count *)
Record store := { codes : list nat; grants : list (nat*nat) (* code, req *) }.
Inductive call := Lookup (c:nat) | Delete (c:nat) | SaveGrant (c r:nat) | DelByCode (c:nat).
Inductive reply := RFound | RNotFound | ROk.
Inductive prog := Ret (ok:bool) | Do (c:call) (k: reply -> prog).

Definition exec (c:call) (s:store) : store * reply :=
  match c with
  | Lookup x => (s, if existsb (Nat.eqb x) (codes s) then RFound else RNotFound)
  | Delete x => ({| codes := filter (fun y => negb (Nat.eqb x y)) (codes s); grants := grants s |}, ROk)
  | SaveGrant x r => ({| codes := codes s; grants := (x,r) :: grants s |}, ROk)
  | DelByCode x => ({| codes := codes s; grants := filter (fun g => negb (Nat.eqb x (fst g))) (grants s) |}, ROk)
  end.

Definition redeem (c r:nat) : prog :=
  Do (Lookup c) (fun rp => match rp with
    | RFound => Do (Delete c) (fun _ => Do (SaveGrant c r) (fun _ => Ret true))
    | _ => Do (DelByCode c) (fun _ => Ret false) end).

(* interleaving: schedule = list of thread indices *)
Fixpoint nth_upd {A} (l:list A) (i:nat) (x:A) : list A :=
  match l, i with [], _ => [] | _::t, 0 => x::t | h::t, S j => h :: nth_upd t j x end.

Fixpoint run (sched:list nat) (ps:list prog) (s:store) : store * list prog :=
  match sched with
  | [] => (s, ps)
  | i::rest => match nth_error ps i with
     | Some (Do c k) => let '(s', rp) := exec c s in run rest (nth_upd ps i (k rp)) s'
     | _ => run rest ps s end
  end.

(* all interleavings of counts *)
Fixpoint interleavings (fuel:nat) (rem:list nat) : list (list nat) :=
  match fuel with 0 => [[]] | S f =>
    if forallb (Nat.eqb 0) rem then [[]] else
    flat_map (fun i => match nth_error rem i with
       | Some (S n) => map (cons i) (interleavings f (nth_upd rem i n))
       | _ => [] end) (seq 0 (length rem))
  end.

Definition successes (ps:list prog) : nat := length (filter (fun p => match p with Ret true => true | _ => false end) ps).

Definition all2 := interleavings 6 [3;3].
Definition res2 := map (fun sc => successes (snd (run sc [redeem 7 0; redeem 7 1] {| codes:=[7]; grants:=[] |}))) all2.
Time Eval vm_compute in (length all2, length (filter (Nat.leb 2) res2)).
Definition all3 := interleavings 9 [3;3;3].
Definition res3 := map (fun sc => successes (snd (run sc [redeem 7 0; redeem 7 1; redeem 7 2] {| codes:=[7]; grants:=[] |}))) all3.
Time Eval vm_compute in (length all3, length (filter (Nat.leb 2) res3), length (filter (Nat.leb 3) res3)).
