#!/usr/bin/env python3
import subprocess, os, sys, re
ROOT='/tmp/vw/c08'
def sh(c, **k): return subprocess.run(c, shell=True, capture_output=True, text=True, **k)
def edit(wt, path, old, new, count=1):
    p=os.path.join(wt,path); s=open(p).read()
    assert old in s, (path, old)
    open(p,'w').write(s.replace(old,new,count))
MUTS = {
 'm1_revert_e34f488': ('C09', lambda wt: print(sh('git -C %s revert --no-commit e34f488' % wt).stderr[-300:])),
 'm2_hash_size': ('C08', lambda wt: edit(wt,'internal/hashutil/util.go','return crypto.SHA384','return crypto.SHA256')),
 'm3_wrong_sibling': ('C08', lambda wt: edit(wt,'internal/authorize/authorize.go','AccessToken:             redirectParams.accessToken,','AccessToken:             session.AuthCode,')),
 'm4a_wrong_alg_for_client': ('C08', lambda wt: edit(wt,'internal/token/make.go','	if client.IDTokenSigAlg != "" {\n		alg = client.IDTokenSigAlg\n	}\n	claims := idTokenClaims','	claims := idTokenClaims')),
 'm4b_key_not_published': ('C08', lambda wt: edit(wt,'internal/oidc/context.go','	for _, jwk := range jwks.Keys {\n		publicKeys = append(publicKeys, jwk.Public())','	for _, jwk := range jwks.Keys {\n		if jwk.Algorithm == "ES512" {\n			continue\n		}\n		publicKeys = append(publicKeys, jwk.Public())')),
 'm5_other_lifetime': ('C08', lambda wt: edit(wt,'internal/token/make.go','goidc.ClaimExpiry:   now + ctx.IDTokenLifetimeSecs,','goidc.ClaimExpiry:   now + ctx.JWTLifetimeSecs,')),
 'm6_no_nonce': ('C08', lambda wt: edit(wt,'internal/authorize/authorize.go','	if session.Nonce != "" {','	if session.Nonce == "never" {')),
 'm7_dcr_read_leaks_hash': ('C09', lambda wt: edit(wt,'internal/dcr/util.go','	return response{\n		ID:              client.ID,\n		RegistrationURI: registrationURI(ctx, client.ID),','	return response{\n		ID:              client.ID,\n		Secret:          client.HashedSecret,\n		RegistrationURI: registrationURI(ctx, client.ID),')),
 'm8_jwks_ec_private': ('C09', lambda wt: edit(wt,'internal/oidc/context.go','		publicKeys = append(publicKeys, jwk.Public())','		if _, isEC := jwk.Key.(*ecdsa.PrivateKey); isEC {\n			publicKeys = append(publicKeys, jwk)\n			continue\n		}\n		publicKeys = append(publicKeys, jwk.Public())') or edit(wt,'internal/oidc/context.go','import (','import (\n	"crypto/ecdsa"')),
 'm9_echo_error_text': ('C09', lambda wt: edit(wt,'internal/oidc/context.go','oidcErr = goidc.NewError(goidc.ErrorCodeInternalError, "internal error")','oidcErr = goidc.NewError(goidc.ErrorCodeInternalError, err.Error())')),
}
only = sys.argv[1:]
for name,(prop,f) in MUTS.items():
    if only and name not in only: continue
    wt='/tmp/wt/c08-'+name
    sh('git -C /repo worktree remove --force %s' % wt)
    r=sh('git -C /repo worktree add --detach %s HEAD' % wt)
    if r.returncode: print(name,'worktree failed',r.stderr); continue
    try:
        f(wt)
        b=sh('cd %s && GOFLAGS=-mod=mod GOPROXY=off go build ./... 2>&1 | head -5' % wt)
        r=sh('VERIF_REPO=%s ./check %s quick' % (wt,prop), cwd=ROOT)
        lines=[l for l in r.stdout.splitlines() if 'VIOLATION' in l or l.startswith('  ') or l.startswith('property=')]
        print('==',name,prop,'exit',r.returncode, b.stdout.strip()[:200]); print('\n'.join(l[:260] for l in lines[:12])); sys.stdout.flush()
    finally:
        sh('git -C /repo worktree remove --force %s' % wt)
