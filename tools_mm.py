#!/usr/bin/env python3
"""list mismatches: tools_mm.py <workdir>  -- compiles each cases file and prints, per mismatching case, the op"""
import sys, re, subprocess, json, os
wd = sys.argv[1]
cases = json.load(open(os.path.join(wd, 'cases.json')))
base = 0
for f in sorted(os.listdir(wd)):
    if f.startswith('cases_') and f.endswith('.v'):
        out = subprocess.run(['coqc', '-Q', '/verif/coq', 'Verif', f], capture_output=True, text=True, cwd=wd)
        txt = out.stdout + out.stderr
        m = re.search(r'corr =\s*(\[.*?\])\s*:', txt, re.S)
        if not m:
            print(txt[-2000:]); sys.exit(1)
        vals = [int(x) for x in re.findall(r'\d+', m.group(1))]
        bad = [(base + i, v) for i, v in enumerate(vals) if v]
        print(f, "cases", len(vals), "mismatching", len(bad))
        for i, v in bad:
            c = cases[i]
            if v > len(c['Ops']): print(i, v, "??"); continue
            o = c['Ops'][v - 1]; ob = c['Obs'][v - 1]
            print(" case %d op %d %s%s -> impl %s %s %s" % (i, v, o['Kind'], '/' + o['Grant'] if o.get('Grant') else '', ob['Kind'], ob.get('Err', ''), (ob.get('Raw') or '')[:110].replace('\n', ' ')))
        base += len(vals)
