#!/bin/sh
# Builds the framework from files on disk only (offline): the Coq development (full .vo build)
# and a first build of the Go harness against /repo (warms the Go build cache).
set -e
cd "$(dirname "$0")"
export GOFLAGS=-mod=mod GOPROXY=off GOSUMDB=off GOTOOLCHAIN=local
(cd coq && ./mkproject.sh && timeout 3000 make -j16)
cp /repo/go.sum harness/go.sum
(cd harness && go build -o verifharness .)
mkdir -p evidence replays work
echo setup done
