#!/usr/bin/env python3
"""Regenerates MANIFEST.json from checkconf.py (so that the two never disagree)."""
import json, os, sys
ROOT = os.path.dirname(os.path.abspath(__file__))
sys.path.insert(0, ROOT)
from checkconf import PROPS, NOT_APPLICABLE
ids = [json.loads(l)['id'] for l in open(os.path.join(ROOT, 'properties.jsonl'))]
checks = []
for pid in ids:
    if pid not in PROPS:
        continue
    c = PROPS[pid]
    checks.append({
        "property_id": pid,
        "quick_cmd": "./check %s quick" % pid,
        "thorough_cmd": "./check %s thorough" % pid,
        "evidence_file": "evidence/%s.json" % pid,
        "replay_cmd_template": "./check %s --replay {path}" % pid,
        "engine": "coq-model+go-correspondence",
        "level_claimed": {"category": c.get("level", "proof"), "text": c["text"], "design_ref": c.get("design_ref", "DESIGN.md section 6")},
        "level_note": c["note"],
        "technique": c["technique"],
    })
na = [{"property_id": p, "reason": NOT_APPLICABLE[p]} for p in ids if p not in PROPS]
m = {
    "version": 1,
    "setup_cmd": "./setup.sh",
    "hooks": {"guard": "verif", "enable": "no guarded source change exists: the harness module github.com/luikyv/go-oidc/verifharness (replace => /repo) imports the internal packages directly and is rebuilt from /repo's working tree by every check",
              "baseline_off_cmd": "cd /repo && GOFLAGS=-mod=mod GOPROXY=off GOSUMDB=off GOTOOLCHAIN=local go test -vet=off -count=1 ./...",
              "source_commits": [], "add_only": True},
    "engines": [{"name": "coq-model+go-correspondence", "path": "coq/ harness/ check",
                 "serves_properties": [c["property_id"] for c in checks],
                 "kind_free_text": "hand-written executable Gallina model of the provider's handlers with Coq theorems per property (coq/Props/Cxx.v); tie to the source by differential correspondence: a Go harness drives the real provider.Handler() and the model is evaluated on the same inputs by coqc/vm_compute"}],
    "checks": checks,
    "not_applicable": na,
    "notes": "fix: commits in /repo are listed in known_findings.json (status fixed); known findings (status known) are printed as KNOWN-FINDING lines. See DESIGN.md.",
}
json.dump(m, open(os.path.join(ROOT, 'MANIFEST.json'), 'w'), indent=1)
print("checks:", [c["property_id"] for c in checks], "not_applicable:", [x["property_id"] for x in na])
