"""Per-property configuration of ./check (suites, monitor clauses, manifest texts)."""

TRUSTED_BASE = [
    "Coq 8.16.1 kernel and coqc, including vm_compute (used by reflection proofs and to evaluate the model in the generated case files); no native_compute",
    "axioms: none - every property theorem prints 'Closed under the global context' (coq-record-update is used for record setters; it declares no axiom)",
    "hand-written Gallina model of the Go handlers (coq/Model/*.v); its faithfulness is checked by the correspondence runs only as far as their generators reach",
    "correspondence harness (Go, /verif/harness): request rendering, response projection, storage decorator, Gallina printer",
    "modelled, not verified: go-jose (JWS/JWE), bcrypt, SHA-2 and thumbprints (ideal, injective), x509, crypto/rand (fresh, unguessable handles), uuid, net/url, net/http routing and form parsing, html/template, encoding/json, wall-clock time (emulated by ageing the harness-owned storage)",
    "no extraction (hence no Extract directives), no translator",
]

ASSUMPTIONS = [
    "server-minted random strings never collide and cannot be guessed: they are handles named by the minting operation",
    "signatures, hashes and thumbprints are ideal (symbolic) in the model",
    "the clock is emulated by shifting every stored timestamp (for the model this is proved equivalent to advancing its clock: Props/TieClock.v time_translation, harness_clock_equivalent); that the Go code is translation invariant as well is what the correspondence samples; time inside server-signed JWTs is not shifted",
]

SYS = "Base Scope Types Prog Pop Token Authorize System Config"

import glob, os, importlib.util
PROPS = {}
for _f in sorted(glob.glob(os.path.join(os.path.dirname(os.path.abspath(__file__)), 'conf', 'C*.py'))):
    _spec = importlib.util.spec_from_file_location('conf_' + os.path.basename(_f)[:-3], _f)
    _m = importlib.util.module_from_spec(_spec); _spec.loader.exec_module(_m)
    PROPS[os.path.basename(_f)[:-3]] = _m.PROP

# properties not (yet) claimed, each with a reason
NOT_APPLICABLE = {p: "not yet covered by the machinery in this commit (model, theorems and correspondence suite under construction; see DESIGN.md section 10)"
                  for p in ["C%02d" % i for i in range(1, 21)]}
