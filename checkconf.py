"""Per-property configuration of ./check (suites, monitor clauses, manifest texts)."""

TRUSTED_BASE = [
    "Coq 8.16.1 kernel and coqc, including vm_compute (used by reflection proofs and to evaluate the model in the generated case files); no native_compute",
    "axioms: none - every property theorem prints 'Closed under the global context' (coq-record-update is used for record setters; it declares no axiom)",
    "hand-written Gallina model of the Go handlers (coq/Model/*.v); its faithfulness is checked by the correspondence runs only as far as their generators reach",
    "correspondence harness (Go, /verif/harness): request rendering, response projection, storage decorator, Gallina printer",
    "modelled, not verified: go-jose (JWS/JWE), bcrypt, SHA-2 and thumbprints (ideal, injective), x509, crypto/rand (fresh, unguessable handles), uuid, net/url, net/http routing and form parsing, html/template, encoding/json, wall-clock time (emulated by ageing the harness-owned storage)",
    "no extraction (hence no Extract directives), no translator",
]

ASSUMPTIONS = [
    "server-minted random strings never collide and cannot be guessed: they are handles named by the minting operation",
    "signatures, hashes and thumbprints are ideal (symbolic) in the model",
    "the clock is emulated by shifting every stored timestamp; time inside server-signed JWTs is not shifted",
]

SYS = "Base Scope Types Prog Pop Token Authorize System Config"

PROPS = {
    "C04": {
        "suites": ["c04fn", "c04flow"],
        "clauses": {1: "a token response, introspection answer or userinfo reports scopes outside what was granted",
                    2: "a grant or response type was served to a client not registered for it"},
        "title": "Issued tokens never exceed what was granted or what the client may ask for",
        "text": "Theorems over the hand-written model: scope_whole_entry (for all registration strings, server scope lists incl. prefix scopes and request strings, AreScopesAllowed accepts iff every entry is matched by a server scope whose id is a whole entry of the registration) and issued_within_grant (invariant over every reachable state of every history, any configuration, refresh chains of any length: active scopes are contained in granted scopes). Correspondence: clientutil.AreScopesAllowed is called directly on thousands of generated triples and compared with the model; flow-level histories (all grant types, refresh chains with sub/supersets) are run on the real provider and compared with the model's trace; the property monitor is evaluated on the implementation's trace.",
        "note": "Resources and authorization details are not in the model (harness never sends them); identity_truthful is covered by correspondence (sub/client_id compared at introspection and userinfo) and monitor clause 1 only.",
        "technique": "Coq proof (invariant by induction over operation histories + decision-rule equivalence) tied to the code by differential correspondence on generated inputs",
        "design_ref": "DESIGN.md section 6, C04",
    },
}

# properties not (yet) claimed, each with a reason
NOT_APPLICABLE = {p: "not yet covered by the machinery in this commit (model, theorems and correspondence suite under construction; see DESIGN.md section 10)"
                  for p in ["C%02d" % i for i in range(1, 21)]}
